/-
E8 — model of `jsonargparse/typing.py`: restricted number / string types
(`extend_base_type.__new__`, `restricted_number_type.validation_fn`,
`restricted_string_type.validation_fn`) and the text codecs of the built-in
registered types `range`, `datetime.timedelta`, `SecretStr`, `Decimal`.

Numbers are exact: Python `int` is `Int`, a Python `float` is its exact value
(a `Rat`) or one of `nan`, `+inf`, `-inf` (`XNum`); Python compares `int` and
`float` exactly, so do we.  `float(int)` / `float(str)` are CPython's correctly
rounded conversions (`roundDouble`, round-half-even to 53 bits, IEEE double
exponent range).  The sign of a zero is not represented.

Texts are `List Char`.  `\d`, `str.strip()`, `int(str)`, `float(str)` are
modelled on ASCII input (non-ASCII digits / blanks are outside the model).

Imports nothing beyond core Lean.
-/
namespace Jap.Typing

/-! ## numbers -/

/-- the value of a Python `float` (or of an `int`, embedded exactly) -/
inductive XNum where
  | fin (q : Rat)
  | nan
  | inf (neg : Bool)
deriving DecidableEq, Repr, Inhabited

inductive Base where
  | int | float
deriving DecidableEq, Repr, Inhabited

inductive Join where
  | and | or
deriving DecidableEq, Repr, Inhabited

/-- the six comparison operators of `_operators1` -/
inductive Op where
  | gt | ge | lt | le | eq | ne
deriving DecidableEq, Repr, Inhabited

/-- a Python value handed to `T(v)` -/
inductive PyVal where
  | bool (b : Bool)
  | int (i : Int)
  | float (x : XNum)
  | str (s : List Char)
  | other                  -- None, list, dict, ...: `int(v)` / `float(v)` / `regex.match(v)` raise TypeError
deriving DecidableEq, Repr, Inhabited

/-- a value of the base type -/
inductive BVal where
  | i (n : Int)
  | f (x : XNum)
deriving DecidableEq, Repr, Inhabited

inductive Err where
  | value       -- ValueError
  | type        -- TypeError
  | overflow    -- OverflowError
deriving DecidableEq, Repr, Inhabited

/-- equality of results is decidable (used by the `decide` witnesses) -/
instance exceptDecEq {ε α : Type} [DecidableEq ε] [DecidableEq α] : DecidableEq (Except ε α) := fun a b =>
  match a, b with
  | .ok x, .ok y => if h : x = y then isTrue (h ▸ rfl) else isFalse (fun e => h (Except.ok.inj e))
  | .error x, .error y => if h : x = y then isTrue (h ▸ rfl) else isFalse (fun e => h (Except.error.inj e))
  | .ok _, .error _ => isFalse (fun e => nomatch e)
  | .error _, .ok _ => isFalse (fun e => nomatch e)

/-- exact value of a base-type value -/
def BVal.toX : BVal → XNum
  | .i n => .fin (n : Rat)
  | .f x => x

/-- a base-type value seen again as an input value (for casting twice) -/
def BVal.toPy : BVal → PyVal
  | .i n => .int n
  | .f x => .float x

/-- IEEE/Python `<` on exact values (`nan` compares false) -/
def XNum.lt : XNum → XNum → Bool
  | .fin a, .fin b => decide (a < b)
  | .fin _, .inf neg => !neg
  | .inf neg, .fin _ => neg
  | .inf a, .inf b => a && !b
  | _, _ => false

/-- IEEE/Python `==` on exact values (`nan` is unequal to everything) -/
def XNum.eq : XNum → XNum → Bool
  | .fin a, .fin b => decide (a = b)
  | .inf a, .inf b => a == b
  | _, _ => false

/-- `operator.<op>(x, y)` -/
def cmp (op : Op) (x y : XNum) : Bool :=
  match op with
  | .gt => XNum.lt y x
  | .ge => XNum.lt y x || XNum.eq x y
  | .lt => XNum.lt x y
  | .le => XNum.lt x y || XNum.eq x y
  | .eq => XNum.eq x y
  | .ne => !XNum.eq x y

/-- the symbol of `_operators1` -/
def Op.symbol : Op → String
  | .gt => ">" | .ge => ">=" | .lt => "<" | .le => "<=" | .eq => "==" | .ne => "!="

/-- `operator.<name>` -/
def Op.pyName : Op → String
  | .gt => "gt" | .ge => "ge" | .lt => "lt" | .le => "le" | .eq => "eq" | .ne => "ne"

def Op.all : List Op := [.gt, .ge, .lt, .le, .eq, .ne]

def Op.ofSymbol (s : String) : Option Op := Op.all.find? (fun o => o.symbol = s)

/-! ### correctly rounded conversion to an IEEE double -/

/-- nearest double (ties to even) of an exact rational; beyond the largest double: `inf` -/
def roundDouble (q : Rat) : XNum :=
  let a := q.num.natAbs
  let b := q.den
  if a = 0 then .fin 0 else
  let e0 : Int := (a.log2 : Int) - (b.log2 : Int) - 52
  let m0 : Nat := if e0 ≥ 0 then a / (b * 2 ^ e0.toNat) else (a * 2 ^ (-e0).toNat) / b
  let e1 : Int := if m0 ≥ 2 ^ 53 then e0 + 1 else if m0 < 2 ^ 52 then e0 - 1 else e0
  let e : Int := if e1 < -1074 then -1074 else e1
  let n : Nat := if e ≥ 0 then a else a * 2 ^ (-e).toNat
  let d : Nat := if e ≥ 0 then b * 2 ^ e.toNat else b
  let mq := n / d
  let r := n % d
  let m := if 2 * r < d then mq else if 2 * r > d then mq + 1 else if mq % 2 = 0 then mq else mq + 1
  if e ≥ 0 ∧ m * 2 ^ e.toNat ≥ 2 ^ 1024 then .inf (decide (q.num < 0))
  else
    let mag : Rat := if e ≥ 0 then ((m * 2 ^ e.toNat : Nat) : Rat) else mkRat (m : Int) (2 ^ (-e).toNat)
    .fin (if q.num < 0 then -mag else mag)

def XNum.round : XNum → XNum
  | .fin q => roundDouble q
  | x => x

/-! ### Python text → number -/

/-- `str.isspace` on ASCII (what `strip()` removes) -/
def isPySpace (c : Char) : Bool :=
  c = ' ' || (9 ≤ c.toNat && c.toNat ≤ 13) || (28 ≤ c.toNat && c.toNat ≤ 31)

/-- `str.strip()` -/
def pyStrip (l : List Char) : List Char :=
  ((l.dropWhile isPySpace).reverse.dropWhile isPySpace).reverse

/-- the blanks `int(text)` / `float(text)` skip at both ends (ASCII): not U+001C..U+001F -/
def isNumSpace (c : Char) : Bool := c = ' ' || (9 ≤ c.toNat && c.toNat ≤ 13)

def numStrip (l : List Char) : List Char :=
  ((l.dropWhile isNumSpace).reverse.dropWhile isNumSpace).reverse

/-- `digit ("_"? digit)*` → the digits -/
def stripUS : List Char → Option (List Char)
  | [] => none
  | [c] => if c.isDigit then some [c] else none
  | c :: '_' :: r => if c.isDigit then (stripUS r).map (c :: ·) else none
  | c :: r => if c.isDigit then (stripUS r).map (c :: ·) else none

/-- optional sign -/
def splitSign : List Char → Bool × List Char
  | '-' :: r => (true, r)
  | '+' :: r => (false, r)
  | r => (false, r)

/-- `int(text)` (base 10) -/
def readPyInt (s : List Char) : Option Int :=
  let t := splitSign (numStrip s)
  (stripUS t.2).map fun ds =>
    let n : Int := (Nat.ofDigitChars 10 ds 0 : Nat)
    if t.1 then -n else n

def lower (l : List Char) : List Char := l.map Char.toLower

def isExpChar (c : Char) : Bool := c = 'e' || c = 'E'

/-- exponent part after the `e`: `[+-]? digitpart` -/
def readExp (l : List Char) : Option Int :=
  let t := splitSign l
  (stripUS t.2).map fun ds =>
    let n : Int := (Nat.ofDigitChars 10 ds 0 : Nat)
    if t.1 then -n else n

/-- mantissa `digitpart ["." [digitpart]] | "." digitpart` → (all digits, number of fraction digits) -/
def readMantissa (l : List Char) : Option (List Char × Nat) :=
  let ip := l.takeWhile (· ≠ '.')
  match l.dropWhile (· ≠ '.') with
  | [] => (stripUS ip).map fun ds => (ds, 0)
  | _ :: fd =>
    if ip = [] then (stripUS fd).map fun fs => (fs, fs.length)
    else if fd = [] then (stripUS ip).map fun ds => (ds, 0)
    else match stripUS ip, stripUS fd with
      | some ds, some fs => some (ds ++ fs, fs.length)
      | _, _ => none

/-- the exact value `n * 10^ex` -/
def scale10 (n : Nat) (ex : Int) : Rat :=
  if ex ≥ 0 then ((n * 10 ^ ex.toNat : Nat) : Rat) else mkRat (n : Int) (10 ^ (-ex).toNat)

/-- the exact value denoted by a Python float literal (`float(text)` before rounding) -/
def readPyFloatExact (s : List Char) : Option XNum :=
  let t := splitSign (numStrip s)
  let low := lower t.2
  if low = "inf".toList ∨ low = "infinity".toList then some (.inf t.1)
  else if low = "nan".toList then some .nan
  else
    let mant := t.2.takeWhile (fun c => !isExpChar c)
    let ex : Option Int := match t.2.dropWhile (fun c => !isExpChar c) with
      | [] => some 0
      | _ :: er => readExp er
    match readMantissa mant, ex with
    | some (ds, k), some e =>
      let v := scale10 (Nat.ofDigitChars 10 ds 0) (e - k)
      some (.fin (if t.1 then -v else v))
    | _, _ => none

/-- `float(text)` -/
def readPyFloat (s : List Char) : Option XNum := (readPyFloatExact s).map XNum.round

/-! ### `int(v)`, `float(v)` -/

/-- Python `int(v)` -/
def pyInt : PyVal → Except Err Int
  | .bool b => .ok (if b then 1 else 0)
  | .int i => .ok i
  | .float (.fin q) => .ok (Int.tdiv q.num q.den)      -- truncation towards zero
  | .float .nan => .error .value
  | .float (.inf _) => .error .overflow
  | .str s => match readPyInt s with
    | some i => .ok i
    | none => .error .value
  | .other => .error .type

/-- Python `float(v)` -/
def pyFloat : PyVal → Except Err XNum
  | .bool b => .ok (.fin (if b then 1 else 0))
  | .int i => match roundDouble (i : Rat) with
    | .inf _ => .error .overflow
    | x => .ok x
  | .float x => .ok x
  | .str s => match readPyFloat s with
    | some x => .ok x
    | none => .error .value
  | .other => .error .type

/-- `cls._type(v)` -/
def castBase : Base → PyVal → Except Err BVal
  | .int, v => (pyInt v).map .i
  | .float, v => (pyFloat v).map .f

def PyVal.isBool : PyVal → Bool
  | .bool _ => true
  | _ => false

/-- `isinstance(v, float) and not float.is_integer(v)` -/
def PyVal.isNonIntegralFloat : PyVal → Bool
  | .float (.fin q) => q.den != 1
  | .float _ => true
  | _ => false

abbrev Restr := Op × XNum

/-- `[comparison(vv, ref) for comparison, ref in cls._restrictions]` -/
def checks (rs : List Restr) (vv : BVal) : List Bool := rs.map fun r => cmp r.1 vv.toX r.2

/-- `except OverflowError as ex: raise ValueError(...) from ex` around `cls._type(v)` -/
def Err.overflowAsValue : Err → Err
  | .overflow => .value
  | e => e

/-- `restricted_number_type.validation_fn` (an integer beyond the float range is an ordinary rejection) -/
def validationFn (b : Base) (rs : List Restr) (j : Join) (v : PyVal) : Except Err Unit :=
  if v.isBool then .error .value
  else if b = .int ∧ v.isNonIntegralFloat then .error .value
  else match castBase b v with
    | .error e => .error e.overflowAsValue
    | .ok vv =>
      let check := checks rs vv
      if (j = .and ∧ ¬ check.all id) ∨ (j = .or ∧ ¬ check.any id) then .error .value
      else .ok ()

/-- `extend_base_type.TypeCore.__new__`: validate, then cast with the base type -/
def validateNum (b : Base) (rs : List Restr) (j : Join) (v : PyVal) : Except Err BVal :=
  match validationFn b rs j v with
  | .error e => .error e
  | .ok () => castBase b v

/-- the creation-time test of a restriction `x[1] == base_type(x[1])` for a numeric reference -/
def refOk (b : Base) (ref : PyVal) : Except Err Bool :=
  match castBase b ref with
  | .error e => .error e
  | .ok c =>
    match ref with
    | .int i => .ok (XNum.eq (.fin (i : Rat)) c.toX)
    | .float x => .ok (XNum.eq x c.toX)
    | .bool t => .ok (XNum.eq (.fin (if t then 1 else 0)) c.toX)
    | _ => .ok false

/-! ### the declarative side: what "converts to the base type" means -/

/-- the number `v` denotes, as a value of the base type; `none` when `v` is not such a number
(booleans, non-integral floats for `int`, texts that are no literal of the base type, other objects,
ints beyond the double range for `float`) -/
def asBase : Base → PyVal → Option BVal
  | .int, .int i => some (.i i)
  | .int, .float (.fin q) => if q.den = 1 then some (.i q.num) else none
  | .int, .str s => (readPyInt s).map .i
  | .float, .int i => match roundDouble (i : Rat) with
    | .inf _ => none
    | x => some (.f x)
  | .float, .float x => some (.f x)
  | .float, .str s => (readPyFloat s).map .f
  | _, _ => none

/-- the exact value of a numeric input (`int` or `float`) -/
def PyVal.exact? : PyVal → Option XNum
  | .int i => some (.fin (i : Rat))
  | .float x => some x
  | _ => none

/-- the stated comparisons joined by and / or -/
def joinSat (j : Join) (rs : List Restr) (x : BVal) : Prop :=
  match j with
  | .and => ∀ r ∈ rs, cmp r.1 x.toX r.2 = true
  | .or => ∃ r ∈ rs, cmp r.1 x.toX r.2 = true

/-! ## restricted strings -/

/-- `restricted_string_type.validation_fn` + cast: `acc` is "`regex.match(v)` is not None" -/
def validateStr (acc : List Char → Bool) : PyVal → Except Err (List Char)
  | .str s => if acc s then .ok s else .error .value
  | _ => .error .type

/-- a regular expression of the fragment used by the predefined string types; the flags of a compiled
pattern (IGNORECASE, VERBOSE, DOTALL, MULTILINE, ASCII) are resolved by the translation into this AST -/
inductive Re where
  | eps
  | cls (neg : Bool) (ranges : List (Nat × Nat))    -- `[a-z]`, `[^@ ]`, a literal, `.` = `[^\n]`
  | cat (a b : Re)
  | alt (a b : Re)
  | star (a : Re)
  | eol                                             -- `$`: at the end or before a final newline
  | bol                                             -- `^`: at the start
  | meol                                            -- `$` under re.MULTILINE: at the end or before any newline
  | mbol                                            -- `^` under re.MULTILINE: at the start or after any newline
deriving Repr, Inhabited

def inRanges (n : Nat) : List (Nat × Nat) → Bool
  | [] => false
  | (lo, hi) :: r => (lo ≤ n && n ≤ hi) || inRanges n r

def dedupNat : List Nat → List Nat
  | [] => []
  | x :: r => if r.contains x then dedupNat r else x :: dedupNat r

/-- iterate a one-step position map until nothing new (bounded by fuel) -/
def closure (step : Nat → List Nat) : Nat → List Nat → List Nat → List Nat
  | 0, _, seen => seen
  | fuel + 1, frontier, seen =>
    let next := dedupNat ((frontier.flatMap step).filter fun p => !seen.contains p)
    if next.isEmpty then seen else closure step fuel next (seen ++ next)

/-- end positions of the matches of `r` in `s` that start at position `i` (set semantics) -/
def Re.ends (s : Array Char) : Re → Nat → List Nat
  | .eps, i => [i]
  | .cls neg rs, i =>
    if h : i < s.size then
      if inRanges s[i].toNat rs != neg then [i + 1] else []
    else []
  | .cat a b, i => dedupNat ((a.ends s i).flatMap (b.ends s))
  | .alt a b, i => dedupNat (a.ends s i ++ b.ends s i)
  | .star a, i => closure (a.ends s) (s.size + 1) [i] [i]
  | .eol, i => if i = s.size ∨ (i + 1 = s.size ∧ s[i]? = some '\n') then [i] else []
  | .bol, i => if i = 0 then [i] else []
  | .meol, i => if i = s.size ∨ s[i]? = some '\n' then [i] else []
  | .mbol, i => if i = 0 ∨ s[i - 1]? = some '\n' then [i] else []

/-- `re.match(r, s) is not None` -/
def Re.accepts (r : Re) (s : List Char) : Bool := !(r.ends s.toArray 0).isEmpty

/-! ## text codecs -/

/-- Python `str(int)` -/
def showInt (i : Int) : List Char :=
  if i < 0 then '-' :: Nat.toDigits 10 i.natAbs else Nat.toDigits 10 i.natAbs

/-- `int(s)` for the texts the regex `-?\d+` lets through -/
def readInt : List Char → Option Int
  | '-' :: ds => if ds ≠ [] ∧ ds.all Char.isDigit then some (-(Nat.ofDigitChars 10 ds 0 : Int)) else none
  | ds => if ds ≠ [] ∧ ds.all Char.isDigit then some (Nat.ofDigitChars 10 ds 0 : Int) else none

/-! ### `range` (`range_serializer`, `range_deserializer`) -/

structure Range where
  start : Int
  stop : Int
  step : Int
deriving DecidableEq, Repr, Inhabited

def splitComma : List Char → List (List Char)
  | [] => [[]]
  | c :: cs =>
    if c = ',' then [] :: splitComma cs
    else match splitComma cs with
      | [] => [[c]]
      | f :: fs => (c :: f) :: fs

/-- `.replace(" ", "")` -/
def dropSpaces (l : List Char) : List Char := l.filter (· ≠ ' ')

def rangePre : List Char := "range(".toList
def rangeSep : List Char := ", ".toList

/-- the three patterns the deserializer was modelled against -/
def reRangeStop : String := "^(-?\\d+)$"
def reRangeStartStop : String := "^(-?\\d+),(-?\\d+)$"
def reRangeStartStopStep : String := "^(-?\\d+),(-?\\d+),(-?\\d+)$"

/-- `range_serializer` -/
def rangeSer (r : Range) : List Char :=
  if r.step = 1 then
    if r.start = 0 then rangePre ++ showInt r.stop ++ [')']
    else rangePre ++ showInt r.start ++ rangeSep ++ showInt r.stop ++ [')']
  else rangePre ++ showInt r.start ++ rangeSep ++ showInt r.stop ++ rangeSep ++ showInt r.step ++ [')']

/-- `$` also matches before one final newline -/
def dropFinalNewline (l : List Char) : List Char :=
  if l.getLast? = some '\n' then l.dropLast else l

/-- `range(a, b, c)`: a zero step is a ValueError -/
def mkRange (a b c : Int) : Except Err Range :=
  if c = 0 then .error .value else .ok ⟨a, b, c⟩

/-- `range_deserializer` -/
def rangeDeser (text : List Char) : Except Err Range :=
  let l := pyStrip text
  if rangePre.isPrefixOf l ∧ l.getLast? = some ')' then
    let inner := dropFinalNewline (dropSpaces ((l.drop 6).dropLast))
    match splitComma inner with
    | [a] => match readInt a with
      | some x => mkRange 0 x 1
      | none => .error .value
    | [a, b] => match readInt a, readInt b with
      | some x, some y => mkRange x y 1
      | _, _ => .error .value
    | [a, b, c] => match readInt a, readInt b, readInt c with
      | some x, some y, some z => mkRange x y z
      | _, _, _ => .error .value
    | _ => .error .value
  else .error .value

/-! ### `datetime.timedelta` (`str`, `timedelta_deserializer`) -/

/-- a normalised timedelta: `0 ≤ secs < 86400`, `0 ≤ us < 10^6`, `|days| ≤ 999999999` -/
structure TD where
  days : Int
  secs : Nat
  us : Nat
deriving DecidableEq, Repr, Inhabited

def maxDays : Nat := 999999999

def TD.Normalised (t : TD) : Prop := t.secs < 86400 ∧ t.us < 1000000 ∧ t.days.natAbs ≤ maxDays

instance (t : TD) : Decidable t.Normalised := by unfold TD.Normalised; exact inferInstance

/-- `%0<w>d` of a non-negative number given by its digits -/
def padZero (w : Nat) (ds : List Char) : List Char := List.replicate (w - ds.length) '0' ++ ds

def showNat (n : Nat) : List Char := Nat.toDigits 10 n

/-- `"%d:%02d:%02d" % (hh, mm, ss)` -/
def tdClock (secs : Nat) : List Char :=
  showNat (secs / 60 / 60) ++ ':' :: padZero 2 (showNat (secs / 60 % 60)) ++ ':' :: padZero 2 (showNat (secs % 60))

/-- `"%d day%s, " % plural(days)` -/
def tdDayPart (days : Int) : List Char :=
  showInt days ++ " day".toList ++ (if days.natAbs ≠ 1 then ['s'] else []) ++ ", ".toList

/-- `".%06d" % microseconds` when there are any -/
def tdFrac (us : Nat) : List Char := if us ≠ 0 then '.' :: padZero 6 (showNat us) else []

/-- `timedelta.__str__` -/
def tdStr (t : TD) : List Char :=
  (if t.days ≠ 0 then tdDayPart t.days else []) ++ (tdClock t.secs ++ tdFrac t.us)

/-- the patterns the deserializer was modelled against -/
def tdPattern : String := "(?P<hours>\\d+):(?P<minutes>\\d+):(?P<seconds>\\d[\\.\\d+]*)"
def tdDaysPrefix : String := "(?P<days>[-\\d]+) day[s]*, "
def tdDayTrigger : String := "day"

/-- `needle in text` -/
def hasSub (p : List Char) : List Char → Bool
  | [] => p.isEmpty
  | c :: r => p.isPrefixOf (c :: r) || hasSub p r

def isDayChar (c : Char) : Bool := c = '-' || c.isDigit
def isSecChar (c : Char) : Bool := c = '.' || c.isDigit || c = '+'

/-- drop a literal prefix -/
def dropPrefix? (p l : List Char) : Option (List Char) :=
  if p.isPrefixOf l then some (l.drop p.length) else none

/-- `(?P<days>[-\d]+) day[s]*, ` at the start: (text of the group, rest) -/
def matchDaysPrefix (l : List Char) : Option (List Char × List Char) :=
  let d := l.takeWhile isDayChar
  if d = [] then none else
  match dropPrefix? " day".toList (l.dropWhile isDayChar) with
  | none => none
  | some r =>
    match dropPrefix? ", ".toList (r.dropWhile (· = 's')) with
    | none => none
    | some r' => some (d, r')

/-- `(?P<hours>\d+):(?P<minutes>\d+):(?P<seconds>\d[\.\d+]*)` at the start (anything may follow) -/
def matchClock (l : List Char) : Option (List Char × List Char × List Char) :=
  let h := l.takeWhile Char.isDigit
  if h = [] then none else
  match l.dropWhile Char.isDigit with
  | ':' :: r2 =>
    let m := r2.takeWhile Char.isDigit
    if m = [] then none else
    match r2.dropWhile Char.isDigit with
    | ':' :: c :: r4 => if c.isDigit then some (h, m, c :: r4.takeWhile isSecChar) else none
    | _ => none
  | _ => none

/-- `float(text)` for the text of the seconds group (`\d[\.\d+]*`): (all digits, number of fraction digits) -/
def readSeconds (l : List Char) : Option (List Char × Nat) :=
  let ip := l.takeWhile Char.isDigit
  match l.dropWhile Char.isDigit with
  | [] => some (ip, 0)
  | '.' :: fd => if fd.all Char.isDigit then some (ip ++ fd, fd.length) else none
  | _ => none

/-- nearest integer of `n / d`, ties to even (`d > 0`) -/
def roundHalfEven (n d : Nat) : Nat :=
  let q := n / d
  let r := n % d
  if 2 * r < d then q else if 2 * r > d then q + 1 else if q % 2 = 0 then q else q + 1

/-- `timedelta(days=, hours=, minutes=, seconds=)` on exact numbers, normalised -/
def mkTD (days : Int) (hours minutes : Nat) (secDigits : List Char) (fracLen : Nat) : Except Err TD :=
  let micro : Nat := roundHalfEven (Nat.ofDigitChars 10 secDigits 0 * 1000000) (10 ^ fracLen)
  let total : Int := ((days * 24 + hours) * 60 + minutes) * 60 * 1000000 + micro
  let d := total / 86400000000
  let rem := (total % 86400000000).toNat
  if d.natAbs > maxDays then .error .overflow
  else .ok ⟨d, rem / 1000000, rem % 1000000⟩

/-- `timedelta_deserializer` on a text -/
def tdDeser (l : List Char) : Except Err TD :=
  let pre : Option (Option (List Char) × List Char) :=
    if hasSub tdDayTrigger.toList l then (matchDaysPrefix l).map fun p => (some p.1, p.2)
    else some (none, l)
  match pre with
  | none => .error .value
  | some (dtext, rest) =>
    match matchClock rest with
    | none => .error .value
    | some (h, m, s) =>
      let days : Option Int := match dtext with
        | none => some 0
        | some t => readInt t
      match days, readSeconds s with
      | some d, some (ds, k) => mkTD d (Nat.ofDigitChars 10 h 0) (Nat.ofDigitChars 10 m 0) ds k
      | _, _ => .error .value

/-! ### `bytes` / `bytearray`: `b64encode(value).decode()` and `b64decode(text)` (standard alphabet, padding)

Bytes are `Nat`s below 256.  `b64decode` is `binascii.a2b_base64` in its default non-strict mode: characters
outside the alphabet are discarded, a completed pad sequence ends the input, leftover sextets are an error
(`binascii.Error`, a `ValueError`); a non-ASCII text is a `ValueError` as well. -/

def b64Alphabet : List Char := "ABCDEFGHIJKLMNOPQRSTUVWXYZabcdefghijklmnopqrstuvwxyz0123456789+/".toList

def b64Char (n : Nat) : Char := b64Alphabet.getD n 'A'

def b64Val (c : Char) : Option Nat :=
  let i := b64Alphabet.idxOf c
  if i < 64 then some i else none

/-- `bytes_serializer` -/
def b64encode : List Nat → List Char
  | [] => []
  | [a] => [b64Char (a / 4), b64Char (a % 4 * 16), '=', '=']
  | [a, b] => [b64Char (a / 4), b64Char (a % 4 * 16 + b / 16), b64Char (b % 16 * 4), '=']
  | a :: b :: c :: rest =>
    b64Char (a / 4) :: b64Char (a % 4 * 16 + b / 16) :: b64Char (b % 16 * 4 + c / 64) :: b64Char (c % 64) :: b64encode rest

/-- decoder state of `a2b_base64`: position in the quad, left-over bits, pads seen since the last data
character, output so far -/
structure B64St where
  quad : Nat
  left : Nat
  pads : Nat
  out : List Nat
deriving DecidableEq, Repr

def b64Go (st : B64St) : List Char → Except Err (List Nat)
  | [] => if st.quad = 0 then .ok st.out else .error .value
  | ch :: rest =>
    if ch = '=' then
      if 2 ≤ st.quad ∧ 4 ≤ st.quad + (st.pads + 1) then .ok st.out
      else b64Go { st with pads := if 2 ≤ st.quad then st.pads + 1 else st.pads } rest
    else match b64Val ch with
      | none => b64Go st rest
      | some v =>
        if st.quad = 0 then b64Go ⟨1, v, 0, st.out⟩ rest
        else if st.quad = 1 then b64Go ⟨2, v % 16, 0, st.out ++ [(st.left * 4 + v / 16) % 256]⟩ rest
        else if st.quad = 2 then b64Go ⟨3, v % 4, 0, st.out ++ [(st.left * 16 + v / 4) % 256]⟩ rest
        else b64Go ⟨0, 0, 0, st.out ++ [(st.left * 64 + v) % 256]⟩ rest

/-- `bytes_deserializer` on a text -/
def b64decode (s : List Char) : Except Err (List Nat) :=
  if s.all (fun c => c.toNat < 128) then b64Go ⟨0, 0, 0, []⟩ s else .error .value

/-! ### `uuid.UUID`: `str(u)` and `UUID(text)` -/

/-- `'%x'` digit -/
def hexDigitL (n : Nat) : Char := if n < 10 then Char.ofNat (48 + n) else Char.ofNat (87 + n)

/-- the `k` low hexadecimal digits of `n`, most significant first (`'%0kx'`) -/
def hexFixed : Nat → Nat → List Char
  | 0, _ => []
  | k + 1, n => hexFixed k (n / 16) ++ [hexDigitL (n % 16)]

/-- `UUID.__str__` of the 128-bit value `n`: `'%032x'` cut 8-4-4-4-12 -/
def uuidStr (n : Nat) : List Char :=
  hexFixed 8 (n / 16 ^ 24) ++ '-' :: (hexFixed 4 (n / 16 ^ 20) ++ '-' :: (hexFixed 4 (n / 16 ^ 16) ++ '-' ::
    (hexFixed 4 (n / 16 ^ 12) ++ '-' :: hexFixed 12 n)))

/-- `str.replace(p, "")`: non-overlapping occurrences from the left (`skip` = characters of a match still to drop) -/
def removeAllAux (p : List Char) : Nat → List Char → List Char
  | _, [] => []
  | skip + 1, _ :: r => removeAllAux p skip r
  | 0, c :: r => if p.isPrefixOf (c :: r) ∧ p ≠ [] then removeAllAux p (p.length - 1) r else c :: removeAllAux p 0 r

def removeAll (p : String) (l : List Char) : List Char := removeAllAux p.toList 0 l

/-- `str.strip(chars)` -/
def stripChars (p : Char → Bool) (l : List Char) : List Char :=
  ((l.dropWhile p).reverse.dropWhile p).reverse

def isHexDigit (c : Char) : Bool :=
  c.isDigit || (97 ≤ c.toNat && c.toNat ≤ 102) || (65 ≤ c.toNat && c.toNat ≤ 70)

def hexValC (c : Char) : Nat :=
  if c.isDigit then c.toNat - 48 else if 97 ≤ c.toNat then c.toNat - 87 else c.toNat - 55

/-- `digit ("_"? digit)*` for an arbitrary digit predicate → the digits -/
def stripUSP (p : Char → Bool) : List Char → Option (List Char)
  | [] => none
  | [c] => if p c then some [c] else none
  | c :: '_' :: r => if p c then (stripUSP p r).map (c :: ·) else none
  | c :: r => if p c then (stripUSP p r).map (c :: ·) else none

def ofHexDigits (l : List Char) : Nat := l.foldl (fun acc c => 16 * acc + hexValC c) 0

/-- optional `0x` / `0X` prefix (an underscore may follow it) -/
def dropHexPrefix : List Char → List Char
  | '0' :: x :: r =>
    if x = 'x' ∨ x = 'X' then (match r with
      | '_' :: r' => r'
      | _ => r)
    else '0' :: x :: r
  | b => b

/-- `int(text, 16)` -/
def readPyIntHex (s : List Char) : Option Int :=
  let t := splitSign (numStrip s)
  let body := dropHexPrefix t.2
  (stripUSP isHexDigit body).map fun ds =>
    let n : Int := (ofHexDigits ds : Nat)
    if t.1 then -n else n

/-- `UUID(text)`: the 128-bit value -/
def uuidDeser (text : List Char) : Except Err Nat :=
  let h := removeAll "uuid:" (removeAll "urn:" text)
  let h := (stripChars (fun c => c = '{' || c = '}') h).filter (· ≠ '-')
  if h.length ≠ 32 then .error .value
  else match readPyIntHex h with
    | none => .error .value
    | some i => if 0 ≤ i ∧ i < 2 ^ 128 then .ok i.toNat else .error .value

/-! ### `complex`: `str(z)` and `complex(text)` on decimal tokens

A part of a complex number is a sign and a *token*: the text `repr` writes for the magnitude of the float
(`123`, `1.5`, `1e+22`, `1.5e-07`, `inf`, `nan`; `str(complex)` drops a trailing `.0`).  The float itself is
outside the model: the assumption, stated where it is used, is Python's `float(repr(x)) == x`, so that equal
tokens mean equal floats.  `complexParse` is `complex_from_string_inner` on texts without underscores. -/

inductive Tok where
  | dec (ip fp : List Char) (ex : Option (Bool × List Char))   -- digits [. digits] [e ± digits]
  | inf
  | nan
deriving DecidableEq, Repr, Inhabited

structure Part where
  neg : Bool
  tok : Tok
deriving DecidableEq, Repr, Inhabited

/-- exponent as `repr` writes it: `e+22`, `e-07` -/
def expText : Option (Bool × List Char) → List Char
  | none => []
  | some (n, ds) => 'e' :: (if n then '-' else '+') :: ds

def Tok.text : Tok → List Char
  | .dec ip fp ex => ip ++ (if fp = [] then [] else '.' :: fp) ++ expText ex
  | .inf => "inf".toList
  | .nan => "nan".toList

def Part.zero : Part := ⟨false, .dec ['0'] [] none⟩
def Part.one (neg : Bool) : Part := ⟨neg, .dec ['1'] [] none⟩

/-- `complex.__str__` (= `repr`): `<im>j` when the real part is `+0.0`, else `(<re><±im>j)` -/
def complexStr (re im : Part) : List Char :=
  if re = Part.zero then (if im.neg then ['-'] else []) ++ im.tok.text ++ ['j']
  else '(' :: ((if re.neg then ['-'] else []) ++ re.tok.text ++ ((if im.neg then '-' else '+') :: (im.tok.text ++ ['j', ')'])))

/-- optional exponent `[eE][+-]?D+` (not consumed when no digit follows) -/
def scanExp (l : List Char) : Option (Bool × List Char) × List Char :=
  match l with
  | e :: r =>
    if e = 'e' ∨ e = 'E' then
      let s := splitSign r
      let ds := s.2.takeWhile Char.isDigit
      if ds = [] then (none, l) else (some (s.1, ds), s.2.dropWhile Char.isDigit)
    else (none, l)
  | [] => (none, l)

/-- optional fraction `.D*`: (fraction digits, rest) -/
def scanFrac : List Char → List Char × List Char
  | '.' :: r => (r.takeWhile Char.isDigit, r.dropWhile Char.isDigit)
  | l => ([], l)

/-- the magnitude part of `strtod` / `_Py_parse_inf_or_nan`: longest prefix that is a number -/
def scanMag (l : List Char) : Option (Tok × List Char) :=
  match l with
  | [] => none
  | c :: _ =>
    if c.isDigit ∨ c = '.' then
      let ip := l.takeWhile Char.isDigit
      let r1 := l.dropWhile Char.isDigit
      let fr := scanFrac r1
      if ip = [] ∧ fr.1 = [] then none
      else
        let ex := scanExp fr.2
        some (.dec ip fr.1 ex.1, ex.2)
    else
      let low := lower l
      if "infinity".toList.isPrefixOf low then some (.inf, l.drop 8)
      else if "inf".toList.isPrefixOf low then some (.inf, l.drop 3)
      else if "nan".toList.isPrefixOf low then some (.nan, l.drop 3)
      else none

/-- `PyOS_string_to_double` on a prefix: optional sign, then the magnitude -/
def scanFloat (l : List Char) : Option (Part × List Char) :=
  let s := splitSign l
  (scanMag s.2).map fun r => (⟨s.1, r.1⟩, r.2)

def isJ (c : Char) : Bool := c = 'j' || c = 'J'

/-- the tail after the numbers: blanks, the closing bracket when one was opened, blanks, end -/
def complexTail (bracket : Bool) (l : List Char) : Bool :=
  let l1 := l.dropWhile isNumSpace
  if bracket then
    match l1 with
    | ')' :: r => (r.dropWhile isNumSpace).isEmpty
    | _ => false
  else l1.isEmpty

/-- optional opening bracket (blanks may follow it) -/
def openBracket : List Char → Bool × List Char
  | '(' :: r => (true, r.dropWhile isNumSpace)
  | l => (false, l)

/-- `complex(text)`: (real part, imaginary part) as signed tokens -/
def complexParse (text : List Char) : Option (Part × Part) :=
  let br := openBracket (text.dropWhile isNumSpace)
  let fin (x y : Part) (rest : List Char) : Option (Part × Part) :=
    if complexTail br.1 rest then some (x, y) else none
  match scanFloat br.2 with
  | some (z, s) =>
    match s with
    | c :: r =>
      if c = '+' ∨ c = '-' then
        match scanFloat s with
        | some (y, s') =>
          (match s' with
            | j :: r' => if isJ j then fin z y r' else none
            | [] => none)
        | none =>
          (match r with
            | j :: r' => if isJ j then fin z (Part.one (c = '-')) r' else none
            | [] => none)
      else if isJ c then fin Part.zero z r
      else fin z Part.zero s
    | [] => fin z Part.zero s
  | none =>
    let sg := splitSign br.2
    match sg.2 with
    | j :: r' => if isJ j then fin Part.zero (Part.one sg.1) r' else none
    | [] => none

/-! ### `SecretStr`, `Decimal` -/

/-- `SecretStr.__str__` -/
def secretMask : String := "**********"

/-- the registered serializer of `SecretStr` (`str`) -/
def secretSer (_secret : String) : String := secretMask

/-- how a registered serializer maps a decimal number to the config value -/
inductive SerKind where
  | str      -- exact text
  | float    -- nearest double
deriving DecidableEq, Repr, Inhabited

def SerKind.ofName (s : String) : Option SerKind :=
  if s = "str" then some .str else if s = "float" then some .float else none

def SerKind.Exact : SerKind → Prop
  | .str => True
  | .float => False

instance (k : SerKind) : Decidable k.Exact := by cases k <;> unfold SerKind.Exact <;> exact inferInstance

/-- `Decimal(load(dump(serializer(d))))` as exact value: what a `Decimal` comes back as from a config file -/
def decimalRoundTrip (k : SerKind) (d : Rat) : XNum :=
  match k with
  | .str => .fin d
  | .float => roundDouble d

end Jap.Typing

/-
E1 — the key helpers of `jsonargparse/_namespace.py` on character lists:
`split_key` (`str.split(".")`), `split_key_root` (`split(".", 1)`), `split_key_leaf`
(`rsplit(".", 1)`), `".".join`, `add_clash_mark`, `del_clash_mark`, `is_meta_key`.

`Core/Namespace.lean` works on already-split segments and uses `String.splitOn` for
the string layer (not reducible in the kernel); here the same functions are
written structurally on `List Char`, so that their algebra is provable
(Lemmas/NamespaceKeys.lean).  The driver runs both against the real functions.
-/
namespace Jap.NS.Keys

/-- `key.split(".")` -/
def splitDot : List Char → List (List Char)
  | [] => [[]]
  | c :: r =>
    if c = '.' then [] :: splitDot r
    else match splitDot r with
      | [] => [[c]]
      | h :: t => (c :: h) :: t

/-- `".".join(segs)` -/
def joinDot : List (List Char) → List Char
  | [] => []
  | [s] => s
  | s :: t :: r => s ++ '.' :: joinDot (t :: r)

/-- `key.split(".", 1)`: the root segment and, when there is a dot, everything behind the first one -/
def rootPair : List Char → List Char × Option (List Char)
  | [] => ([], none)
  | c :: r => if c = '.' then ([], some r) else (c :: (rootPair r).1, (rootPair r).2)

/-- `split_key_root` as the list Python returns -/
def splitRoot (s : List Char) : List (List Char) :=
  match rootPair s with
  | (h, none) => [h]
  | (h, some t) => [h, t]

/-- `key.rsplit(".", 1)`: when there is a dot, everything before the last one; and the leaf segment -/
def leafPair : List Char → Option (List Char) × List Char
  | [] => (none, [])
  | c :: r =>
    match leafPair r with
    | (none, l) => if c = '.' then (some [], l) else (none, c :: l)
    | (some i, l) => (some (c :: i), l)

/-- `split_key_leaf` as the list Python returns -/
def splitLeaf (s : List Char) : List (List Char) :=
  match leafPair s with
  | (none, l) => [l]
  | (some i, l) => [i, l]

def markC : Char := Char.ofNat 0x200b

/-- `add_clash_mark` -/
def addMark (clash : List (List Char)) (k : List Char) : List Char :=
  if clash.contains k then markC :: k else k

/-- `del_clash_mark`; `none` is the `IndexError` of `key[0]` on the empty string -/
def delMark : List Char → Option (List Char)
  | [] => none
  | c :: r => some (if c = markC then r else c :: r)

/-- `is_meta_key`: the leaf of `split_key_leaf` is one of `meta_keys` -/
def isMetaKeyC (metaKeys : List (List Char)) (k : List Char) : Bool :=
  metaKeys.contains (leafPair k).2

end Jap.NS.Keys

import Jap.Core.Heap
/-!
E11 "Heap", part 2 (C08): the remaining public entry points and *histories*.

New operations (each composed of the primitives of Core/Heap, so the same invariant carries their proofs):
  `parseArgs`        parse_args(args, namespace): defaults; the namespace goes through merge_config (cloned);
                     `args = list(args)` — the working list is what `self.args` keeps and argparse consumes;
                     the actions adapt the values in place; validated on a clone
  `validateBranch`   validate(cfg, branch=…): the clone is wrapped in a new Namespace under `branch`
  `save`             single file: dump(cfg); multifile: cfg.clone(), validate(strip_meta(clone)), the `__path__` entries of
                     the clone are replaced by file names (worst case: every container of the clone is written), dump(clone)
  `parseText`        parse_string / parse_path / parse_env: the loaded value is the library's own (every container new)
  `setDefault`       set_defaults / add_argument(default=…): the parser KEEPS the caller's object as the declared
                     default (no copy: `self._defaults[dest] = action.default = default`) — nothing is written

A *history* is a list of such operations run against one parser state (declared defaults, the values the caller
holds, fresh counter).  Arguments of an operation are values the caller holds: objects it built itself (`env`
at the start) or results of earlier operations (appended to `env`).
-/
namespace Jap.Heap

/-! ### more operations -/

/-- elements of an argv list that are not strings make parse_args fail before anything is done with them -/
def atomize : Kids → Kids
  | [] => []
  | (key, .atom n) :: r => (key, .atom n) :: atomize r
  | (key, .node _ _ _) :: r => (key, .atom 0) :: atomize r

/-- `args = list(args)` -/
def copyArgv (t : T) (k : Nat) : R T :=
  match t with
  | .node _ _ kids => ⟨.node .list k (atomize kids), k + 1⟩
  | .atom n => ⟨.atom n, k⟩

/-- the working argv is stored (`self.args = args`) and consumed by argparse: worst case it is written -/
def consumeArgv (p : Policy) : T → List Nat
  | .atom _ => []
  | .node kd i kids => if p.inplace kd then wr i kids else []

/-- `if namespace: cfg = self.merge_config(namespace, cfg)` -/
def mergeNsOpt (p : Policy) (cs : Sites) (ns : Option T) (d : M T) : M T :=
  match ns with
  | some n => mergeConfig p { cs with mergeFrom := cs.mergeFrom && cs.parseArgsNs } n d.val d.next
  | none => ⟨d.val, [], [], d.next⟩

/-- `parse_args(args, namespace)` -/
def parseArgs (p : Policy) (cs : Sites) (defaults : Kids) (ns : Option T) (argv : T) (k : Nat) : M T :=
  let d := getDefaults p cs defaults k
  let m := mergeNsOpt p cs ns d
  let a := copyIf cs.parseArgsArgs copyArgv argv m.next
  let ad := adaptMut p m.val a.next
  let v := validate p cs ad.val ad.next
  ⟨ad.val, d.writes ++ m.writes ++ consumeArgv p a.val ++ ad.writes ++ v.writes, [], v.next⟩

/-- `validate(cfg, branch=b)`: `cfg = cfg.clone(); cfg = Namespace(); cfg[b] = clone` -/
def validateBranch (p : Policy) (cs : Sites) (branch : String) (t : T) (k : Nat) : M T :=
  let c := copyIf cs.validate (clone p) t k
  adaptMut p (.node .ns c.next [(branch, c.val)]) (c.next + 1)

/-- `save(cfg, path, multifile)` as far as `cfg` is concerned -/
def save (p : Policy) (cs : Sites) (mkeys : List String) (multifile : Bool) (t : T) (k : Nat) : M T :=
  if multifile then
    let c := copyIf cs.saveCfg (clone p) t k
    let s := stripMeta p mkeys c.val c.next
    let v := validate p cs s.val s.next
    let w := adaptMut p c.val v.next
    let d := dump p cs mkeys w.val w.next
    ⟨d.val, v.writes ++ w.writes ++ d.writes, [], d.next⟩
  else if cs.saveCfg then dump p cs mkeys t k
  else
    let w := adaptMut p t k
    ⟨w.val, w.writes, [], w.next⟩

mutual
/-- a value loaded from text / the environment: every container is a new object -/
def freshen : T → Nat → R T
  | .atom n, k => ⟨.atom n, k⟩
  | .node kd _ kids, k =>
    let r := freshenK kids k
    ⟨.node kd r.next r.val, r.next + 1⟩
def freshenK : Kids → Nat → R Kids
  | [], k => ⟨[], k⟩
  | (key, x) :: r, k =>
    let a := freshen x k
    let b := freshenK r a.next
    ⟨(key, a.val) :: b.val, b.next⟩
end

/-- `parse_string(text)` / `parse_path(path)` / `parse_env(env)`: load (all new), then as parse_object -/
def parseText (p : Policy) (cs : Sites) (defaults : Kids) (shape : T) (k : Nat) : M T :=
  let l := freshen shape k
  parseObject p { cs with parseObject := false } defaults none l.val l.next

/-! ### histories -/

/-- an operation of a history; `Nat` arguments index the values the caller holds (`St.env`) -/
inductive Op where
  | dump (a : Nat)
  | validate (a : Nat)
  | validateBranch (branch : String) (a : Nat)
  | merge (src to : Nat)
  | stripUnknown (known : List String) (a : Nat)
  | instantiate (a : Nat)
  | parseObject (obj : Nat) (base : Option Nat)
  | parseArgs (argv : Nat) (ns : Option Nat)
  | parseText (shape : T)
  | save (multifile : Bool) (a : Nat)
  | getDefaults
  | setDefault (dest : String) (a : Nat)
deriving Repr

/-- parser + caller state -/
structure St where
  defaults : Kids        -- the declared defaults (action.default per dest)
  env : List T           -- the values the caller holds: its own objects, then the results of the operations so far
  k : Nat                -- next fresh identity

def St.get (s : St) (n : Nat) : T := s.env.getD n (.atom 0)

def St.getOpt (s : St) : Option Nat → Option T
  | none => none
  | some n => some (s.get n)

/-- `instantiate_classes` expects a namespace; anything else is handed back -/
def instantiateAny (p : Policy) (cs : Sites) (mkeys : List String) (t : T) (k : Nat) : M T :=
  match t with
  | .node .ns _ _ => instantiate p cs mkeys t k
  | other => ⟨other, [], [], k⟩

/-- a namespace root is what strip_unknown expects; anything else is handed back -/
def stripUnknownAny (p : Policy) (cs : Sites) (known : List String) (t : T) (k : Nat) : M T :=
  match t with
  | .node .ns _ _ => stripUnknown p cs known t k
  | other => ⟨other, [], [], k⟩

/-- the result of one operation (value handed to the caller, writes, next counter) -/
def Op.run (p : Policy) (cs : Sites) (mkeys : List String) (s : St) : Op → M T
  | .dump a => Jap.Heap.dump p cs mkeys (s.get a) s.k
  | .validate a => Jap.Heap.validate p cs (s.get a) s.k
  | .validateBranch b a => Jap.Heap.validateBranch p cs b (s.get a) s.k
  | .merge src to => Jap.Heap.mergeConfig p cs (s.get src) (s.get to) s.k
  | .stripUnknown known a => Jap.Heap.stripUnknownAny p cs known (s.get a) s.k
  | .instantiate a => Jap.Heap.instantiateAny p cs mkeys (s.get a) s.k
  | .parseObject o b => Jap.Heap.parseObject p cs s.defaults (s.getOpt b) (s.get o) s.k
  | .parseArgs av ns => Jap.Heap.parseArgs p cs s.defaults (s.getOpt ns) (s.get av) s.k
  | .parseText shape => Jap.Heap.parseText p cs s.defaults shape s.k
  | .save mf a => Jap.Heap.save p cs mkeys mf (s.get a) s.k
  | .getDefaults => Jap.Heap.getDefaults p cs s.defaults s.k
  | .setDefault _ _ => ⟨.atom 0, [], [], s.k⟩

/-- does the operation hand a configuration object to the caller (dump: text, validate/save: None) -/
def Op.handsOut : Op → Bool
  | .dump _ | .validate _ | .validateBranch _ _ | .save _ _ | .setDefault _ _ => false
  | _ => true

/-- the declared defaults after the operation: `setDefault` makes the caller's object itself the declared default -/
def Op.defaultsAfter (s : St) : Op → Kids
  | .setDefault dest a => insertK dest (s.get a) s.defaults
  | _ => s.defaults

/-- the state after one operation: a configuration handed out joins what the caller holds -/
def Op.next (p : Policy) (cs : Sites) (mkeys : List String) (s : St) (op : Op) : St :=
  let r := op.run p cs mkeys s
  { defaults := op.defaultsAfter s, env := if op.handsOut then s.env ++ [r.val] else s.env, k := r.next }

/-- the writes of a whole history, operation by operation -/
def runHist (p : Policy) (cs : Sites) (mkeys : List String) : List Op → St → List (List Nat)
  | [], _ => []
  | op :: rest, s => (op.run p cs mkeys s).writes :: runHist p cs mkeys rest (op.next p cs mkeys s)

/-- the trace of a history: the state BEFORE each operation together with what the operation wrote -/
def traceHist (p : Policy) (cs : Sites) (mkeys : List String) : List Op → St → List (St × List Nat)
  | [], _ => []
  | op :: rest, s => (s, (op.run p cs mkeys s).writes) :: traceHist p cs mkeys rest (op.next p cs mkeys s)

/-- the values an operation loads from text are outside the finding class -/
def Op.shapeSafe (p : Policy) : Op → Bool
  | .parseText shape => safe p shape
  | _ => true

/-- the state at the end of a history -/
def endState (p : Policy) (cs : Sites) (mkeys : List String) : List Op → St → St
  | [], s => s
  | op :: rest, s => endState p cs mkeys rest (op.next p cs mkeys s)

/-- identities of everything the caller holds and of the declared defaults -/
def idsL : List T → List Nat
  | [] => []
  | t :: r => ids t ++ idsL r

/-- what the library's working copies still share with the values the caller holds -/
def sharedL (p : Policy) : List T → List Nat
  | [] => []
  | t :: r => sharedMut p t ++ sharedL p r

def St.ids (s : St) : List Nat := idsL s.env ++ idsK s.defaults
def St.shared (p : Policy) (s : St) : List Nat := sharedL p s.env ++ sharedMutK p s.defaults

end Jap.Heap

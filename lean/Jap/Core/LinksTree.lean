import Jap.Core.Links
/-
E4-links, parser trees (C15): the recursion of `ActionLink.apply_parsing_links` and of
`strip_link_target_keys` into the parser of the selected subcommand, with the early returns of
`apply_parsing_links` in the order of the source:

    if apply_config_skip.get() or print_config requested: return          -- guard 1 (`off`)
    subcommand, subparser = get_subcommand(parser, cfg, fail_no_subcommand=False)
    if subcommand and subcommand in cfg: apply_parsing_links(subparser, cfg[subcommand])   -- guard 2
    if not hasattr(parser, "_links_group"): return                          -- guard 3 (`hasGroup`)
    for action in get_link_actions(parser, "parse"): ...

A node carries the parser, whether `_links_group` exists (any `link_arguments` call creates it), the dest and the
`required` flag of the subcommands action and the choices in `choices` order (`[]`: no subcommands action).
The value held at the dest is a string; how a value names a choice is a parameter (`Names`).
-/
namespace Jap.Links
open Jap.NS

inductive PTree where
  | node (p : Parser) (hasGroup : Bool) (dest : SKey) (required : Bool) (choices : List (SKey × PTree))
deriving Inhabited

structure Names where
  nameOf : V → Option SKey      -- the choice named by a truthy string value (`none`: None, "", not a string)
  nameVal : SKey → V            -- the string naming a choice

def isNsV : Option V → Bool
  | some (.ns _) => true
  | _ => false

def delSections : List SKey → KV → KV
  | [], cfg => cfg
  | k :: r, cfg => delSections r (delKey [k] cfg)

/-- `get_subcommands` with `single_subcommand` set and the error block not taken (`fail_no_subcommand=False`, or a
    subcommand was found): the subcommand and the namespace as the function leaves it (it stores the dest when only
    a section names the subcommand and deletes the sections of the other subcommands) -/
def selectSub (N : Names) (dest : SKey) (names : List SKey) (cfg : KV) : Option SKey × KV :=
  let keys := names.filter (fun k => isNsV (getK [k] cfg))
  let fallback : Option SKey × KV :=
    match keys with
    | k :: _ => (some k, setK [dest] (N.nameVal k) cfg)
    | [] => (.none, cfg)
  let r : Option SKey × KV :=
    match getK [dest] cfg with
    | some v => if isNone v then fallback else (N.nameOf v, cfg)
    | .none => fallback
  match r.1 with
  | some s => if keys.length > 1 then (some s, delSections (keys.filter (· != s)) r.2) else r
  | .none => r

/-- nothing of `apply_parsing_links` touches the namespace: no link, no subcommands action -/
def PTree.inert : PTree → Bool
  | .node p _ _ _ choices => p.links.isEmpty && choices.isEmpty

mutual
/-- `apply_parsing_links(parser, cfg)`; `off` = `apply_config_skip` is set or `--print_config` was requested -/
def applyTree (E : Env) (N : Names) (off : Bool) : PTree → KV → Except PErr KV
  | .node p hasGroup dest _ choices, cfg =>
    if off then .ok cfg
    else
      let sel := selectSub N dest (choices.map (·.1)) cfg
      let rec? : Except PErr (Option V) :=
        match sel.1 with
        | some s =>
          match getK [s] sel.2 with
          | some v => applyChoice E N choices s v         -- `subcommand in cfg`
          | .none => .ok .none
        | .none => .ok .none
      match rec? with
      | .error e => .error e
      | .ok r =>
        let cfg1 :=
          match sel.1, r with
          | some s, some v' => setK [s] v' sel.2
          | _, _ => sel.2
        if !hasGroup then .ok cfg1 else applyParsingLinks E p.links cfg1
/-- the recursive call on `cfg[subcommand]` with the parser `_name_parser_map.get(subcommand)`; the result is the new
    value of the section (`none`: unchanged).  A section that is not a namespace makes the call fail unless nothing
    looks at it; an unknown subcommand has the parser `None`. -/
def applyChoice (E : Env) (N : Names) : List (SKey × PTree) → SKey → V → Except PErr (Option V)
  | [], _, _ => .error .invalid
  | (k, t) :: r, s, v =>
    if k = s then
      match v with
      | .ns sub =>
        match applyTree E N false t sub with
        | .ok c => .ok (some (.ns c))
        | .error e => .error e
      | _ => if t.inert then .ok .none else .error .invalid
    else applyChoice E N r s v
end

mutual
/-- is `k` the dest of a replaced target action, at any depth (`fit.y` = the option `--y` after the token `fit`) -/
def plainTargetTree : PTree → Key → Bool
  | .node p _ _ _ choices, k =>
    isPlainTarget p k ||
      (match k with
       | s :: rest => plainTargetChoices choices s rest
       | [] => false)
def plainTargetChoices : List (SKey × PTree) → SKey → Key → Bool
  | [], _, _ => false
  | (k, t) :: r, s, rest => if k = s then plainTargetTree t rest else plainTargetChoices r s rest
end

/-- one assignment, as `feed`, for a parser tree -/
def feedT (t : PTree) (cfg : KV) (i : Input) : Except PErr KV :=
  if plainTargetTree t i.key then
    match i.chan with
    | .argv => .error .linkCall
    | .dflt => .ok cfg
    | _ => .ok (setK i.key i.val cfg)
  else .ok (setK i.key i.val cfg)

def feedAllT (t : PTree) : List Input → KV → Except PErr KV
  | [], cfg => .ok cfg
  | i :: r, cfg =>
    match feedT t cfg i with
    | .ok cfg' => feedAllT t r cfg'
    | .error e => .error e

mutual
/-- `check_required`: the parser's own keys, then the selected subcommand's -/
def requiredTree (N : Names) : PTree → KV → Bool
  | .node p _ dest _ choices, cfg =>
    validateRequired p.required cfg &&
      (match (getK [dest] cfg).bind N.nameOf with
       | some s =>
         match getK [s] cfg with
         | some (.ns sub) => requiredChoices N choices s sub
         | _ => true
       | .none => true)
def requiredChoices (N : Names) : List (SKey × PTree) → SKey → KV → Bool
  | [], _, _ => true
  | (k, t) :: r, s, sub => if k = s then requiredTree N t sub else requiredChoices N r s sub
end

/-- `_parse_common` from the link step on, for a parser with subcommands -/
def parseCommonT (E : Env) (N : Names) (t : PTree) (cfg : KV) : Except PErr KV :=
  match applyTree E N false t cfg with
  | .error e => .error e
  | .ok cfg' =>
    if !E.valid cfg' then .error .invalid
    else if !requiredTree N t cfg' then .error .required
    else .ok cfg'

def parseT (E : Env) (N : Names) (t : PTree) (inputs : List Input) : Except PErr KV :=
  match feedAllT t inputs [] with
  | .error e => .error e
  | .ok cfg => parseCommonT E N t cfg

mutual
/-- `strip_link_target_keys(parser, cfg)`: the parser's own targets, then the selected subcommand's section
    (`get_subcommands` under `not_single_subcommand`, with its error when a required subcommand is missing) -/
def stripTree (N : Names) : PTree → KV → Except PErr KV
  | .node p _ dest required choices, cfg =>
    let c1 := stripLinkTargetKeys p cfg
    if choices.isEmpty then .ok c1
    else
      let sel := selectSub N dest (choices.map (·.1)) c1
      match sel.1 with
      | .none => if required then .error .required else .ok sel.2
      | some s =>
        if !(choices.map (·.1)).contains s && required then .error .required
        else
          match getK [s] sel.2 with
          | .none => .ok sel.2
          | some (.ns sub) =>
            match stripChoice N choices s sub with
            | .ok (some sub') => .ok (setK [s] (.ns sub') sel.2)
            | .ok .none => .error .invalid          -- the parser of an unknown subcommand is `None`
            | .error e => .error e
          | some _ => .error .invalid
def stripChoice (N : Names) : List (SKey × PTree) → SKey → KV → Except PErr (Option KV)
  | [], _, _ => .ok .none
  | (k, t) :: r, s, sub =>
    if k = s then
      match stripTree N t sub with
      | .ok c => .ok (some c)
      | .error e => .error e
    else stripChoice N r s sub
end

/-- registration of a link in the parser at `path` (the names of the subcommands leading to it) -/
def PTree.parser : PTree → Parser
  | .node p _ _ _ _ => p

mutual
def addLinkAt : PTree → List SKey → LinkReq → Except LErr PTree
  | .node p _ dest req choices, [], r =>
    match addLink p r.sources r.coerce r.target r.fn with
    | .ok p' => .ok (.node p' true dest req choices)
    | .error e => .error e
  | .node p hg dest req choices, s :: rest, r =>
    match addLinkChoices choices s rest r with
    | .ok ch' => .ok (.node p hg dest req ch')
    | .error e => .error e
def addLinkChoices : List (SKey × PTree) → SKey → List SKey → LinkReq → Except LErr (List (SKey × PTree))
  | [], _, _, _ => .error .noAction
  | (k, t) :: r, s, rest, q =>
    if k = s then
      match addLinkAt t rest q with
      | .ok t' => .ok ((k, t') :: r)
      | .error e => .error e
    else
      match addLinkChoices r s rest q with
      | .ok r' => .ok ((k, t) :: r')
      | .error e => .error e
end

/-! a refused `link_arguments` call has created `_links_group` all the same -/
mutual
def markGroupAt : PTree → List SKey → PTree
  | .node p _ dest req choices, [] => .node p true dest req choices
  | .node p hg dest req choices, s :: rest => .node p hg dest req (markGroupChoices choices s rest)
def markGroupChoices : List (SKey × PTree) → SKey → List SKey → List (SKey × PTree)
  | [], _, _ => []
  | (k, t) :: r, s, rest => if k = s then (k, markGroupAt t rest) :: r else (k, t) :: markGroupChoices r s rest
end

end Jap.Links

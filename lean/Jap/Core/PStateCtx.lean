/-
E12b — value-carrying locations and bracketed code (C09).

`Core/PState.lean` transcribes what each public operation does to the carriers it knows.  This file is the generic half:
ANY code that touches state outliving a call — context variables, attributes of parser / action objects, module
globals; a location is a name, what it holds is a value — through
  * `set`        a write that stays (ContextVar.set without reset, attribute assignment),
  * `bracket`    `with cm(v): body` — set, body, token reset; the reset sits in a `finally` or after the `yield`
                 (which of the two is a column of the regenerated table Gen/Brackets / Gen/PState.ctxSets),
  * `scoped`     `try: body finally: <location>.pop()` — the `finally` of parse_args around the print_config request,
  * `read`       the value flows into the answer,  `ifEq` control flow decided by the value held,
  * `raise` ANYWHERE, `tryCatch`, `tryFinally`, sequencing,
in any nesting.  `run` is the semantics; the answer of a piece of code is (raised?, the list of values read).

`ok R S W` is the discipline, decidable on the syntax: locations in `R` ("restored") are written only by brackets
whose reset is in a `finally`, or inside a `scoped` region for them (`S`), or with their default; every other
location is read only after it was definitely written earlier in the same operation (`W`).
-/
namespace Jap.PState.Ctx

abbrev Env := String → Nat

def Env.set (e : Env) (x : String) (v : Nat) : Env := fun y => if y = x then v else e y

inductive Prog where
  | skip
  | raise
  | read (x : String)
  | set (x : String) (v : Nat)
  | seq (a b : Prog)
  | tryCatch (a h : Prog)
  | tryFinally (a f : Prog)
  /-- `fin = true`: the token reset is in a `finally`; `false`: after the `yield`, skipped when the body raises -/
  | bracket (fin : Bool) (x : String) (v : Nat) (body : Prog)
  /-- `try: body finally: x is removed (back to its default, 0)` -/
  | scoped (x : String) (body : Prog)
  | ifEq (x : String) (v : Nat) (t e : Prog)
deriving Repr

structure Res where
  raised : Bool
  env : Env
  reads : List (String × Nat)

def run : Prog → Env → Res
  | .skip, e => ⟨false, e, []⟩
  | .raise, e => ⟨true, e, []⟩
  | .read x, e => ⟨false, e, [(x, e x)]⟩
  | .set x v, e => ⟨false, e.set x v, []⟩
  | .seq a b, e =>
    let ra := run a e
    if ra.raised then ra else
      let rb := run b ra.env
      ⟨rb.raised, rb.env, ra.reads ++ rb.reads⟩
  | .tryCatch a h, e =>
    let ra := run a e
    if ra.raised then
      let rh := run h ra.env
      ⟨rh.raised, rh.env, ra.reads ++ rh.reads⟩
    else ra
  | .tryFinally a f, e =>
    let ra := run a e
    let rf := run f ra.env
    ⟨ra.raised || rf.raised, rf.env, ra.reads ++ rf.reads⟩
  | .bracket fin x v body, e =>
    let rb := run body (e.set x v)
    if fin || !rb.raised then ⟨rb.raised, rb.env.set x (e x), rb.reads⟩ else rb
  | .scoped x body, e =>
    let rb := run body e
    ⟨rb.raised, rb.env.set x 0, rb.reads⟩
  | .ifEq x v t f, e =>
    let r := if e x = v then run t e else run f e
    ⟨r.raised, r.env, (x, e x) :: r.reads⟩

/-- locations definitely written when the code completes normally, given those written before it -/
def wout (W : List String) : Prog → List String
  | .skip => W
  | .raise => W
  | .read _ => W
  | .set x _ => x :: W
  | .seq a b => wout (wout W a) b
  | .tryCatch _ _ => W
  | .tryFinally _ f => wout W f
  | .bracket _ x _ body => if W.contains x then wout (x :: W) body else (wout (x :: W) body).filter (· != x)
  | .scoped _ _ => W
  | .ifEq _ _ _ _ => W

/-- the discipline: `R` restored locations, `S` those among them inside whose `scoped` region we are, `W` definitely written -/
def ok (R : List String) : List String → List String → Prog → Bool
  | _, _, .skip => true
  | _, _, .raise => true
  | _, W, .read x => R.contains x || W.contains x
  | S, _, .set x v => !R.contains x || S.contains x || v == 0
  | S, W, .seq a b => ok R S W a && ok R S (wout W a) b
  | S, W, .tryCatch a h => ok R S W a && ok R S W h
  | S, W, .tryFinally a f => ok R S W a && ok R S W f
  | S, W, .bracket fin x _ body => (fin || !R.contains x) && ok R S (x :: W) body
  | S, W, .scoped x body => R.contains x && ok R (x :: S) W body
  | S, W, .ifEq x _ t e => (R.contains x || W.contains x) && ok R S W t && ok R S W e

/-- an operation of the public API: disciplined code that starts with nothing written and no open region -/
def okOp (R : List String) (P : Prog) : Bool := ok R [] [] P

/-- every restored location holds its default -/
def Inv (R : List String) (e : Env) : Prop := ∀ x, x ∈ R → e x = 0

def init : Env := fun _ => 0

/-- the state after a history of operations, whatever way each of them ended -/
def runHist (hist : List Prog) (e : Env) : Env := hist.foldl (fun e p => (run p e).env) e

/-- the answer: did it raise, and the values that flowed into it -/
def answer (P : Prog) (e : Env) : Bool × List (String × Nat) := ((run P e).raised, (run P e).reads)

end Jap.PState.Ctx

/-
E9 — model of the `**kwargs` parameter resolver of `jsonargparse/_parameter_resolvers.py`
(AST resolver) and, independently, of the run-time keyword binding of the Python interpreter
on the same mini language.

Mini language (one constructor per documented forwarding pattern, DOCUMENTATION.rst "AST resolver"):
  * `Param`     name, type tag (sorted atoms of the annotation, `[]` = no annotation), default tag, kind
  * `Use`       `kwargs.pop(n, d)` (as a statement, or — `Use.popIn` — inside the argument list of the forwarding
                call it follows), `kwargs.get(n, d)`, `super().__init__(p₁..p_k, g₁=.., **kwargs)`
                (optionally `super(X, self)`), a call of a module-level function / a class
                (`Target.entry`), of a method of `self` (`Target.selfMeth`), `cls(**kwargs)` inside a
                classmethod (`Target.clsSelf`), `Cls.factory(**kwargs)` (`Target.classMeth`: a classmethod the
                class offers, own or inherited), and `self._kw = kwargs` forwarded later by a method/property
                as `entry(…, **self._kw)` (`Target.attrEntry`: the attribute path removes hard-coded arguments
                without feeding the shared `removed` set); every call with `givenPos` hard-coded positionals and the
                hard-coded keyword names `given`
  * `Guard`     where the statement sits: unconditional, under a constant module-level boolean
                (`const live`, the resolver and the interpreter both select statically), or in branch `i`
                of the one `if/elif/else` chain of the body (`cond`: the resolver takes the union, the
                interpreter runs exactly one branch)
  * `Callable`  named parameters, `**kwargs` or not, the uses of `kwargs` in AST order
  * `Prog`      table of entries (functions and classes, callees have smaller indices); a class has an
                optional own `__init__`, its MRO **as an input list** (after the class itself, `object`
                omitted), instance methods and classmethods

Two independent definitions:
  * `resolve`  transcription of `get_signature_parameters` → `ParametersVisitor.get_parameters` →
               `get_parameters_args_and_kwargs` (values found in AST order, `get_kwargs_pop_or_get_parameter`,
               `get_mro_parameters`, `remove_given_parameters` with the shared `removed_params` set applied
               AFTER `group_parameters`, `split_args_and_kwargs`) → `replace_args_and_kwargs`
               (own parameters shadow), including `group_parameters` as written (single-list shortcut,
               `non_get_pop_count`, `Conditional<ast-resolver>` defaults, `NOT_ACCEPTED`, `Union` of types,
               and the `AttributeError` when the first parameter of a list has a tuple origin: `Out.crash`),
               and the way a class WITHOUT own `__init__` is resolved (inherited `__init__` visited at MRO
               index 0, so its `super()` call resolves the defining class again and hard-coded arguments
               are removed a second time).
  * `accepts`  run-time semantics: `Cls(n=…)` binds without *unexpected keyword* / *multiple values*:
               attribute lookup of `__init__` along the real MRO, statements executed in order
               (`pop` consumes, `get` does not), `super()` = next class of the instance's MRO that
               defines `__init__`, `object.__init__` takes no keyword.

Also here, because the theorems are stated with them: `WfProg` (decidable hypothesis of `C13_exact`:
acyclic, every body that takes `**kwargs` is pops-then-one-forwarding-call, no `get`, no popped name
hard-coded, hard-coded positionals fit the callee in every MRO context, a class without own `__init__`
inherits one whose `super()` call hard-codes no more positionals than it has parameters), `noPopClash`
(decidable: a popped name defined elsewhere has the same default — then the resolver never raises),
`Prog.defs` / `sameSig` (where an offered parameter can come from).

A class lists the classmethods it OFFERS (`Class.cmeths`: own and inherited — the attribute lookup is an
input computed by the harness from the real MRO, like the MRO itself).

Outside the model: `*args` forwarding, `dict(p=1, **kwargs)` entries on the attribute path, method overriding,
the stale `current_mro` index after a first `super()` call in the same body (the generator emits at
most one `super()` call per body, as its last forwarding call), the assumptions/stubs fallback after
`Out.crash` (the model propagates `crash` to the query; the harness then only runs the oracle).

Both recurse along the call graph; the recursion of the code is unbounded, the model takes a
structural fuel and `C13_fuel_suffices` proves that `bound P` is enough on acyclic programs.
Imports nothing beyond core Lean.
-/
namespace Jap.Resolver

/-! ### syntax -/

inductive Kind where
  | posOrKw
  | kwOnly
deriving DecidableEq, Repr, Inhabited

/-- annotation as the sorted list of its union atoms; `[]` is `inspect._empty` -/
abbrev Ty := List String

/-- a default value: canonical token, the hash class used by `_util.unique`, Python `str(value)` -/
structure DVal where
  tok : String
  key : String
  str : String
deriving DecidableEq, Repr, Inhabited

inductive Dflt where
  | empty                     -- `inspect._empty` (required)
  | val (v : DVal)
  | cond (s : String)         -- `ConditionalDefault("ast-resolver", …)`, `s` = its `data`
deriving DecidableEq, Repr, Inhabited

structure Param where
  name : String
  ty : Ty
  dflt : Dflt
  kind : Kind
  /-- resolver-internal: `ParamData.origin` is a tuple (set by `group_parameters`) -/
  otuple : Bool := false
deriving DecidableEq, Repr, Inhabited

inductive Target where
  | entry (i : Nat)
  | selfMeth (j : Nat)
  | clsSelf
  | classMeth (c j : Nat)     -- `Cls.factory(…)`: classmethod `j` of the ones class `c` offers (own and inherited)
  | attrEntry (i : Nat)       -- entry `i` reached through an attribute: `self._kw = kwargs` … `entry_i(…, **self._kw)`
deriving DecidableEq, Repr

inductive Use where
  | pop (name : String) (d : DVal)
  | get (name : String) (d : DVal)
  | superCall (frm : Option Nat) (givenPos : Nat) (given : List String)
  | call (t : Target) (givenPos : Nat) (given : List String)
  /-- `kwargs.pop(name, d)` written INSIDE the argument list of the forwarding call that precedes it in the
      list (as a positional argument, as the value of a hard-coded keyword, inside arithmetic):
      `super().__init__(label=kwargs.pop("title", "untitled"), **kwargs)`.  The list is in AST-visit order
      (the visitor records the call, then descends into its arguments); the interpreter evaluates the
      arguments BEFORE the call binds, see `runUses`.  (A nested `kwargs.get` is a plain `.get` after the call.) -/
  | popIn (name : String) (d : DVal)
deriving DecidableEq, Repr

inductive Guard where
  | always
  | const (live : Bool)
  | branch (i : Nat)
deriving DecidableEq, Repr

structure GUse where
  guard : Guard
  use : Use
deriving DecidableEq, Repr

structure Callable where
  params : List Param
  varkw : Bool
  uses : List GUse
deriving DecidableEq, Repr

structure Class where
  init : Option Callable
  mro : List Nat
  meths : List Callable
  cmeths : List Callable
deriving DecidableEq, Repr

inductive Entry where
  | fn (c : Callable)
  | cls (k : Class)
deriving DecidableEq, Repr

structure Prog where
  entries : List Entry
  /-- `ast_is_supported_super_call` finds the `X` of `super(X, self)` BY NAME in the module of `classes[idx]`:
      `((h, x), r)` says that with `classes[idx] = h` the name of class `x` leads to `r` (`none`: "unsupported super
      parameters", the call contributes nothing; `some d`: a class `d` with the same `__name__` that the module of
      `h` binds under it).  Pairs not listed resolve to `x` itself.  Computed by `linkWith` of Core/ResolverMod.lean
      from the per-module global tables; `[]` for a program in one module. -/
  superMap : List ((Nat × Nat) × Option Nat)
deriving DecidableEq, Repr

/-- what can be asked for / what a call reaches -/
inductive Frame where
  | entry (i : Nat)                               -- function `i`, or class `i` as a whole (`Cls(...)`)
  | init (root owner : Nat) (ctx : List Nat)      -- `owner.__init__` with `classes[idx:] = ctx` of `root`'s MRO
  | meth (owner j : Nat)
  | cmeth (owner j : Nat)
deriving DecidableEq, Repr

/-- where a callable body is being looked at -/
inductive Where where
  | fn
  | init (root owner : Nat) (ctx : List Nat)
  | meth (owner : Nat)
  | cmeth (owner : Nat)
deriving DecidableEq, Repr

def names (ps : List Param) : List String := ps.map (·.name)

def Prog.cls? (P : Prog) (i : Nat) : Option Class :=
  match P.entries[i]? with
  | some (.cls k) => some k
  | _ => none

def Prog.fn? (P : Prog) (i : Nat) : Option Callable :=
  match P.entries[i]? with
  | some (.fn c) => some c
  | _ => none

/-- the `__init__` defined in the body of class `i` itself -/
def Prog.ownInit (P : Prog) (i : Nat) : Option Callable :=
  match P.cls? i with
  | some k => k.init
  | none => none

def Prog.meth? (P : Prog) (o j : Nat) : Option Callable :=
  match P.cls? o with
  | some k => k.meths[j]?
  | none => none

def Prog.cmeth? (P : Prog) (o j : Nat) : Option Callable :=
  match P.cls? o with
  | some k => k.cmeths[j]?
  | none => none

/-! ### the resolver (`resolve`) -/

inductive Out where
  | ok (ps : List Param)
  | crash            -- `'tuple' object has no attribute 'startswith'` inside `group_parameters`
  | nofuel
deriving DecidableEq, Repr

/-- `get_mro_parameters`: first class of `classes[idx+1:]` (here: of the list given) whose
    `__init__` is its own (the `method is getattr(c, …) for c in remainder` test) -/
def nextInit (P : Prog) : List Nat → Option (Nat × List Nat)
  | [] => none
  | d :: rest =>
    match P.ownInit d with
    | some _ => some (d, d :: rest)
    | none => nextInit P rest

/-- `ast_is_supported_super_call` for `super(X, self)`: move to the position of `X` in `classes[idx:]` -/
def dropTo (x : Nat) : List Nat → List Nat
  | [] => []
  | d :: rest => if d = x then d :: rest else dropTo x rest

/-- `classes[idx:]` after `ast_is_supported_super_call` (`[]`: not supported) -/
def superCtx (P : Prog) (frm : Option Nat) (ctx : List Nat) : List Nat :=
  match frm with
  | none => ctx
  | some x =>
    match ctx with
    | [] => []
    | h :: _ =>
      match P.superMap.lookup (h, x) with
      | none => dropTo x ctx
      | some none => []
      | some (some d) => dropTo d ctx

/-- `get_mro_parameters` from the current index -/
def superFrameAt (P : Prog) (root : Nat) : List Nat → Option Frame
  | [] => none
  | _ :: tl =>
    match nextInit P tl with
    | some (d, s) => some (.init root d s)
    | none => none

/-- frame resolved by a `super(...).__init__(…)` call, `none` = nothing found (`[]`) -/
def superFrame (P : Prog) (wh : Where) (frm : Option Nat) : Option Frame :=
  match wh with
  | .init root _ ctx => superFrameAt P root (superCtx P frm ctx)
  | _ => none

/-- `get_node_component` -/
def targetFrame (wh : Where) : Target → Option Frame
  | .entry i => some (.entry i)
  | .selfMeth j =>
    match wh with
    | .init _ owner _ => some (.meth owner j)
    | _ => none
  | .clsSelf =>
    match wh with
    | .cmeth owner => some (.entry owner)
    | _ => none
  | .classMeth c j => some (.cmeth c j)
  | .attrEntry i => some (.entry i)

/-- the attribute-use path (`get_parameters_attr_use_in_members` → `match_call_that_uses_attr`) calls
    `remove_given_parameters` WITHOUT the shared `removed_params` set -/
def Target.updatesRemoved : Target → Bool
  | .attrEntry _ => false
  | _ => true

/-- `remove_given_parameters`: positional indexes `0..k-1`, then keyword names -/
def removeGiven (k : Nat) (given : List String) (ps : List Param) : List Param :=
  (ps.drop k).filter (fun p => decide (p.name ∉ given))

/-- `get_kwargs_pop_or_get_parameter` -/
def popParam (n : String) (d : DVal) : Param :=
  { name := n, ty := [], dflt := .val d, kind := .kwOnly }

/-- state of the loop over `values_found`: `params_list` (with "is a pop/get list") and `removed_params` -/
structure Acc where
  lists : List (Bool × List Param)
  removed : List String
deriving DecidableEq, Repr

inductive AccOut where
  | ok (a : Acc)
  | crash
  | nofuel
deriving DecidableEq, Repr

def Guard.dead : Guard → Bool
  | .const false => true
  | _ => false

/-- the statements the visitor sees (`visit_If` keeps one side of a constant conditional) -/
def liveUses (us : List GUse) : List Use :=
  (us.filter (fun g => !g.guard.dead)).map (·.use)

/-- one forwarding call: resolve the callee, remove what the call hard-codes -/
def addForward (a : Acc) (k : Nat) (given : List String) (r : List Param) (upd : Bool) : Acc :=
  let kept := removeGiven k given r
  { lists := if kept.isEmpty then a.lists else a.lists ++ [(false, kept)],
    removed := if upd then a.removed ++ (names r).filter (fun n => decide (n ∈ given)) else a.removed }

def collect (rec : Frame → Out) (P : Prog) (wh : Where) : List Use → Acc → AccOut
  | [], a => .ok a
  | .pop n d :: us, a => collect rec P wh us { a with lists := a.lists ++ [(true, [popParam n d])] }
  | .get n d :: us, a => collect rec P wh us { a with lists := a.lists ++ [(true, [popParam n d])] }
  | .popIn n d :: us, a => collect rec P wh us { a with lists := a.lists ++ [(true, [popParam n d])] }
  | .superCall frm k given :: us, a =>
    match superFrame P wh frm with
    | none => collect rec P wh us (addForward a k given [] true)
    | some fr =>
      match rec fr with
      | .ok r => collect rec P wh us (addForward a k given r true)
      | .crash => .crash
      | .nofuel => .nofuel
  | .call t k given :: us, a =>
    match targetFrame wh t with
    | none => collect rec P wh us (addForward a k given [] t.updatesRemoved)
    | some fr =>
      match rec fr with
      | .ok r => collect rec P wh us (addForward a k given r t.updatesRemoved)
      | .crash => .crash
      | .nofuel => .nofuel

/-! #### `group_parameters` -/

/-- first occurrences, in order -/
def dedup {α : Type} [DecidableEq α] : List α → List α
  | [] => []
  | x :: xs => x :: (dedup xs).filter (fun y => decide (y ≠ x))

/-- `unique` on defaults: values by hash class, `ConditionalDefault` objects are all distinct -/
def sameDflt : Dflt → Dflt → Bool
  | .val a, .val b => a.key == b.key
  | .empty, .empty => true
  | _, _ => false

def uniqD : List Dflt → List Dflt
  | [] => []
  | x :: xs => x :: (uniqD xs).filter (fun y => !sameDflt x y)

def insertAtom (a : String) : List String → List String
  | [] => [a]
  | b :: r => if a < b then a :: b :: r else if a = b then b :: r else b :: insertAtom a r

/-- `Union[tuple(types)]` on atom lists -/
def mergeTys (ts : List Ty) : Ty :=
  ts.foldl (fun acc t => t.foldl (fun acc' a => insertAtom a acc') acc) []

def strOfDflt : Dflt → String
  | .empty => "<class 'inspect._empty'>"
  | .val v => v.str
  | .cond s => "Conditional<ast-resolver> " ++ s

/-- `iter_to_set_str(…, sep=", ")` -/
def setStr (xs : List String) : String :=
  match xs with
  | [x] => x
  | _ => "{" ++ ", ".intercalate xs ++ "}"

def headOtuple : List Param → Bool
  | p :: _ => p.otuple
  | [] => false

/-- the body of `for params in params_dict.values()` -/
def groupOne (nonPop : Nat) (occ : List Param) : Param :=
  match occ with
  | [] => default
  | g :: _ =>
    let types := dedup ((occ.map (·.ty)).filter (fun t => decide (t ≠ [])))
    let dfl := uniqD ((occ.map (·.dflt)).filter (fun d => decide (d ≠ .empty)))
    if nonPop ≤ occ.length ∧ types.length ≤ 1 ∧ dfl.length ≤ 1 then
      { g with otuple := false }
    else
      { g with
        otuple := true,
        dflt := .cond (setStr (dfl.map strOfDflt ++ (if occ.length < nonPop then ["NOT_ACCEPTED"] else []))),
        ty := if 1 < types.length then mergeTys types else g.ty }

def group (lists : List (Bool × List Param)) : Out :=
  match lists with
  | [] => .ok []
  | [l] => .ok l.2
  | _ =>
    if lists.any (fun l => headOtuple l.2) then .crash
    else
      let nonPop := (lists.filter (fun l => !l.1)).length
      let all := lists.flatMap (·.2)
      .ok ((dedup (names all)).map (fun n => groupOne nonPop (all.filter (fun p => decide (p.name = n)))))

/-- `get_parameters` for one callable: own parameters, `**kwargs` replaced by what it can carry -/
def resolveCallable (rec : Frame → Out) (P : Prog) (wh : Where) (c : Callable) : Out :=
  if !c.varkw then .ok c.params
  else
    match collect rec P wh (liveUses c.uses) ⟨[], []⟩ with
    | .crash => .crash
    | .nofuel => .nofuel
    | .ok a =>
      match group a.lists with
      | .crash => .crash
      | .nofuel => .nofuel
      | .ok g =>
        let kw := g.filter (fun p => decide (p.name ∉ a.removed))
        .ok (c.params ++ kw.filter (fun p => decide (p.name ∉ names c.params)))

/-- the body the visitor parses for a frame, and where it stands (`component`, `parent`, `current_mro`) -/
def frameBody (P : Prog) : Frame → Option (Where × Callable)
  | .entry i =>
    match P.entries[i]? with
    | none => none
    | some (.fn c) => some (.fn, c)
    | some (.cls k) =>
      match k.init with
      | some c => some (.init i i (i :: k.mro), c)
      | none =>
        -- `inspect.getattr_static(cls, "__init__")` finds the inherited method; the visitor's parent is `cls`,
        -- the MRO context starts at index 0
        match nextInit P k.mro with
        | none => none
        | some (d, _) =>
          match P.ownInit d with
          | some c => some (.init i d (i :: k.mro), c)
          | none => none
  | .init root owner ctx =>
    match P.ownInit owner with
    | some c => some (.init root owner ctx, c)
    | none => none
  | .meth o j =>
    match P.meth? o j with
    | some c => some (.meth o, c)
    | none => none
  | .cmeth o j =>
    match P.cmeth? o j with
    | some c => some (.cmeth o, c)
    | none => none

def resolveBody (rec : Frame → Out) (P : Prog) (fr : Frame) : Out :=
  match frameBody P fr with
  | none => .ok []
  | some (wh, c) => resolveCallable rec P wh c

def resolveF : Nat → Prog → Frame → Out
  | 0, _, _ => .nofuel
  | fuel + 1, P, fr => resolveBody (resolveF fuel P) P fr

/-! ### run-time semantics (`accepts`) -/

/-- attribute lookup of `__init__` along an MRO (suffix): the first class defining it, with the
    rest of the MRO from there; `none` = `object.__init__` -/
def dispatchInit (P : Prog) : List Nat → Option (Nat × Callable × List Nat)
  | [] => none
  | d :: rest =>
    match P.ownInit d with
    | some c => some (d, c, d :: rest)
    | none => dispatchInit P rest

/-- the classes after `x` in an MRO (`super(x, self)`) -/
def mroAfter (x : Nat) : List Nat → List Nat
  | [] => []
  | d :: rest => if d = x then rest else mroAfter x rest

/-- calling entry `i` as a whole: a function, or a class (its `__init__` is looked up along its MRO) -/
def calleeEntry (P : Prog) (i : Nat) : Option (Frame × Callable) :=
  match P.entries[i]? with
  | some (.fn c) => some (.entry i, c)
  | some (.cls k) =>
    match dispatchInit P (i :: k.mro) with
    | some (_, c, _) => some (.entry i, c)
    | none => none
  | none => none

/-- the callable a call reaches at run time, as a frame plus its signature -/
def callee (P : Prog) (wh : Where) : Use → Option (Frame × Callable)
  | .superCall frm _ _ =>
    match wh with
    | .init root owner ctx =>
      let after := match frm with
        | none => mroAfter owner ctx
        | some x => mroAfter x ctx
      match dispatchInit P after with
      | some (d, c, s) => some (.init root d s, c)
      | none => none
    | _ => none
  | .call (.entry i) _ _ => calleeEntry P i
  | .call (.attrEntry i) _ _ => calleeEntry P i      -- the method/property that forwards the stored kwargs
  | .call (.classMeth c j) _ _ =>
    match P.cmeth? c j with
    | some cal => some (.cmeth c j, cal)
    | none => none
  | .call (.selfMeth j) _ _ =>
    match wh with
    | .init _ owner _ =>
      match P.meth? owner j with
      | some c => some (.meth owner j, c)
      | none => none
    | _ => none
  | .call .clsSelf _ _ =>
    match wh with
    | .cmeth owner =>
      match P.cls? owner with
      | some k =>
        match dispatchInit P (owner :: k.mro) with
        | some (_, c, _) => some (.entry owner, c)
        | none => none
      | none => none
    | _ => none
  | _ => none

/-- names bound by `k` positional arguments -/
def boundPositionally (k : Nat) (c : Callable) : List String :=
  names ((c.params.filter (fun p => p.kind = .posOrKw)).take k)

/-- a forwarding call executed while `n` is still in `kwargs` -/
def forwardOK (rec : Frame → String → Bool) (P : Prog) (wh : Where) (n : String) (u : Use)
    (k : Nat) (given : List String) : Bool :=
  if n ∈ given then false                                 -- got multiple values for keyword argument
  else
    match callee P wh u with
    | none => false                                       -- object.__init__() takes no keyword
    | some (fr, c) =>
      if n ∈ boundPositionally k c then false             -- got multiple values for argument
      else rec fr n

/-- the names popped inside the argument list of the call whose uses-list tail this is -/
def nestedPops : List Use → List String
  | .popIn m _ :: us => m :: nestedPops us
  | .get _ _ :: us => nestedPops us        -- a `kwargs.get` between them (nested or not) consumes nothing
  | _ => []

/-- execute the statements in order; `present` = `n` is still a key of `kwargs`.
    EVALUATION ORDER: Python evaluates the argument expressions of a call left to right and unpacks
    `**kwargs` (written last) after them, all BEFORE the callee binds — so the pops nested in the
    argument list (`nestedPops`, listed after the call) have consumed their names when `kwargs` is forwarded. -/
def runUses (rec : Frame → String → Bool) (P : Prog) (wh : Where) (n : String) : List Use → Bool → Bool
  | [], _ => true
  | .pop m _ :: us, present => runUses rec P wh n us (present && m != n)
  | .popIn m _ :: us, present => runUses rec P wh n us (present && m != n)
  | .get _ _ :: us, present => runUses rec P wh n us present
  | .superCall frm k given :: us, present =>
    (if present && !(nestedPops us).contains n then forwardOK rec P wh n (.superCall frm k given) k given else true)
      && runUses rec P wh n us present
  | .call t k given :: us, present =>
    (if present && !(nestedPops us).contains n then forwardOK rec P wh n (.call t k given) k given else true)
      && runUses rec P wh n us present

def branchIds : List GUse → List Nat
  | [] => []
  | g :: r =>
    match g.guard with
    | .branch i => i :: branchIds r
    | _ => branchIds r

/-- the statements executed when branch `sel` of the `if` chain is taken -/
def execUses (sel : Option Nat) (us : List GUse) : List Use :=
  (us.filter (fun g =>
    match g.guard with
    | .always => true
    | .const b => b
    | .branch i => sel == some i)).map (·.use)

/-- binding `n=` in a call of `c` -/
def runCallable (rec : Frame → String → Bool) (P : Prog) (wh : Where) (c : Callable) (n : String) : Bool :=
  if n ∈ names c.params then true
  else if !c.varkw then false                              -- unexpected keyword argument
  else
    match branchIds c.uses with
    | [] => runUses rec P wh n (execUses none c.uses) true
    | ids => ids.any (fun i => runUses rec P wh n (execUses (some i) c.uses) true)

def acceptsBody (rec : Frame → String → Bool) (P : Prog) : Frame → String → Bool
  | .entry i, n =>
    match P.entries[i]? with
    | none => false
    | some (.fn c) => runCallable rec P .fn c n
    | some (.cls k) =>
      match dispatchInit P (i :: k.mro) with
      | some (d, _, s) => rec (.init i d s) n
      | none => false                                      -- `Cls()` takes no arguments
  | .init root owner ctx, n =>
    match P.ownInit owner with
    | some c => runCallable rec P (.init root owner ctx) c n
    | none => false
  | .meth o j, n =>
    match P.meth? o j with
    | some c => runCallable rec P (.meth o) c n
    | none => false
  | .cmeth o j, n =>
    match P.cmeth? o j with
    | some c => runCallable rec P (.cmeth o) c n
    | none => false

def acceptsF : Nat → Prog → Frame → String → Bool
  | 0, _, _, _ => false
  | fuel + 1, P, fr, n => acceptsBody (acceptsF fuel P) P fr n


/-! ### which definition binds a name at run time (`binder`) -/

/-- a forwarding call executed while `n` is still in `kwargs`: the definition that receives it in the callee -/
def forwardB (rec : Frame → String → Option Param) (P : Prog) (wh : Where) (n : String) (u : Use)
    (k : Nat) (given : List String) : Option Param :=
  if n ∈ given then none
  else
    match callee P wh u with
    | none => none
    | some (fr, c) => if n ∈ boundPositionally k c then none else rec fr n

/-- the statements in execution order: the FIRST consumer of `n` — a `kwargs.pop(n, d)` (as a statement, or inside
    the argument list of a call, which is evaluated before that call binds) or the callee of a forwarding call
    executed while `n` is still a key of `kwargs`.  (`kwargs.get` consumes nothing.) -/
def runUsesB (rec : Frame → String → Option Param) (P : Prog) (wh : Where) (n : String) : List Use → Option Param
  | [] => none
  | .pop m d :: us => if m = n then some (popParam n d) else runUsesB rec P wh n us
  | .popIn m d :: us => if m = n then some (popParam n d) else runUsesB rec P wh n us
  | .get _ _ :: us => runUsesB rec P wh n us
  | .superCall frm k given :: us =>
    if (nestedPops us).contains n then runUsesB rec P wh n us
    else
      match forwardB rec P wh n (.superCall frm k given) k given with
      | some q => some q
      | none => runUsesB rec P wh n us
  | .call t k given :: us =>
    if (nestedPops us).contains n then runUsesB rec P wh n us
    else
      match forwardB rec P wh n (.call t k given) k given with
      | some q => some q
      | none => runUsesB rec P wh n us

/-- binding `n=` in a call of `c`: its own parameter of that name, else the first consumer in the branch that runs
    (the first branch of the `if` chain in which the call succeeds) -/
def runCallableB (recA : Frame → String → Bool) (rec : Frame → String → Option Param) (P : Prog) (wh : Where)
    (c : Callable) (n : String) : Option Param :=
  match c.params.find? (fun p => p.name = n) with
  | some p => some p
  | none =>
    if !c.varkw then none
    else
      match branchIds c.uses with
      | [] => runUsesB rec P wh n (execUses none c.uses)
      | ids =>
        match ids.find? (fun i => runUses recA P wh n (execUses (some i) c.uses) true) with
        | some i => runUsesB rec P wh n (execUses (some i) c.uses)
        | none => none

def binderBody (recA : Frame → String → Bool) (rec : Frame → String → Option Param) (P : Prog) : Frame → String → Option Param
  | .entry i, n =>
    match P.entries[i]? with
    | none => none
    | some (.fn c) => runCallableB recA rec P .fn c n
    | some (.cls k) =>
      match dispatchInit P (i :: k.mro) with
      | some (d, _, s) => rec (.init i d s) n
      | none => none
  | .init root owner ctx, n =>
    match P.ownInit owner with
    | some c => runCallableB recA rec P (.init root owner ctx) c n
    | none => none
  | .meth o j, n =>
    match P.meth? o j with
    | some c => runCallableB recA rec P (.meth o) c n
    | none => none
  | .cmeth o j, n =>
    match P.cmeth? o j with
    | some c => runCallableB recA rec P (.cmeth o) c n
    | none => none

def binderF : Nat → Prog → Frame → String → Option Param
  | 0, _, _, _ => none
  | fuel + 1, P, fr, n => binderBody (acceptsF fuel P) (binderF fuel P) P fr n

/-! ### fuel -/

def maxMro : List Entry → Nat
  | [] => 0
  | .cls k :: r => max k.mro.length (maxMro r)
  | .fn _ :: r => maxMro r

/-- width of one entry's band of the termination measure -/
def Prog.width (P : Prog) : Nat := maxMro P.entries + 6

/-- enough fuel for every frame of an acyclic program (number of entries × (longest MRO + 6)) -/
def Prog.bound (P : Prog) : Nat := (P.entries.length + 1) * P.width

/-- what can be asked -/
inductive CId where
  | entry (i : Nat)
  | cmeth (c j : Nat)
deriving DecidableEq, Repr

def CId.frame : CId → Frame
  | .entry i => .entry i
  | .cmeth c j => .cmeth c j

def resolveOut (P : Prog) (c : CId) : Out := resolveF P.bound P c.frame

/-- the parameters offered (`[]` when the AST resolver does not produce a result) -/
def resolve (P : Prog) (c : CId) : List Param :=
  match resolveOut P c with
  | .ok ps => ps
  | _ => []

def accepts (P : Prog) (c : CId) (n : String) : Bool := acceptsF P.bound P c.frame n

/-- the definition (a signature parameter, or a `kwargs.pop`) that binds `n=…` when `c` is called with it;
    `none`: the call is rejected, or nothing consumes the name (`**kwargs` swallowed) -/
def binder (P : Prog) (c : CId) (n : String) : Option Param :=
  if accepts P c n then binderF P.bound P c.frame n else none

/-! ### well-formed programs (the hypotheses of `C13_exact`) -/

def Use.isForward : Use → Bool
  | .superCall _ _ _ => true
  | .call _ _ _ => true
  | _ => false

def Use.given : Use → List String
  | .superCall _ _ g => g
  | .call _ _ g => g
  | _ => []

def Use.givenPos : Use → Nat
  | .superCall _ k _ => k
  | .call _ k _ => k
  | _ => 0

/-- the pops nested in the argument list of the last call: nothing else may follow -/
def takePopIns : List Use → Option (List (String × DVal))
  | [] => some []
  | .popIn n d :: us =>
    match takePopIns us with
    | some ns => some ((n, d) :: ns)
    | none => none
  | _ => none

/-- a straight-line body in the documented shape: `kwargs.pop` statements, then ONE forwarding call
    (possibly with pops nested in its argument list): (pops, call, nested pops) -/
def splitSL : List Use → Option (List (String × DVal) × Use × List (String × DVal))
  | [] => none
  | .superCall frm k g :: us =>
    match takePopIns us with
    | some ns => some ([], .superCall frm k g, ns)
    | none => none
  | .call t k g :: us =>
    match takePopIns us with
    | some ns => some ([], .call t k g, ns)
    | none => none
  | .pop n d :: us =>
    match splitSL us with
    | some (ps, f, ns) => some ((n, d) :: ps, f, ns)
    | none => none
  | _ => none

def noBranch (us : List GUse) : Bool :=
  us.all (fun g => match g.guard with
    | .branch _ => false
    | _ => true)

/-- the callable's body is outside the two open findings and uses `kwargs`:
    no `get`, no conditional chain, one forwarding call after the pops, no popped name hard-coded in it -/
def slOK (c : Callable) : Bool :=
  !c.varkw ||
    (noBranch c.uses &&
      match splitSL (liveUses c.uses) with
      | none => false
      | some (ps, f, ns) => (ps ++ ns).all (fun x => decide (x.1 ∉ f.given)))

/-- `k` hard-coded positionals fit the leading positional-or-keyword parameters of the callee -/
def posOK (k : Nat) (c : Callable) : Bool :=
  decide (k ≤ c.params.length) && (c.params.take k).all (fun p => decide (p.kind = .posOrKw))

def nodupNames (c : Callable) : Bool := decide ((names c.params).Nodup)

inductive Site where
  | fn
  | init
  | meth
  | cmeth
deriving DecidableEq, Repr

/-- which calls may appear where (callees have smaller indices: the call graph is acyclic) -/
def useOK (site : Site) (self nMeths : Nat) : Use → Bool
  | .pop _ _ => true
  | .get _ _ => true
  | .popIn _ _ => true
  | .superCall _ _ _ => site = .init
  | .call (.entry j) _ _ => decide (j < self)
  | .call (.selfMeth j) _ _ => site = .init && decide (j < nMeths)
  | .call .clsSelf _ _ => site = .cmeth
  | .call (.classMeth c _) _ _ => decide (c < self)
  | .call (.attrEntry j) _ _ => site = .init && decide (j < self)

/-- the signature a whole-entry call binds against (function, or the `__init__` found along the MRO) -/
def entrySig (P : Prog) (i : Nat) : Option Callable :=
  match P.entries[i]? with
  | some (.fn c) => some c
  | some (.cls k) =>
    match dispatchInit P (i :: k.mro) with
    | some (_, c, _) => some c
    | none => none
  | none => none

/-- hard-coded positionals of a non-`super` call fit its callee -/
def callPosOK (P : Prog) (self : Nat) (meths : List Callable) : Use → Bool
  | .call (.entry j) k _ =>
    match entrySig P j with
    | some c => posOK k c
    | none => true
  | .call (.selfMeth j) k _ =>
    match meths[j]? with
    | some c => posOK k c
    | none => true
  | .call .clsSelf k _ =>
    match entrySig P self with
    | some c => posOK k c
    | none => true
  | .call (.classMeth c j) k _ =>
    match P.cmeth? c j with
    | some cal => posOK k cal
    | none => true
  | .call (.attrEntry j) k _ =>
    match entrySig P j with
    | some c => posOK k c
    | none => true
  | _ => true

def callableOK (P : Prog) (site : Site) (self : Nat) (meths : List Callable) (c : Callable) : Bool :=
  nodupNames c && slOK c &&
    (liveUses c.uses).all (fun u => useOK site self meths.length u && callPosOK P self meths u)

/-- ordering only (what termination needs) -/
def callableAcyclic (site : Site) (self nMeths : Nat) (c : Callable) : Bool :=
  (liveUses c.uses).all (useOK site self nMeths)

/-- `super(...).__init__(p₁..p_k, …)` in `b.__init__` when the MRO continues with `t`: the positionals fit the next `__init__` -/
def ctxOK (P : Prog) : List Nat → Bool
  | [] => true
  | b :: t =>
    match P.ownInit b with
    | none => true
    | some c =>
      !c.varkw ||
        (liveUses c.uses).all (fun u =>
          match u with
          | .superCall frm k _ =>
            let after := match frm with
              | none => mroAfter b (b :: t)
              | some x => mroAfter x (b :: t)
            match dispatchInit P after with
            | some (_, c', _) => posOK k c'
            | none => true
          | _ => true)

def suffixesOK (P : Prog) : List Nat → Bool
  | [] => true
  | b :: t => ctxOK P (b :: t) && suffixesOK P t

/-- a class without own `__init__`: the inherited one forwards with plain `super()` and no more
    hard-coded positionals than it has parameters (else: open finding C13-inherited-init-positional) -/
def noInitOK (P : Prog) (k : Class) : Bool :=
  match k.init with
  | some _ => true
  | none =>
    match dispatchInit P k.mro with
    | none => true
    | some (_, c, _) =>
      !c.varkw ||
        (liveUses c.uses).all (fun u =>
          match u with
          | .superCall frm kk _ => frm.isNone && decide (kk ≤ c.params.length)
          | _ => true)

def entryOK (P : Prog) (i : Nat) : Entry → Bool
  | .fn c => callableOK P .fn i [] c
  | .cls k =>
    k.mro.all (fun m => decide (m < i)) &&
    (match k.init with
      | some c => callableOK P .init i k.meths c
      | none => true) &&
    k.meths.all (callableOK P .meth i k.meths) &&
    k.cmeths.all (callableOK P .cmeth i k.meths) &&
    suffixesOK P (i :: k.mro) && noInitOK P k

def entryAcyclic (i : Nat) : Entry → Bool
  | .fn c => callableAcyclic .fn i 0 c
  | .cls k =>
    k.mro.all (fun m => decide (m < i)) &&
    (match k.init with
      | some c => callableAcyclic .init i k.meths.length c
      | none => true) &&
    k.meths.all (callableAcyclic .meth i k.meths.length) &&
    k.cmeths.all (callableAcyclic .cmeth i k.meths.length)

def allIdx {α : Type} (f : Nat → α → Bool) : Nat → List α → Bool
  | _, [] => true
  | i, x :: xs => f i x && allIdx f (i + 1) xs

/-- callees and base classes have smaller indices -/
def Prog.acyclic (P : Prog) : Bool := allIdx entryAcyclic 0 P.entries

/-- decidable well-formedness: acyclic, every body straight-line in the documented shape
    (pops, then one forwarding call; no `get`; no popped name hard-coded), hard-coded positionals fit -/
def WfProg (P : Prog) : Bool := P.superMap.isEmpty && allIdx (entryOK P) 0 P.entries

def CId.valid (P : Prog) : CId → Bool
  | .entry i => decide (i < P.entries.length)
  | .cmeth c _ => decide (c < P.entries.length)

/-! ### where an offered parameter can come from (`C13_keeps_sig`) -/

/-- the pseudo-parameter a `kwargs.pop/get` statement defines -/
def useDefs : Use → List Param
  | .pop n d => [popParam n d]
  | .get n d => [popParam n d]
  | .popIn n d => [popParam n d]
  | _ => []

/-- the definitions of one callable: its signature and its pops/gets -/
def callableDefs (c : Callable) : List Param :=
  c.params ++ c.uses.flatMap (fun g => useDefs g.use)

def entryCallables : Entry → List Callable
  | .fn c => [c]
  | .cls k => k.init.toList ++ k.meths ++ k.cmeths

def Prog.callables (P : Prog) : List Callable := P.entries.flatMap entryCallables

/-- every definition of a named parameter in the program -/
def Prog.defs (P : Prog) : List Param := P.callables.flatMap callableDefs

def Dflt.isCond : Dflt → Bool
  | .cond _ => true
  | _ => false

/-- `p` carries the name, type, default and kind of the definition `q` -/
def sameSig (p q : Param) : Prop :=
  q.name = p.name ∧ q.ty = p.ty ∧ q.dflt = p.dflt ∧ q.kind = p.kind

/-! ### no clash between a popped name and another definition (`C13_no_crash`) -/

def usePops : Use → List (String × DVal)
  | .pop n d => [(n, d)]
  | .get n d => [(n, d)]
  | .popIn n d => [(n, d)]
  | _ => []

/-- every `kwargs.pop/get(name, default)` of the program -/
def Prog.pops (P : Prog) : List (String × DVal) :=
  P.callables.flatMap (fun c => c.uses.flatMap (fun g => usePops g.use))

/-- `unique` sees the default of a definition and the pop default `d` as one value (or there is no default) -/
def dfltAgrees (d : DVal) : Dflt → Bool
  | .empty => true
  | .val v => v.key == d.key
  | .cond _ => false

/-- decidable: wherever a popped name is also defined (a parameter of any callable, another pop) the
    defaults agree — then `group_parameters` never builds a `Conditional` parameter on straight-line
    bodies; and the program text itself holds no `Conditional` default / tuple origin -/
def noPopClash (P : Prog) : Bool :=
  P.pops.all (fun x => P.defs.all (fun q => q.name != x.1 || dfltAgrees x.2 q.dflt)) &&
  P.defs.all (fun q => !q.otuple && !q.dflt.isCond) &&
  -- (pops nested in argument lists are covered by `C13_exact`, not by this syntactic shortcut)
  P.callables.all (fun c => c.uses.all (fun g => match g.use with
    | .popIn _ _ => false
    | _ => true))

end Jap.Resolver

/-
C01, composition: the plain values of the adapter model (`Jap.Adapt.Val`, outputs of `ser`) embedded into the
document values `V` of the emitter / loader models, and read back.  The text of an int / float scalar and its
reading (PyYAML `represent_int` / `represent_float`, `construct_yaml_int` / `construct_yaml_float`; `json.dumps`
number texts) are a parameter `Codec`; its round-trip law is required only for the numbers that occur (`lawsOn`).
-/
import Jap.Core.Ty
import Jap.Core.JsonDoc

namespace Jap.Scalar
open Jap.Adapt (Val DKey)

structure Codec where
  intText : Int → List Char
  fltText : String → List Char
  readInt : List Char → Option Int
  readFlt : List Char → Option String

def keySc (C : Codec) : DKey → Sc
  | .str s => ⟨.str, s.toList⟩
  | .int i => ⟨.int, C.intText i⟩

mutual
/-- total on the plain values (null, bool, int, float, str, list, dict); tuple / set / Enum member / object are not
plain: `ser` never returns them at the top of the sub-grammar -/
def toV (C : Codec) : Val → Option V
  | .null => some (.sc ⟨.null, ['n', 'u', 'l', 'l']⟩)
  | .bool b => some (.sc ⟨.bool, if b then ['t', 'r', 'u', 'e'] else ['f', 'a', 'l', 's', 'e']⟩)
  | .int i => some (.sc ⟨.int, C.intText i⟩)
  | .flt r => some (.sc ⟨.float, C.fltText r⟩)
  | .str s => some (.sc ⟨.str, s.toList⟩)
  | .list xs => (toVL C xs).map .list
  | .dict kvs => (toKV C kvs).map .dict
  | .tuple _ => none
  | .set _ => none
  | .enum _ _ => none
  | .obj _ _ => none
def toVL (C : Codec) : List Val → Option VL
  | [] => some .nil
  | x :: xs =>
    match toV C x, toVL C xs with
    | some a, some b => some (.cons a b)
    | _, _ => none
def toKV (C : Codec) : List (DKey × Val) → Option KVL
  | [] => some .nil
  | (k, v) :: r =>
    match toV C v, toKV C r with
    | some a, some b => some (.cons (keySc C k) a b)
    | _, _ => none
end

def keyOf (C : Codec) (s : Sc) : Option DKey :=
  match s.tag with
  | .str => some (.str (String.ofList s.text))
  | .int => (C.readInt s.text).map .int
  | _ => none

def scVal (C : Codec) (s : Sc) : Option Val :=
  match s.tag with
  | .str => some (.str (String.ofList s.text))
  | .null => some .null
  | .bool =>
    if s.text = ['t', 'r', 'u', 'e'] then some (.bool true)
    else if s.text = ['f', 'a', 'l', 's', 'e'] then some (.bool false) else none
  | .int => (C.readInt s.text).map .int
  | .float => (C.readFlt s.text).map .flt
  | .other _ => none

mutual
/-- the Python value the constructors build from a loaded document -/
def ofV (C : Codec) : V → Option Val
  | .sc s => scVal C s
  | .list xs => (ofVL C xs).map .list
  | .dict kvs => (ofKV C kvs).map .dict
def ofVL (C : Codec) : VL → Option (List Val)
  | .nil => some []
  | .cons x xs =>
    match ofV C x, ofVL C xs with
    | some a, some b => some (a :: b)
    | _, _ => none
def ofKV (C : Codec) : KVL → Option (List (DKey × Val))
  | .nil => some []
  | .cons k v r =>
    match keyOf C k, ofV C v, ofKV C r with
    | some a, some b, some c => some ((a, b) :: c)
    | _, _, _ => none
end

def keyLaw (C : Codec) : DKey → Bool
  | .str _ => true
  | .int i => decide (C.readInt (C.intText i) = some i)

mutual
/-- the codec reads back every number that occurs in the value -/
def lawsOn (C : Codec) : Val → Bool
  | .int i => decide (C.readInt (C.intText i) = some i)
  | .flt r => decide (C.readFlt (C.fltText r) = some r)
  | .list xs => lawsOnL C xs
  | .dict kvs => lawsOnKV C kvs
  | _ => true
def lawsOnL (C : Codec) : List Val → Bool
  | [] => true
  | x :: xs => lawsOn C x && lawsOnL C xs
def lawsOnKV (C : Codec) : List (DKey × Val) → Bool
  | [] => true
  | (k, v) :: r => keyLaw C k && lawsOn C v && lawsOnKV C r
end

end Jap.Scalar

/-
E6 "PathMode" — model of `jsonargparse._util.Path` (local file-system branch),
`Path._check_mode`, and the `change_to_path_dir` bracket used while config
files are loaded (`parse_path`, `_ActionConfigLoad`, `ActionTypeHint._check_type`,
`get_defaults`).  A transcription of the code as it is, in source order.
Imports nothing beyond core Lean.  The flag table of `_check_mode` is a
parameter (`FlagTable`); the instance used by the driver and by the theorems is
regenerated from the source into `Jap.Gen.PathFlags`.

Outside the model: URL / fsspec paths (flags `u`, `s` are carried in `Mode` but
only matter for paths that contain "://"), Windows, `skip_check`, races between
two probes of the file system (the facts are one consistent snapshot).
Paths are `List Char` (the driver converts from/to `String`).
-/
namespace Jap.PathMode

abbrev P := List Char

/-! ### `Path._check_mode` -/

/-- what `_check_mode` tests: the allowed characters, the maximal number of
occurrences of a flag (1 when not listed), the pairs that exclude each other -/
structure FlagTable where
  alphabet : List Char
  maxCount : List (Char × Nat)
  excl : List (Char × Char)
deriving Repr

def maxOf (t : FlagTable) (c : Char) : Nat :=
  match t.maxCount.lookup c with
  | some n => n
  | none => 1

/-- `_check_mode` raises `ValueError` iff this is `false` -/
def checkModeL (t : FlagTable) (s : List Char) : Bool :=
  s.all (fun c => t.alphabet.contains c) &&
  s.all (fun c => decide (s.count c ≤ maxOf t c)) &&
  t.excl.all (fun p => !(s.contains p.1 && s.contains p.2))

def checkMode (t : FlagTable) (s : String) : Bool := checkModeL t s.toList

/-- the tests `Path.__init__` makes on the mode string are `"x" in mode` and
`mode.count("c")`: the mode is used as a multiset of flags -/
structure Mode where
  (f d r w x F D R W X u s : Bool)
  c : Nat
deriving DecidableEq, Repr

def Mode.ofList (l : List Char) : Mode :=
  { f := l.contains 'f', d := l.contains 'd', r := l.contains 'r', w := l.contains 'w', x := l.contains 'x',
    F := l.contains 'F', D := l.contains 'D', R := l.contains 'R', W := l.contains 'W', X := l.contains 'X',
    u := l.contains 'u', s := l.contains 's', c := l.count 'c' }

def Mode.ofString (s : String) : Mode := Mode.ofList s.toList

/-- the structural consequences of `_check_mode` that `__init__` relies on -/
def ValidMode (m : Mode) : Prop :=
  m.c ≤ 2 ∧ ¬ (m.f = true ∧ m.d = true) ∧ ¬ (m.u = true ∧ m.d = true) ∧ ¬ (m.s = true ∧ m.d = true)

instance (m : Mode) : Decidable (ValidMode m) := by unfold ValidMode; infer_instance

/-! ### the file-system facts `Path.__init__` looks at -/

/-- one consistent snapshot of what the process can see of `abs_path`.
`par` is `realpath(abs_path/..)`; `near` is what the `cc` loop finds: the first
of `par`, `par/..`, … that exists (`os.access(·, F_OK)`), whatever its kind —
the docstring's "allowed to create". -/
structure Facts where
  ex : Bool        -- os.access(abs_path, F_OK)
  statOk : Bool    -- os.stat(abs_path) does not raise
  isDir : Bool     -- os.path.isdir
  isFile : Bool    -- os.path.isfile
  isFifo : Bool    -- stat succeeds and S_ISFIFO
  r : Bool         -- os.access R_OK
  w : Bool         -- os.access W_OK
  x : Bool         -- os.access X_OK
  parDir : Bool    -- os.path.isdir(par)
  parW : Bool      -- os.access(par, W_OK)
  nearDir : Bool   -- the nearest existing ancestor is a directory
  nearW : Bool     -- os.access(near, W_OK)
deriving DecidableEq, Repr

/-- what every snapshot of a POSIX file system satisfies (checked on every
fixture entry by the harness) -/
def Facts.wf (a : Facts) : Prop :=
  a.statOk = a.ex ∧
  (a.isDir = true → a.ex = true) ∧ (a.isFile = true → a.ex = true) ∧ (a.isFifo = true → a.ex = true) ∧
  ¬ (a.isDir = true ∧ a.isFile = true) ∧ ¬ (a.isDir = true ∧ a.isFifo = true) ∧ ¬ (a.isFile = true ∧ a.isFifo = true) ∧
  (a.r = true → a.ex = true) ∧ (a.w = true → a.ex = true) ∧ (a.x = true → a.ex = true) ∧
  (a.ex = true → a.parDir = true) ∧
  (a.parDir = true → a.nearDir = true ∧ a.nearW = a.parW)

instance (a : Facts) : Decidable a.wf := by unfold Facts.wf; infer_instance

/-- result of the constructor: `pathError k` is `PathError` raised by the k-th
`raise` statement of the local branch (numbered in source order); `osError` is
an `OSError` escaping from an unguarded `os.stat` -/
inductive Out
  | ok
  | pathError (k : Nat)
  | osError
deriving DecidableEq, Repr

/-- `Path.__init__`, local branch, in source order: (condition under which the
statement raises, what is raised).  The first condition that holds decides. -/
def checks (m : Mode) (a : Facts) : List (Bool × Out) :=
  (if m.c > 0 then
     [ (!(a.parDir || (m.c == 2 && a.nearDir)), .pathError 1),           -- not creatable since parent directory does not exist
       (!(if a.parDir then a.parW else a.nearW), .pathError 2),          -- not creatable since parent directory not writeable
       (m.d && a.ex && !a.isDir, .pathError 3),                          -- not creatable since path already exists
       (m.f && a.ex && !(a.isFile || a.isFifo), .pathError 4) ]          -- not creatable since path already exists (`is_fifo`)
   else if m.d || m.f then
     [ (!a.ex, .pathError 5),                                            -- does not exist
       (m.d && !a.isDir, .pathError 6),                                  -- is not a directory
       (m.f && !a.isFile && !a.statOk, .osError),                        -- `os.stat` in the `f` test is not guarded
       (m.f && !(a.isFile || a.isFifo), .pathError 7) ]                  -- is not a file
   else []) ++
  [ (m.r && !a.r, .pathError 8), (m.w && !a.w, .pathError 9), (m.x && !a.x, .pathError 10),
    (m.D && a.isDir, .pathError 11),
    (m.F && (a.isFile || a.isFifo), .pathError 12),                      -- `is_fifo` catches OSError
    (m.R && a.r, .pathError 13), (m.W && a.w, .pathError 14), (m.X && a.x, .pathError 15) ]

def firstRaise : List (Bool × Out) → Out
  | [] => .ok
  | (b, o) :: rest => if b then o else firstRaise rest

def checkPath (m : Mode) (a : Facts) : Out := firstRaise (checks m a)

/-! ### absolute / relative bookkeeping -/

/-- `os.path.isabs` (posix) -/
def isAbs : P → Bool
  | '/' :: _ => true
  | _ => false

/-- `os.path.join a b` (posix, two arguments) -/
def join (a b : P) : P :=
  if isAbs b then b
  else if a = [] ∨ a.getLast? = some '/' then a ++ b
  else a ++ '/' :: b

/-- `Path._file_scheme.sub("/", ·)` with `_file_scheme = ^file:///?` -/
def stripFileScheme : P → P
  | 'f' :: 'i' :: 'l' :: 'e' :: ':' :: '/' :: '/' :: '/' :: rest => '/' :: rest
  | 'f' :: 'i' :: 'l' :: 'e' :: ':' :: '/' :: '/' :: rest => '/' :: rest
  | p => p

structure PathObj where
  relative : P
  absolute : P
  cwd : P
deriving DecidableEq, Repr

/-- the bookkeeping part of `Path.__init__(path, mode, cwd=None)` for a `str`
path without "://": `expanded` is `os.path.expanduser(path)` (an oracle),
`cwd` is `os.getcwd()` -/
def mkPath (path expanded cwd : P) : PathObj :=
  let e := stripFileScheme expanded
  { relative := path, absolute := if isAbs e then e else join cwd e, cwd := cwd }

/-- the whole constructor: `"-"` (standard input/output) skips every check -/
def construct (m : Mode) (path expanded cwd : P) (a : Facts) : Out × PathObj :=
  (if path = ['-'] then .ok else checkPath m a, mkPath path expanded cwd)

/-! ### `os.path.dirname`, `os.path.abspath` on absolute paths -/

def splitSlashAux : P → P → List P
  | cur, [] => [cur.reverse]
  | cur, c :: rest => if c = '/' then cur.reverse :: splitSlashAux [] rest else splitSlashAux (c :: cur) rest

/-- `p.split('/')` -/
def splitSlash (p : P) : List P := splitSlashAux [] p

def dropTrailingSlashes (p : P) : P := (p.reverse.dropWhile (· = '/')).reverse

/-- `posixpath.dirname` -/
def dirname (p : P) : P :=
  let head := (p.reverse.dropWhile (· ≠ '/')).reverse      -- p[: p.rfind('/') + 1]
  if head.all (· = '/') then head else dropTrailingSlashes head

def normSegs : List P → List P → List P
  | acc, [] => acc.reverse
  | acc, s :: rest =>
    if s = [] ∨ s = ['.'] then normSegs acc rest
    else if s = ['.', '.'] then normSegs (acc.drop 1) rest
    else normSegs (s :: acc) rest

def joinSegs : List P → P
  | [] => []
  | s :: rest => '/' :: s ++ joinSegs rest

/-- `posixpath.normpath` of an absolute path (not starting with exactly two slashes) -/
def normAbs (p : P) : P :=
  match joinSegs (normSegs [] (splitSlash p)) with
  | [] => ['/']
  | q => q

/-! ### nested config loading with the `change_to_path_dir` bracket -/

inductive Item where
  | path (rel : P)                          -- a path-typed value spelled `rel` inside the current config
  | sub (ref : P) (items : List Item)       -- a value that names another config file, loaded in place
  | listFile (ref : P) (rels : List P)      -- a `List[Path]` value that names a file with one path per line (`enable_path`)
  | subObj (ref rem : P) (isDir : Bool) (items : List Item)
      -- a config file (or, `isDir`, a directory) handed over as a `Path` OBJECT that was created from spelling `ref`
      -- while `rem` was the working directory (explicit `cwd=rem`, or the process was there and has moved since):
      -- `parse_path(obj)`, `ActionConfigFile.apply_config(…, obj)`, `obj.relative_path_context()`
  | fail                                    -- anything that makes the parse raise here
deriving Repr

structure Load where
  ref : P
  items : List Item
deriving Repr

/-- process-global state the bracket touches.  `cwd` is the PROCESS working
directory; it must not be confused with the directory a `Path` object remembers
(`PathObj.cwd`, the `rem` of `Item.subObj`, `Resolved.base` of the object's own
record): the two differ as soon as an object outlives an `os.chdir` or was
created with `cwd=`. -/
structure St where
  cwd : P                     -- os.getcwd()
  cpd : Option P              -- the context variable `current_path_dir`
deriving DecidableEq, Repr

/-- one resolved path value (for `sub`: the config file itself, as recorded under `__path__`) -/
structure Resolved where
  rel : P
  abs : P
  base : P                    -- os.getcwd() when the value was resolved
deriving DecidableEq, Repr

structure Res where
  ok : Bool                   -- false: an exception propagates
  trace : List Resolved
  st : St
deriving DecidableEq, Repr

def resolve (rel base : P) : Resolved := ⟨rel, (mkPath rel rel base).absolute, base⟩

/-- directory a config file spelled `ref` stands in, seen from directory `base`
(`os.path.dirname(Path(ref).absolute)`): the directory the file is NAMED in.
The rule is lexical — `.absolute` is never passed through `realpath` — so it
also holds for a config file that is a symbolic link to a file elsewhere;
only the DIRECTORIES on the way are assumed not to be symlinks (`normAbs`). -/
def cfgDir (base ref : P) : P := dirname (mkPath ref ref base).absolute

/-- directory entered for a `Path` object: `path.absolute` when the mode has `d`,
else `os.path.dirname(path.absolute)`; `path.cwd` (= `rem`) only served, at
creation, to compute `absolute` -/
def objDir (ref rem : P) (isDir : Bool) : P :=
  if isDir then (mkPath ref ref rem).absolute else dirname (mkPath ref ref rem).absolute

/-- `change_to_path_dir(path).__enter__`: remember the context variable and the
working directory, set both (`os.chdir(os.path.abspath(path_dir))`).  The
process always moves to the file's directory: the code makes no "already
there" test at all, neither against the process cwd `_s.cwd` (where it would be
harmless) nor against the directory the object remembers (where it would be wrong). -/
def enter (_s : St) (dir : P) : St := { cwd := normAbs dir, cpd := some dir }

/-- the `finally:` of `change_to_path_dir`: `current_path_dir.reset(token)`,
`os.chdir(saved)`; runs whether or not the body raised -/
def leave (saved : St) (_inner : St) : St := { cwd := saved.cwd, cpd := saved.cpd }

/-- `ActionTypeHint._check_type` on a list file: the file is found and read as
one string (`parse_value_or_config`), which is not a list; the retry then hands
the *original spelling* to `adapt_typehints` inside `change_to_path_dir(file)`,
where it is resolved a second time.  It names the same file again iff it is
absolute or has no directory part.  Assumptions (guaranteed by the harness
fixture): no symlinks, nothing else lives at the second location, and the
spelling climbs (`..`) only through directories that exist, so that the lexical
`normAbs` agrees with the kernel's resolution. -/
def listRefStable (base ref : P) : Bool :=
  normAbs (mkPath ref ref (normAbs (cfgDir base ref))).absolute == normAbs (mkPath ref ref base).absolute

mutual
def runItem : Item → St → Res
  | .path rel, s => ⟨true, [resolve rel s.cwd], s⟩
  | .fail, s => ⟨false, [], s⟩
  | .listFile ref rels, s =>
    let s' := enter s (cfgDir s.cwd ref)
    if listRefStable s.cwd ref then ⟨true, rels.map (fun rel => resolve rel s'.cwd), leave s s'⟩
    else ⟨false, [], leave s s'⟩
  | .sub ref items, s =>
    let r := runItems items (enter s (cfgDir s.cwd ref))
    ⟨r.ok, resolve ref s.cwd :: r.trace, leave s r.st⟩
  | .subObj ref rem isDir items, s =>
    let r := runItems items (enter s (objDir ref rem isDir))
    ⟨r.ok, resolve ref rem :: r.trace, leave s r.st⟩
def runItems : List Item → St → Res
  | [], s => ⟨true, [], s⟩
  | i :: rest, s =>
    let r := runItem i s
    if r.ok then
      let r' := runItems rest r.st
      ⟨r'.ok, r.trace ++ r'.trace, r'.st⟩
    else r
end

def runLoad (l : Load) (s : St) : Res := runItem (.sub l.ref l.items) s

/-! the static reading of the property: every path value belongs to the
directory of its innermost enclosing config file; no state is threaded -/
mutual
def specItem : P → Item → List Resolved
  | base, .path rel => [resolve rel base]
  | _, .fail => []
  | base, .listFile ref rels => rels.map (fun rel => resolve rel (normAbs (cfgDir base ref)))
  | base, .sub ref items => resolve ref base :: specItems (normAbs (cfgDir base ref)) items
  | _, .subObj ref rem isDir items => resolve ref rem :: specItems (normAbs (objDir ref rem isDir)) items
def specItems : P → List Item → List Resolved
  | _, [] => []
  | base, i :: rest => specItem base i ++ specItems base rest
end

mutual
def noFailItem : Item → Bool
  | .path _ => true
  | .fail => false
  | .listFile _ _ => true
  | .sub _ items => noFailItems items
  | .subObj _ _ _ items => noFailItems items
def noFailItems : List Item → Bool
  | [] => true
  | i :: rest => noFailItem i && noFailItems rest
end

/-! every list file of the program is named by a spelling that survives the second resolution -/
mutual
def stableItem : P → Item → Bool
  | _, .path _ => true
  | _, .fail => true
  | base, .listFile ref _ => listRefStable base ref
  | base, .sub ref items => stableItems (normAbs (cfgDir base ref)) items
  | _, .subObj ref rem isDir items => stableItems (normAbs (objDir ref rem isDir)) items
def stableItems : P → List Item → Bool
  | _, [] => true
  | base, i :: rest => stableItem base i && stableItems base rest
end

end Jap.PathMode

/-
E6 "PathMode", second half — the `change_to_path_dir` bracket over a FILE-SYSTEM
model with symbolic links.

`Jap.Core.PathMode` treats the working directory as a string and assumes that no
directory on the way to a config file is a symbolic link.  Here the kernel's
side is explicit:

* a file system is an automaton on PHYSICAL directories (`FS.step d name`: the
  directory reached from `d` by one path component — a sub-directory, `..`, or a
  symbolic link to a directory, already followed), `FS.phys d` is what
  `os.getcwd()` answers while the process is in `d`;
* `os.chdir(p)`, `open(p)` resolve the STRING `p` component by component
  (`walk`); `os.path.abspath`, `os.path.dirname`, `os.path.join` are the lexical
  string functions of `Jap.Core.PathMode`;
* `change_to_path_dir` is transcribed statement by statement (`Bracket`): since
  commit 6e92c59 it hands the UN-normalised directory string to the kernel
  (`os.chdir`) inside the `try` (`newBracket`); before, it set `current_path_dir`
  before the `try` and normalised LEXICALLY (`os.path.abspath`) first, landing
  elsewhere than the kernel would for `link/..`, or failing (`oldBracket`, kept
  as the regression record of repaired finding F30).

Imports nothing beyond core Lean and `Jap.Core.PathMode`.
-/
import Jap.Core.PathMode

namespace Jap.PathMode

/-- the kernel's view of the directory tree, symbolic links included -/
structure FS (D : Type) where
  root : D
  step : D → P → Option D
  phys : D → P

variable {D : Type}

/-- kernel resolution of a sequence of components from a directory: empty
components (`a//b`, a leading `/`) and `.` stay, everything else — `..`
included — is the file system's business -/
def walk (fs : FS D) : D → List P → Option D
  | d, [] => some d
  | d, s :: rest =>
    if s = [] ∨ s = ['.'] then walk fs d rest
    else match fs.step d s with
      | some d' => walk fs d' rest
      | none => none

/-- `os.chdir(p)` / the directory the kernel reaches for an ABSOLUTE string `p` -/
def resolveAbs (fs : FS D) (p : P) : Option D := walk fs fs.root (splitSlash p)

/-- `os.getcwd()` names the directory the process is in -/
def FS.Lawful (fs : FS D) : Prop := ∀ d, isAbs (fs.phys d) = true ∧ resolveAbs fs (fs.phys d) = some d

/-- no directory is reached through a symbolic link: the parent of whatever a
name leads to is where the name was looked up -/
def FS.TreeLike (fs : FS D) : Prop :=
  fs.step fs.root ['.', '.'] = some fs.root ∧
  ∀ d s d', fs.step d s = some d' → s ≠ ['.', '.'] → fs.step d' ['.', '.'] = some d

structure StF (D : Type) where
  cwd : D                     -- the directory the process is in
  cpd : Option P              -- the context variable `current_path_dir`
deriving DecidableEq, Repr

structure ResF (D : Type) where
  ok : Bool
  trace : List Resolved
  st : StF D
deriving DecidableEq, Repr

/-- `Path(ref).absolute` for a spelling given while the process is in `d` -/
def absIn (fs : FS D) (d : D) (ref : P) : P := (mkPath ref ref (fs.phys d)).absolute

/-- the directory a file spelled `ref` from directory `d` REALLY stands in: where
the kernel goes for `dirname(absolute)` (for a file that is a symbolic link: the
directory of the link) -/
def trueDir (fs : FS D) (d : D) (ref : P) : Option D := resolveAbs fs (dirname (absIn fs d ref))

/-- how a version of `change_to_path_dir` enters a directory string and what state an `os.chdir` failure leaves behind -/
structure Bracket (D : Type) where
  enter : FS D → P → Option (StF D)
  onFail : StF D → P → StF D

/-- `change_to_path_dir.__enter__` (since commit 6e92c59) for directory string `dir`:
`token = current_path_dir.set(dir)`; inside the `try`: `os.chdir(dir)` — the UN-normalised string, resolved by the
kernel like the file itself; `os.path.abspath` only shapes the yielded value.  `none`: `os.chdir` raises. -/
def enterF (fs : FS D) (dir : P) : Option (StF D) :=
  match resolveAbs fs dir with
  | some d => some ⟨d, some dir⟩
  | none => none

/-- … and then the `finally` runs: `current_path_dir.reset(token)`, `os.chdir(prev_cwd)` to where the process still is: the state before -/
def newBracket : Bracket D := ⟨enterF, fun s _ => s⟩

/-- the bracket BEFORE commit 6e92c59 (regression record of repaired finding F30):
`token = current_path_dir.set(dir)`; `os.chdir(os.path.abspath(dir))`, both before the `try` -/
def oldEnterF (fs : FS D) (dir : P) : Option (StF D) :=
  match resolveAbs fs (normAbs dir) with
  | some d => some ⟨d, some dir⟩
  | none => none

/-- state in which the `OSError` of a failed `os.chdir` left the old bracket: the
working directory has not moved, the context variable has been set and is not reset -/
def leaked (s : StF D) (dir : P) : StF D := ⟨s.cwd, some dir⟩

def oldBracket : Bracket D := ⟨oldEnterF, leaked⟩

mutual
def runItemG [DecidableEq D] (b : Bracket D) (fs : FS D) : Item → StF D → ResF D
  | .path rel, s => ⟨true, [resolve rel (fs.phys s.cwd)], s⟩
  | .fail, s => ⟨false, [], s⟩
  | .sub ref items, s =>
    let dir := dirname (absIn fs s.cwd ref)
    match resolveAbs fs dir with
    | none => ⟨false, [], s⟩                                   -- `Path(ref, "fr")` raises: there is no such file
    | some _ =>
      match b.enter fs dir with
      | none => ⟨false, [], b.onFail s dir⟩
      | some s' =>
        let r := runItemsG b fs items s'
        ⟨r.ok, resolve ref (fs.phys s.cwd) :: r.trace, s⟩       -- `finally`: reset(token), chdir back
  | .subObj ref rem isDir items, s =>
    let dir := objDir ref rem isDir
    match resolveAbs fs dir with
    | none => ⟨false, [], s⟩
    | some _ =>
      match b.enter fs dir with
      | none => ⟨false, [], b.onFail s dir⟩
      | some s' =>
        let r := runItemsG b fs items s'
        ⟨r.ok, resolve ref rem :: r.trace, s⟩
  | .listFile ref rels, s =>
    -- `_check_type`: bracket of the list file; inside, the ORIGINAL SPELLING is resolved a second time
    -- (`adapt_typehints(orig_val)` → `Path(val)`), and every line is resolved inside the bracket of THAT path
    let dir1 := dirname (absIn fs s.cwd ref)
    match resolveAbs fs dir1 with
    | none => ⟨false, [], s⟩
    | some d1 =>
      match b.enter fs dir1 with
      | none => ⟨false, [], b.onFail s dir1⟩
      | some s1 =>
        let dir2 := dirname (absIn fs s1.cwd ref)
        if resolveAbs fs dir2 = some d1 then
          match b.enter fs dir2 with
          | none => ⟨false, [], s⟩                              -- the outer bracket's `finally` restores whatever the inner one left
          | some s2 => ⟨true, rels.map (fun rel => resolve rel (fs.phys s2.cwd)), s⟩
        else ⟨false, [], s⟩                                     -- names another (assumed: no) file now
def runItemsG [DecidableEq D] (b : Bracket D) (fs : FS D) : List Item → StF D → ResF D
  | [], s => ⟨true, [], s⟩
  | i :: rest, s =>
    let r := runItemG b fs i s
    if r.ok then
      let r' := runItemsG b fs rest r.st
      ⟨r'.ok, r.trace ++ r'.trace, r'.st⟩
    else r
end

/-- the loader as it is now -/
abbrev runItemF [DecidableEq D] (fs : FS D) : Item → StF D → ResF D := runItemG newBracket fs
abbrev runItemsF [DecidableEq D] (fs : FS D) : List Item → StF D → ResF D := runItemsG newBracket fs

/-! the static reading of the property over the file system: every path value
belongs to the directory in which the kernel finds the file that spells it -/
mutual
def specItemF (fs : FS D) : D → Item → List Resolved
  | d, .path rel => [resolve rel (fs.phys d)]
  | _, .fail => []
  | d, .listFile ref rels =>
    match trueDir fs d ref with
    | some d1 => rels.map (fun rel => resolve rel (fs.phys d1))
    | none => []
  | d, .sub ref items =>
    match trueDir fs d ref with
    | some d1 => resolve ref (fs.phys d) :: specItemsF fs d1 items
    | none => []
  | _, .subObj ref rem isDir items =>
    match resolveAbs fs (objDir ref rem isDir) with
    | some d1 => resolve ref rem :: specItemsF fs d1 items
    | none => []
def specItemsF (fs : FS D) : D → List Item → List Resolved
  | _, [] => []
  | d, i :: rest => specItemF fs d i ++ specItemsF fs d rest
end

/-- the lexical normalisation of `os.path.abspath` does not change where the kernel goes -/
def lexOK [DecidableEq D] (fs : FS D) (dir : P) : Bool :=
  decide (resolveAbs fs (normAbs dir) = resolveAbs fs dir)

/-! every file the program enters exists (the kernel reaches the directory it is spelled in) and every list
file is the same file when its spelling is resolved a second time -/
mutual
def existItemF [DecidableEq D] (fs : FS D) : D → Item → Bool
  | _, .path _ => true
  | _, .fail => true
  | d, .listFile ref _ =>
    match trueDir fs d ref with
    | some d1 => decide (trueDir fs d1 ref = some d1)
    | none => false
  | d, .sub ref items =>
    match trueDir fs d ref with
    | some d1 => existItemsF fs d1 items
    | none => false
  | _, .subObj ref rem isDir items =>
    match resolveAbs fs (objDir ref rem isDir) with
    | some d1 => existItemsF fs d1 items
    | none => false
def existItemsF [DecidableEq D] (fs : FS D) : D → List Item → Bool
  | _, [] => true
  | d, i :: rest => existItemF fs d i && existItemsF fs d rest
end

/-- no bracketed file of the program is spelled with a `..` component (spellings and remembered directories) -/
def noDotDot (p : P) : Bool := !(splitSlash p).contains ['.', '.']

/-! ### a file system given by a finite table (driver, examples) -/

structure TableFS where
  names : List P                       -- `phys` of directory k; directory 0 is the root
  edges : List (Nat × P × Nat)         -- (from, component, to)

def TableFS.stepT (t : TableFS) (d : Nat) (s : P) : Option Nat :=
  match t.edges.find? (fun e => e.1 == d && e.2.1 == s) with
  | some e => some e.2.2
  | none => none

def TableFS.toFS (t : TableFS) : FS Nat :=
  { root := 0, step := t.stepT, phys := fun d => (t.names[d]?).getD ['/'] }

/-! ### `Path(x, mode)` given a `Path` object -/

/-- what the constructor is given: a spelling (`str`, `os.PathLike`) or a `Path` object -/
inductive PathArg where
  | spelling (path expanded : P)
  | obj (o : PathObj)

/-- bookkeeping of `Path.__init__(arg, mode, cwd=cwdArg)` while `os.getcwd()` is `osCwd`:
an object hands over its three fields, whatever `cwd=` and the process say -/
def mkPathArg (arg : PathArg) (cwdArg : Option P) (osCwd : P) : PathObj :=
  match arg with
  | .obj o => o
  | .spelling path expanded => mkPath path expanded (match cwdArg with | some c => if c = [] then osCwd else c | none => osCwd)

/-! ### `ActionTypeHint._check_type` for a path-typed argument given a string -/

inductive TypedOut
  | path        -- a `Path` object: the string satisfies the mode here
  | str         -- the plain string is returned
  | reject
deriving DecidableEq, Repr

/-- first `adapt_typehints(val, …)`; when it raises, the retry `adapt_typehints(orig_val, …, default=self.default)`,
which starts with `if type(val) in {str, …} and val == default: return val`.  `dflt` is the spelling by which the
argument's default compares to a `str` (`Path.__eq__(str)` compares `str(self)`, the spelling — not the location;
a `str` default compares by itself), `none` when the default is not comparable to a string. -/
def checkTypePath (sat : Bool) (v : P) (dflt : Option P) : TypedOut :=
  if sat then .path
  else match dflt with
    | some d => if v = d then .str else .reject
    | none => .reject

end Jap.PathMode

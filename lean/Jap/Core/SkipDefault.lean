/-
Engine "Scalar", part 5 (C01): `dump(skip_default=True)`.  `delKV` is `ArgumentParser._dump_delete_default_entries`
on plain nested dicts (the branch for subclass specs — dicts with a `class_path` — is not modelled: C12/C14);
`reparse` is what parsing the reduced dump gives back: below a group (nested namespace) the dump is merged into the
defaults key by key, at a leaf (an argument, whatever its type — also a dict-typed one) the dumped value REPLACES the
default, an absent entry keeps the default.
-/
import Jap.Core.YamlDoc

namespace Jap.Scalar

def lookupK (k : Sc) : KVL → Option V
  | .nil => none
  | .cons k' v r => if k' = k then some v else lookupK k r

mutual
/-- the recursive call `self._dump_delete_default_entries(val, default)` when both are dicts, else the value itself -/
def delVal : V → V → V
  | .dict c, dv =>
    match dv with
    | .dict dd => .dict (delKV c dd)
    | _ => .dict c
  | .sc s, _ => .sc s
  | .list xs, _ => .list xs
/-- `for key in list(subcfg.keys()): if key in subdefaults: if val == default: del subcfg[key] elif both dicts: recurse` -/
def delKV : KVL → KVL → KVL
  | .nil, _ => .nil
  | .cons k v r, d =>
    match lookupK k d with
    | none => .cons k v (delKV r d)
    | some dv => if v = dv then delKV r d else .cons k (delVal v dv) (delKV r d)
end

mutual
/-- the parser's structure: an argument, or a group of named members -/
inductive Sch
  | leaf
  | group (fs : SchL)
inductive SchL
  | nil
  | cons (k : Sc) (s : Sch) (r : SchL)
end

def fieldsOf : V → KVL
  | .dict c => c
  | _ => .nil

def dumpedFields : Option V → KVL
  | some (.dict c) => c
  | _ => .nil

mutual
/-- `reparse s default dumped`: the value of the node after parsing a dump that holds `dumped` for it (none = absent) -/
def reparse : Sch → V → Option V → V
  | .leaf, d, none => d
  | .leaf, _, some x => x
  | .group fs, d, x => .dict (reparseL fs (fieldsOf d) (dumpedFields x))
/-- members in the parser's order; `dd` the defaults of these members (same order), `c` all dumped entries of the group -/
def reparseL : SchL → KVL → KVL → KVL
  | .nil, _, _ => .nil
  | .cons k s r, .cons _ dv dd, c => .cons k (reparse s dv (lookupK k c)) (reparseL r dd c)
  | .cons k s r, .nil, c => .cons k (reparse s nullV (lookupK k c)) (reparseL r .nil c)
end

mutual
/-- a configuration (or the defaults) of that parser: every group is a dict with exactly the members, in order -/
def conf : Sch → V → Bool
  | .leaf, _ => true
  | .group fs, .dict c => confL fs c
  | .group _, .sc _ => false
  | .group _, .list _ => false
def confL : SchL → KVL → Bool
  | .nil, .nil => true
  | .cons k s r, .cons k' v c => decide (k' = k) && conf s v && confL r c
  | .nil, .cons _ _ _ => false
  | .cons _ _ _, .nil => false
end

def keysL : SchL → List Sc
  | .nil => []
  | .cons k _ r => k :: keysL r

mutual
/-- member names are distinct in every group -/
def nodupS : Sch → Bool
  | .leaf => true
  | .group fs => decide (keysL fs).Nodup && nodupL fs
def nodupL : SchL → Bool
  | .nil => true
  | .cons _ s r => nodupS s && nodupL r
end

mutual
/-- the forced hypothesis: at every leaf whose value differs from its default, deleting "default entries" inside the
value changes nothing (false exactly when value and default are both dicts that share an entry, at any depth) -/
def leafStable : Sch → V → V → Bool
  | .leaf, v, d => decide (v = d) || decide (delVal v d = v)
  | .group fs, v, d => leafStableL fs (fieldsOf v) (fieldsOf d)
def leafStableL : SchL → KVL → KVL → Bool
  | .nil, _, _ => true
  | .cons _ s r, .cons _ v c, .cons _ dv dd => leafStable s v dv && leafStableL r c dd
  | .cons _ _ _, _, _ => true
end

/-- what the skip_default dump holds for a node with value `v` and default `d` -/
def dumpedNode (v d : V) : Option V := if v = d then none else some (delVal v d)

end Jap.Scalar

import Jap.Lemmas.Namespace
/-
E4-links — model of the parse-time part of `jsonargparse/_link_arguments.py`
and of the places of `_core.py` that call it (C15).

  `addLink`              `ActionLink.__init__` + `_initial_input_checks` (apply_on = "parse")
  `applyParsingLinks`    `ActionLink.apply_parsing_links` (one pass, link order)
  `setTargetValue`       `ActionLink.set_target_value`
  `actionCall`           `ActionLink.__call__` (the option of a replaced target action)
  `stripLinkTargetKeys`  `ActionLink.strip_link_target_keys`
  `parseCommon`, `parse` `_parse_common`: links, then validation, then required
  `dump`, `reparse`      `dump` strips the link targets; `parse_string(dump(cfg))`

A configuration is a `Jap.NS.KV` (the Namespace model of C11) addressed with the
one-pass `getK`/`setK` (equal to the code's `__getitem__`/`__setitem__` when no
plain dict lies on the key path, C11) and `delKey` (= `Jap.NS.delK` on
namespaces with unique names, `Jap.Links.delKey_eq_delK`).  Keys are lists of
segments.  Everything outside the link logic is a parameter (`Env`): the table
of compute functions (`none` = the function raised), the type check of source
values and the validation of the final configuration.  The assignments that
reach the parser through defaults, environment, config, object and argv are a
list of `Input`s in precedence order (the merge itself is C04/C05).

Not modelled: links applied on instantiation (C16), the recursion into the
selected subcommand's parser (the same function on the sub-namespace), the
`is_init_arg_mapping_typehint` coercion (depends on the class parser, C14).
-/
namespace Jap.Links
open Jap.NS

abbrev Key := List SKey

/-- the segment `init_args` -/
def initArgs : SKey := ⟨false, "init_args"⟩

/-- what the link code distinguishes about an entry of `parser._actions`
    (`_ActionConfigLoad`, `_ActionSubCommands`, `ActionConfigFile` are excluded from every lookup and left out) -/
inductive AKind where
  | arg         -- any action that is not a subclass type hint
  | subclass    -- `is_subclass_typehint(action)` (hence also with `all_subtypes=False, also_lists=True`)
  | subclassL   -- only `is_subclass_typehint(action, all_subtypes=False, also_lists=True)`: a list of classes, a mixed union
  | link        -- an `ActionLink` that replaced its target action
deriving DecidableEq, Repr, Inhabited

structure Action where
  dest : Key
  kind : AKind
deriving DecidableEq, Repr, Inhabited

/-- the test used for link targets and in `strip_link_target_keys` -/
def AKind.isSubT : AKind → Bool
  | .subclass => true
  | .subclassL => true
  | _ => false

inductive TKind where
  | plain                   -- the target action was replaced by the link action (`cfg[target] = value`)
  | initArg (n : Nat)       -- `dest.init_args.…` below the subclass-typed action `dest` (a class or a list of classes);
                            -- `n` is the length of `dest`, i.e. `dest = target.take n` and `child_key = target.drop n`
deriving DecidableEq, Repr, Inhabited

structure Src where
  key : Key
  sub : Bool       -- `is_subclass_typehint(source_action[0])`: the link is skipped while the key is absent
  asDict : Bool    -- the "automatic namespace to dict" coercion applies to this argument
deriving DecidableEq, Repr, Inhabited

structure Link where
  sources : List Src
  target : Key
  fn : Option Nat          -- index into the table of compute functions; `none` = the source itself
  kind : TKind
deriving DecidableEq, Repr, Inhabited

structure Parser where
  actions : List Action
  required : List Key      -- `parser.required_args` (a set)
  links : List Link        -- `parser._links_group._group_actions`, in the order of the `link_arguments` calls
  optActs : List (String × Action) := []   -- `parser._option_string_actions`: every option string and the action it reaches
deriving Repr, Inhabited

/-- the parts of the parser that are not link logic -/
structure Env where
  F : Nat → List V → Option V      -- compute functions; `none`: the call raised
  chk : Key → V → Bool             -- `_check_value_key` of a source action on its value
  valid : KV → Bool                -- `check_values` of `validate` on the configuration

inductive LErr where              -- `link_arguments` raises ValueError
  | multiNoFn | doubleTarget | sourceIsTarget | selfLink | targetIsSource | noAction | badSubclassTarget
deriving DecidableEq, Repr, Inhabited

inductive PErr where              -- every one of these ends in `parser.error` (ArgumentError)
  | linkCall        -- TypeError of `ActionLink.__call__`
  | missingSource   -- KeyError of `cfg[source_key]`
  | computeFn       -- ValueError of `call_compute_fn`
  | invalid         -- a value does not check
  | required        -- a required key is missing or None
deriving DecidableEq, Repr, Inhabited

/-! ### action lookup (`_actions.py`) -/

def isPrefix : Key → Key → Bool
  | [], _ => true
  | _ :: _, [] => false
  | a :: p, b :: q => a == b && isPrefix p q

def isStrictPrefix (p k : Key) : Bool := isPrefix p k && p.length < k.length

/-- `_find_action(parser, dest, exclude=(ActionLink, …))` -/
def findAction (acts : List Action) (k : Key) : Option Action :=
  acts.find? (fun a => a.kind != .link && a.dest == k)

/-- the loop of `_find_parent_action`: prefixes of length `n`, `n-1`, …, `1` -/
def findParentFrom (acts : List Action) (k : Key) : Nat → Option Action
  | 0 => none
  | n+1 =>
    match findAction acts (k.take (n+1)) with
    | some a => some a
    | none => findParentFrom acts k n

/-- `_find_parent_action(parser, key, exclude=…)` -/
def findParent (acts : List Action) (k : Key) : Option Action :=
  match findAction acts k with
  | some a => some a
  | none => findParentFrom acts k (k.length - 1)

/-- `find_parent_or_child_actions`: the first action found (its kind decides the skip rule), `none` when there is none -/
def findParentOrChild (acts : List Action) (k : Key) : Option Action :=
  match findParent acts k with
  | some a => some a
  | none => acts.find? (fun a => a.kind != .link && isStrictPrefix k a.dest)

/-! ### `link_arguments` -/

def existingTargets (p : Parser) : List Key := p.links.map (·.target)
def existingSources (p : Parser) : List Key := p.links.flatMap (fun l => l.sources.map (·.key))

def replaceAction (old new : Action) : List Action → List Action
  | [] => []
  | a :: r => if a = old then new :: r else a :: replaceAction old new r

/-- `for key in target_action.option_strings: parser._option_string_actions[key] = self`: EVERY option string that
    reaches the target action (aliases, the `--no_` form of a yes/no flag) is redirected to the link action -/
def redirectOpts (old new : Action) (opts : List (String × Action)) : List (String × Action) :=
  opts.map fun oa => if oa.2 = old then (oa.1, new) else oa

/-- the resolution of the source keys: every key must have a parent or child action -/
def resolveSources (acts : List Action) : List Key → List Bool → Option (List Src)
  | [], _ => some []
  | s :: r, cs =>
    match findParentOrChild acts s, resolveSources acts r cs.tail with
    | some a, some rest => some (⟨s, a.kind == .subclass, cs.headD false⟩ :: rest)
    | _, _ => none

/-- `ActionLink.__init__` with `apply_on="parse"`; `coerce` are the mapping annotations of the compute function
    (for a link without function: the target is a mapping type) -/
def addLink (p : Parser) (sources : List Key) (coerce : List Bool) (target : Key) (fn : Option Nat) :
    Except LErr Parser :=
  -- `_initial_input_checks`
  if fn.isNone && sources.length != 1 then .error .multiNoFn
  else if (existingTargets p).contains target then .error .doubleTarget
  else if sources.any (fun s => (existingTargets p).contains s) then .error .sourceIsTarget
  else if sources.contains target then .error .selfLink      -- the target is one of the link's own sources (ba94f2f)
  else if (existingSources p).contains target then .error .targetIsSource
  else
    match resolveSources p.actions sources coerce, findParent p.actions target with
    | some srcs, some ta =>
      let isSub := ta.kind.isSubT
      let leaf := ta.dest == target
      let validInit := isSub && isStrictPrefix (ta.dest ++ [initArgs]) target
      if !leaf && isSub && !validInit then .error .badSubclassTarget
      else
        let replaced := !isSub || leaf
        .ok { actions := if replaced then replaceAction ta ⟨target, .link⟩ p.actions else p.actions
              optActs := if replaced then redirectOpts ta ⟨target, .link⟩ p.optActs else p.optActs
              required := p.required.filter (· != target)
              links := p.links ++ [⟨srcs, target, fn, if replaced then .plain else .initArg ta.dest.length⟩] }
    | _, _ => .error .noAction

/-- a sequence of `link_arguments` calls -/
structure LinkReq where
  sources : List Key
  coerce : List Bool
  target : Key
  fn : Option Nat
deriving Repr, Inhabited

def addLinks (p : Parser) : List LinkReq → Except LErr Parser
  | [] => .ok p
  | r :: rest =>
    match addLink p r.sources r.coerce r.target r.fn with
    | .ok p' => addLinks p' rest
    | .error e => .error e

/-! ### `apply_parsing_links` -/

/-- "automatic namespace to dict" -/
def coerceArg (s : Src) (v : V) : V :=
  if s.asDict then
    match v with
    | .ns kvs => asDictV (.ns kvs)
    | w => w
  else v

/-- the loop over `action.source`: `.ok none` = the link is skipped -/
def readSources (E : Env) (cfg : KV) : List Src → Except PErr (Option (List V))
  | [] => .ok (some [])
  | s :: r =>
    match getK s.key cfg with
    | none => if s.sub then .ok none else .error .missingSource
    | some v =>
      if !E.chk s.key v then .error .invalid
      else
        match readSources E cfg r with
        | .ok (some vs) => .ok (some (coerceArg s v :: vs))
        | .ok none => .ok none
        | .error e => .error e

/-- `args[0]` or `call_compute_fn(args)` -/
def linkValue (E : Env) (l : Link) (args : List V) : Except PErr V :=
  match l.fn with
  | none =>
    match args with
    | a :: _ => .ok a
    | [] => .error .computeFn
  | some n =>
    match E.F n args with
    | some v => .ok v
    | none => .error .computeFn

/-- `any(isinstance(i, Namespace) and child_key in i for i in parent)` -/
def anyHas (child : Key) : List V → Bool
  | [] => false
  | .ns kvs :: r => (getK child kvs).isSome || anyHas child r
  | _ :: r => anyHas child r

/-- `for item in parent: if child_key in item: item[child_key] = value` (items that are namespaces) -/
def setInItems (child : Key) (v : V) : List V → List V
  | [] => []
  | .ns kvs :: r => (if (getK child kvs).isSome then V.ns (setK child v kvs) else V.ns kvs) :: setInItems child v r
  | x :: r => x :: setInItems child v r

/-- `set_target_value` -/
def setTargetValue (l : Link) (v : V) (cfg : KV) : KV :=
  match l.kind with
  | .plain => setK l.target v cfg
  | .initArg n =>
    let dest := l.target.take n
    let child := l.target.drop n
    match getK dest cfg with
    | some (.lst items) =>
      if anyHas child items then setK dest (.lst (setInItems child v items)) cfg
      else if (getK l.target cfg).isSome then setK l.target v cfg else cfg
    | _ => if (getK l.target cfg).isSome then setK l.target v cfg else cfg

/-- one link -/
def applyLink (E : Env) (l : Link) (cfg : KV) : Except PErr KV :=
  match readSources E cfg l.sources with
  | .error e => .error e
  | .ok none => .ok cfg
  | .ok (some args) =>
    match linkValue E l args with
    | .error e => .error e
    | .ok v => .ok (setTargetValue l v cfg)

/-- `apply_parsing_links`: one pass in link order -/
def applyParsingLinks (E : Env) : List Link → KV → Except PErr KV
  | [], cfg => .ok cfg
  | l :: r, cfg =>
    match applyLink E l cfg with
    | .ok cfg' => applyParsingLinks E r cfg'
    | .error e => .error e

/-! ### validation of required keys, the option of a target -/

def isNone : V → Bool
  | .none => true
  | _ => false

/-- `check_required` -/
def validateRequired (req : List Key) (cfg : KV) : Bool :=
  req.all fun k =>
    match getK k cfg with
    | some v => !isNone v
    | none => false

/-- `ActionLink.__call__`: the option string of a replaced target raises -/
def actionCall (_l : Link) : Except PErr KV := .error .linkCall

/-- an option string met in argv: argparse calls the action `_option_string_actions` holds for it -/
def optionCall (p : Parser) (opt : String) : Except PErr Unit :=
  match p.optActs.find? (fun oa => oa.1 == opt) with
  | some oa => if oa.2.kind == .link then .error .linkCall else .ok ()
  | none => .ok ()

/-- is `k` the dest of a link action standing in `parser._actions` (a plain target)? -/
def isPlainTarget (p : Parser) (k : Key) : Bool :=
  p.actions.any (fun a => a.kind == .link && a.dest == k)

/-! ### parsing -/

inductive Chan where
  | dflt | env | config | object | argv
deriving DecidableEq, Repr, Inhabited

/-- one assignment reaching the parser through a channel; the list is in precedence order (later wins) -/
structure Input where
  chan : Chan
  key : Key
  val : V
deriving Repr, Inhabited

/-- the effect of one input on the namespace being built:
    a replaced target has no default (`default=SUPPRESS`), its option raises, every other channel stores the value -/
def feed (p : Parser) (cfg : KV) (i : Input) : Except PErr KV :=
  if isPlainTarget p i.key then
    match i.chan with
    | .argv => (actionCall default).map fun _ => cfg
    | .dflt => .ok cfg
    | _ => .ok (setK i.key i.val cfg)
  else .ok (setK i.key i.val cfg)

def feedAll (p : Parser) : List Input → KV → Except PErr KV
  | [], cfg => .ok cfg
  | i :: r, cfg =>
    match feed p cfg i with
    | .ok cfg' => feedAll p r cfg'
    | .error e => .error e

/-- `_parse_common` from the link step on: links, then validation, then required -/
def parseCommon (E : Env) (p : Parser) (cfg : KV) : Except PErr KV :=
  match applyParsingLinks E p.links cfg with
  | .error e => .error e
  | .ok cfg' =>
    if !E.valid cfg' then .error .invalid
    else if !validateRequired p.required cfg' then .error .required
    else .ok cfg'

def parse (E : Env) (p : Parser) (inputs : List Input) : Except PErr KV :=
  match feedAll p inputs [] with
  | .error e => .error e
  | .ok cfg => parseCommon E p cfg

/-! ### `strip_link_target_keys`, dump, re-parse -/

/-- Python truth value -/
def falsy : V → Bool
  | .none => true
  | .atom a => a == 0
  | .lst [] => true
  | .tup [] => true
  | .dct [] => true
  | .ns [] => true
  | _ => false

/-- removal of a name from one namespace level (`dict.pop`): all entries, which is the first one when names are unique -/
def eraseAll (k : SKey) (kvs : KV) : KV := kvs.filter (fun kv => kv.1 != k)

/-- `cfg.pop(key, None)` through namespaces only: equal to `Jap.NS.delK` on namespaces with unique names
    (`Jap.Links.delKey_eq_delK`), a no-op when the key is absent or the path runs through a list / a leaf -/
def delKey : Key → KV → KV
  | [], kvs => kvs
  | [leaf], kvs => eraseAll leaf kvs
  | s :: t :: rest, kvs =>
    match lookup s kvs with
    | some (.ns sub) => insert s (.ns (delKey (t :: rest) sub)) kvs
    | _ => kvs

/-- `del_target_key` -/
def delTargetKey (k : Key) (cfg : KV) : KV :=
  let c1 := delKey k cfg
  if k.length ≤ 1 then c1
  else
    match getK k.dropLast c1 with
    | some v => if falsy v then delKey k.dropLast c1 else c1
    | none => c1

/-- the keys deleted, in the code's order: link actions standing in `parser._actions`, then, per subclass action,
    its `linked_targets` -/
def stripKeys (p : Parser) : List Key :=
  ((p.actions.filter (·.kind == .link)).map (·.dest)) ++
  (p.actions.filter (·.kind.isSubT)).flatMap fun a =>
    (p.links.filter (fun l => l.kind == .initArg a.dest.length && isPrefix a.dest l.target)).map (·.target)

def delKeys : List Key → KV → KV
  | [], cfg => cfg
  | k :: r, cfg => delKeys r (delTargetKey k cfg)

/-- `strip_link_target_keys` BEFORE 74a7bb8 (F70): namespace paths only.  Kept as the regression record of the repaired
    finding 15c (`C15_list_item_target_in_dump`): the items of a list of classes kept the target. -/
def stripLinkTargetKeysOld (p : Parser) (cfg : KV) : KV := delKeys (stripKeys p) cfg

/-- `item.pop("init_args.X", None)`, then `if "init_args" in item and not item["init_args"]: del item["init_args"]` -/
def stripItem (child : Key) (kvs : KV) : KV :=
  let c1 := delKey child kvs
  match getK [initArgs] c1 with
  | some v => if falsy v then delKey [initArgs] c1 else c1
  | none => c1

/-- `for item in parent: if isinstance(item, Namespace): …` (mirror of `setInItems`) -/
def stripItems (child : Key) : List V → List V
  | [] => []
  | .ns kvs :: r => .ns (stripItem child kvs) :: stripItems child r
  | x :: r => x :: stripItems child r

/-- one entry of `linked_targets`: `del_target_key(dest.init_args.X)`, then, when `cfg.get(dest)` is a list, its items;
    `n` is the length of `dest` -/
def delInitTarget (n : Nat) (t : Key) (cfg : KV) : KV :=
  let c1 := delTargetKey t cfg
  match getK (t.take n) c1 with
  | some (.lst items) => setK (t.take n) (.lst (stripItems (t.drop n) items)) c1
  | _ => c1

/-- the link actions standing in `parser._actions` (first loop) -/
def plainKeys (p : Parser) : List Key := (p.actions.filter (·.kind == .link)).map (·.dest)

/-- per subclass action, its `linked_targets` (second loop), with the length of the dest -/
def initKeys (p : Parser) : List (Nat × Key) :=
  (p.actions.filter (·.kind.isSubT)).flatMap fun a =>
    (p.links.filter (fun l => l.kind == .initArg a.dest.length && isPrefix a.dest l.target)).map fun l => (a.dest.length, l.target)

def delInits : List (Nat × Key) → KV → KV
  | [], cfg => cfg
  | nt :: r, cfg => delInits r (delInitTarget nt.1 nt.2 cfg)

/-- `strip_link_target_keys` (one parser level), in the code's order -/
def stripLinkTargetKeys (p : Parser) (cfg : KV) : KV := delInits (initKeys p) (delKeys (plainKeys p) cfg)

/-- what `dump` serialises -/
def dump (p : Parser) (cfg : KV) : KV := stripLinkTargetKeys p cfg

/-- what `dump` serialised before F70 -/
def dumpOld (p : Parser) (cfg : KV) : KV := stripLinkTargetKeysOld p cfg

/-- the keys written by `dump` -/
def dumpKeys (p : Parser) (cfg : KV) : List String := keys false (dump p cfg)

/-- the values of `child` held by the namespace items of a list -/
def itemValues (child : Key) : List V → List V
  | [] => []
  | .ns kvs :: r => (getK child kvs).toList ++ itemValues child r
  | _ :: r => itemValues child r

/-- every place where a configuration holds a value for the target of `l`: the namespace path, or the items of
    the list standing at the dest of an `init_args` target -/
def targetValues (l : Link) (cfg : KV) : List V :=
  match l.kind with
  | .plain => (getK l.target cfg).toList
  | .initArg n =>
    match getK (l.target.take n) cfg with
    | some (.lst items) => itemValues (l.target.drop n) items
    | _ => (getK l.target cfg).toList

/-- `parse_string(dump)`: `load` stands for loading the text and merging it with the defaults (C01, C05, C14) -/
def reparse (E : Env) (p : Parser) (load : KV → KV) (d : KV) : Except PErr KV := parseCommon E p (load d)

end Jap.Links

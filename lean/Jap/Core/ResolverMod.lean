/-
E9 — programs spread over several MODULES: name resolution per defining module.

`Jap/Core/Resolver.lean` works on a linked program: `Target.entry i` is the entry itself.  Source code names
its callees: `build(**kwargs)`, `lib.build(**kwargs)`, `Cls.factory(**kwargs)` are identifiers, and which object
an identifier denotes depends on the module whose text contains the call:

  * the resolver, `ParametersVisitor.get_node_component`: `module = inspect.getmodule(self.component)`, then
    `hasattr(module, node.func.id)` / `getattr(module, node.func.value.id)` — the module of the COMPONENT
    (the function object found by `inspect.getattr_static`, i.e. the function as defined, also when the class that
    was asked only inherits it); `visit_If` evaluates a constant test in `get_component_globals()` =
    `vars(import_module(self.component.__module__))`;
  * the interpreter: `LOAD_GLOBAL` in `function.__globals__`, the namespace of the module whose `def` created
    the function.

Both are "the globals of the defining module".  A source program (`MProg`) therefore carries
  * `src`     the program text: `Target.entry s`, `Target.attrEntry s`, `Target.classMeth s j` hold a SYMBOL `s`
              (an interned identifier, dotted for `lib.build`), `Guard.const b` = the test as written is truthy
              in a module whose constants are not flipped;
  * `modOf`   the module in which entry `i` is defined;
  * `cmDef`   for class `i`, the class that DEFINES each classmethod the class offers (inherited ones are listed
              by every class that offers them, see `Class.cmeths`; their text lives in the definer's module);
  * `mods`    per module: the global table symbol ↦ entry (own definitions, `from m import x [as y]`, `import m`
              followed by `m.x`; an import statement written INSIDE the calling function's body — the resolver's
              `import_names` / `get_component_from_source` — is the symbol `@m.x`, bound to what module `m` holds)
              and whether its module-level constants have the flipped truth values.
`linkD` resolves every identifier as Python does, `linkS` as the resolver does; they differ in exactly two lookups
(below).  `resolveM` is `resolve` of `linkS`, `acceptsM` is `accepts` of `linkD`; `link` = `linkD`.  An identifier that is not bound (`NameError` at run time, "not supported" for the
resolver) links to the entry index `entries.length`, which does not exist (nothing offered, nothing accepted).

The two lookups the resolver does differently from Python (both transcribed, both open findings):
  * `super(X, self)`: Python evaluates `X` in the globals of the function (the class being defined: the index kept
    in `Use.superCall`).  `ast_is_supported_super_call` searches `classes[idx:]` for a class whose `__name__` is
    the identifier and that `inspect.getmodule(classes[idx])` binds under that name — the module of the class that
    was ASKED for when an inherited `__init__` is visited (MRO index 0).  `superPairs` computes, for every class `h`
    and every `X` written in the body visited with `classes[idx] = h`, what that search finds; results other than
    `X` itself go to `Prog.superMap` of `linkS` (finding C13-two-arg-super-foreign-module).
  * an import statement inside the calling body (`localImp`: symbol ↦ (library module, identifier)): Python binds
    the identifier in the function's locals; `get_node_component` tries `hasattr(module, identifier)` FIRST and
    uses the recorded import statement only when the module does not bind it (`MProg.lookup true`; finding
    C13-local-import-shadowed-by-module-global).
`noForeignTwoArgSuper` and `noShadowedLocalImport` are the decidable complements; under both `linkS = linkD`.
Imports nothing beyond core Lean.
-/
import Jap.Core.Resolver

namespace Jap.Resolver

structure Module where
  globals : List (Nat × Nat)
  flip : Bool
deriving DecidableEq, Repr, Inhabited

structure MProg where
  src : Prog
  modOf : List Nat
  cmDef : List (List Nat)
  mods : List Module
  /-- the `__name__` of entry `i` as a symbol (default: no entry shares a name) -/
  nameSym : List Nat := []
  /-- symbols bound by an import statement INSIDE the calling body: symbol ↦ (library module, identifier there) -/
  localImp : List (Nat × (Nat × Nat)) := []
deriving DecidableEq, Repr

/-- `getattr(module, identifier)`; `miss` when the module does not bind it -/
def lookupSym (M : Module) (miss s : Nat) : Nat :=
  (M.globals.lookup s).getD miss

def MProg.moduleAt (MP : MProg) (m : Nat) : Module := MP.mods.getD m default

/-- the entry an identifier written in a body of module `M` denotes.
    `stat = false`: Python — a name imported inside the body is a local of the function;
    `stat = true`: `get_node_component` — `hasattr(module, id)` first, the import statement recorded for the call
    (`source`) only when the module does not bind the identifier. -/
def MProg.lookup (MP : MProg) (stat : Bool) (miss : Nat) (M : Module) (s : Nat) : Nat :=
  match MP.localImp.lookup s with
  | none => lookupSym M miss s
  | some (lib, x) =>
    if stat then
      match M.globals.lookup x with
      | some e => e
      | none => lookupSym (MP.moduleAt lib) miss x
    else lookupSym (MP.moduleAt lib) miss x

def linkTarget (lk : Nat → Nat) : Target → Target
  | .entry s => .entry (lk s)
  | .attrEntry s => .attrEntry (lk s)
  | .classMeth s j => .classMeth (lk s) j
  | .selfMeth j => .selfMeth j
  | .clsSelf => .clsSelf

def linkUse (lk : Nat → Nat) : Use → Use
  | .call t k g => .call (linkTarget lk t) k g
  | u => u

/-- `visit_If`: `bool(component_globals[test.id])` -/
def linkGuard (M : Module) : Guard → Guard
  | .const b => .const (b != M.flip)
  | g => g

def linkGUse (L : Module → Nat → Nat) (M : Module) (g : GUse) : GUse :=
  ⟨linkGuard M g.guard, linkUse (L M) g.use⟩

def linkCallable (L : Module → Nat → Nat) (M : Module) (c : Callable) : Callable :=
  { c with uses := c.uses.map (linkGUse L M) }

/-- the classmethods a class offers, each linked in the module of the class that defines it -/
def linkCms (L : Module → Nat → Nat) (g : Nat → Module) : Nat → List Callable → List Callable
  | _, [] => []
  | j, c :: cs => linkCallable L (g j) c :: linkCms L g (j + 1) cs

def linkEntry (L : Module → Nat → Nat) (f : Module) (g : Nat → Module) : Entry → Entry
  | .fn c => .fn (linkCallable L f c)
  | .cls k => .cls { init := k.init.map (linkCallable L f), mro := k.mro,
                     meths := k.meths.map (linkCallable L f), cmeths := linkCms L g 0 k.cmeths }

/-- link with an arbitrary assignment of tables: `f i` for the bodies written in entry `i`,
    `g i j` for classmethod `j` offered by class `i`; `L M` looks an identifier up for text of module `M` -/
def linkWith (L : Module → Nat → Nat) (f : Nat → Module) (g : Nat → Nat → Module) : Nat → List Entry → List Entry
  | _, [] => []
  | i, e :: es => linkEntry L (f i) (g i) e :: linkWith L f g (i + 1) es

/-- the module whose text holds the bodies of entry `i` -/
def MProg.moduleOfEntry (MP : MProg) (i : Nat) : Module := MP.moduleAt (MP.modOf.getD i 0)

/-- the class that defines classmethod `j` offered by class `i` (itself when not listed) -/
def MProg.definer (MP : MProg) (i j : Nat) : Nat := ((MP.cmDef.getD i []).getD j i)

def linkEntries (MP : MProg) (stat : Bool) : List Entry :=
  linkWith (MP.lookup stat MP.src.entries.length) MP.moduleOfEntry (fun i j => MP.moduleOfEntry (MP.definer i j)) 0 MP.src.entries

/-! ### `super(X, self)`: the resolver's search by name -/

def MProg.nameOf (MP : MProg) (i : Nat) : Nat := MP.nameSym.getD i (MP.src.entries.length + 1 + i)

/-- `for cls in classes[idx:]: if args[0].id == cls.__name__ and cls is getattr(module, cls.__name__, None)` with
    `module = inspect.getmodule(classes[idx])`, `classes[idx] = h`: the class the module of `h` binds under the name
    of `x`, provided it carries that name itself (whether it is in `classes[idx:]` is `dropTo`'s business) -/
def MProg.byName (MP : MProg) (h x : Nat) : Option Nat :=
  match (MP.moduleOfEntry h).globals.lookup (MP.nameOf x) with
  | some d => if MP.nameOf d = MP.nameOf x then some d else none
  | none => none

/-- the classes `X` of the `super(X, self)` calls in the live text of a body -/
def frmsOf (c : Callable) : List Nat :=
  (liveUses c.uses).filterMap (fun u => match u with
    | .superCall (some x) _ _ => some x
    | _ => none)

/-- for every class `h`: the body visited while `classes[idx] = h` (its own `__init__`, else the inherited one,
    visited at MRO index 0) and what the search by name finds for each `X` in it, when that is not `X` -/
def superPairs (MP : MProg) (P0 : Prog) : Nat → List Entry → List ((Nat × Nat) × Option Nat)
  | _, [] => []
  | h, e :: es =>
    (match e with
      | .cls k =>
        let body := match k.init with
          | some c => some c
          | none =>
            match nextInit P0 k.mro with
            | some (d, _) => P0.ownInit d
            | none => none
        match body with
        | some c => (frmsOf c).filterMap (fun x => if MP.byName h x = some x then none else some ((h, x), MP.byName h x))
        | none => []
      | .fn _ => []) ++ superPairs MP P0 (h + 1) es

/-- the program as Python runs it -/
def linkD (MP : MProg) : Prog := ⟨linkEntries MP false, []⟩

/-- the program as `_parameter_resolvers.py` reads it -/
def linkS (MP : MProg) : Prog :=
  ⟨linkEntries MP true, superPairs MP ⟨linkEntries MP true, []⟩ 0 (linkEntries MP true)⟩

abbrev link (MP : MProg) : Prog := linkD MP

def resolveOutM (MP : MProg) (c : CId) : Out := resolveOut (linkS MP) c
def resolveM (MP : MProg) (c : CId) : List Param := resolve (linkS MP) c
def acceptsM (MP : MProg) (c : CId) (n : String) : Bool := accepts (linkD MP) c n

/-- decidable: no inherited `super(X, self)` is searched in a module that binds the name of `X` differently -/
def noForeignTwoArgSuper (MP : MProg) : Bool := (linkS MP).superMap.isEmpty

/-- decidable: no identifier imported inside a body denotes something else at module level there -/
def noShadowedLocalImport (MP : MProg) : Bool := decide (linkEntries MP true = linkEntries MP false)

/-! ### which module tables matter -/

/-- entry `i` has a body of its own (text in its module) -/
def Entry.hasOwnBody : Entry → Bool
  | .fn _ => true
  | .cls k => k.init.isSome || !k.meths.isEmpty

/-- module `m` holds program text: the body of a function / `__init__` / method, or a classmethod some class offers -/
def usedFrom (MP : MProg) (m : Nat) : Nat → List Entry → Bool
  | _, [] => false
  | i, e :: es =>
    (e.hasOwnBody && MP.modOf.getD i 0 == m) ||
    (match e with
      | .cls k => (List.range k.cmeths.length).any (fun j => MP.modOf.getD (MP.definer i j) 0 == m)
      | .fn _ => false) ||
    usedFrom MP m (i + 1) es

def MProg.usesModule (MP : MProg) (m : Nat) : Bool := usedFrom MP m 0 MP.src.entries

end Jap.Resolver

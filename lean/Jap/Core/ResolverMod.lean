/-
E9 — programs spread over several MODULES: name resolution per defining module.

`Jap/Core/Resolver.lean` works on a linked program: `Target.entry i` is the entry itself.  Source code names
its callees: `build(**kwargs)`, `lib.build(**kwargs)`, `Cls.factory(**kwargs)` are identifiers, and which object
an identifier denotes depends on the module whose text contains the call:

  * the resolver, `ParametersVisitor.get_node_component`: `module = inspect.getmodule(self.component)`, then
    `hasattr(module, node.func.id)` / `getattr(module, node.func.value.id)` — the module of the COMPONENT
    (the function object found by `inspect.getattr_static`, i.e. the function as defined, also when the class that
    was asked only inherits it); `visit_If` evaluates a constant test in `get_component_globals()` =
    `vars(import_module(self.component.__module__))`;
  * the interpreter: `LOAD_GLOBAL` in `function.__globals__`, the namespace of the module whose `def` created
    the function.

Both are "the globals of the defining module".  A source program (`MProg`) therefore carries
  * `src`     the program text: `Target.entry s`, `Target.attrEntry s`, `Target.classMeth s j` hold a SYMBOL `s`
              (an interned identifier, dotted for `lib.build`), `Guard.const b` = the test as written is truthy
              in a module whose constants are not flipped;
  * `modOf`   the module in which entry `i` is defined;
  * `cmDef`   for class `i`, the class that DEFINES each classmethod the class offers (inherited ones are listed
              by every class that offers them, see `Class.cmeths`; their text lives in the definer's module);
  * `mods`    per module: the global table symbol ↦ entry (own definitions, `from m import x [as y]`, `import m`
              followed by `m.x`; an import statement written INSIDE the calling function's body — the resolver's
              `import_names` / `get_component_from_source` — is the symbol `@m.x`, bound to what module `m` holds)
              and whether its module-level constants have the flipped truth values.
`link` resolves every body in the table of ITS defining module; `resolveM` / `acceptsM` are `resolve` / `accepts`
of the linked program.  An identifier that is not bound (`NameError` at run time, "not supported" for the
resolver) links to the entry index `entries.length`, which does not exist (nothing offered, nothing accepted).

`super(X, self)` keeps its class index: the generator writes it for `X` = the class being defined only.
(The resolver finds `X` BY NAME in the module of `classes[idx]`; for a class that inherits such an `__init__`
into a module that does not bind the name this is the open finding C13-two-arg-super-foreign-module — outside
this model, the harness does not run the resolver side of the correspondence on those queries; likewise an import
inside a function body next to a module global of the same identifier: `get_node_component` asks the module first,
Python the function's locals — open finding C13-local-import-shadowed-by-module-global.)
Imports nothing beyond core Lean.
-/
import Jap.Core.Resolver

namespace Jap.Resolver

structure Module where
  globals : List (Nat × Nat)
  flip : Bool
deriving DecidableEq, Repr, Inhabited

structure MProg where
  src : Prog
  modOf : List Nat
  cmDef : List (List Nat)
  mods : List Module
deriving DecidableEq, Repr

/-- `getattr(module, identifier)`; `miss` when the module does not bind it -/
def lookupSym (M : Module) (miss s : Nat) : Nat :=
  (M.globals.lookup s).getD miss

def linkTarget (M : Module) (miss : Nat) : Target → Target
  | .entry s => .entry (lookupSym M miss s)
  | .attrEntry s => .attrEntry (lookupSym M miss s)
  | .classMeth s j => .classMeth (lookupSym M miss s) j
  | .selfMeth j => .selfMeth j
  | .clsSelf => .clsSelf

def linkUse (M : Module) (miss : Nat) : Use → Use
  | .call t k g => .call (linkTarget M miss t) k g
  | u => u

/-- `visit_If`: `bool(component_globals[test.id])` -/
def linkGuard (M : Module) : Guard → Guard
  | .const b => .const (b != M.flip)
  | g => g

def linkGUse (M : Module) (miss : Nat) (g : GUse) : GUse :=
  ⟨linkGuard M g.guard, linkUse M miss g.use⟩

def linkCallable (M : Module) (miss : Nat) (c : Callable) : Callable :=
  { c with uses := c.uses.map (linkGUse M miss) }

/-- the classmethods a class offers, each linked in the module of the class that defines it -/
def linkCms (g : Nat → Module) (miss : Nat) : Nat → List Callable → List Callable
  | _, [] => []
  | j, c :: cs => linkCallable (g j) miss c :: linkCms g miss (j + 1) cs

def linkEntry (f : Module) (g : Nat → Module) (miss : Nat) : Entry → Entry
  | .fn c => .fn (linkCallable f miss c)
  | .cls k => .cls { init := k.init.map (linkCallable f miss), mro := k.mro,
                     meths := k.meths.map (linkCallable f miss), cmeths := linkCms g miss 0 k.cmeths }

/-- link with an arbitrary assignment of tables: `f i` for the bodies written in entry `i`,
    `g i j` for classmethod `j` offered by class `i` -/
def linkWith (f : Nat → Module) (g : Nat → Nat → Module) (miss : Nat) : Nat → List Entry → List Entry
  | _, [] => []
  | i, e :: es => linkEntry (f i) (g i) miss e :: linkWith f g miss (i + 1) es

def MProg.moduleAt (MP : MProg) (m : Nat) : Module := MP.mods.getD m default

/-- the module whose text holds the bodies of entry `i` -/
def MProg.moduleOfEntry (MP : MProg) (i : Nat) : Module := MP.moduleAt (MP.modOf.getD i 0)

/-- the class that defines classmethod `j` offered by class `i` (itself when not listed) -/
def MProg.definer (MP : MProg) (i j : Nat) : Nat := ((MP.cmDef.getD i []).getD j i)

def link (MP : MProg) : Prog :=
  ⟨linkWith MP.moduleOfEntry (fun i j => MP.moduleOfEntry (MP.definer i j)) MP.src.entries.length 0 MP.src.entries⟩

def resolveOutM (MP : MProg) (c : CId) : Out := resolveOut (link MP) c
def resolveM (MP : MProg) (c : CId) : List Param := resolve (link MP) c
def acceptsM (MP : MProg) (c : CId) (n : String) : Bool := accepts (link MP) c n

/-! ### which module tables matter -/

/-- entry `i` has a body of its own (text in its module) -/
def Entry.hasOwnBody : Entry → Bool
  | .fn _ => true
  | .cls k => k.init.isSome || !k.meths.isEmpty

/-- module `m` holds program text: the body of a function / `__init__` / method, or a classmethod some class offers -/
def usedFrom (MP : MProg) (m : Nat) : Nat → List Entry → Bool
  | _, [] => false
  | i, e :: es =>
    (e.hasOwnBody && MP.modOf.getD i 0 == m) ||
    (match e with
      | .cls k => (List.range k.cmeths.length).any (fun j => MP.modOf.getD (MP.definer i j) 0 == m)
      | .fn _ => false) ||
    usedFrom MP m (i + 1) es

def MProg.usesModule (MP : MProg) (m : Nat) : Bool := usedFrom MP m 0 MP.src.entries

end Jap.Resolver

import Jap.Core.Links
/-
E4-links, histories — ONE parser object used for a sequence of operations (C15).

  `Op.link r`            a `link_arguments` call (accepted: the parser changes; refused: it raises ValueError before
                         any mutation, the parser stays as it was)
  `Op.parse e inputs`    a parse (`parse_args`, `parse_string`, `parse_object`, `parse_env`, …) of the assignments
                         `inputs`; `e` names the state of the world at that moment (`Es e`): what the compute
                         functions return (they may read files, counters, …), what the type checks accept

`stepOp` is the transition of the parser object.  The code keeps NO state between two parses that the link pass
reads: `call_compute_fn` applies the function to the arguments of THIS call (`Gen/LinksSrc.callComputeFn`, tied in
Props/C15), `apply_parsing_links` reads `cfg` only.  Hence a parse op leaves the parser as it is, and the outcome of
a parse is `parse (Es e) p inputs` for the parser `p` built by the accepted calls so far.
-/
namespace Jap.Links
open Jap.NS

inductive Op where
  | link (r : LinkReq)
  | parse (e : Nat) (inputs : List Input)
deriving Repr, Inhabited

inductive Out where
  | linked (r : Except LErr Parser)
  | parsed (r : Except PErr KV)

/-- one operation on the parser object: the new parser and what the caller sees -/
def stepOp (Es : Nat → Env) (p : Parser) : Op → Parser × Out
  | .link r =>
    match addLink p r.sources r.coerce r.target r.fn with
    | .ok p' => (p', .linked (.ok p'))
    | .error e => (p, .linked (.error e))
  | .parse e inputs => (p, .parsed (parse (Es e) p inputs))

/-- the parser after a history -/
def stateAfter (Es : Nat → Env) (p : Parser) : List Op → Parser
  | [] => p
  | o :: r => stateAfter Es (stepOp Es p o).1 r

/-- what the caller sees, operation by operation -/
def runOps (Es : Nat → Env) (p : Parser) : List Op → List Out
  | [] => []
  | o :: r => (stepOp Es p o).2 :: runOps Es (stepOp Es p o).1 r

/-- the `link_arguments` requests of a history that were accepted, in order -/
def acceptedReqs (p : Parser) : List Op → List LinkReq
  | [] => []
  | .link r :: rest =>
    match addLink p r.sources r.coerce r.target r.fn with
    | .ok p' => r :: acceptedReqs p' rest
    | .error _ => acceptedReqs p rest
  | .parse _ _ :: rest => acceptedReqs p rest

/-- the history without its parses -/
def linkOps : List Op → List Op
  | [] => []
  | .link r :: rest => .link r :: linkOps rest
  | .parse _ _ :: rest => linkOps rest

end Jap.Links

import Jap.Core.Validate
/-!
Engine "Validate", C07 part 2: the four declaration styles for RECURSIVE field lists with DECLARED group defaults.

* `FieldR`: a field is a typed leaf or a sub-group (nested dataclass / nested class arguments / nested inner parser /
  dotted `g.n.x` arguments), to any depth.  A sub-group carries the defaults *declared* for it: the default instance /
  default dict of the dataclass-typed parameter, or, for the outermost group, the `default=` of `add_class_arguments` /
  of the dataclass-typed argument.
* `DVal`: such a defaults mapping: values for leaves, nested mappings for sub-groups.
* destinations are kept as segment lists (`["g","n","x"]` for `g.n.x`); option strings are `--` + the dotted path, plus
  `--path+` for list types (`plus`).
* `setDefs` = `ActionsContainer.set_defaults`: an entry whose key is a group (`_ActionConfigLoad`) is expanded into the
  entries below it, recursively, and the loop CONTINUES with the remaining entries.
* `declDottedR`, `declDataclassR`, `declClassArgsR`, `declInnerR`: the action tables (dests, option strings, defaults,
  required set, whole-group options at every level).
* `parseR`: defaults, the sources in order, `validate`.
Everything is structurally recursive.
-/
namespace Jap.Validate

inductive DVal where
  | val (v : Val)
  | map (kvs : List (String × DVal))
deriving Repr, Inhabited

abbrev DMap := List (String × DVal)

inductive FieldR where
  /-- `default` = the default written in the class (`none`: a required parameter); `stated` = a default stated directly on
      the argument in addition (dotted / inner styles: `add_argument(..., default=...)`), `none` in a class definition -/
  | leaf (name : String) (ty : Ty) (default : Option Val) (stated : Option Val)
  | sub (name : String) (declared : List (String × DVal)) (fields : List FieldR)
deriving Repr, Inhabited

structure EntryR where
  path : List String
  plus : Bool
  ty : Ty
  default : Val
deriving Repr, Inhabited

structure TableR where
  entries : List EntryR
  required : List (List String)
  wholes : List (List String)
deriving Repr, Inhabited

def TableR.append (a b : TableR) : TableR := ⟨a.entries ++ b.entries, a.required ++ b.required, a.wholes ++ b.wholes⟩

def TableR.empty : TableR := ⟨[], [], []⟩

/-- `add_argument("--" ++ path, type=ty, default=… | required=True)` -/
def addArgR (p : List String) (ty : Ty) (d stated : Option Val) : TableR :=
  ⟨[⟨p, hasPlus ty, ty, (match stated with | some v => v | none => d.getD .null)⟩], if d.isNone then [p] else [], []⟩

/-! ## `set_defaults` -/

/-- `action.default = v` for the action(s) with that destination -/
def TableR.setDefault (t : TableR) (p : List String) (v : Val) : TableR :=
  { t with entries := t.entries.map fun e => if e.path = p then { e with default := v } else e }

mutual
/-- `set_defaults({k: dv, ...})`, keys relative to `pre`: every entry, in order -/
def setDefs (pre : List String) : List (String × DVal) → TableR → TableR
  | [], t => t
  | (k, dv) :: r, t => setDefs pre r (setDef (pre ++ [k]) dv t)
/-- one entry: a value sets the default of the argument; a mapping (the key is a group: the `_ActionConfigLoad` branch)
    is expanded to the dotted keys below the group — after which the caller goes on with ITS remaining entries -/
def setDef (p : List String) : DVal → TableR → TableR
  | .val v, t => t.setDefault p v
  | .map m, t => setDefs p m t
end

/-! ## style 1: dotted arguments; style 4: inner parsers -/

mutual
/-- `parser.add_argument("--pre.name", ...)` for every leaf, at any depth; no group action -/
def dottedF (pre : List String) : FieldR → TableR
  | .leaf n ty d s => addArgR (pre ++ [n]) ty d s
  | .sub n _ fs => dottedL (pre ++ [n]) fs
def dottedL (pre : List String) : List FieldR → TableR
  | [] => .empty
  | f :: r => (dottedF pre f).append (dottedL pre r)
end

/-- `_move_parser_actions`: dests, option strings and `required_args` get the prefix; an `_ActionConfigLoad` for the key -/
def TableR.moved (n : String) (t : TableR) : TableR :=
  ⟨t.entries.map (fun e => { e with path := n :: e.path }), t.required.map (n :: ·), [n] :: t.wholes.map (n :: ·)⟩

mutual
/-- an inner parser: `--name` arguments; a sub-group is another parser attached with `ActionParser` under `--name` -/
def innerF : FieldR → TableR
  | .leaf n ty d s => addArgR [n] ty d s
  | .sub n _ fs => (innerL fs).moved n
def innerL : List FieldR → TableR
  | [] => .empty
  | f :: r => (innerF f).append (innerL r)
end

/-! ## styles 2 and 3: signatures -/

mutual
/-- `_add_signature_parameter`: a leaf parameter is an `add_argument`; a dataclass-typed parameter goes through the
    dispatch of `add_argument` to `add_class_arguments(type, nested_key, default=<its default instance>)` -/
def sigF (pre : List String) : FieldR → TableR
  | .leaf n ty d _ => addArgR (pre ++ [n]) ty (normOptD ty d) none    -- (Optional without default: `default = None`)
  | .sub n dn fs =>
    -- `_create_group_if_requested`: the `_ActionConfigLoad` of the group; the parameters; then `set_defaults` of the default
    setDefs (pre ++ [n]) dn ((⟨[], [], [pre ++ [n]]⟩ : TableR).append (sigL (pre ++ [n]) fs))
def sigL (pre : List String) : List FieldR → TableR
  | [] => .empty
  | f :: r => (sigF pre f).append (sigL pre r)
end

/-! ## the declared defaults pushed to the leaves (what the dotted / inner styles state on each argument) -/

/-- the last value given for the leaf `k` -/
def valFor (k : String) : DMap → Option Val → Option Val
  | [], acc => acc
  | (k', .val v) :: r, acc => valFor k r (if k' = k then some v else acc)
  | (_, .map _) :: r, acc => valFor k r acc

/-- all the mappings given for the sub-group `n`, in order -/
def mapsFor (n : String) : DMap → DMap
  | [] => []
  | (k', .map m) :: r => if k' = n then m ++ mapsFor n r else mapsFor n r
  | (_, .val _) :: r => mapsFor n r

mutual
def effF (D : DMap) : FieldR → FieldR
  | .leaf n ty d _ => .leaf n ty (normOptD ty d) (valFor n D none)
  | .sub n dn fs => .sub n [] (effL (dn ++ mapsFor n D) fs)
def effL (D : DMap) : List FieldR → List FieldR
  | [] => []
  | f :: r => effF D f :: effL D r
end

/-! ## the four constructors -/

def declClassArgsR (key : String) (D : DMap) (fields : List FieldR) : TableR := sigF [] (.sub key D fields)
/-- `add_argument("--key", type=Dataclass, default=D)`: the dispatch to `add_class_arguments(type, "key", default=D)` -/
def declDataclassR (key : String) (D : DMap) (fields : List FieldR) : TableR := declClassArgsR key D fields
def declDottedR (key : String) (D : DMap) (fields : List FieldR) : TableR := dottedL [key] (effL D fields)
def declInnerR (key : String) (D : DMap) (fields : List FieldR) : TableR := (innerL (effL D fields)).moved key

def declR : Style → String → DMap → List FieldR → TableR
  | .dotted => declDottedR
  | .dataclass => declDataclassR
  | .classArgs => declClassArgsR
  | .inner => declInnerR

/-! ## the parser spec tree (for `validate`) -/

mutual
def specF (whole : Bool) : FieldR → String × Node
  | .leaf n ty d _ => (n, .leaf ty (normOptD ty d).isNone (normOptD ty d))
  | .sub n _ fs => (n, .group whole (specL whole fs))
def specL (whole : Bool) : List FieldR → Fields
  | [] => []
  | f :: r => specF whole f :: specL whole r
end

def specR (whole : Bool) (key : String) (fields : List FieldR) : Fields := [(key, .group whole (specL whole fields))]

/-! ## the parse fold -/

def getAt : List String → KV → Option Val
  | [], _ => none
  | [k], kvs => assoc k kvs
  | k :: rest, kvs => getAt rest (kvsOf (assoc k kvs))

/-- `cfg[dotted key] = v`: nested namespaces are created, a non-namespace on the way is replaced -/
def setAt : List String → Val → KV → KV
  | [], _, kvs => kvs
  | [k], v, kvs => insert k v kvs
  | k :: rest, v, kvs => insert k (.dict (setAt rest v (kvsOf (assoc k kvs)))) kvs

def TableR.defaults (t : TableR) : KV := t.entries.foldl (fun c e => setAt e.path e.default c) []

def TableR.entryAt (t : TableR) (p : List String) : Option EntryR := t.entries.find? fun e => e.path = p

/-- some argument lies strictly below `p` -/
def TableR.isGroup (t : TableR) (p : List String) : Bool :=
  t.entries.any fun e => p.isPrefixOf e.path && p.length < e.path.length

inductive ItemR where
  | opt (p : List String) (plus : Bool) (raw : Val)     -- `--p=text` / `--p+=text` / the environment variable of the argument
  | wholeOpt (p : List String) (v : Val)                -- `--p=<JSON>` for a group `p`
  | wholeEnv (p : List String) (v : Val)
  | tree (kvs : KV)
deriving Repr, Inhabited

mutual
/-- a configuration tree: typed at the argument paths, descended at group paths, kept elsewhere (`validate` names it) -/
def applyTreeKVs (ld : String → Val) (t : TableR) (pre : List String) : KV → KV → Except Err KV
  | [], cfg => .ok cfg
  | (k, v) :: r, cfg =>
    match applyTreeV ld t (pre ++ [k]) v cfg with
    | .error e => .error e
    | .ok cfg' => applyTreeKVs ld t pre r cfg'
def applyTreeV (ld : String → Val) (t : TableR) (p : List String) : Val → KV → Except Err KV
  | .dict sub, cfg =>
    match t.entryAt p with
    | some _ => .error (.type (p.map .key) 0)
    | none =>
      if t.isGroup p then
        -- (a mapping for a group that currently holds a non-mapping starts a new namespace)
        applyTreeKVs ld t p sub (match getAt p cfg with
          | some (.dict _) => cfg
          | some _ => setAt p (.dict []) cfg
          | none => cfg)
      else if leaflessKVs sub then .ok cfg
      else .ok (setAt p (.dict sub) cfg)
  | .null, cfg => .ok (setAt p .null cfg)
  | v, cfg =>
    match t.entryAt p with
    | some e =>
      match adapt ld e.ty v with
      | some v' => .ok (setAt p v' cfg)
      | none => .error (.type (p.map .key) 0)
    | none =>
      match v with
      | .str _ => if t.wholes.contains p then .error (.type (p.map .key) 0) else .ok (setAt p v cfg)
      | _ => .ok (setAt p v cfg)
end

def applyItemR (ld : String → Val) (t : TableR) (cfg : KV) : ItemR → Except Err KV
  | .opt p plus raw =>
    match t.entryAt p with
    | none => .error (.unrecognized (".".intercalate p))
    | some e =>
      if plus && !e.plus then .error (.unrecognized (".".intercalate p ++ "+"))
      else
        let raw' := if plus then appendVal ld (getAt p cfg) raw else raw
        match adapt ld e.ty raw' with
        | some v => .ok (setAt p v cfg)
        | none => .error (.type (p.map .key) 0)
  | .wholeOpt p v =>
    if t.wholes.contains p then
      match v with
      | .dict gkvs =>
        applyTreeKVs ld t p gkvs (match getAt p cfg with
          | some (.dict _) => cfg
          | _ => setAt p (.dict []) cfg)
      | _ => .error (.type (p.map .key) 0)
    else .error (.unrecognized (".".intercalate p))
  | .wholeEnv p v =>
    if t.wholes.contains p then
      match v with
      | .dict gkvs => applyTreeKVs ld t p gkvs cfg
      | _ => .error (.type (p.map .key) 0)
    else .ok cfg
  | .tree kvs => applyTreeKVs ld t [] kvs cfg

def applyItemsR (ld : String → Val) (t : TableR) : List ItemR → KV → Except Err KV
  | [], cfg => .ok cfg
  | it :: r, cfg =>
    match applyItemR ld t cfg it with
    | .error e => .error e
    | .ok cfg' => applyItemsR ld t r cfg'

/-- defaults, then the sources in order (environment first), then `validate` against the spec tree of the declaration -/
def parseR (ld : String → Val) (t : TableR) (spec : Fields) (items : List ItemR) : Except Err KV :=
  match applyItemsR ld t items t.defaults with
  | .error e => .error e
  | .ok cfg =>
    match validate ld spec cfg with
    | .error e => .error e
    | .ok () => .ok cfg

end Jap.Validate

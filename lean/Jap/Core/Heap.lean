/-
E11 "Heap" — values with identity (C08).

Configurations are trees; the only aliasing that matters for C08 is between the caller's tree and the
library's working copy.  The model is therefore *trees whose containers carry an identity* (Python
`id()`); every operation threads a fresh-identity counter `k` and returns the **list of identities it
wrote** (an element assignment `val[n] = …`, `val[k] = …`, `ns[key] = …`, `del ns[key]` into the
container with that identity).

Grammar (DESIGN §6 C08):  `T = atom | list id [T] | tuple id [T] | set id [T] | dict id [(k,T)] | ns id [(k,T)]`
plus the two kinds the current code treats differently: `odict` (collections.OrderedDict) and `ntuple`
(a tuple subclass).  All containers are one constructor `node kind id kids`; sequences use the key "".

What the code does per kind is a `Policy` (two booleans per kind), *regenerated from the live code* into
`Gen/HeapSites.kindTable`:
  recreated k : `recreate_branches` gives a node of kind k a fresh identity and recurses into it
                (ns, dict, list and — since fix 1958065 — tuple); other kinds are returned as they are,
                with everything below them shared;
  inplace k   : the adapter assigns adapted elements back into the object it was given (list, dict, ns,
                OrderedDict); the other kinds are first copied into a fresh list (`val = list(val)`).
Which operation copies which argument is a `Sites` record, regenerated from the ast of `_core.py`
(`Gen/HeapSites.copySites`).

The mutators are *worst case*: `mutT` visits and rewrites every container of its working value
(the real, type-directed adapter visits a subset), so every write the library can perform is in the
model's write list (e.g. a Union member is adapted on its own copy since fix 5a105c5, a Dict with int keys is
rebuilt: both write *less* than the model).  `mergeConfig` models `Namespace.update` only; the adaptation
done by `apply_appends` is covered by `adaptMut` on the same working copy.
Outside the model: aliasing inside one value, objects of user classes, atoms.
Imports nothing beyond core Lean.
-/
namespace Jap.Heap

inductive Kind where
  | list | tuple | set | dict | ns | odict | ntuple | dictsub
deriving DecidableEq, Repr, Inhabited

def Kind.name : Kind → String
  | .list => "list" | .tuple => "tuple" | .set => "set" | .dict => "dict"
  | .ns => "ns" | .odict => "odict" | .ntuple => "ntuple" | .dictsub => "dictsub"

def Kind.all : List Kind := [.list, .tuple, .set, .dict, .ns, .odict, .ntuple, .dictsub]

def Kind.ofName (s : String) : Option Kind := Kind.all.find? (fun k => k.name == s)

/-- values as trees whose containers carry an identity -/
inductive T where
  | atom (n : Nat)
  | node (kd : Kind) (id : Nat) (kids : List (String × T))
deriving Repr, Inhabited

abbrev Kids := List (String × T)

/-! ### the grammar of the design as constructors -/
def seqKids (xs : List T) : Kids := xs.map (fun x => ("", x))
def T.list (i : Nat) (xs : List T) : T := .node .list i (seqKids xs)
def T.tuple (i : Nat) (xs : List T) : T := .node .tuple i (seqKids xs)
def T.set (i : Nat) (xs : List T) : T := .node .set i (seqKids xs)
def T.ntuple (i : Nat) (xs : List T) : T := .node .ntuple i (seqKids xs)
def T.dict (i : Nat) (kvs : Kids) : T := .node .dict i kvs
def T.ns (i : Nat) (kvs : Kids) : T := .node .ns i kvs
def T.odict (i : Nat) (kvs : Kids) : T := .node .odict i kvs
/-- an instance of a dict subclass (`class MyDict(dict)`, `defaultdict`, `Counter` …) that is not an OrderedDict -/
def T.dictsub (i : Nat) (kvs : Kids) : T := .node .dictsub i kvs

/-! ### policy and copy sites (instantiated from Gen/HeapSites) -/

structure Policy where
  recreated : Kind → Bool
  inplace : Kind → Bool
  /-- `strip_meta` copies an EMPTY configuration too (since fix 3b44d63; before, `if cfg:` handed it back itself) -/
  stripEmpty : Bool
  /-- the copy `recreate_branches` makes of a dict-subclass instance holds its entries (since fix 2278288; before, the
      instance `__dict__` was iterated instead of the mapping and the copy came out EMPTY) -/
  subContent : Bool

def lookupRow (s : String) : List (String × Bool × Bool) → Bool × Bool
  | [] => (false, false)
  | (n, r) :: rest => if n == s then r else lookupRow s rest

def policyOfTable (tbl : List (String × Bool × Bool)) (stripEmpty : Bool) (subContent : Bool) : Policy :=
  { recreated := fun k => (lookupRow k.name tbl).1
    inplace := fun k => (lookupRow k.name tbl).2
    stripEmpty := stripEmpty
    subContent := subContent }

/-- which operation copies its argument before doing anything else with it -/
structure Sites where
  dump : Bool
  validate : Bool
  mergeFrom : Bool
  mergeTo : Bool
  stripUnknown : Bool
  instantiate : Bool
  parseObject : Bool
  parseObjectBase : Bool
  getDefaults : Bool
  parseArgsNs : Bool      -- parse_args(namespace=…): handed to merge_config only
  parseArgsArgs : Bool    -- parse_args(args=…): `args = list(args)` before it is stored / handed to argparse
  saveCfg : Bool          -- save(cfg): dump(cfg) (single file) or cfg.clone() (multifile)

def lookupSite (s : String) : List (String × Bool) → Bool
  | [] => false
  | (n, b) :: rest => if n == s then b else lookupSite s rest

def sitesOfTable (tbl : List (String × Bool)) : Sites :=
  { dump := lookupSite "dump.cfg" tbl
    validate := lookupSite "validate.cfg" tbl
    mergeFrom := lookupSite "merge_config.cfg_from" tbl
    mergeTo := lookupSite "merge_config.cfg_to" tbl
    stripUnknown := lookupSite "strip_unknown.cfg" tbl
    instantiate := lookupSite "instantiate_classes.cfg" tbl
    parseObject := lookupSite "parse_object.cfg_obj" tbl
    parseObjectBase := lookupSite "parse_object.cfg_base" tbl
    getDefaults := lookupSite "get_defaults.default" tbl
    parseArgsNs := lookupSite "parse_args.namespace" tbl
    parseArgsArgs := lookupSite "parse_args.args" tbl
    saveCfg := lookupSite "save.cfg" tbl }

def Sites.allCopy : Sites := ⟨true, true, true, true, true, true, true, true, true, true, true, true⟩

/-! ### identities -/

mutual
/-- identities of all containers of a value -/
def ids : T → List Nat
  | .atom _ => []
  | .node _ i kids => i :: idsK kids
def idsK : Kids → List Nat
  | [] => []
  | (_, x) :: r => ids x ++ idsK r
end

mutual
/-- identities of the containers the library can write in place (kinds with `inplace`) -/
def mutIds (p : Policy) : T → List Nat
  | .atom _ => []
  | .node kd i kids => (if p.inplace kd then [i] else []) ++ mutIdsK p kids
def mutIdsK (p : Policy) : Kids → List Nat
  | [] => []
  | (_, x) :: r => mutIds p x ++ mutIdsK p r
end

mutual
/-- the writable containers a clone still shares with its original: everything the library writes in place
    at or below a node that `recreate_branches` returns as it is -/
def sharedMut (p : Policy) : T → List Nat
  | .atom _ => []
  | .node kd i kids => if p.recreated kd then sharedMutK p kids else mutIds p (.node kd i kids)
def sharedMutK (p : Policy) : Kids → List Nat
  | [] => []
  | (_, x) :: r => sharedMut p x ++ sharedMutK p r
end

/-- a value whose clone shares no writable container with it -/
def safe (p : Policy) (t : T) : Bool := (sharedMut p t).isEmpty
def safeK (p : Policy) (ts : Kids) : Bool := (sharedMutK p ts).isEmpty

/-! ### results -/

/-- result of a copy: value and next fresh identity -/
structure R (α : Type) where
  val : α
  next : Nat
deriving Repr

/-- result of a mutator: value, identities written, object identities created, next fresh identity -/
structure M (α : Type) where
  val : α
  writes : List Nat
  objs : List Nat
  next : Nat
deriving Repr

/-! ### `recreate_branches` / `clone` / `strip_meta` -/

mutual
/-- `recreate_branches(data, skip_keys)` as the code is now -/
def recreate (p : Policy) (skip : List String) : T → Nat → R T
  | .atom n, k => ⟨.atom n, k⟩
  | .node kd i kids, k =>
    if p.recreated kd then
      if kd = .dictsub && !p.subContent then ⟨.node kd k [], k + 1⟩   -- before fix 2278288: an empty copy
      else
        let r := recreateK p skip kids k
        ⟨.node kd r.next r.val, r.next + 1⟩
    else ⟨.node kd i kids, k⟩
def recreateK (p : Policy) (skip : List String) : Kids → Nat → R Kids
  | [], k => ⟨[], k⟩
  | (key, x) :: r, k =>
    if skip.contains key then recreateK p skip r k
    else
      let a := recreate p skip x k
      let b := recreateK p skip r a.next
      ⟨(key, a.val) :: b.val, b.next⟩
end

/-- `Namespace.clone()` -/
def clone (p : Policy) (t : T) (k : Nat) : R T := recreate p [] t k

def isEmptyNode : T → Bool
  | .atom _ => false
  | .node _ _ kids => kids.isEmpty

/-- `strip_meta(cfg)`: `recreate_branches(cfg, skip_keys=meta_keys)`; before fix 3b44d63 (`p.stripEmpty = false`)
    an empty config was returned itself (`if cfg:`) -/
def stripMeta (p : Policy) (mkeys : List String) (t : T) (k : Nat) : R T :=
  if isEmptyNode t && !p.stripEmpty then ⟨t, k⟩ else recreate p mkeys t k

/-- copy if the site table says the operation copies, else hand the argument itself on -/
def copyIf (b : Bool) (f : T → Nat → R T) (t : T) (k : Nat) : R T := if b then f t k else ⟨t, k⟩

/-! ### the worst-case in-place mutators: serialise, adapt, instantiate -/

inductive Mode where
  | ser | adapt | inst
deriving DecidableEq, Repr

/-- an element assignment happens only if there is an element -/
def wr (i : Nat) (kids : Kids) : List Nat := if kids.isEmpty then [] else [i]

/-- `is_subclass_spec`: a dict/namespace with a `class_path` entry -/
def isSpec (kd : Kind) (kids : Kids) : Bool :=
  (kd == .ns || kd == .dict) && kids.any (fun kv => kv.1 == "class_path")

mutual
/-- `adapt_typehints(val, …)` on every level:
    * a kind with `inplace` is rewritten in place (`val[n] = adapt(v)`: its identity is written);
    * any other container is first copied into a fresh list `k` (`val = list(val)`), the elements are
      assigned into that list; serialising returns the list, otherwise `tuple(val)`/`set(val)` gives one
      more fresh object;
    * instantiating replaces a class_path spec by a fresh object, children first. -/
def mutT (p : Policy) (m : Mode) : T → Nat → M T
  | .atom n, k => ⟨.atom n, [], [], k⟩
  | .node kd i kids, k =>
    if p.inplace kd then
      let r := mutK p m kids k
      if m = .inst && isSpec kd kids then ⟨.atom r.next, wr i kids ++ r.writes, r.objs ++ [r.next], r.next + 1⟩
      else ⟨.node kd i r.val, wr i kids ++ r.writes, r.objs, r.next⟩
    else
      let r := mutK p m kids (k + 1)
      if m = .ser then ⟨.node .list k r.val, wr k kids ++ r.writes, r.objs, r.next⟩
      else ⟨.node kd r.next r.val, wr k kids ++ r.writes, r.objs, r.next + 1⟩
def mutK (p : Policy) (m : Mode) : Kids → Nat → M Kids
  | [], k => ⟨[], [], [], k⟩
  | (key, x) :: r, k =>
    let a := mutT p m x k
    let b := mutK p m r a.next
    ⟨(key, a.val) :: b.val, a.writes ++ b.writes, a.objs ++ b.objs, b.next⟩
end

def serMut (p : Policy) := mutT p .ser
def adaptMut (p : Policy) := mutT p .adapt
def instMut (p : Policy) := mutT p .inst

mutual
/-- number of class_path specs the instantiation meets -/
def specCount (p : Policy) : T → Nat
  | .atom _ => 0
  | .node kd _ kids => specCountK p kids + (if p.inplace kd && isSpec kd kids then 1 else 0)
def specCountK (p : Policy) : Kids → Nat
  | [] => 0
  | (_, x) :: r => specCount p x + specCountK p r
end

def isAtom : T → Bool
  | .atom _ => true
  | .node _ _ _ => false

def kindOf : T → Option Kind
  | .atom _ => none
  | .node kd _ _ => some kd

mutual
/-- the written containers whose *content* changes when every atom changes under the adaptation:
    an in-place container with at least one child that is an atom or a copied-first container
    (a child rewritten in place keeps its identity).  Used by the correspondence only. -/
def chgIds (p : Policy) : T → List Nat
  | .atom _ => []
  | .node kd i kids =>
    (if p.inplace kd && kids.any (fun kv => match kv.2 with
        | .atom _ => true
        | .node ck _ _ => !p.inplace ck) then [i] else []) ++ chgIdsK p kids
def chgIdsK (p : Policy) : Kids → List Nat
  | [] => []
  | (_, x) :: r => chgIds p x ++ chgIdsK p r
end

/-! ### association lists (Python dict order) -/

def lookupK (key : String) : Kids → Option T
  | [] => none
  | (k', v) :: r => if k' = key then some v else lookupK key r

def insertK (key : String) (v : T) : Kids → Kids
  | [] => [(key, v)]
  | (k', v') :: r => if k' = key then (key, v) :: r else (k', v') :: insertK key v r

mutual
def hasLeaves : T → Bool
  | .atom _ => true
  | .node kd _ kids => if kd = .ns then hasLeavesK kids else true
def hasLeavesK : Kids → Bool
  | [] => false
  | (_, x) :: r => hasLeaves x || hasLeavesK r
end

/-! ### `Namespace.update` (the heart of `merge_config`) -/

mutual
/-- `to.update(from)`: every *leaf* of `from` is assigned into `to` (`self[key] = val`); `i` is the identity of
    the namespace `to`.  Namespaces on the way are descended into, created when missing. -/
def updK (src : Kids) (i : Nat) (to : Kids) (k : Nat) : M Kids :=
  match src with
  | [] => ⟨to, [], [], k⟩
  | (key, v) :: r =>
    let a := updOne key v i to k
    let b := updK r i a.val a.next
    ⟨b.val, a.writes ++ b.writes, [], b.next⟩
def updOne (key : String) (v : T) (i : Nat) (to : Kids) (k : Nat) : M Kids :=
  match v with
  | .atom n => ⟨insertK key (.atom n) to, [i], [], k⟩
  | .node kd j fk =>
    if kd = .ns then
      match lookupK key to with
      | some (.node .ns j' tk) =>
        let r := updK fk j' tk k
        ⟨insertK key (.node .ns j' r.val) to, r.writes, [], r.next⟩
      | _ =>
        if hasLeavesK fk then
          let r := updK fk k [] (k + 1)
          ⟨insertK key (.node .ns k r.val) to, i :: r.writes, [], r.next⟩
        else ⟨to, [], [], k⟩
    else ⟨insertK key (.node kd j fk) to, [i], [], k⟩
end

/-- `Namespace.update` on two namespace values -/
def update (to src : T) (k : Nat) : M T :=
  match to, src with
  | .node .ns i tk, .node .ns _ sk =>
    let r := updK sk i tk k
    ⟨.node .ns i r.val, r.writes, [], r.next⟩
  | _, _ => ⟨to, [], [], k⟩

/-! ### the operations -/

/-- `validate(cfg)`: `cfg.clone()`, then every value is checked (= adapted) in the clone -/
def validate (p : Policy) (cs : Sites) (t : T) (k : Nat) : M T :=
  let c := copyIf cs.validate (clone p) t k
  adaptMut p c.val c.next

/-- `dump(cfg)`: `strip_meta`, validate (on a further clone), serialise the copy in place, text out -/
def dump (p : Policy) (cs : Sites) (mkeys : List String) (t : T) (k : Nat) : M T :=
  let c := copyIf cs.dump (stripMeta p mkeys) t k
  let v := validate p cs c.val c.next
  let s := serMut p c.val v.next
  ⟨s.val, v.writes ++ s.writes, [], s.next⟩

def dumpWrites (p : Policy) (cs : Sites) (t : T) (k : Nat) : List Nat := (dump p cs [] t k).writes

/-- `merge_config(cfg_from, cfg_to)`: clone both, `cfg_to.update(cfg_from)` -/
def mergeConfig (p : Policy) (cs : Sites) (src to : T) (k : Nat) : M T :=
  let f := copyIf cs.mergeFrom (clone p) src k
  let t := copyIf cs.mergeTo (clone p) to f.next
  update t.val f.val t.next

mutual
/-- `del cfg[q]` for every *leaf* key `q` (dotted, as `cfg.keys()` yields them) that no action knows;
    `i` is the identity of the namespace holding the entry.  Namespaces are descended into and stay, even emptied. -/
def delT (known : List String) (i : Nat) (q : String) : T → Option T × List Nat
  | .atom n => if known.contains q then (some (.atom n), []) else (none, [i])
  | .node kd j kids =>
    if kd = .ns then
      let sub := delK known j (q ++ ".") kids
      (some (.node .ns j sub.1), sub.2)
    else if known.contains q then (some (.node kd j kids), []) else (none, [i])
def delK (known : List String) (i : Nat) (pre : String) : Kids → Kids × List Nat
  | [] => ([], [])
  | (key, x) :: r =>
    let a := delT known i (pre ++ key) x
    let b := delK known i pre r
    (match a.1 with
      | some v => (key, v) :: b.1
      | none => b.1, a.2 ++ b.2)
end

/-- `strip_unknown(cfg)`: clone, then delete the leaf keys without an action -/
def stripUnknown (p : Policy) (cs : Sites) (known : List String) (t : T) (k : Nat) : M T :=
  let c := copyIf cs.stripUnknown (clone p) t k
  match c.val with
  | .node kd i kids =>
    let r := delK known i "" kids
    ⟨.node kd i r.1, r.2, [], c.next⟩
  | .atom n => ⟨.atom n, [], [], c.next⟩

/-- `get_defaults()`: a new namespace holding `recreate_branches(action.default)` per action;
    `add_sub_defaults` then adapts the values in place -/
def getDefaultsK (p : Policy) (cs : Sites) : Kids → Nat → R Kids
  | [], k => ⟨[], k⟩
  | (dest, d) :: r, k =>
    let a := copyIf cs.getDefaults (recreate p []) d k
    let b := getDefaultsK p cs r a.next
    ⟨(dest, a.val) :: b.val, b.next⟩

def getDefaults (p : Policy) (cs : Sites) (defaults : Kids) (k : Nat) : M T :=
  let r := getDefaultsK p cs defaults k
  let m := adaptMut p (.node .ns r.next r.val) (r.next + 1)
  m

/-- defaults, merged with `cfg_base` when given (`merge_config(cfg_base, cfg)`) -/
def poDefaults (p : Policy) (cs : Sites) (defaults : Kids) (base : Option T) (k : Nat) : M T :=
  match base with
  | some b =>
    let mb := mergeConfig p { cs with mergeFrom := cs.mergeFrom && cs.parseObjectBase } b
      (getDefaults p cs defaults k).val (getDefaults p cs defaults k).next
    ⟨mb.val, (getDefaults p cs defaults k).writes ++ mb.writes, [], mb.next⟩
  | none => getDefaults p cs defaults k

/-- `Namespace(dict)` in `_apply_actions`: a new namespace holding the very values of the dict -/
def nsOfDict (o : R T) : R T :=
  match o.val with
  | .node .dict _ kids => ⟨.node .ns o.next kids, o.next + 1⟩
  | other => ⟨other, o.next⟩

/-- `parse_object(cfg_obj, cfg_base)`: defaults; base merged; the object is *copied*, a dict becomes a
    `Namespace(dict)`, the actions adapt the values in place; merged into the defaults; validated (on a clone). -/
def parseObject (p : Policy) (cs : Sites) (defaults : Kids) (base : Option T) (obj : T) (k : Nat) : M T :=
  let d0 := poDefaults p cs defaults base k
  let d1 := adaptMut p d0.val d0.next        -- `cfg = self._apply_actions(cfg)`: defaults merged with the base, adapted in place
  let o := nsOfDict (copyIf cs.parseObject (recreate p []) obj d1.next)
  let a := adaptMut p o.val o.next
  let mg := mergeConfig p cs a.val d1.val a.next
  let v := validate p cs mg.val mg.next
  ⟨mg.val, d0.writes ++ d1.writes ++ a.writes ++ mg.writes ++ v.writes, [], v.next⟩

/-- an assignment `cfg[dest] = …` into the root of the working configuration -/
def rootWrite (p : Policy) : T → List Nat
  | .atom _ => []
  | .node kd i _ => if p.inplace kd then [i] else []

/-- what `strip_meta(cfg)` still shares with `cfg`: what `recreate_branches` shares; an EMPTY configuration that is
    returned itself (`p.stripEmpty = false`, the code before fix 3b44d63) shares everything writable of it (the root) -/
def stripShared (p : Policy) (t : T) : List Nat :=
  if isEmptyNode t && !p.stripEmpty then mutIds p t else sharedMut p t

/-- `instantiate_classes(cfg)`: `strip_meta`; class groups and instantiation links assign their objects / values
    into the root of the working configuration (`cfg[group.dest] = obj`, worst case: always); then every class_path
    spec is replaced by a fresh object, children first -/
def instantiate (p : Policy) (cs : Sites) (mkeys : List String) (t : T) (k : Nat) : M T :=
  let c := copyIf cs.instantiate (stripMeta p mkeys) t k
  let m := instMut p c.val c.next
  ⟨m.val, rootWrite p c.val ++ m.writes, m.objs, m.next⟩

/-! ### brackets: context managers that set a variable for the duration of a body -/

/-- where the reset of the variable sits -/
inductive Reset where
  | fin     -- inside `finally`, restoring the value the variable itself had before
  | after   -- after the `yield`, outside `finally`: skipped when the body raises
  | wrong   -- a reset that writes back a value NOT read from the variable (e.g. a directory recorded elsewhere)
  | none    -- no reset
deriving DecidableEq, Repr

/-- from the two columns of Gen/Brackets: place of the reset, what is restored -/
def Reset.ofStrings (place src : String) : Reset :=
  if place == "none" then .none
  else if src != "self" then .wrong
  else if place == "finally" then .fin
  else if place == "after" then .after else .none

inductive Outcome where
  | ok | raised
deriving DecidableEq, Repr

/-- process-level state: cwd, argparse.Namespace, context variables … by name -/
abbrev Store := String → Nat

def Store.set (s : Store) (x : String) (v : Nat) : Store := fun y => if y = x then v else s y

/-- `with cm(newVal): body` for a context manager that sets `var` and resets it as `reset` says -/
def withBracket (reset : Reset) (var : String) (newVal : Nat) (body : Store → Outcome × Store) (s : Store) : Outcome × Store :=
  let r := body (s.set var newVal)
  match reset, r.1 with
  | .fin, o => (o, r.2.set var (s var))
  | .after, .ok => (.ok, r.2.set var (s var))
  | .after, .raised => (.raised, r.2)
  | .wrong, o => (o, r.2.set var 0)          -- some value that was not read from the variable
  | .none, o => (o, r.2)

/-- library code as far as the bracketed variables are concerned -/
inductive Prog where
  | skip
  | raise
  | write (var : String) (v : Nat)
  | seq (a b : Prog)
  | tryCatch (a handler : Prog)
  | bracket (reset : Reset) (var : String) (v : Nat) (body : Prog)

def Prog.run : Prog → Store → Outcome × Store
  | .skip, s => (.ok, s)
  | .raise, s => (.raised, s)
  | .write x v, s => (.ok, s.set x v)
  | .seq a b, s =>
    let r := a.run s
    match r.1 with
    | .ok => b.run r.2
    | .raised => (.raised, r.2)
  | .tryCatch a h, s =>
    let r := a.run s
    match r.1 with
    | .ok => (.ok, r.2)
    | .raised => h.run r.2
  | .bracket reset x v body, s => withBracket reset x v body.run s

/-- every change of a watched variable goes through a bracket whose reset is in `finally` -/
def Prog.disciplined (watch : List String) : Prog → Bool
  | .skip => true
  | .raise => true
  | .write x _ => !watch.contains x
  | .seq a b => a.disciplined watch && b.disciplined watch
  | .tryCatch a h => a.disciplined watch && h.disciplined watch
  | .bracket reset x _ body => (reset == .fin || !watch.contains x) && body.disciplined watch

/-- rows of Gen/Brackets as (context manager, variable, reset) -/
def bracketRows (tbl : List (String × String × String × String × String)) : List (String × String × Reset) :=
  tbl.map (fun r => (r.2.1, r.2.2.1, Reset.ofStrings r.2.2.2.1 r.2.2.2.2))

def resetOf (cm var : String) (rows : List (String × String × Reset)) : Option Reset :=
  (rows.find? (fun r => r.1 == cm && r.2.1 == var)).map (·.2.2)

end Jap.Heap

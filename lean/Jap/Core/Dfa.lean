/-
Table-driven automata (engine "Scalar", C01/C05): look-ups in bit-packed `Nat` tables, runs over class
words, the character → class map given by an interval table, and the lifting that turns a `decide +kernel`
certificate over all states of a table into a theorem about all words.  Nothing here depends on generated data.
-/
namespace Jap.Dfa

/-- field `i` of width `w` bits of the packed table `t` -/
@[inline] def fld (t w i : Nat) : Nat := (t >>> (w * i)) % (2 ^ w)

/-- A transition table stored in blocks of `BS` states (one packed `Nat` per block; a single literal of the
whole table is slow to parse and to shift).  `K` classes per state, `W` bits per entry. -/
structure Table where
  blocks : List Nat
  BS : Nat
  K : Nat
  W : Nat

/-- one transition: entry `(q % BS) * K + c` of block `q / BS` -/
def step (T : Table) (q c : Nat) : Nat := fld (T.blocks.getD (q / T.BS) 0) T.W ((q % T.BS) * T.K + c)

/-- run over a class word -/
def run (T : Table) (q : Nat) : List Nat → Nat
  | [] => q
  | c :: cs => run T (step T q c) cs

/-- bounded universal quantifier by structural recursion (cheap for the kernel) -/
def allBelow (p : Nat → Bool) : Nat → Bool
  | 0 => true
  | k + 1 => p k && allBelow p k

theorem allBelow_spec (p : Nat → Bool) : ∀ n, allBelow p n = true → ∀ j, j < n → p j = true := by
  intro n
  induction n with
  | zero => intro _ j hj; omega
  | succ k ih =>
    intro h j hj
    simp only [allBelow, Bool.and_eq_true] at h
    by_cases hjk : j = k
    · subst hjk; exact h.1
    · exact ih h.2 j (by omega)

/-- every entry of a packed table is below `2 ^ W`: a table read with `fld` is closed over the `2 ^ W`
(virtual) states by construction, so no closedness certificate is needed; entries beyond the literal read as 0 -/
theorem step_lt (T : Table) (q c : Nat) : step T q c < 2 ^ T.W := Nat.mod_lt _ (Nat.two_pow_pos _)

theorem run_lt (T : Table) (w : List Nat) : ∀ q, q < 2 ^ T.W → run T q w < 2 ^ T.W := by
  induction w with
  | nil => intro q hq; simpa [run] using hq
  | cons c cs ih => intro q _; simp only [run]; exact ih _ (step_lt T q c)

/-- lifting: a Boolean that holds in each of the `2 ^ W` states holds in the state reached by ANY class word -/
theorem lift (T : Table) (P : Nat → Bool) (hP : allBelow P (2 ^ T.W) = true) (w : List Nat) :
    P (run T 0 w) = true :=
  allBelow_spec P _ hP _ (run_lt T w 0 (Nat.two_pow_pos _))

/-- class of a code point: the class of the last interval starting at or below it (`cur` = class so far) -/
def classOfAux : List (Nat × Nat) → Nat → Nat → Nat
  | [], _, cur => cur
  | (lo, c) :: rest, cp, cur => if lo ≤ cp then classOfAux rest cp c else cur

def classOf (tbl : List (Nat × Nat)) (cp : Nat) : Nat := classOfAux tbl cp 0

/-- every class mentioned in the interval table is below `K` -/
def classTableOK (tbl : List (Nat × Nat)) (K : Nat) : Bool := tbl.all fun e => e.2 < K

theorem classOfAux_lt (tbl : List (Nat × Nat)) (K cp cur : Nat) (h : classTableOK tbl K = true) (hc : cur < K) :
    classOfAux tbl cp cur < K := by
  induction tbl generalizing cur with
  | nil => simpa [classOfAux] using hc
  | cons e rest ih =>
    obtain ⟨lo, c⟩ := e
    simp only [classTableOK, List.all_cons, Bool.and_eq_true, decide_eq_true_eq] at h
    simp only [classOfAux]
    split
    · exact ih c (by simpa [classTableOK] using h.2) h.1
    · exact hc

theorem classOf_lt (tbl : List (Nat × Nat)) (K cp : Nat) (h : classTableOK tbl K = true) (hK : 0 < K) :
    classOf tbl cp < K := classOfAux_lt tbl K cp 0 h hK

end Jap.Dfa

import Jap.Core.HeapHist
/-!
E11 "Heap", part 3 (C08): the process-level locations of a history — `os.environ`, `sys.argv`, the working directory
(and the other bracketed variables: `current_path_dir`, `argparse.Namespace`, the parser_context variables).

Every operation of the history machine gets a process-level skeleton `Op.proc`, a `Prog` over the `Store`:
  * `os.environ` and `sys.argv` are READ (a read leaves the store as it is); whether the call also writes them is
    what the regenerated live probes say (`Gen/HeapSites.processProbes`: one real call per entry point, successful and
    raising midway): every probe of the operation's sites "unchanged" → no write in the skeleton, else a write;
  * the working directory, `current_path_dir`, `argparse.Namespace` and the parser_context variables are set inside
    the context managers of the package, with the reset placed where the regenerated table `Gen/Brackets` says
    (`finally` / after the yield / none);
  * a `Fault` says where the call raises: not at all, before anything, inside all brackets, after them.
A history is a list of (operation, fault); an operation that raises is caught by the caller and the history goes on.
-/
namespace Jap.Heap

inductive Fault where
  | none | before | inside | after
deriving DecidableEq, Repr

/-- the probe rows an operation kind stands on (normal and failing calls of its entry points) -/
def Op.procSites : Op → List String
  | .dump _ => ["dump.cfg", "dump.fails"]
  | .validate _ => ["validate.cfg", "validate.fails"]
  | .validateBranch _ _ => ["validate.branch", "validate.fails"]
  | .merge _ _ => ["merge_config.cfg_from"]
  | .stripUnknown _ _ => ["strip_unknown.cfg"]
  | .instantiate _ => ["instantiate_classes.cfg"]
  | .parseObject _ _ => ["parse_object.cfg_obj.dict", "parse_object.fails"]
  | .parseArgs _ _ => ["parse_args.args", "parse_args.namespace", "parse_args.fails", "parse_args.cfgfile.fails"]
  | .parseText _ => ["parse_env.env", "parse_env.fails", "parse_string.fails", "parse_path.fails", "parse_path.elsewhere"]
  | .save true _ => ["save.cfg.multi", "save.fails"]
  | .save false _ => ["save.cfg.single", "save.fails"]
  | .getDefaults => ["get_defaults.default", "get_defaults.fails"]
  | .setDefault _ _ => ["set_defaults.value"]

/-- a location the operation only reads: no effect on the store, unless a probe of one of its sites saw the process
    state changed (or the site is not in the table) — then a write -/
def roEffect (probes : List (String × String)) (sites : List String) (var : String) : Prog :=
  if sites.all (fun s => probes.lookup s == some "unchanged") then .skip else .write var 1

def raiseIf (b : Bool) : Prog := if b then .raise else .skip

/-- `with cm(...)` as the regenerated table places its reset; a context manager missing from the table has no reset -/
def tableBracket (rows : List (String × String × Reset)) (cm var : String) (body : Prog) : Prog :=
  .bracket ((resetOf cm var rows).getD .none) var 7 body

/-- process-level skeleton of an operation standing on the given probe sites -/
def procOfSites (rows : List (String × String × Reset)) (probes : List (String × String)) (sites : List String) (f : Fault) : Prog :=
  .seq (raiseIf (f == .before))
  (.seq (roEffect probes sites "os.environ")
  (.seq (roEffect probes sites "sys.argv")
  (.seq
    (tableBracket rows "parser_context" "parent_parser"
    (tableBracket rows "parser_context" "lenient_check"
    (tableBracket rows "parser_context" "load_value_mode"
    (tableBracket rows "parser_context" "class_instantiators"
    (tableBracket rows "parser_context" "nested_links"
    (tableBracket rows "patch_namespace" "argparse.Namespace"
    (tableBracket rows "change_to_path_dir" "current_path_dir"
    (tableBracket rows "change_to_path_dir" "os.cwd"
      (.seq (.write "work-done" 1) (raiseIf (f == .inside)))))))))))
    (raiseIf (f == .after)))))

/-- process-level skeleton of one operation -/
def Op.proc (rows : List (String × String × Reset)) (probes : List (String × String)) (op : Op) (f : Fault) : Prog :=
  procOfSites rows probes op.procSites f

/-- all site lists of `Op.procSites` -/
def allProcSites : List (List String) :=
  [["dump.cfg", "dump.fails"], ["validate.cfg", "validate.fails"], ["validate.branch", "validate.fails"], ["merge_config.cfg_from"],
   ["strip_unknown.cfg"], ["instantiate_classes.cfg"], ["parse_object.cfg_obj.dict", "parse_object.fails"],
   ["parse_args.args", "parse_args.namespace", "parse_args.fails", "parse_args.cfgfile.fails"],
   ["parse_env.env", "parse_env.fails", "parse_string.fails", "parse_path.fails", "parse_path.elsewhere"],
   ["save.cfg.multi", "save.fails"], ["save.cfg.single", "save.fails"], ["get_defaults.default", "get_defaults.fails"],
   ["set_defaults.value"]]

def Fault.all : List Fault := [.none, .before, .inside, .after]

theorem Op.procSites_mem (op : Op) : op.procSites ∈ allProcSites := by
  cases op with
  | save mf a => cases mf <;> simp [Op.procSites, allProcSites]
  | _ => simp [Op.procSites, allProcSites]

theorem Fault.mem_all (f : Fault) : f ∈ Fault.all := by cases f <;> simp [Fault.all]

/-- the process state after a history; an operation that raises is caught by the caller, the history goes on -/
def runProc (rows : List (String × String × Reset)) (probes : List (String × String)) : List (Op × Fault) → Store → Store
  | [], s => s
  | (op, f) :: rest, s => runProc rows probes rest ((op.proc rows probes f).run s).2

/-- how each operation of the history ended -/
def procOutcomes (rows : List (String × String × Reset)) (probes : List (String × String)) : List (Op × Fault) → Store → List Outcome
  | [], _ => []
  | (op, f) :: rest, s => ((op.proc rows probes f).run s).1 :: procOutcomes rows probes rest ((op.proc rows probes f).run s).2

end Jap.Heap

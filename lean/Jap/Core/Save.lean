/-
E7 — `ArgumentParser.save` (jsonargparse/_core.py) as the SEQUENCE OF FILE-SYSTEM
EFFECTS IN SOURCE ORDER (property C18).

The configuration itself is not modelled: everything `save` computes from it —
does validation pass, what text does `dump` / `dump_using_format` produce or does
it raise, does `open(..., "w")` succeed, does `write` succeed — is an INPUT
(`Outcome`, `Wr`, `validateOk`, ...).  A theorem quantified over these inputs is
quantified over "a failure injected at each step of the save".

Source order modelled (local paths; the fsspec branch is `saveFsspec` below):

  check_valid_dump_format(format)                      -- formatOk
  path_fc = Path(path, mode="fc")                      -- pathFc
  check_overwrite(path_fc)                             -- refuse
  single-file:  dump = self.dump(cfg)                  -- i.dump   (validate + serialise)
                open(path,"w"); write(dump)            -- i.wr
  multi-file:   cfg.clone(); strip_link_target_keys    -- no file effect
                self.validate(strip_meta(cfg))         -- validateOk
                save_paths: for every sub-file, in get_sorted_keys order
                   Path(basename, "fc")                -- pathFc
                   check_overwrite                     -- refuse (against the CURRENT files)
                   kind cfg    : dump_using_format(raw sub-config) | __orig__ ; open ; write
                   kind content: val.get_content() ; open ; write          (save_path_content; fix 1bcbda4:
                                 the source is read BEFORE its destination is opened)
                dump = self.dump(cfg, skip_validation=True)   -- i.dump
                open(path,"w"); write(dump)                   -- i.wr
-/
namespace Jap.Save

/-- regular files: path ↦ content.  Directories, permissions etc. are facts of the caller (`Env`)
    that `save` never changes. -/
abbrev FS := List (String × String)

def FS.get (fs : FS) (p : String) : Option String := (fs.find? (·.1 == p)).map (·.2)
/-- create or replace -/
def FS.put (fs : FS) (p c : String) : FS := (p, c) :: fs.filter (·.1 != p)

/-- what `Path(p, mode="fc")` looks at besides regular files -/
structure Env where
  /-- paths whose parent directory does not exist; "parent" = `realpath(path/..)`, the directory the file would really
      be created in (for a path whose last component is a symbolic link: the parent of what the link points to) -/
  noParent : List String := []
  roParent : List String := []   -- paths whose parent directory (same reading) is not writeable
  /-- paths that exist and are neither regular files nor FIFOs (directories, sockets, devices): `Path(fc)` rejects them.
      FIFO targets are OUTSIDE the model: since fix 5706b13 an existing FIFO passes `Path(fc)`, `check_overwrite`
      (`os.path.isfile`) does not refuse it and `open(fifo, "w")` blocks until a reader appears; a FIFO stores no
      content, so nothing a FIFO "holds" can be destroyed — `FS` is about regular files only. -/
  nonFile  : List String := []
  /-- path aliasing: spelling ↦ the file it stands for (`realpath`: a symbolic link in the last component, a relative
      spelling of an absolute name, `a/../b`).  `check_overwrite` (`os.path.isfile(p.absolute)`), `Path(mode="fc")`
      (`os.access`, `os.path.isfile`, `realpath(p/..)`) and `open(p.absolute, "w")` all FOLLOW the link, i.e. all look
      at `resolve p` (tie: `tie_check_and_open_same_file`).  Spellings without an entry stand for themselves.  The other
      facts of `Env` and the keys of `FS` are about RESOLVED names. -/
  links    : List (String × String) := []

/-- the explicit resolve function of the file-system model -/
def Env.resolve (env : Env) (p : String) : String := ((env.links.find? (·.1 == p)).map (·.2)).getD p

inductive Err
  | format          -- ValueError  "Unknown output format"
  | path            -- PathError   from Path(mode="fc")
  | refuse          -- ValueError  "Refusing to overwrite existing file"
  | invalid         -- TypeError   from validate
  | unserialisable  -- RepresenterError / "not JSON serializable" from the dumper
  | os              -- open(p, "w") itself failed (nothing created)
  | io              -- write/close failed after open succeeded (OS-level partial write)
  | notImplemented  -- NotImplementedError "multifile=True not supported for fsspec paths" (fsspec branch only)
deriving DecidableEq, Repr

/-- result of a computation on the configuration (dump / serialise / read): fault point -/
inductive Outcome
  | fail (e : Err)
  | text (s : String)
deriving DecidableEq, Repr

/-- result of `open(p, "w")` and of the following `write`+`close`: fault points -/
structure Wr where
  openOk : Bool := true
  writeOk : Bool := true
deriving DecidableEq, Repr

deriving instance DecidableEq for Except

abbrev Result := Except Err Unit × FS

/-- `Path(p, mode="fc")`: parent directory exists and is writeable, `p` is not an existing path other than a
    regular file (or a FIFO, outside the model) -/
def pathFc (env : Env) (p : String) : Bool :=
  !env.noParent.contains p && !env.roParent.contains p && !env.nonFile.contains p

/-- `check_overwrite`: `not overwrite and os.path.isfile(p)` -/
def refuses (ow : Bool) (fs : FS) (p : String) : Bool := !ow && (fs.get p).isSome

/-- `with open(p, "w") as f: f.write(s)` with `s` already computed -/
def writeFile (fs : FS) (p s : String) (w : Wr) : Result :=
  if !w.openOk then (.error .os, fs)
  else
    let fs1 := fs.put p ""                               -- open(..., "w") creates / truncates
    if !w.writeOk then (.error .io, fs1)
    else (.ok (), fs1.put p s)

/-- `with open(p, "w") as f: f.write(<expr>)`: the text is computed AFTER the file was opened.
    No step of the LOCAL branches of the current `save` has this shape any more (fixes 8f1ace8, 0eab76f, 1bcbda4);
    the fsspec branch had it until fix 8a0a805 (`saveFsspecOld`).  Also used for the regression examples of the pre-fix orders. -/
def openThenWrite (fs : FS) (p : String) (d : Outcome) (w : Wr) : Result :=
  if !w.openOk then (.error .os, fs)
  else
    let fs1 := fs.put p ""
    match d with
    | .fail e => (.error e, fs1)
    | .text s =>
      if !w.writeOk then (.error .io, fs1)
      else (.ok (), fs1.put p s)

inductive SubKind
  | cfg       -- Namespace/dict value with `__path__` meta (sub-config loaded from its own file)
  | content   -- Path value listed in `parser.save_path_content`
deriving DecidableEq, Repr

/-- one file written by `save_paths`; `path` is the basename, resolved in the directory of the target -/
structure Sub where
  path : String
  kind : SubKind := .cfg
  /-- kind cfg: `dump_using_format` of the raw sub-config, or its `__orig__` text: fault point -/
  text : Outcome := .text ""
  /-- kind content: the file whose content is copied; it is read BEFORE the destination is opened -/
  src : String := ""
  /-- kind content: fault point of `val.get_content()` -/
  readOk : Bool := true
  wr   : Wr := {}
deriving DecidableEq, Repr

/-- `val.get_content()` evaluated on the files `fs1` -/
def readSrc (fs1 : FS) (s : Sub) : Outcome :=
  if !s.readOk then .fail .os
  else match fs1.get s.src with
    | some t => .text t
    | none => .fail .os

/-- the text a sub-file step tries to write, given the files at the start of the step -/
def Sub.written (s : Sub) (fs : FS) : Outcome :=
  match s.kind with
  | .cfg => s.text
  | .content => readSrc fs s

def subStep (env : Env) (ow : Bool) (fs : FS) (s : Sub) : Result :=
  if !pathFc env s.path then (.error .path, fs)
  else if refuses ow fs s.path then (.error .refuse, fs)
  else match s.kind with
    | .cfg =>
      match s.text with
      | .fail e => (.error e, fs)
      | .text t => writeFile fs s.path t s.wr
    | .content =>
      match readSrc fs s with
      | .fail e => (.error e, fs)
      | .text t => writeFile fs s.path t s.wr

/-- the sub-file step for a copied file as it was BEFORE fix 1bcbda4: destination opened, then source read -/
def subStepContentOld (fs : FS) (s : Sub) : Result :=
  openThenWrite fs s.path (readSrc (fs.put s.path "") s) s.wr

/-- the loop of `save_paths` -/
def saveSubs (env : Env) (ow : Bool) : FS → List Sub → Result
  | fs, [] => (.ok (), fs)
  | fs, s :: rest =>
    let r := subStep env ow fs s
    match r.1 with
    | .error e => (.error e, r.2)
    | .ok _ => saveSubs env ow r.2 rest

structure Input where
  path : String
  overwrite : Bool := false       -- default of the keyword argument (= Gen.SaveOrder.overwriteDefault, theorem tie_defaults)
  multifile : Bool := true        -- default of the keyword argument (= Gen.SaveOrder.multifileDefault, theorem tie_defaults)
  formatOk : Bool := true
  /-- single-file: `self.dump(cfg)` (validation + serialisation);
      multi-file: the final `self.dump(cfg, skip_validation=True)` of the config with sub-file references -/
  dump : Outcome
  wr : Wr := {}
  validateOk : Bool := true       -- multi-file only
  subs : List Sub := []           -- multi-file only, in the order `save_paths` visits them
deriving DecidableEq, Repr

def save (env : Env) (fs : FS) (i : Input) : Result :=
  if !i.formatOk then (.error .format, fs)
  else if !pathFc env i.path then (.error .path, fs)
  else if refuses i.overwrite fs i.path then (.error .refuse, fs)
  else if !i.multifile then
    match i.dump with
    | .fail e => (.error e, fs)
    | .text s => writeFile fs i.path s i.wr
  else if !i.validateOk then (.error .invalid, fs)
  else
    let r := saveSubs env i.overwrite fs i.subs
    match r.1 with
    | .error e => (.error e, r.2)
    | .ok _ =>
      match i.dump with
      | .fail e => (.error e, r.2)
      | .text s => writeFile r.2 i.path s i.wr

/-! ### path aliasing: `save` on spellings = `save` on the files the spellings stand for -/

def Sub.resolved (env : Env) (s : Sub) : Sub := { s with path := env.resolve s.path, src := env.resolve s.src }
def Input.resolved (env : Env) (i : Input) : Input :=
  { i with path := env.resolve i.path, subs := i.subs.map (Sub.resolved env) }

/-- `save` with targets given as SPELLINGS (symbolic links, relative names): every check and every open goes
    through `Env.resolve` -/
def saveR (env : Env) (fs : FS) (i : Input) : Result := save env fs (i.resolved env)

/-! ### the fsspec branch (`if fsspec_support: ... path_sc = Path(path, mode="sc") ... if path_sc.is_fsspec:`)

Source order since fixes 22a2e9a (F60) and 8a0a805 (F61) (jsonargparse/_core.py, `save`):

  check_valid_dump_format(format)                         -- formatOk
  path_sc = Path(path, mode="sc")                         -- recognition only: the mode has no r/w letter, so
                                                             `_util.Path.__init__` does NOT open the path (tie_fsspec_probe)
  if multifile: raise NotImplementedError                 -- before anything is looked at or touched
  fs, fs_path = fsspec.core.url_to_fs(path_sc.absolute)
  if not overwrite and fs.isfile(fs_path): raise ValueError("Refusing to overwrite existing file")   -- refuses
  dump = self.dump(cfg, **dump_kwargs)                    -- i.dump BEFORE the open
  with fsspec.open(path, "w") as f: f.write(dump)         -- i.wr

i.e. the single-file local branch without `Path(fc)`.  The branch as it was before (`saveFsspecOld`: write-probe,
no overwrite check, open before dump) is kept below as a regression record. -/
structure FInput where
  path : String
  overwrite : Bool := false
  multifile : Bool := true
  formatOk : Bool := true
  /-- only read by `saveFsspecOld`: outcome of the probing open-for-writing inside the former `Path(path, mode="sw")` -/
  probeOk : Bool := true
  dump : Outcome
  wr : Wr := {}
deriving DecidableEq, Repr

def saveFsspec (fs : FS) (i : FInput) : Result :=
  if !i.formatOk then (.error .format, fs)
  else if i.multifile then (.error .notImplemented, fs)
  else if refuses i.overwrite fs i.path then (.error .refuse, fs)
  else match i.dump with
    | .fail e => (.error e, fs)
    | .text s => writeFile fs i.path s i.wr

/-- the fsspec block BEFORE fixes 22a2e9a / 8a0a805: `Path(path, mode="sw")` probed the path by opening it for writing
    (created / truncated it), `NotImplementedError` came after that, there was no overwrite check, and the file was
    opened before `dump` ran -/
def saveFsspecOld (fs : FS) (i : FInput) : Result :=
  if !i.formatOk then (.error .format, fs)
  else if !i.probeOk then (.error .path, fs)
  else
    let fs1 := fs.put i.path ""
    if i.multifile then (.error .notImplemented, fs1)
    else openThenWrite fs1 i.path i.dump i.wr

/-- one call of `save`, on either branch -/
inductive Target
  | loc (env : Env) (i : Input)
  | fsspec (i : FInput)

def saveAny (fs : FS) : Target → Result
  | .loc env i => save env fs i
  | .fsspec i => saveFsspec fs i

def Target.overwrite : Target → Bool
  | .loc _ i => i.overwrite
  | .fsspec i => i.overwrite

/-- the call writes at most ONE file: local single-file mode, or the fsspec branch (which has no multi-file mode) -/
def Target.singleFile : Target → Bool
  | .loc _ i => !i.multifile
  | .fsspec _ => true

/-- the source order the definitions above implement, as data: compared by `decide` with the order
    extracted from /repo on every run (`Jap.Gen.SaveOrder`, theorems `tie_*` in Props/C18) -/
def modelSingleSteps : List String := ["format", "path_fc", "check_overwrite", "dump", "open", "write"]
def modelMultiSteps : List String :=
  ["format", "path_fc", "check_overwrite", "clone", "strip_links", "validate", "save_paths", "dump", "open", "write"]
def modelSubCfgSteps : List String := ["path_fc", "check_overwrite", "serialise", "open", "write"]
def modelSubContentSteps : List String := ["path_fc", "check_overwrite", "get_content", "open", "write"]
/-- the fsspec block of `save` (it follows "format"); `raise:NotImplementedError` is guarded by `if multifile` -/
def modelFsspecSteps : List String :=
  ["path_sc", "except:TypeError", "if:path_sc.is_fsspec", "if:multifile", "raise:NotImplementedError",
   "if:not overwrite and fs.isfile(fs_path)", "raise:ValueError", "dump", "fsspec_open", "write", "return"]
/-- the block as it was before 22a2e9a / 8a0a805 (`saveFsspecOld`) -/
def oldFsspecSteps : List String :=
  ["path_sw", "except:TypeError", "if:path_sw.is_fsspec", "if:multifile", "raise:NotImplementedError", "fsspec_open", "dump", "write", "return"]
/-- which file the overwrite check and the open of the fsspec block look at -/
def modelFsspecFileExprs : List String :=
  ["path_sc = Path(path, mode='sc')", "fs, fs_path = fsspec.core.url_to_fs(path_sc.absolute)", "open:path, 'w'"]
/-- what `Path(mode=…)` does to an fsspec path: ONLY when the mode has an r/w letter it opens the path with those
    letters and closes it.  `save` asks for "sc": no letter, no open (`saveFsspec` has no probe step); the former
    "sw" opened the path for writing (`saveFsspecOld`: `fs.put path ""`) -/
def modelFsspecProbe : List String :=
  ["fsspec_mode = ''.join((c for c in mode if c in {'r', 'w'}))", "if fsspec_mode", "fsspec.open(abs_path, fsspec_mode)", "handle.open()", "handle.close()"]

end Jap.Save

/-
E1 (continued): the remaining public surface of `jsonargparse/_namespace.py` —
`__bool__`, `keys`/`values` (in `Namespace.lean`), `as_flat`, `get_sorted_keys`, `is_meta_key`, `strip_meta`
(= `recreate_branches(cfg, skip_keys=meta_keys)`).

Core Lean only.  The meta-key table is a parameter; the driver passes `Jap.Gen.metaKeys`
(regenerated from `_namespace.meta_keys` on every run).
-/
import Jap.Core.Namespace

namespace Jap.NS

/-- `__bool__`: `bool(self.__dict__)` -/
def nonEmpty (root : KV) : Bool := !root.isEmpty

/-! ### `as_flat` -/

/-- `setattr(flat, key, val)` on an insertion-ordered attribute dictionary -/
def insertS (k : String) (v : V) : List (String × V) → List (String × V)
  | [] => [(k, v)]
  | (k', v') :: r => if k' = k then (k, v) :: r else (k', v') :: insertS k v r

/-- `as_flat()`: one attribute per leaf item, dotted key as attribute name -/
def asFlat (root : KV) : List (String × V) :=
  (items false root).foldl (fun acc kv => insertS kv.1 kv.2 acc) []

/-! ### `strip_meta` -/

/-- `key in skip_keys` for a stored attribute name (a clash-marked name starts with U+200B and is never a meta key) -/
def isMetaName (metaKeys : List String) (k : SKey) : Bool := !k.marked && metaKeys.contains k.name

mutual
/-- `recreate_branches(data, skip_keys)`: namespaces and dicts are rebuilt without the skipped keys,
lists and tuples element-wise, everything else is returned as it is -/
def stripV (metaKeys : List String) : V → V
  | .ns kvs => .ns (stripKV metaKeys kvs)
  | .dct kvs => .dct (stripKV metaKeys kvs)
  | .lst xs => .lst (stripL metaKeys xs)
  | .tup xs => .tup (stripL metaKeys xs)
  | .none => .none
  | .atom a => .atom a
def stripKV (metaKeys : List String) : KV → KV
  | [] => []
  | (k, v) :: r =>
    if isMetaName metaKeys k then stripKV metaKeys r else (k, stripV metaKeys v) :: stripKV metaKeys r
def stripL (metaKeys : List String) : List V → List V
  | [] => []
  | x :: r => stripV metaKeys x :: stripL metaKeys r
end

/-- `strip_meta(cfg)`: `return recreate_branches(cfg, skip_keys=meta_keys)` (the `if cfg:` guard of earlier
    versions is gone: an empty configuration is copied too; at the level of values there is no difference) -/
def stripMeta (metaKeys : List String) (root : KV) : KV := stripKV metaKeys root

/-! ### the other forms of `Namespace.__init__` -/

/-- `Namespace(ns)`: `for key, val in vars(ns).items(): self[key] = val` — the stored names are assigned as they are
    (a stored name holds no "." and, marked or not, is not itself a clash name: `clashNames` table fact) -/
def fromNs (kvs : KV) : KV := kvs.foldl (fun acc kv => insert kv.1 kv.2 acc) []

/-- `Namespace(**kwargs)`: argparse's `setattr(self, name, kwargs[name])` for every keyword -/
def initKwargs (clash : List String) (d : List (String × V)) : Except Err KV :=
  d.foldlM (fun acc (kv : String × V) => setAttr clash kv.1 kv.2 acc) []

/-- `get_value_and_parent`: `_parse_required_key`, then `(parent_ns[leaf_key], parent_ns, leaf_key)` — the leaf key is
    returned as stored (clash-marked), and `parent_ns[leaf_key]` finds it because no clash name begins with the mark -/
def valueAndParent (clash : List String) (key : String) (root : KV) : Except Err (V × KV × SKey) :=
  withKey clash key fun p l =>
    match walk p (.ns root) with
    | some (.ns kvs) =>
      match lookup l kvs with
      | some v => .ok (v, kvs, l)
      | .none => .error .key
    | _ => .error .key

/-- `namespace_to_dict(ns)`: `ns.clone().as_dict()` -/
def namespaceToDict (root : KV) : KV := asDict (clone root)

/-! ### `get_sorted_keys` -/

def splitDots (s : String) : List String := s.splitOn "."

/-- `is_meta_key`: `key.rsplit(".", 1)[-1] in meta_keys` -/
def isMetaKey (metaKeys : List String) (key : String) : Bool :=
  metaKeys.contains ((splitDots key).getLastD key)

/-- number of dot-separated segments: `len(split_key(x))` -/
def depth (k : String) : Nat := (splitDots k).length

/-- the proper prefixes `".".join(key_split[: num + 1])` for `num in range(len(key_split) - 1)` -/
def parentsOf (segs : List String) : List String :=
  (List.range (segs.length - 1)).map fun n => ".".intercalate (segs.take (n + 1))

/-- `if parent_key not in keys: keys.append(parent_key)` -/
def appendNew (acc : List String) (p : String) : List String :=
  if acc.contains p then acc else acc ++ [p]

/-- the `if branches:` block: the dotted keys are fixed before the loop, membership looks at the growing list -/
def addParents (keys0 : List String) : List String :=
  (keys0.filter fun k => k.toList.contains '.').foldl
    (fun acc key => (parentsOf (splitDots key)).foldl appendNew acc) keys0

/-- the sort key comparison of `keys.sort(key=lambda x: -len(split_key(x)))` -/
def deeperEq (a b : String) : Bool := decide (depth a ≥ depth b)

/-- `get_sorted_keys(branches)` with the default `key_filter=is_meta_key`; Python's sort is stable, so is `mergeSort` -/
def getSortedKeys (metaKeys : List String) (branches : Bool) (root : KV) : List String :=
  let ks := (keys false root).filter fun k => !isMetaKey metaKeys k
  let ks := if branches then addParents ks else ks
  ks.mergeSort deeperEq

end Jap.NS

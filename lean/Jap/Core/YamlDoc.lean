/-
Engine "Scalar", part 3 (C01): whole documents.  The block-style text `yaml_dump` writes for a nested
dict / list of scalars (PyYAML `Emitter.expect_block_mapping` / `expect_block_sequence` with the extracted
`default_flow_style = False`, `best_indent = 2`, indentless sequences in mapping values, `[]` / `{}` for empty
collections, simple keys), and libyaml's reading of that sub-language: lines -> column-tagged tokens
(BLOCK-ENTRY, KEY, scalar) -> recursive descent on the columns (the scanner's indentation roll / unroll and
the block parser's states).

* `V` : plain values.  A scalar is (tag, text): a str is `(str, s)`, an int is `(int, its text)` … — the
  constructors of int / float from their text are not part of this model.
* `linesNode`, `renderLine`, `emitDoc` : the emitter.  `emitDoc` is `none` (outside the model) when a scalar is
  outside `emitScalar` / `emitKey` (multi-line, folded, complex key `? `).
* `splitNL`, `scanLine`, `lineToks`, `pNode`, `loadDoc` : the loader on that text.  `loadDoc` is `none` for every
  layout outside the emitted sub-language (comments, flow collections, multi-line scalars, anchors, tabs, …).
-/
import Jap.Core.Emitter

namespace Jap.Scalar

/-- a scalar node: resolved tag and text (the value of a str; the written text of a non-str) -/
structure Sc where
  tag : Tag
  text : List Char
  deriving DecidableEq, Repr

mutual
inductive V
  | sc (s : Sc)
  | list (xs : VL)
  | dict (kvs : KVL)
inductive VL
  | nil
  | cons (x : V) (xs : VL)
inductive KVL
  | nil
  | cons (k : Sc) (v : V) (rest : KVL)
end

deriving instance DecidableEq for V, VL, KVL

/-- what fits on one line after `- ` or `key: ` -/
inductive Atom
  | sc (s : Sc)
  | eseq          -- `[]`
  | emap          -- `{}`
  deriving DecidableEq, Repr

def atomV : Atom → V
  | .sc s => .sc s
  | .eseq => .list .nil
  | .emap => .dict .nil

/-- column-tagged tokens: `- ` at column c, `key:` at column c, a one-line value -/
inductive Tok
  | dash (c : Nat)
  | key (c : Nat) (k : Sc)
  | val (a : Atom)
  deriving DecidableEq, Repr

inductive Body
  | atom (a : Atom)
  | key (k : Sc) (inl : Option Atom)
  deriving DecidableEq, Repr

/-- one line: `indent` spaces, `dashes` times `- `, the body -/
structure Line where
  indent : Nat
  dashes : Nat
  body : Body
  deriving DecidableEq, Repr

/-- a scalar the representers can produce: a str, or a text of the image language of its tag (what
`represent_int` / `represent_float` / `represent_bool` / `represent_none` write, columns of the joint automaton) -/
def ScOK (s : Sc) : Bool :=
  match s.tag with
  | .str => true
  | .null => inImageC Gen.Resolvers.imgNull s.text
  | .bool => inImageC Gen.Resolvers.imgBool s.text
  | .int => inImageC Gen.Resolvers.imgInt s.text
  | .float => inImageC Gen.Resolvers.imgFloatYaml s.text
  | .other _ => false

def atomOK : Atom → Bool
  | .sc s => ScOK s
  | _ => true

def bodyOK : Body → Bool
  | .atom a => atomOK a
  | .key k none => ScOK k
  | .key k (some a) => ScOK k && atomOK a

mutual
def VOK : V → Bool
  | .sc s => ScOK s
  | .list xs => VLOK xs
  | .dict kvs => KVLOK kvs
def VLOK : VL → Bool
  | .nil => true
  | .cons x xs => VOK x && VLOK xs
def KVLOK : KVL → Bool
  | .nil => true
  | .cons k v r => ScOK k && VOK v && KVLOK r
end

/-! ### the emitter: value -> lines -/

mutual
/-- lines of a node whose first line starts at column `n` with `d` pending `- ` indicators -/
def linesNode (n d : Nat) : V → List Line
  | .sc s => [⟨n, d, .atom (.sc s)⟩]
  | .list .nil => [⟨n, d, .atom .eseq⟩]
  | .list (.cons x xs) => linesNode n (d + 1) x ++ linesSeq (n + 2 * d) xs
  | .dict .nil => [⟨n, d, .atom .emap⟩]
  | .dict (.cons k v r) => linesEntry n d k v ++ linesMap (n + 2 * d) r
/-- further items of a block sequence at column `c` -/
def linesSeq (c : Nat) : VL → List Line
  | .nil => []
  | .cons x xs => linesNode c 1 x ++ linesSeq c xs
/-- further entries of a block mapping at column `c` -/
def linesMap (c : Nat) : KVL → List Line
  | .nil => []
  | .cons k v r => linesEntry c 0 k v ++ linesMap c r
/-- `key: value`: one-line values inline, a sequence indentless at the key's column, a mapping two columns in -/
def linesEntry (n d : Nat) (k : Sc) : V → List Line
  | .sc s => [⟨n, d, .key k (some (.sc s))⟩]
  | .list .nil => [⟨n, d, .key k (some .eseq)⟩]
  | .list (.cons x xs) => ⟨n, d, .key k none⟩ :: (linesNode (n + 2 * d) 1 x ++ linesSeq (n + 2 * d) xs)
  | .dict .nil => [⟨n, d, .key k (some .emap)⟩]
  | .dict (.cons k' v' r') => ⟨n, d, .key k none⟩ :: (linesEntry (n + 2 * d + 2) 0 k' v' ++ linesMap (n + 2 * d + 2) r')
end

/-! ### the emitter: lines -> characters -/

/-- tags whose values the representers write as plain scalars -/
def plainTag : Tag → Bool
  | .null | .bool | .int | .float => true
  | _ => false

/-- `!!null`, `!!bool`, `!!int`, `!!float` -/
def tagHandleLen : Tag → Nat
  | .int => 5
  | .float => 7
  | _ => 6

def plainScOK (sk : Bool) (col : Nat) (s : Sc) : Bool :=
  plainTag s.tag && decide (resolveDumpC s.text = s.tag) && allowBlockPlain allowUnicodeCfg s.text && !s.text.isEmpty
    && (if sk then decide (tagHandleLen s.tag + s.text.length < 128) else (!(s.text.any isSpaceA) || decide (col + s.text.length ≤ Gen.DumpCfg.yamlBestWidth)))

/-- text of a scalar in simple-key (`sk`) or value position starting at column `col`.  A str goes through
`analyze_scalar` / `choose_scalar_style`; a non-str is written plain when the dumper's own resolver gives its tag
back (`implicit`) and the analysis allows plain — otherwise the real emitter writes a `!!tag`, outside the model. -/
def emitSc (sk : Bool) (col : Nat) (s : Sc) : Option (List Char) :=
  if s.tag = .str then (if sk then emitKey s.text else emitScalar col s.text)
  else if plainScOK sk col s then some s.text else none

def emitAtom (col : Nat) : Atom → Option (List Char)
  | .sc s => emitSc false col s
  | .eseq => some ['[', ']']
  | .emap => some ['{', '}']

def dashText : Nat → List Char
  | 0 => []
  | d + 1 => '-' :: ' ' :: dashText d

def emitBody (col : Nat) : Body → Option (List Char)
  | .atom a => emitAtom col a
  | .key k none => (emitSc true col k).map fun kt => kt ++ [':']
  | .key k (some a) =>
    match emitSc true col k with
    | none => none
    | some kt => (emitAtom (col + kt.length + 2) a).map fun at_ => kt ++ ':' :: ' ' :: at_

def renderLine (l : Line) : Option (List Char) :=
  (emitBody (l.indent + 2 * l.dashes) l.body).map fun b => List.replicate l.indent ' ' ++ (dashText l.dashes ++ b)

/-- all lines, each terminated by a line feed -/
def renderLines : List Line → Option (List Char)
  | [] => some []
  | l :: ls =>
    match renderLine l, renderLines ls with
    | some t, some r => some (t ++ '\n' :: r)
    | _, _ => none

/-- the text `yaml_dump` writes for `v` (top level: a dict or a list; a top-level scalar gets a `...` line, outside the model) -/
def emitDoc (v : V) : Option (List Char) :=
  match v with
  | .sc _ => none
  | _ => renderLines (linesNode 0 0 v)

/-! ### the loader: characters -> lines -/

/-- split at line feeds; the text after the last one is the last element -/
def splitNL : List Char → List (List Char)
  | [] => [[]]
  | c :: cs =>
    if c = '\n' then [] :: splitNL cs
    else match splitNL cs with
      | [] => [[c]]
      | l :: ls => (c :: l) :: ls

def stripSpaces : List Char → Nat × List Char
  | [] => (0, [])
  | c :: cs => if c = ' ' then ((stripSpaces cs).1 + 1, (stripSpaces cs).2) else (0, c :: cs)

/-- BLOCK-ENTRY indicators on one line: `-` followed by exactly one space and more text -/
def stripDashes : List Char → Nat × List Char
  | [] => (0, [])
  | [c] => (0, [c])
  | c :: d :: cs => if c = '-' ∧ d = ' ' then ((stripDashes cs).1 + 1, (stripDashes cs).2) else (0, c :: d :: cs)

def scanAtom (t : List Char) : Option Atom :=
  if t = ['[', ']'] then some .eseq
  else if t = ['{', '}'] then some .emap
  else match loadLine t with
    | some (tag, v, []) => some (.sc ⟨tag, v⟩)
    | _ => none

/-- a scalar up to the end of the line, or a scalar followed by `:` (a simple key) and optionally one space and
a one-line value -/
def scanBody (t : List Char) : Option Body :=
  if t = ['[', ']'] then some (.atom .eseq)
  else if t = ['{', '}'] then some (.atom .emap)
  else match loadLine t with
    | some (tag, v, []) => some (.atom (.sc ⟨tag, v⟩))
    | some (tag, v, c :: r) =>
      if c = ':' then
        match r with
        | [] => some (.key ⟨tag, v⟩ none)
        | d :: r' => if d = ' ' then (scanAtom r').map fun a => .key ⟨tag, v⟩ (some a) else none
      else none
    | none => none

def scanLine (t : List Char) : Option Line :=
  let p := stripSpaces t
  let q := stripDashes p.2
  (scanBody q.2).map fun b => ⟨p.1, q.1, b⟩

def scanLines : List (List Char) → Option (List Line)
  | [] => some []
  | t :: ts =>
    match scanLine t, scanLines ts with
    | some l, some ls => some (l :: ls)
    | _, _ => none

/-! ### the loader: lines -> tokens -> value -/

def dashToks (n : Nat) : Nat → List Tok
  | 0 => []
  | d + 1 => .dash n :: dashToks (n + 2) d

def bodyToks (c : Nat) : Body → List Tok
  | .atom a => [.val a]
  | .key k none => [.key c k]
  | .key k (some a) => [.key c k, .val a]

def lineToks (l : Line) : List Tok := dashToks l.indent l.dashes ++ bodyToks (l.indent + 2 * l.dashes) l.body

def docToks : List Line → List Tok
  | [] => []
  | l :: ls => lineToks l ++ docToks ls

/-- the value of a key without anything after the `:` and without a nested block: the empty scalar -/
def nullV : V := .sc ⟨.null, []⟩

mutual
/-- a node whose first token is at column ≥ `lo` -/
def pNode : Nat → Nat → List Tok → Option (V × List Tok)
  | 0, _, _ => none
  | _ + 1, _, [] => none
  | _ + 1, _, .val a :: r => some (atomV a, r)
  | f + 1, lo, .dash c :: r =>
    if lo ≤ c then (pSeq f c (.dash c :: r)).map fun p => (.list p.1, p.2) else none
  | f + 1, lo, .key c k :: r =>
    if lo ≤ c then (pMap f c (.key c k :: r)).map fun p => (.dict p.1, p.2) else none
termination_by structural f => f
/-- entries of the block sequence at column `c` -/
def pSeq : Nat → Nat → List Tok → Option (VL × List Tok)
  | 0, _, _ => none
  | f + 1, c, .dash c' :: r =>
    if c' = c then
      match pNode f (c + 1) r with
      | none => none
      | some (x, r1) =>
        match pSeq f c r1 with
        | none => none
        | some (xs, r2) => some (.cons x xs, r2)
    else some (.nil, .dash c' :: r)
  | _ + 1, _, r => some (.nil, r)
termination_by structural f => f
/-- entries of the block mapping at column `c` -/
def pMap : Nat → Nat → List Tok → Option (KVL × List Tok)
  | 0, _, _ => none
  | f + 1, c, .key c' k :: r =>
    if c' = c then
      match pVal f c r with
      | none => none
      | some (v, r1) =>
        match pMap f c r1 with
        | none => none
        | some (rest, r2) => some (.cons k v rest, r2)
    else some (.nil, .key c' k :: r)
  | _ + 1, _, r => some (.nil, r)
termination_by structural f => f
/-- the value of a key at column `c`: on the same line, a sequence at a column ≥ c (indentless when equal), a mapping
at a column > c, or nothing (null) -/
def pVal : Nat → Nat → List Tok → Option (V × List Tok)
  | 0, _, _ => none
  | _ + 1, _, [] => some (nullV, [])
  | _ + 1, _, .val a :: r => some (atomV a, r)
  | f + 1, c, .dash c' :: r =>
    if c ≤ c' then (pSeq f c' (.dash c' :: r)).map fun p => (.list p.1, p.2) else some (nullV, .dash c' :: r)
  | f + 1, c, .key c' k :: r =>
    if c < c' then (pMap f c' (.key c' k :: r)).map fun p => (.dict p.1, p.2) else some (nullV, .key c' k :: r)
termination_by structural f => f
end

/-- a line that is only a scalar continues the previous scalar in YAML (multi-line plain scalar) or is a
top-level scalar document: outside the model, except the documents `[]` and `{}` -/
def bareAtom (l : Line) : Bool :=
  match l.dashes, l.body with
  | 0, .atom _ => true
  | _, _ => false

def loadLines (ls : List Line) : Option V :=
  if ls.any bareAtom then
    match ls with
    | [⟨_, 0, .atom .eseq⟩] => some (.list .nil)
    | [⟨_, 0, .atom .emap⟩] => some (.dict .nil)
    | _ => none
  else
    match pNode (3 * (docToks ls).length + 3) 0 (docToks ls) with
    | some (v, []) => some v
    | _ => none

/-- drop the (empty) text after the final line feed -/
def dropLastEmpty : List (List Char) → Option (List (List Char))
  | [] => none
  | [l] => if l = [] then some [] else none
  | l :: ls => (dropLastEmpty ls).map fun r => l :: r

/-- what `yaml_load` returns for a text of the emitted sub-language -/
def loadDoc (t : List Char) : Option V :=
  match dropLastEmpty (splitNL t) with
  | none => none
  | some ts =>
    match scanLines ts with
    | none => none
    | some ls => loadLines ls

end Jap.Scalar

/-
E13 "ExcFlow" — how a failure raised somewhere inside a parse method of
`jsonargparse.ArgumentParser` travels to the method boundary.

The model has two halves.

* REGENERATED (`Jap.Gen.ExcFlow.tables : Tables`, harness/extractors/excflow.py):
  for every handler the routing depends on, the class tuple it catches and what
  its body does (`self.error(..)`, `raise C(..)`, `raise type(ex)(..)`, swallow);
  what `ArgumentParser.error` does; `get_loader_exceptions(mode)`; the exit
  status of `ArgumentParser.exit()`; `exit_on_error` of the parsers the library
  creates itself; the live subclass relation among all exception classes.

* HAND-WRITTEN (this file): the *regions* of the code (a region = a piece of a
  function together with the handlers that enclose it inside that function),
  which region calls which (`children`), which failures a region is *designed*
  to raise (`designed`), and the routing functions.

A failure raised in a region travels outwards through the wrappers of the
region, then through the wrappers of the calling region, … up to a root region
of the public method (`route`).  The set of all signals that can be in flight
inside a region, over call paths of any depth (sub-commands inside sub-commands,
class arguments inside class arguments …), is the least fixed point `flight`;
`Jap.Lemmas.ExcFlow` proves that every path stays inside it.

Imports nothing beyond core Lean.  Outside the model: failures that are not
designed (AttributeError on a malformed sub-command section, RecursionError,
UnicodeDecodeError …) — they are what the hypothesis `StagesRaiseOnly` excludes
and what harness/props/c03.py hunts on the real code; `KeyboardInterrupt`,
`MemoryError`; `ActionParser`, `ActionJsonnet`, `ActionJsonSchema`; the debug
mode of `error()` (`JSONARGPARSE_DEBUG`), a user `error_handler`.
-/
namespace Jap.ExcFlow

/-! ### exception classes -/

/-- the universe of exception classes the tables may mention: the builtin
hierarchy (without warnings) and the library / dependency classes that occur in
handlers.  The extractor reads this constructor list and refuses (a problem)
any class in a handler that is not listed. -/
inductive Exc
  | BaseException | Exception | TypeError | ValueError | LookupError | KeyError | IndexError
  | AttributeError | ImportError | ModuleNotFoundError | AssertionError
  | OSError | FileNotFoundError | IsADirectoryError | NotADirectoryError | PermissionError
  | RuntimeError | RecursionError | NotImplementedError
  | UnicodeError | UnicodeDecodeError | UnicodeEncodeError
  | StopIteration | ArithmeticError | OverflowError | ZeroDivisionError | MemoryError
  | NameError | UnboundLocalError | EOFError | SyntaxError | BufferError
  | SystemExit | KeyboardInterrupt | GeneratorExit
  | ArgumentError | ArgumentTypeError | YAMLError | JSONDecodeError | TOMLDecodeError
  | PathError | NSKeyError
deriving DecidableEq, Repr, Inhabited

def Exc.all : List Exc :=
  [.BaseException, .Exception, .TypeError, .ValueError, .LookupError, .KeyError, .IndexError,
   .AttributeError, .ImportError, .ModuleNotFoundError, .AssertionError,
   .OSError, .FileNotFoundError, .IsADirectoryError, .NotADirectoryError, .PermissionError,
   .RuntimeError, .RecursionError, .NotImplementedError,
   .UnicodeError, .UnicodeDecodeError, .UnicodeEncodeError,
   .StopIteration, .ArithmeticError, .OverflowError, .ZeroDivisionError, .MemoryError,
   .NameError, .UnboundLocalError, .EOFError, .SyntaxError, .BufferError,
   .SystemExit, .KeyboardInterrupt, .GeneratorExit,
   .ArgumentError, .ArgumentTypeError, .YAMLError, .JSONDecodeError, .TOMLDecodeError,
   .PathError, .NSKeyError]

theorem Exc.mem_all (e : Exc) : e ∈ Exc.all := by cases e <;> decide

/-! ### methods, modes, stages -/

inductive Method | parseArgs | parseObject | parseString | parseEnv | parsePath
deriving DecidableEq, Repr, Inhabited

def Method.all : List Method := [.parseArgs, .parseObject, .parseString, .parseEnv, .parsePath]
theorem Method.mem_all (m : Method) : m ∈ Method.all := by cases m <;> decide

inductive Mode | yaml | json | toml | jsonnet
deriving DecidableEq, Repr, Inhabited

def Mode.all : List Mode := [.yaml, .json, .toml, .jsonnet]
theorem Mode.mem_all (m : Mode) : m ∈ Mode.all := by cases m <;> decide

/-- the named places where the real code can fail (DESIGN §6 C03) -/
inductive Stage
  | argvTokenise | actionCall | checkType | loadValue | loadConfig | path | applyActions
  | defaultConfigFile | envLoad | subcommands | subDefaults | links | validateValues | validateRequired
  | leftover | printConfig
deriving DecidableEq, Repr, Inhabited

def Stage.all : List Stage :=
  [.argvTokenise, .actionCall, .checkType, .loadValue, .loadConfig, .path, .applyActions,
   .defaultConfigFile, .envLoad, .subcommands, .subDefaults, .links, .validateValues, .validateRequired,
   .leftover, .printConfig]
theorem Stage.mem_all (s : Stage) : s ∈ Stage.all := by cases s <;> decide

/-! ### handlers (the regenerated half refers to these names) -/

/-- one entry of an `except` clause / `suppress(..)` argument list -/
inductive ExcRef
  | cls (c : Exc)
  | loader                 -- `get_loader_exceptions()`: of the mode in force
  | loaderOf (m : Mode)    -- `json_or_yaml_loader_exceptions`: of a fixed mode
  | deser                  -- `self.deserializer_exceptions` of a registered type
deriving DecidableEq, Repr

/-- what the body of a handler does with the exception it caught -/
inductive Act
  | callsError             -- `self.error(str(ex), ex)`
  | raises (c : Exc)       -- `raise C(..) from ex` (also through `raise_unexpected_value`, `argument_error`)
  | same                   -- `raise type(ex)(..)`, `raise ex`
  | swallow                -- no raise: execution continues after the handler
deriving DecidableEq, Repr

structure Handler where
  caught : List ExcRef
  act : Act
deriving DecidableEq, Repr

/-- the handler sites the routing depends on (one per `try`/`suppress` of the anchored code) -/
inductive Wrapper
  | outer (m : Method)     -- the outermost handler of the public method that calls `self.error`
  | knownArgs              -- parse_known_args: `except argparse.ArgumentError` → self.error
  | pathOwn                -- parse_path: `except TypeError` around `Path(cfg_path, ..)` and `get_content()` → self.error
  | pathRead               -- parse_path: `except (ValueError, OSError)` of the same try → self.error (2c9f0ad)
  | links                  -- _parse_common: `except Exception` around apply_parsing_links → self.error
  | getDefaults            -- get_defaults: around _parse_common of a default config file
  | defaultPaths           -- _get_default_config_files: `suppress(TypeError)` around Path(..)
  | validate               -- validate: `(TypeError, KeyError)` → `type(ex)(message)`
  | required               -- validate.check_required: `(KeyError, TypeError)` → TypeError
  | lcpm                   -- _load_config_parser_mode: loader exceptions → TypeError
  | checkValueKey          -- _check_value_key, plain `type=` actions: `(TypeError, ValueError)` → TypeError
  | envList                -- _load_env_vars: loader exceptions around load_value, swallowed
  | checkType              -- ActionTypeHint._check_type: `(TypeError, ValueError)` → TypeError
  | checkTypeLoad          -- _check_type: loader exceptions around parse_value_or_config, swallowed
  | vocPath                -- parse_value_or_config: `except TypeError: pass` around Path(..)
  | anyLoad                -- adapt_typehints, Any: `suppress(*get_loader_exceptions())`
  | leafLoad               -- adapt_typehints, basic types: `suppress(*json_or_yaml_loader_exceptions)`
  | annotated              -- adapt_typehints, Annotated validator: `except Exception` → ValueError
  | registered             -- RegisteredType.deserializer: deserializer_exceptions → ValueError
  | enumLookup             -- adapt_typehints, Enum: `except KeyError` → ValueError
  | typeImport             -- adapt_typehints, Type[..]: `(ImportError, AttributeError)` around import_object → ValueError
  | floatConv              -- adapt_typehints, basic types: `except OverflowError` around float(val) → ValueError
  | unionTry               -- adapt_typehints, Union: `except Exception` per member, then ValueError
  | subclassBranch         -- adapt_typehints, subclass types
  | callableBranch         -- adapt_typehints, Callable
  | dataclassBranch        -- adapt_typehints, dataclass-like: `except ArgumentError` around the internal parser → ValueError (52e5b95)
  | anyClasses             -- adapt_classes_any: `except Exception: return orig_val`
  | dictKwargsLoad         -- adapt_class_type: `suppress(get_loader_exceptions())`
  | discard                -- discard_init_args_on_class_path_change: `except Exception`
  | applyConfigPath        -- ActionConfigFile.apply_config: `except TypeError as ex_path` (string branch follows)
  | applyConfigStr         -- apply_config: `(TypeError, ValueError) + loader exceptions` → TypeError
  | configLoad             -- _ActionConfigLoad._load_config: `(TypeError,) + loader exceptions` → TypeError
  | helpImport             -- _ActionHelpClassPath.print_help: `except Exception` → TypeError
  | yamlLoad               -- yaml_load: `except ValueError` → yaml.YAMLError
deriving DecidableEq, Repr

/-- `ArgumentParser.error`, read off its AST -/
structure ErrorFn where
  /-- `if not self.exit_on_error: raise argument_error(message)`: the class raised -/
  raisesWhenNoExit : Option Exc
  /-- constant of the final `self.exit(N)` -/
  exitStatus : Option Nat
  usageToStderr : Bool
  errorLineToStderr : Bool
deriving DecidableEq, Repr

/-- where `parse_args` drops a pending `--print_config` request (`self.__dict__.pop("print_config", None)`) -/
inductive Cleanup
  | inFinally        -- in the `finally` of the method's try: runs on every exit of the try block
  | inHandlerOnly    -- only inside `except` handlers: skipped when the block is left by an exception no handler catches
  | absent
deriving DecidableEq, Repr

structure Tables where
  /-- live `issubclass`: all classes of the universe that `c` is a subclass of (itself included) -/
  ancestors : Exc → List Exc
  handler : Wrapper → Handler
  loaderExc : Mode → List Exc
  /-- union of `deserializer_exceptions` over the registered types -/
  deserExc : List Exc
  error : ErrorFn
  /-- default `status` of `ArgumentParser.exit()` (`--help`, `--print_config`) -/
  plainExit : Nat
  /-- `exit_on_error` of the parsers made by `ActionTypeHint.get_class_parser` -/
  innerExitOnError : Bool
  /-- `exit_on_error` of the parser made by `_ActionHelpClassPath.print_help`: a constant, or `none` = that of the
  parser the action belongs to (`exit_on_error=parser.exit_on_error`, 45f35d9) -/
  helpExitOnError : Option Bool
  /-- the attributes `_ActionSubCommands.add_subcommand` copies from the parent parser to the sub-command parser -/
  subInherited : List String
  /-- where parse_args drops a pending print_config request -/
  printConfigCleanup : Cleanup
  /-- explicit checks that turn a malformed value into a designed failure (each was a repair of a finding); the
  extractor lists those it still finds in the source -/
  guards : List String

def sub (T : Tables) (c d : Exc) : Bool := (T.ancestors c).contains d

def refMatches (T : Tables) (mode : Mode) (c : Exc) : ExcRef → Bool
  | .cls d => sub T c d
  | .loader => (T.loaderExc mode).any (sub T c)
  | .loaderOf m => (T.loaderExc m).any (sub T c)
  | .deser => T.deserExc.any (sub T c)

/-- `caught h C`: does the handler catch class `C` -/
def caught (T : Tables) (mode : Mode) (h : Handler) (c : Exc) : Bool :=
  h.caught.any (refMatches T mode c)

/-! ### signals -/

/-- where a signal that cannot conform by construction comes from (catalogued findings) -/
inductive Tag
  | clean
  | innerErr      -- `error()` of a parser made with exit_on_error=False, while the user's parser exits
  | forcedExit    -- `error()` of a parser made with exit_on_error=True, while the user's parser raises
  | directArgErr  -- a handler that raises ArgumentError itself instead of calling `error()`, while the user's parser exits
deriving DecidableEq, Repr

/-- what is in flight -/
inductive Sig
  | exc (c : Exc) (t : Tag)
  | exit (n : Nat) (t : Tag)
  | cont                      -- swallowed: the run continues
deriving DecidableEq, Repr

inductive Outcome
  | ok                        -- nothing left the method (swallowed / returned)
  | argErr
  | exit (n : Nat)
  | escapes (c : Exc)
deriving DecidableEq, Repr

def Sig.tag : Sig → Tag
  | .exc _ t => t
  | .exit _ t => t
  | .cont => .clean

/-- `self.error(..)` on a parser whose `exit_on_error` is `eff` (the tags of the catalogued origins are
put on when the signal LEAVES a parser the library made itself, see `retag`) -/
def errorSig (T : Tables) (_top eff : Bool) : Sig :=
  if eff then
    match T.error.exitStatus with
    | some n => .exit n .clean
    | none => .exc .UnboundLocalError .clean      -- error() returns: the method has no result to return
  else
    match T.error.raisesWhenNoExit with
    | some c => .exc c .clean
    | none =>
      match T.error.exitStatus with
      | some n => .exit n .clean
      | none => .exc .UnboundLocalError .clean

def applyAct (T : Tables) (top eff : Bool) (a : Act) (s : Sig) : Sig :=
  match a with
  | .callsError => errorSig T top eff
  | .raises d =>
    -- an ArgumentError of an internal parser wrapped into another ArgumentError (get_defaults) is still that failure
    .exc d (if s.tag = .innerErr && sub T d .ArgumentError then .innerErr
            else if top && sub T d .ArgumentError then .directArgErr else .clean)
  | .same => s
  | .swallow => .cont

def stepWrapper (T : Tables) (mode : Mode) (top eff : Bool) (s : Sig) (w : Wrapper) : Sig :=
  let h := T.handler w
  match s with
  | .exc c _ => if caught T mode h c then applyAct T top eff h.act s else s
  | .exit _ _ => if caught T mode h .SystemExit then applyAct T top eff h.act s else s
  | .cont => .cont

/-- at the boundary of the public method -/
def outcome (T : Tables) (top : Bool) : Sig → Outcome
  | .cont => .ok
  | .exit n _ => .exit n
  | .exc c _ => if sub T c .ArgumentError && !top then .argErr else .escapes c

/-- the property: `ArgumentError` when exit_on_error is false, exit status 2 otherwise
(`ok`: the failure was absorbed and the parse goes on; status 0: help / print_config) -/
def conforming (top : Bool) : Outcome → Bool
  | .ok => true
  | .argErr => !top
  | .exit n => n == 0 || (top && n == 2)
  | .escapes _ => false

/-! ### regions -/

/-- pieces of code, each with the handlers that enclose it inside its function -/
inductive Region
  | body (m : Method)        -- the `try` body of the public method (parse_path: its whole body)
  | innerBody (m : Method)   -- the same code running on a parser made by get_class_parser
  | helpBody                 -- parse_args of the parser made by _ActionHelpClassPath.print_help
  | subBody (m : Method)     -- the same code running on a sub-command parser (made by the USER, settings copied by add_subcommand)
  | argsPre                  -- parse_args before its `try`: "All arguments are expected to be strings"
  | pathCtor                 -- parse_path: `Path(cfg_path, ..)`
  | pathContent              -- parse_path: `fpath.get_content()`
  | defaultsEnv              -- _parse_defaults_and_environ
  | getDefaults              -- get_defaults
  | defPaths                 -- _get_default_config_files: Path(..) of each default file
  | defContent               -- get_defaults: `default_config_file.get_content()`
  | defCommon                -- get_defaults: _parse_common of the default config, as the parse methods call it (validation skipped)
  | envLoad                  -- _load_env_vars
  | envList                  -- _load_env_vars: load_value of a list-valued variable
  | lcpm                     -- _load_config_parser_mode
  | lcpmLoad                 -- _load_config_parser_mode: load_value
  | loadValue                -- load_value → loaders[mode], on a value
  | loadDoc                  -- load_value → loaders[mode], on a whole config document
  | yamlConstruct            -- yaml_load: yaml.load (mode yaml / jsonnet)
  | yamlAlways               -- json_or_yaml_load → yaml_load (whatever the mode)
  | common                   -- _parse_common
  | subcommands              -- _ActionSubCommands.handle_subcommands
  | subDefaults              -- ActionTypeHint.add_sub_defaults
  | printConfig              -- _ActionPrintConfig.print_config_if_requested
  | links                    -- ActionLink.apply_parsing_links
  | validate                 -- validate: check_values
  | required                 -- validate: check_required
  | applyActions             -- _apply_actions
  | checkValueKey            -- _check_value_key
  | plainType                -- _check_value_key: `action.type(value)`
  | checkType                -- ActionTypeHint._check_type
  | checkTypeLoad            -- _check_type: parse_value_or_config
  | valueOrConfig            -- parse_value_or_config
  | vocPath                  -- parse_value_or_config: Path(..)
  | vocContent               -- parse_value_or_config: get_content
  | adapt                    -- adapt_typehints (raise_unexpected_value of every branch)
  | anyLoad | anyClasses | leafLoad | annotated | registered | enumLookup | typeImport | unionTry
  | floatConv                -- adapt_typehints, basic types: float(val) of an int
  | subclass | callable | dataclass
  | classType                -- adapt_class_type
  | dictKwargsLoad
  | merge                    -- merge_config (apply_appends, discard_init_args_on_class_path_change)
  | discard                  -- discard_init_args_on_class_path_change (module function): _check_value_key of the old init_args
  | discardStatic            -- ActionTypeHint.discard_init_args_on_class_path_change: walks both configs; designed to raise nothing, no handler
  | knownArgs                -- argparse's _parse_known_args under parse_known_args' handler
  | typehintAction           -- ActionTypeHint.__call__
  | applyConfig              -- ActionConfigFile.apply_config
  | acPath                   -- apply_config: Path(value, ..)
  | acStr                    -- apply_config: string branch (load_value probe, parse_string)
  | acElse                   -- apply_config: path branch (parse_path)
  | configLoad               -- _ActionConfigLoad._load_config
  | subcmdAction             -- _ActionSubCommands.__call__
  | printConfigAction        -- _ActionPrintConfig.__call__
  | helpAction               -- argparse _HelpAction
  | helpClassPath            -- _ActionHelpClassPath.print_help
  | helpImport               -- print_help: import of the class
  | positional               -- _positional_optionals
  | leftover                 -- "Unrecognized arguments"
deriving DecidableEq, Repr

def Region.all : List Region :=
  [.body .parseArgs, .body .parseObject, .body .parseString, .body .parseEnv, .body .parsePath,
   .innerBody .parseArgs, .innerBody .parseObject, .innerBody .parseString, .innerBody .parseEnv, .innerBody .parsePath,
   .helpBody, .argsPre, .pathCtor, .pathContent, .defaultsEnv, .getDefaults, .defPaths, .defContent, .defCommon,
   .envLoad, .envList, .lcpm, .lcpmLoad, .loadValue, .yamlConstruct, .yamlAlways, .common, .subcommands,
   .subDefaults, .printConfig, .links, .validate, .required, .applyActions, .checkValueKey, .plainType,
   .checkType, .checkTypeLoad, .valueOrConfig, .vocPath, .vocContent, .adapt, .anyLoad, .anyClasses, .leafLoad,
   .annotated, .registered, .enumLookup, .typeImport, .unionTry, .subclass, .callable, .dataclass, .classType,
   .dictKwargsLoad, .merge, .discard, .knownArgs, .typehintAction, .applyConfig, .acPath, .acStr, .acElse,
   .configLoad, .subcmdAction, .printConfigAction, .helpAction, .helpClassPath, .helpImport, .positional, .leftover, .loadDoc, .floatConv,
   .subBody .parseArgs, .subBody .parseObject, .subBody .parseString, .subBody .parseEnv, .subBody .parsePath, .discardStatic]

theorem Region.mem_all (r : Region) : r ∈ Region.all := by
  cases r with
  | body m => cases m <;> simp [Region.all]
  | innerBody m => cases m <;> simp [Region.all]
  | subBody m => cases m <;> simp [Region.all]
  | _ => simp [Region.all]

/-- the code of a method body (the same for the user's parser, a sub-command
parser and an internal parser) -/
def bodyWrappers : Method → List Wrapper
  | .parsePath => []
  | m => [.outer m]

/-- handlers enclosing the region inside its function, innermost first -/
def wrappers : Region → List Wrapper
  | .body m => bodyWrappers m
  | .innerBody m => bodyWrappers m
  | .subBody m => bodyWrappers m
  | .helpBody => bodyWrappers .parseArgs
  | .pathCtor => [.pathOwn, .pathRead]
  | .pathContent => [.pathOwn, .pathRead]
  | .defPaths => [.defaultPaths]
  | .defCommon => [.getDefaults]
  | .envList => [.envList]
  | .lcpmLoad => [.lcpm]
  | .yamlConstruct => [.yamlLoad]
  | .yamlAlways => [.yamlLoad]
  | .links => [.links]
  | .validate => [.validate]
  | .required => [.required]
  | .plainType => [.checkValueKey]
  | .checkType => [.checkType]
  | .checkTypeLoad => [.checkTypeLoad]
  | .vocPath => [.vocPath]
  | .anyLoad => [.anyLoad]
  | .anyClasses => [.anyClasses]
  | .leafLoad => [.leafLoad]
  | .annotated => [.annotated]
  | .registered => [.registered]
  | .enumLookup => [.enumLookup]
  | .typeImport => [.typeImport]
  | .floatConv => [.floatConv]
  | .unionTry => [.unionTry]
  | .subclass => [.subclassBranch]
  | .callable => [.callableBranch]
  | .dataclass => [.dataclassBranch]
  | .dictKwargsLoad => [.dictKwargsLoad]
  | .discard => [.discard]
  | .knownArgs => [.knownArgs]
  | .acPath => [.applyConfigPath, .applyConfigStr]
  | .acStr => [.applyConfigStr]
  | .configLoad => [.configLoad]
  | .helpImport => [.helpImport]
  | _ => []

def bodyChildren : Method → List Region
  | .parseArgs => [.defaultsEnv, .merge, .knownArgs, .positional, .leftover, .common]
  | .parseObject => [.defaultsEnv, .merge, .applyActions, .common]
  | .parseString => [.lcpm, .defaultsEnv, .merge, .common]
  | .parseEnv => [.defaultsEnv, .common]
  | .parsePath => [.pathCtor, .pathContent, .body .parseString]

/-- which regions a region calls (the call structure of the anchored code; cyclic) -/
def children : Region → List Region
  | .body m => bodyChildren m
  | .innerBody m => bodyChildren m
  | .subBody m => bodyChildren m
  | .helpBody => bodyChildren .parseArgs
  | .defaultsEnv => [.getDefaults, .envLoad, .merge]
  | .getDefaults => [.defPaths, .defContent, .lcpm, .merge, .defCommon, .subDefaults]
  | .defCommon => [.subcommands, .links]   -- _parse_common(skip_validation=True, defaults=False, env=False, fail_no_subcommand=False)
  | .envLoad => [.applyConfig, .checkValueKey, .subBody .parseEnv, .envList, .applyActions]
  | .envList => [.loadValue]
  | .lcpm => [.lcpmLoad, .applyActions]
  | .lcpmLoad => [.loadDoc]
  | .loadDoc => [.yamlConstruct]
  | .loadValue => [.yamlConstruct]
  | .common => [.subcommands, .subDefaults, .printConfig, .links, .validate]
  | .subcommands => [.subBody .parseEnv, .getDefaults, .merge]
  | .subDefaults => [.applyActions]
  | .links => [.checkValueKey]
  | .validate => [.checkValueKey, .required]
  | .applyActions => [.checkValueKey]
  | .checkValueKey => [.validate, .configLoad, .checkType, .plainType]
  | .checkType => [.checkTypeLoad, .adapt]
  | .checkTypeLoad => [.valueOrConfig]
  | .valueOrConfig => [.vocPath, .vocContent, .loadValue]
  | .vocContent => [.loadValue]
  | .adapt => [.anyLoad, .anyClasses, .leafLoad, .floatConv, .annotated, .registered, .enumLookup, .typeImport, .unionTry,
               .subclass, .callable, .dataclass]
  | .anyLoad => [.valueOrConfig]
  | .anyClasses => [.classType]
  | .leafLoad => [.yamlAlways]
  | .unionTry => [.adapt]
  | .subclass => [.classType]
  | .callable => [.classType]
  | .dataclass => [.innerBody .parseObject, .innerBody .parseArgs]
  | .classType => [.innerBody .parseObject, .innerBody .parseArgs, .dictKwargsLoad, .discard]
  | .dictKwargsLoad => [.loadValue]
  | .merge => [.checkType, .discardStatic]
  | .discardStatic => [.discard]
  | .discard => [.checkValueKey]
  | .knownArgs => [.typehintAction, .applyConfig, .configLoad, .merge, .subcmdAction, .printConfigAction,
                   .helpAction, .helpClassPath]
  | .typehintAction => [.checkType, .discardStatic]
  | .applyConfig => [.acPath, .acStr, .acElse, .merge]
  | .acStr => [.loadValue, .body .parseString]
  | .acElse => [.body .parsePath]
  | .configLoad => [.valueOrConfig, .applyActions]
  | .subcmdAction => [.subBody .parseArgs]
  | .helpClassPath => [.helpImport, .helpBody]
  | .positional => [.checkValueKey]
  | _ => []

/-- entry regions of a public method on the user's parser -/
def roots : Method → List Region
  | .parseArgs => [.argsPre, .body .parseArgs]
  | m => [.body m]

def stageOf : Region → Option Stage
  | .argsPre => some .argvTokenise
  | .knownArgs => some .argvTokenise
  | .typehintAction | .applyConfig | .acElse | .subcmdAction | .printConfigAction | .helpAction
  | .helpClassPath | .helpImport => some .actionCall
  | .checkValueKey | .plainType | .checkType | .adapt | .annotated | .registered | .enumLookup | .typeImport | .floatConv
  | .unionTry | .subclass | .callable | .dataclass | .classType | .anyClasses | .merge | .discard | .discardStatic | .positional =>
    some .checkType
  | .loadValue | .yamlConstruct | .yamlAlways | .envList | .checkTypeLoad | .valueOrConfig | .anyLoad | .leafLoad
  | .dictKwargsLoad | .acStr | .configLoad => some .loadValue
  | .lcpm | .lcpmLoad | .loadDoc => some .loadConfig
  | .pathCtor | .pathContent | .defPaths | .defContent | .vocPath | .vocContent | .acPath => some .path
  | .applyActions => some .applyActions
  | .getDefaults | .defCommon => some .defaultConfigFile
  | .envLoad => some .envLoad
  | .subcommands => some .subcommands
  | .subDefaults => some .subDefaults
  | .links => some .links
  | .validate => some .validateValues
  | .required => some .validateRequired
  | .leftover => some .leftover
  | .printConfig => some .printConfig
  | _ => none

/-- a designed failure of a region -/
inductive DSig
  | exc (c : Exc)     -- raises `c` or a subclass of it
  | loader            -- raises a loader exception of the mode in force
  | deser             -- raises one of the registered type's deserializer exceptions
  | errorCall         -- calls `self.error(..)` itself
  | exit0             -- `parser.exit()` (help, print_config)
deriving DecidableEq, Repr

/-- the failures each region is DESIGNED to raise itself (not those of the regions it calls) -/
def designed (mode : Mode) : Region → List DSig
  | .argsPre => [.errorCall]
  | .pathCtor => [.exc .TypeError, .exc .ValueError]  -- PathError; ValueError of the os calls (NUL byte)
  | .pathContent => [.exc .ValueError, .exc .OSError] -- not UTF-8 (UnicodeDecodeError), stdin closed, read errors
  | .defPaths => [.exc .TypeError]
  | .lcpm => [.exc .TypeError]                       -- "Unexpected config"
  | .loadValue => [.loader]
  | .loadDoc => [.loader]
  | .yamlConstruct => if mode = .yaml || mode = .jsonnet then [.exc .YAMLError, .exc .ValueError] else []
  | .yamlAlways => [.exc .YAMLError, .exc .ValueError]
  | .subcommands => [.exc .KeyError, .exc .TypeError] -- NSKeyError: sub-command missing / unknown name (96e4fb9); TypeError: name not hashable, settings not a mapping (adfb1a7)
  | .subcmdAction => [.exc .TypeError]               -- _check_subcommand_settings: settings given earlier (e.g. by --cfg) are not a mapping (adfb1a7)
  | .printConfig => [.exit0]
  | .links => [.exc .Exception]                      -- user compute_fn: anything
  | .validate => [.exc .KeyError]                    -- NSKeyError: unexpected key
  | .required => [.exc .KeyError, .exc .TypeError]
  | .applyActions => [.exc .KeyError, .exc .TypeError] -- Namespace(dict): malformed / non-string keys
  | .checkValueKey => [.exc .TypeError]              -- choices
  | .plainType => [.exc .TypeError, .exc .ValueError]
  | .checkType => [.exc .TypeError, .exc .ValueError]
  | .vocPath => [.exc .TypeError]
  | .adapt => [.exc .ValueError, .exc .TypeError, .exc .KeyError]  -- raise_unexpected_value; values of the wrong shape (unhashable, malformed keys)
  | .annotated => [.exc .Exception]
  | .registered => [.deser]
  | .enumLookup => [.exc .KeyError, .exc .TypeError]
  | .typeImport => [.exc .ImportError, .exc .AttributeError, .exc .ValueError]
  | .floatConv => [.exc .OverflowError]
  | .subclass => [.exc .ImportError, .exc .AttributeError, .exc .AssertionError, .exc .ValueError]
  | .callable => [.exc .ImportError, .exc .AttributeError, .exc .ValueError]
  | .dataclass => [.exc .ValueError]
  | .classType => [.exc .ImportError, .exc .AttributeError]
  | .knownArgs => [.exc .ArgumentError, .exc .TypeError] -- argparse itself; actions that have no region of their own (ActionYesNo, ActionParser)
  | .acPath => [.exc .TypeError]
  | .configLoad => [.exc .TypeError]
  | .printConfigAction => [.exc .ArgumentError]
  | .helpAction => [.exit0]
  | .helpClassPath => [.exc .TypeError, .exc .ArgumentError, .exit0]
  | .helpImport => [.exc .Exception]
  | .leftover => [.errorCall]
  | _ => []

/-- what the loader of each mode raises on a malformed document (PyYAML, json, tomllib, jsonnet_load) —
hand-written on purpose: `get_loader_exceptions(mode)` is what has to cover it -/
def loaderRaises : Mode → List Exc
  | .yaml => [.YAMLError]
  | .json => [.JSONDecodeError]
  | .toml => [.TOMLDecodeError]
  | .jsonnet => [.YAMLError, .ValueError]

/-- `exit_on_error` of the parser a region runs on, given that of the calling region -/
def subInheritsExit (T : Tables) : Bool := T.subInherited.contains "exit_on_error"

def effOf (T : Tables) (eff : Bool) : Region → Bool
  | .innerBody _ => T.innerExitOnError
  | .helpBody => T.helpExitOnError.getD eff
  -- a sub-command parser is built by the user with any exit_on_error; add_subcommand overwrites it with the
  -- parent's.  Were it not copied, the two could differ: the model then takes the value that differs.
  | .subBody _ => if subInheritsExit T then eff else !eff
  | _ => eff

/-- tag of what a region raises itself (no region is a tagged origin any more: the `Type[..]` import got its handler) -/
def bornTag : Region → Tag
  | _ => .clean

def below (T : Tables) (cs : List Exc) : List Exc := Exc.all.filter (fun c => cs.any (sub T c))

/-- the designed failures of a region as signals in flight inside it -/
def bornOf (T : Tables) (mode : Mode) (top eff : Bool) (r : Region) : DSig → List Sig
  | .exc c => (below T [c]).map (fun d => .exc d (bornTag r))
  | .loader => (below T (loaderRaises mode)).map (fun d => .exc d (bornTag r))
  | .deser => (below T T.deserExc).map (fun d => .exc d (bornTag r))
  | .errorCall => [errorSig T top eff]
  | .exit0 => [.exit T.plainExit .clean]

def born (T : Tables) (mode : Mode) (top eff : Bool) (r : Region) : List Sig :=
  (designed mode r).flatMap (bornOf T mode top eff r)

/-! ### routing -/

/-- through the wrappers of one region -/
def stepRegion (T : Tables) (mode : Mode) (top eff : Bool) (r : Region) (s : Sig) : Sig :=
  (wrappers r).foldl (stepWrapper T mode top eff) s

/-- the tag of a catalogued origin is put on a signal when it leaves a parser the LIBRARY made with an
`exit_on_error` of its own choice (get_class_parser: False; class help: default True) in the form that
the user's parser must not produce: an ArgumentError while the user's parser exits, an exit with a
non-zero status while it raises.  (A mismatch of a sub-command parser gets no tag: it must not exist.) -/
def retag (T : Tables) (top : Bool) (c : Region) (s : Sig) : Sig :=
  let lib : Option Bool := match c with
    | .innerBody _ => some T.innerExitOnError
    | .helpBody => T.helpExitOnError
    | _ => none
  match lib, s with
  | some false, .exc e .clean => if top && sub T e .ArgumentError then .exc e .innerErr else s
  | some true, .exit n .clean => if !top && n != 0 then .exit n .forcedExit else s
  | _, _ => s

/-- out of callee `c` into a caller whose parser has `exit_on_error = eff` -/
def stepChild (T : Tables) (mode : Mode) (top eff : Bool) (c : Region) (s : Sig) : Sig :=
  retag T top c (stepRegion T mode top (effOf T eff c) c s)

/-- `emerge eff path s`: the signal in flight inside a region whose parser has
`exit_on_error = eff`, when `s` is raised at the end of the call path `path`
(outermost callee first) below it -/
def emerge (T : Tables) (mode : Mode) (top : Bool) : Bool → List Region → Sig → Sig
  | _, [], s => s
  | eff, c :: rest, s =>
    stepChild T mode top eff c (emerge T mode top (effOf T eff c) rest s)

/-- is `path` a call path below region `r` -/
def chain : Region → List Region → Bool
  | _, [] => true
  | r, c :: rest => (children r).contains c && chain c rest

def leaf : Region → List Region → Region
  | r, [] => r
  | _, c :: rest => leaf c rest

def effLeaf (T : Tables) : Bool → List Region → Bool
  | eff, [] => eff
  | eff, c :: rest => effLeaf T (effOf T eff c) rest

/-- the signal that leaves the root region -/
def routeSig (T : Tables) (mode : Mode) (top : Bool) (root : Region) (path : List Region) (s : Sig) : Sig :=
  stepRegion T mode top top root (emerge T mode top top path s)

/-- `route`: what the caller of the public method sees -/
def routePath (T : Tables) (mode : Mode) (top : Bool) (root : Region) (path : List Region) (s : Sig) : Outcome :=
  outcome T top (routeSig T mode top root path s)

/-! ### all signals in flight, over call paths of any depth (least fixed point) -/

abbrev St := Region × Bool

def St.all : List St := Region.all.flatMap (fun r => [(r, false), (r, true)])

def Method.code : Method → Nat
  | .parseArgs => 0 | .parseObject => 1 | .parseString => 2 | .parseEnv => 3 | .parsePath => 4

/-- position in `Region.all` (a plain number: table lookups by key are slow in the kernel) -/
def Region.code : Region → Nat
  | .body m => m.code
  | .innerBody m => 5 + m.code
  | .helpBody => 10 | .argsPre => 11 | .pathCtor => 12 | .pathContent => 13 | .defaultsEnv => 14 | .getDefaults => 15
  | .defPaths => 16 | .defContent => 17 | .defCommon => 18 | .envLoad => 19 | .envList => 20 | .lcpm => 21
  | .lcpmLoad => 22 | .loadValue => 23 | .yamlConstruct => 24 | .yamlAlways => 25 | .common => 26 | .subcommands => 27
  | .subDefaults => 28 | .printConfig => 29 | .links => 30 | .validate => 31 | .required => 32 | .applyActions => 33
  | .checkValueKey => 34 | .plainType => 35 | .checkType => 36 | .checkTypeLoad => 37 | .valueOrConfig => 38
  | .vocPath => 39 | .vocContent => 40 | .adapt => 41 | .anyLoad => 42 | .anyClasses => 43 | .leafLoad => 44
  | .annotated => 45 | .registered => 46 | .enumLookup => 47 | .typeImport => 48 | .unionTry => 49 | .subclass => 50
  | .callable => 51 | .dataclass => 52 | .classType => 53 | .dictKwargsLoad => 54 | .merge => 55 | .discard => 56
  | .knownArgs => 57 | .typehintAction => 58 | .applyConfig => 59 | .acPath => 60 | .acStr => 61 | .acElse => 62
  | .configLoad => 63 | .subcmdAction => 64 | .printConfigAction => 65 | .helpAction => 66 | .helpClassPath => 67
  | .helpImport => 68 | .positional => 69 | .leftover => 70 | .loadDoc => 71 | .floatConv => 72
  | .subBody m => 73 + m.code
  | .discardStatic => 78

def St.idx (st : St) : Nat := 2 * st.1.code + (if st.2 then 1 else 0)


/-- signals as plain numbers (membership tests on numbers are fast in the kernel) -/
def Sig.code : Sig → Nat
  | .cont => 0
  | .exc c t => 1 + 2 * (c.ctorIdx * 8 + t.ctorIdx)
  | .exit n t => 2 + 2 * (n * 8 + t.ctorIdx)

def Sig.ofCode (k : Nat) : Sig :=
  if k = 0 then .cont
  else if k % 2 = 1 then .exc (Exc.ofNat ((k - 1) / 2 / 8)) (Tag.ofNat ((k - 1) / 2 % 8))
  else .exit ((k - 2) / 2 / 8) (Tag.ofNat ((k - 2) / 2 % 8))

/-- one list of signal codes per state, in the order of `St.all` -/
abbrev Flight := List (List Nat)

def Flight.get (F : Flight) (st : St) : List Nat := F.getD st.idx []

/-- the signals in flight inside a state -/
def Flight.sigs (F : Flight) (st : St) : List Sig := (F.get st).map Sig.ofCode

def addAll (l : List Nat) (new : List Nat) : List Nat :=
  new.foldl (fun acc s => if acc.contains s then acc else acc ++ [s]) l

/-- what is born in the region plus what emerges from its callees, given `F` -/
def flightAt (T : Tables) (mode : Mode) (top : Bool) (seed : List Sig) (F : Flight) (st : St) : List Nat :=
  (children st.1).foldl
    (fun acc c =>
      addAll acc ((F.get (c, effOf T st.2 c)).map (fun k => (stepChild T mode top st.2 c (Sig.ofCode k)).code)))
    (addAll (F.get st) (seed.map Sig.code))

/-- one pass over all states, callees before callers (`Region.all` lists callers first), updating in place -/
def flightPass (T : Tables) (mode : Mode) (top : Bool) (seed : St → List Sig) (F : Flight) : Flight :=
  St.all.reverse.foldl (fun F st => F.set st.idx (flightAt T mode top (seed st) F st)) F

def flightIter (T : Tables) (mode : Mode) (top : Bool) (seed : St → List Sig) : Nat → Flight
  | 0 => St.all.map (fun _ => [])
  | n + 1 => flightPass T mode top seed (flightIter T mode top seed n)

/-- enough passes for the call structure above (the theorems do not rely on this
number: they check that the table they are given is closed) -/
def rounds : Nat := 8

/-- the least fixed point, computed (by the driver: it is too slow for the kernel, which only
checks that the regenerated copy `Jap.Gen.ExcFlowCert.cert` is closed) -/
def flight (T : Tables) (mode : Mode) (top : Bool) : Flight :=
  flightIter T mode top (fun st => born T mode top st.2 st.1) rounds

/-- outcomes at the roots of method `m` for a given table -/
def rootOutcomes (T : Tables) (mode : Mode) (top : Bool) (m : Method) (F : Flight) : List Outcome :=
  (roots m).foldl (fun acc r =>
    (F.sigs (r, top)).foldl (fun acc s =>
      let o := outcome T top (stepRegion T mode top top r s)
      if acc.contains o then acc else acc ++ [o]) acc) []

/-- every outcome a failure of class `c` raised by a region of stage `st` can have
for the caller of method `m`, over all call paths -/
def routeStage (T : Tables) (mode : Mode) (top : Bool) (m : Method) (st : Stage) (c : Exc) : List Outcome :=
  let seed : St → List Sig := fun s => if stageOf s.1 = some st then [.exc c (bornTag s.1)] else []
  rootOutcomes T mode top m (flightIter T mode top seed rounds)

/-- the classes regions of a stage are designed to raise -/
def stageRaises (T : Tables) (mode : Mode) (st : Stage) : List Exc :=
  (Region.all.filter (fun r => stageOf r = some st)).foldl
    (fun acc r => (born T mode false false r).foldl
      (fun acc s => match s with
        | .exc c _ => if acc.contains c then acc else acc ++ [c]
        | _ => acc) acc) []

/-! ### the pending `--print_config` request across two calls on one parser -/

/-- how the `try` block of parse_args is left -/
inductive TryExit
  | returns            -- normally
  | caught             -- by an exception the method's own handler catches (TypeError, KeyError → error())
  | passes             -- by something the handler does not catch: the ArgumentError / SystemExit of a direct `self.error(..)`
                       -- (unrecognized arguments, parse_known_args' conversion of argparse errors), exit(0)
deriving DecidableEq, Repr

def TryExit.all : List TryExit := [.returns, .caught, .passes]

/-- how a signal in flight inside the try body of parse_args leaves the block -/
def tryExitOf (T : Tables) (mode : Mode) : Sig → TryExit
  | .cont => .returns
  | .exit _ _ => if caught T mode (T.handler (.outer .parseArgs)) .SystemExit then .caught else .passes
  | .exc c _ => if caught T mode (T.handler (.outer .parseArgs)) c then .caught else .passes

def cleanupRuns (T : Tables) : TryExit → Bool
  | .caught => T.printConfigCleanup = .inFinally || T.printConfigCleanup = .inHandlerOnly
  | _ => T.printConfigCleanup = .inFinally

/-- is a request still stored on the parser after a parse_args call during which `--print_config` was
consumed (`requested`) and whose try block was left by `e`?  (`print_config_if_requested` removes it itself
before it prints; that path leaves by exit(0) with nothing pending.) -/
def pendingAfter (T : Tables) (requested : Bool) (e : TryExit) : Bool := requested && !cleanupRuns T e

/-- the next, valid, parse_args on the same parser, whose argv has no --print_config -/
def nextValid (T : Tables) (pending : Bool) : Outcome := if pending then .exit T.plainExit else .ok

/-! ### a small pipeline model -/

/-- what the code at the end of a call path does on the given input -/
structure Event where
  path : List Region
  sig : Option Sig          -- `none`: returns normally

/-- run the events in order: the first failure that is not absorbed ends the parse -/
def runEvents (T : Tables) (mode : Mode) (top : Bool) (root : Region) : List Event → Outcome
  | [] => .ok
  | e :: es =>
    match e.sig with
    | none => runEvents T mode top root es
    | some s =>
      match routePath T mode top root e.path s with
      | .ok => runEvents T mode top root es
      | o => o

/-- `Except (Stage × Exc)`-style view of one step, for the driver and the examples -/
def eventResult (T : Tables) (mode : Mode) (top : Bool) (root : Region) (e : Event) : Except (Option Stage × Outcome) Unit :=
  match e.sig with
  | none => .ok ()
  | some s =>
    match routePath T mode top root e.path s with
    | .ok => .ok ()
    | o => .error (stageOf (leaf root e.path), o)

/-- the sites of `parse_args` in execution order (one call path each; the order
only matters for *which* failure is reported first) -/
def pipelineArgs : List (List Region) :=
  [[.defaultsEnv, .getDefaults, .defPaths],
   [.defaultsEnv, .getDefaults, .lcpm, .lcpmLoad, .loadDoc],
   [.defaultsEnv, .getDefaults, .lcpm, .applyActions, .checkValueKey, .checkType],
   [.defaultsEnv, .envLoad, .checkValueKey, .checkType],
   [.knownArgs],
   [.knownArgs, .typehintAction, .checkType],
   [.knownArgs, .typehintAction, .checkType, .adapt],
   [.knownArgs, .applyConfig, .acStr, .body .parseString, .lcpm, .lcpmLoad, .loadDoc],
   [.knownArgs, .subcmdAction, .subBody .parseArgs, .leftover],
   [.positional, .checkValueKey, .checkType],
   [.leftover],
   [.common, .subcommands],
   [.common, .printConfig],
   [.common, .links],
   [.common, .validate],
   [.common, .validate, .checkValueKey, .checkType],
   [.common, .validate, .required]]

end Jap.ExcFlow

/-
E13 "ExcFlow", the RAISES side: what can escape the leaf functions of the parse
pipeline, computed from the source (`Jap.Gen.ExcFlowRaises.leaves`,
harness/extractors/excflow_raises.py), against what the regions of
`Jap.Core.ExcFlow` are DESIGNED to raise (for which `C03_routing` proves the
routing on every call path).

A statically possible (leaf, class, origin) must be
  * covered: the class is a designed failure of the leaf's region (and, for a
    registered type, caught by that type's own `deserializer_exceptions`), or
  * excused (hand-written, below): by a GUARD — the test of an `if .. raise` that
    the extractor found in front of the origin, named literally — or as a
    catalogued OPEN FINDING, or by a stated ASSUMPTION of the property.
An origin that is neither is a failed proof obligation of `C03_static_raises`;
the (leaf, class, origin) triple is the search hint.

Imports nothing beyond core Lean and the ExcFlow model.
-/
import Jap.Core.ExcFlow

namespace Jap.ExcFlow

/-- one way a class can leave a leaf function -/
structure Origin where
  cls : Exc
  /-- normalised source of the raising expression / statement -/
  expr : String
  /-- `passed: t` — an `if t: raise/return` precedes the origin in its block; `in: t` / `else: t` — enclosing `if` -/
  guards : List String
deriving DecidableEq, Repr

structure Leaf where
  name : String
  /-- the region of `Core/ExcFlow` inside which the leaf runs (its failures are born there) -/
  region : Region
  /-- loader modes in which the leaf runs there -/
  modes : List Mode
  /-- registered types: the handler's own `deserializer_exceptions` (`[]`: not a registered type) -/
  localCatch : List Exc
  escapes : List Origin
deriving Repr

inductive Why
  | guard (g : String)          -- the origin cannot raise the class behind this guard (semantic claim, trusted; its PRESENCE is checked)
  | openFinding (id : String)   -- known_findings.d/C03.json
  | assumed (what : String)     -- outside the property's input space (evidence: assumptions)
deriving DecidableEq, Repr

structure Excuse where
  leaf : String
  cls : Exc
  expr : String
  why : Why
deriving DecidableEq, Repr

/-- is `c` (or a superclass of it) a designed failure of region `r` -/
def designedCovers (T : Tables) (mode : Mode) (r : Region) (c : Exc) : Bool :=
  (designed mode r).any (fun d => match d with
    | .exc d => sub T c d
    | .loader => (loaderRaises mode).any (sub T c)
    | .deser => T.deserExc.any (sub T c)
    | _ => false)

def covered (T : Tables) (mode : Mode) (l : Leaf) (c : Exc) : Bool :=
  designedCovers T mode l.region c && (l.localCatch.isEmpty || l.localCatch.any (sub T c))

def excusedBy (l : Leaf) (o : Origin) (e : Excuse) : Bool :=
  e.leaf == l.name && e.cls == o.cls && e.expr == o.expr &&
    (match e.why with
     | .guard g => o.guards.contains g
     | _ => true)

def originOk (T : Tables) (xs : List Excuse) (l : Leaf) (o : Origin) : Bool :=
  l.modes.all (fun mode => covered T mode l o.cls) || xs.any (excusedBy l o)

def leafOk (T : Tables) (xs : List Excuse) (l : Leaf) : Bool := l.escapes.all (originOk T xs l)

/-- the origins that are neither covered nor excused (driver: search hints) -/
def uncovered (T : Tables) (xs : List Excuse) (ls : List Leaf) : List (String × Exc × String) :=
  ls.flatMap (fun l => (l.escapes.filter (fun o => !originOk T xs l o)).map (fun o => (l.name, o.cls, o.expr)))

/-! ### the hand-written excuses -/

def intLeaf := "typing.restricted_number_type.validation_fn[int]"
def floatLeaf := "typing.restricted_number_type.validation_fn[float]"
def integralGuard := "passed: int == int and isinstance(v, float) and (not float.is_integer(v))"

def excuses : List Excuse :=
  [ -- TypeCore.__new__ converts once more after validation_fn returned: the same conversion succeeded there (validation_fn turns an
    -- OverflowError of it into ValueError since 4c191c6)
    ⟨"typing.extend_base_type.TypeCore.__new__[int]", .OverflowError, "int(v)", .assumed "cls._validation_fn(cls, v) returned: int(v) succeeded in validation_fn[int] (leaf above)"⟩,
    ⟨"typing.extend_base_type.TypeCore.__new__[float]", .OverflowError, "float(v)", .assumed "cls._validation_fn(cls, v) returned: float(v) succeeded in validation_fn[float] (leaf above)"⟩,
    -- json_load (79b7a6a): the handler re-raises only what is a JSONDecodeError, everything else leaves as JSONDecodeError
    ⟨"_loaders_dumpers.json_load", .ValueError, "json.loads(value)", .guard "in: isinstance(ex, json.JSONDecodeError)"⟩,
    -- str() of an int beyond the digit limit inside the f-string of the error message (what is left of the finding)
    ⟨"_actions.ActionYesNo._boolean_type", .ValueError, "f-string {x}", .openFinding "C03-huge-int"⟩,
    -- tomllib: int() of an over-long integer literal
    ⟨"_loaders_dumpers.toml_load", .ValueError, "toml_loads(value)", .openFinding "C03-huge-int"⟩,
    -- nesting depth is bounded in the property's input space
    ⟨"_loaders_dumpers.json_load", .RecursionError, "json.loads(value)", .assumed "container nesting depth <= 60"⟩,
    ⟨"_loaders_dumpers.toml_load", .RecursionError, "toml_loads(value)", .assumed "container nesting depth <= 60"⟩,
    ⟨"_loaders_dumpers.toml_load", .ImportError, "import_toml_loads('toml_load')", .assumed "toml mode is only selectable when the toml package imports"⟩,
    ⟨"_loaders_dumpers.yaml_load", .RecursionError, "yaml.load(stream, Loader=get_yaml_default_loader())", .assumed "container nesting depth <= 60"⟩,
    -- next(iter(value.keys())) of a non-empty dict
    ⟨"_loaders_dumpers.yaml_load", .StopIteration, "next(iter(value.keys()))",
      .guard "in: isinstance(value, dict) and value and all((v is None for v in value.values()))"⟩
  ]

/-- the excuses of the tree before the repairs 79b7a6a, 4c191c6, 9c44438 (regression witnesses in Props/C03) -/
def excusesBefore : List Excuse :=
  [ ⟨intLeaf, .OverflowError, "int(v)", .guard integralGuard⟩ ]

/-! ### from `covered` to the hypothesis of the routing theorem -/

theorem mem_below {T : Tables} {cs : List Exc} {c : Exc} (h : cs.any (sub T c) = true) : c ∈ below T cs := by
  simp only [below, List.mem_filter]
  exact ⟨Exc.mem_all c, h⟩

/-- a covered class is one of the designed failures the routing theorem quantifies over, whatever the exit_on_error
of the user's parser and of the parser the leaf runs on -/
theorem born_of_designedCovers {T : Tables} {mode : Mode} {r : Region} {c : Exc}
    (h : designedCovers T mode r c = true) (top eff : Bool) : Sig.exc c .clean ∈ born T mode top eff r := by
  simp only [designedCovers, List.any_eq_true] at h
  obtain ⟨d, hd, hm⟩ := h
  simp only [born, List.mem_flatMap]
  refine ⟨d, hd, ?_⟩
  cases d with
  | exc d =>
    simp only [bornOf, List.mem_map]
    exact ⟨c, mem_below (by simpa using hm), by simp [bornTag]⟩
  | loader =>
    simp only [bornOf, List.mem_map]
    exact ⟨c, mem_below hm, by simp [bornTag]⟩
  | deser =>
    simp only [bornOf, List.mem_map]
    exact ⟨c, mem_below hm, by simp [bornTag]⟩
  | errorCall => simp at hm
  | exit0 => simp at hm

end Jap.ExcFlow

import Jap.Core.Validate
/-!
Engine "Validate", second part: the vocabulary in which the C06 theorems are stated.

* `getPath`: the value found at a position of a configuration tree;
* `Pos`, `child`, `reach`: the joint walk down a parser spec tree and a configuration — which definition (if any)
  applies at a position: a key of a group / of the selected subcommand's section, `class_path` / `init_args` /
  `dict_kwargs` of a class specification, an item of a list; this is the *positional* notion of "defined by the parser";
* `insertAt`, `nullAt`, `removeAt`: the single-fault mutations (one foreign key inserted, one key nulled / removed);
* `levelIn`: the levels of one parser (through groups and the selected subcommand); `isRequiredNode`.
Everything is structurally recursive on the path.
-/
namespace Jap.Validate

def getPath : Val → Path → Option Val
  | v, [] => some v
  | .dict kvs, .key k :: r =>
    match assoc k kvs with
    | some v => getPath v r
    | none => none
  | .list xs, .idx i :: r =>
    match xs[i]? with
    | some v => getPath v r
    | none => none
  | _, _ :: _ => none

/-- a position of the joint walk: the check `chkVal ld _ _ item node val` applies there -/
structure Pos where
  item : Bool
  node : Node
  val : Val

inductive Next where
  | pos (p : Pos)       -- a position with a definition
  | data                -- inside the value of a leaf (or of a key that takes any value): not a key of the parser
  | undefinedKey        -- a key without definition at its position
  | unselected          -- a key of the section of a subcommand that is not the selected one
  | dictKwargs          -- a key below `dict_kwargs` of a class specification
  | absent              -- no such position in the configuration

/-- the class named by a class specification (a specification WITHOUT `class_path`, relying on the implicit class of a
    concrete base type, is opaque `data` for the positional statements: it is covered by the correspondence only) -/
def classOf (cls : Choices) (kvs : KV) : Option Fields :=
  match assoc "class_path" kvs with
  | some (.str c) => assoc c cls
  | _ => none

def child (p : Pos) (seg : Seg) : Next :=
  match p.node, p.val, seg with
  | .group _ fs, .dict kvs, .key k =>
    match assoc k kvs with
    | none => .absent
    | some v =>
      match slotOf fs k with
      | .field n => .pos ⟨false, n, v⟩
      | .sect cfs => if selected fs kvs = some k then .pos ⟨false, .group false cfs, v⟩ else .unselected
      | .none => if metaLeaf k v || (appendSlot fs k).isSome then .data else .undefinedKey   -- a filtered meta entry; `k+` of a list argument
  | .classArg _ _ cls, .dict kvs, .key k =>
    match assoc k kvs with
    | none => .absent
    | some v =>
      match classOf cls kvs with
      | none => .data
      | some cfs =>
        if k = "class_path" then .data
        else if k = "init_args" then .pos ⟨true, .group true cfs, v⟩
        else if k = "dict_kwargs" then .dictKwargs
        else if k = "__path__" then .data
        else .undefinedKey
  | .listOf _ it, .list xs, .idx i =>
    match xs[i]? with
    | none => .absent
    | some x => .pos ⟨true, it, x⟩
  | _, _, _ => .data

def reach : Pos → Path → Next
  | p, [] => .pos p
  | p, seg :: r =>
    match child p seg with
    | .pos q => reach q r
    | other => other

/-! ### through `Optional[Dataclass]` values

A mapping stored at an `Optional[Dataclass]` argument is validated by the per-class parser of the dataclass
(`parse_object` on `get_class_parser(typehint)`): below it the keys are the keys of THAT parser.  `liftO` turns the
position of such a value into the root position of its parser; `childO` / `reachO` are `child` / `reach` walking
through such values as well (they agree with `child` / `reach` where no `optGroup` is involved). -/

def liftO (p : Pos) : Pos :=
  match p.node, p.val with
  | .optGroup _ fs, .dict kvs => if leaflessKVs kvs then p else ⟨true, .group true fs, .dict kvs⟩
  | _, _ => p

def childO (p : Pos) (seg : Seg) : Next := child (liftO p) seg

def reachO : Pos → Path → Next
  | p, [] => .pos p
  | p, seg :: r =>
    match childO p seg with
    | .pos q => reachO q r
    | other => other

/-- the top-level parser with its configuration -/
def root (fs : Fields) (kvs : KV) : Pos := ⟨true, .group false fs, .dict kvs⟩

/-! ## single-fault mutations -/

/-- replace the value of the first entry with key `k` -/
def replace (k : String) (v : Val) : KV → KV
  | [] => []
  | (k', v') :: r => if k' = k then (k, v) :: r else (k', v') :: replace k v r

/-- remove the key `k` -/
def erase (k : String) : KV → KV
  | [] => []
  | (k', v') :: r => if k' = k then erase k r else (k', v') :: erase k r

/-- change the value found at `path` (the path must exist) -/
def modifyAt (f : Val → Option Val) : Path → Val → Option Val
  | [], v => f v
  | .key k :: r, .dict kvs =>
    match assoc k kvs with
    | some v1 =>
      match modifyAt f r v1 with
      | some v1' => some (.dict (replace k v1' kvs))
      | none => none
    | none => none
  | .idx i :: r, .list xs =>
    match xs[i]? with
    | some x =>
      match modifyAt f r x with
      | some x' => some (.list (xs.set i x'))
      | none => none
    | none => none
  | _ :: _, _ => none

def insertF (z : String) (w : Val) : Val → Option Val
  | .dict kvs => if hasKey z kvs then none else some (.dict (kvs ++ [(z, w)]))
  | _ => none

/-- insert the new key `z` with value `w` into the mapping at `path` -/
def insertAt (z : String) (w : Val) : Path → Val → Option Val := modifyAt (insertF z w)

def nullF (r : String) : Val → Option Val
  | .dict kvs => some (.dict (if hasKey r kvs then replace r .null kvs else kvs ++ [(r, .null)]))
  | _ => none

/-- set the value of key `r` of the mapping at `path` to `null` (adding the key when it is missing) -/
def nullAt (r : String) : Path → Val → Option Val := modifyAt (nullF r)

def removeF (r : String) : Val → Option Val
  | .dict kvs => some (.dict (erase r kvs))
  | _ => none

/-- remove key `r` from the mapping at `path` -/
def removeAt (r : String) : Path → Val → Option Val := modifyAt (removeF r)

/-! ## what a parser requires -/

def isRequiredNode : Node → Bool
  | .leaf _ req _ => req
  | .classArg req _ _ => req
  | .listOf req _ => req
  | .optGroup req _ => req
  | _ => false

/-- the level of the parser `fs` (with its part `kvs` of the configuration) reached by the dotted key `ks`:
    through groups, and through the section of the selected subcommand.  A group / section that is missing
    or not a mapping holds nothing (`kvsOf`). -/
def levelIn (fs : Fields) (kvs : KV) : List String → Option (Fields × KV)
  | [] => some (fs, kvs)
  | k :: rest =>
    match slotOf fs k with
    | .field (.group _ gfs) => levelIn gfs (kvsOf (assoc k kvs)) rest
    | .sect cfs => if selected fs kvs = some k then levelIn cfs (kvsOf (assoc k kvs)) rest else none
    | _ => none

/-! ## where a key would be foreign; well-formed levels -/

/-- `z` is not defined at the position `q`: not a field, section or subcommand key of the level; or, next to
    `class_path`, not one of the three keys of a class specification -/
def foreignAt (q : Pos) (z : String) : Bool :=
  match q.node, q.val with
  | .group _ fs, .dict _ =>
    match slotOf fs z with
    | .none => !isMeta z && (appendSlot fs z).isNone       -- not a meta key, not `k+` of a list-typed argument `k` either
    | _ => false
  | .classArg _ _ cls, .dict kvs =>
    (classOf cls kvs).isSome && !(z = "class_path") && !(z = "init_args") && !(z = "dict_kwargs") && !(z = "__path__")
  | _, _ => false

/-- the choices of every subcommands action in `l` are not argument names of the level `fs` -/
def subChoicesOk (fs : Fields) : Fields → Bool
  | [] => true
  | (_, .subcommands _ cs) :: r => cs.all (fun c => !hasKey c.1 fs) && subChoicesOk fs r
  | _ :: r => subChoicesOk fs r

/-- the subcommand names of a level are not also argument names of the level, and the `dest` of the subcommands
    action names that action (argparse keeps one action per dest; `add_subcommand` refuses `dest` as a name) -/
def noClash (fs : Fields) : Bool :=
  subChoicesOk fs fs &&
  match subOf fs with
  | none => true
  | some (d, _, _) =>
    match assoc d fs with
    | some (.subcommands _ _) => true
    | _ => false

def stableAt (q : Pos) : Bool :=
  match q.node with
  | .group _ fs => noClash fs
  | _ => true

/-- every level the path runs through is well-formed in the sense of `noClash` -/
def stableAlong : Pos → Path → Bool
  | p, [] => stableAt p
  | p, seg :: r =>
    stableAt p &&
    match child p seg with
    | .pos q => stableAlong q r
    | _ => true

/-- `noClash` on every level of one parser the dotted key `ks` runs through -/
def stableLevels (fs : Fields) (kvs : KV) : List String → Bool
  | [] => noClash fs
  | k :: rest =>
    noClash fs &&
    match slotOf fs k with
    | .field (.group _ gfs) => stableLevels gfs (kvsOf (assoc k kvs)) rest
    | .sect cfs => stableLevels cfs (kvsOf (assoc k kvs)) rest
    | _ => true

end Jap.Validate

/-
E1 — model of `jsonargparse/_namespace.py` (class `Namespace` and helpers).

A faithful transcription, *including* the corner behaviour of the code
(walking through dict values, clash-marked names stored in user dicts,
`AttributeError` from `del`/`pop` below a missing or dict parent).  Imports
nothing beyond core Lean.  The clash-name table is a parameter (`clash`), the
instance used by the driver and by the theorems about concrete names is the
regenerated `Jap.Gen.NsTables.clashNames`.

Stored attribute names are modelled as `SKey = (marked, name)`: the code stores
`clash_mark + name` for names in `dir(Namespace)`; the driver renders a marked
key as U+200B followed by the name.  Keys given by callers are assumed not to
start with U+200B themselves (outside the model, see DESIGN §6 C11).
-/
namespace Jap.NS

structure SKey where
  marked : Bool
  name : String
deriving DecidableEq, Repr, Inhabited

inductive V where
  | none
  | atom (a : Int)
  | lst (xs : List V)
  | tup (xs : List V)
  | dct (kvs : List (SKey × V))
  | ns  (kvs : List (SKey × V))
deriving Repr, Inhabited

abbrev KV := List (SKey × V)

inductive Err where
  | key        -- KeyError / NSKeyError
  | attr       -- AttributeError
  | type       -- TypeError
  | value      -- ValueError
deriving DecidableEq, Repr, Inhabited

/-! ### association lists with Python dict semantics (insertion ordered) -/

def lookup (k : SKey) : KV → Option V
  | [] => .none
  | (k', v) :: r => if k' = k then some v else lookup k r

/-- Python dict assignment: replace in place, else append -/
def insert (k : SKey) (v : V) : KV → KV
  | [] => [(k, v)]
  | (k', v') :: r => if k' = k then (k, v) :: r else (k', v') :: insert k v r

def erase (k : SKey) : KV → KV
  | [] => []
  | (k', v') :: r => if k' = k then r else (k', v') :: erase k r

/-! ### keys -/

/-- `add_clash_mark` -/
def mark (clash : List String) (s : String) : SKey := ⟨clash.contains s, s⟩

/-- `del_clash_mark` (on a stored key) -/
def unmark (k : SKey) : String := k.name

/-- `_parse_key`, string layer: space check, split on ".", empty-segment check, marking. -/
def parseKey (clash : List String) (key : String) : Except Err (List SKey) :=
  if key.toList.contains ' ' then .error .key
  else
    let segs := key.splitOn "."
    if segs.any (· == "") then .error .key
    else .ok (segs.map (mark clash))

/-- split a non-empty segment list into parent path and leaf -/
def splitLast : List SKey → Option (List SKey × SKey)
  | [] => .none
  | [x] => some ([], x)
  | x :: r => match splitLast r with
    | some (p, l) => some (x :: p, l)
    | .none => .none

/-! ### `_parse_key`, walking part -/

def isCont : V → Bool
  | .ns _ => true | .dct _ => true | _ => false

/-- The parent object found by the loop of `_parse_key`: `some (.ns _)`, `some (.dct _)`,
    or `none` (the code's `None`: missing, a leaf on the way, or a `None` value). -/
def walk : List SKey → V → Option V
  | [], .ns kvs => some (.ns kvs)
  | [], .dct kvs => some (.dct kvs)
  | [], _ => .none
  | s :: rest, .ns kvs =>
    match lookup s kvs with
    | .none => .none
    | some nxt => if isCont nxt then walk rest nxt else .none
  | s :: rest, .dct kvs =>
    match lookup s kvs with
    | .none => .none
    | some nxt => if isCont nxt then walk rest nxt else .none
  | _ :: _, _ => .none

/-- `_create_nested_namespace`: keep namespaces, replace anything else by a fresh namespace -/
def createNested : List SKey → KV → KV
  | [], kvs => kvs
  | s :: rest, kvs =>
    match lookup s kvs with
    | some (.ns sub) => insert s (.ns (createNested rest sub)) kvs
    | _ => insert s (.ns (createNested rest [])) kvs

/-- apply `f` to the container at the end of `path`, going through namespaces and dicts -/
def updateAt (f : KV → KV) : List SKey → V → V
  | [], .ns kvs => .ns (f kvs)
  | [], .dct kvs => .dct (f kvs)
  | [], v => v
  | s :: rest, .ns kvs =>
    match lookup s kvs with
    | some nxt => .ns (insert s (updateAt f rest nxt) kvs)
    | .none => .ns kvs
  | s :: rest, .dct kvs =>
    match lookup s kvs with
    | some nxt => .dct (insert s (updateAt f rest nxt) kvs)
    | .none => .dct kvs
  | _ :: _, v => v

def unNs : V → KV → KV
  | .ns r, _ => r
  | _, d => d

/-- `__setitem__` on marked segments -/
def setSegs (path : List SKey) (leaf : SKey) (item : V) (root : KV) : KV :=
  match walk path (.ns root) with
  | .none => unNs (updateAt (insert leaf item) path (.ns (createNested path root))) root
  | some _ => unNs (updateAt (insert leaf item) path (.ns root)) root

/-- `__getitem__` on marked segments (`_parse_required_key` then `getattr`) -/
def getSegs (path : List SKey) (leaf : SKey) (root : KV) : Except Err V :=
  match walk path (.ns root) with
  | some (.ns kvs) =>
    match lookup leaf kvs with
    | some v => .ok v
    | .none => .error .key
  | _ => .error .key          -- missing parent, or a dict parent (`hasattr(dict, name)` is false)

/-- `__delitem__` -/
def delSegs (path : List SKey) (leaf : SKey) (root : KV) : Except Err KV :=
  match walk path (.ns root) with
  | some (.ns kvs) =>
    match lookup leaf kvs with
    | some _ => .ok (unNs (updateAt (erase leaf) path (.ns root)) root)
    | .none => .error .key
  | _ => .error .attr         -- `None.__dict__` / `dict.__dict__`

/-- `__contains__` (string keys) -/
def containsSegs (path : List SKey) (leaf : SKey) (root : KV) : Bool :=
  match getSegs path leaf root with
  | .ok _ => true
  | .error _ => false

/-- `pop`: `(result, new root)` -/
def popSegs (path : List SKey) (leaf : SKey) (dflt : V) (root : KV) : Except Err (V × KV) :=
  match walk path (.ns root) with
  | .none => .ok (dflt, root)
  | some (.ns []) => .ok (dflt, root)
  | some (.dct []) => .ok (dflt, root)
  | some (.ns kvs) =>
    match lookup leaf kvs with
    | some v => .ok (v, unNs (updateAt (erase leaf) path (.ns root)) root)
    | .none => .ok (dflt, root)
  | some _ => .error .attr

/-! ### string-keyed public operations -/

def withKey {α} (clash : List String) (key : String) (f : List SKey → SKey → Except Err α) : Except Err α :=
  match parseKey clash key with
  | .error e => .error e
  | .ok segs =>
    match splitLast segs with
    | .none => .error .key
    | some (p, l) => f p l

def setItem (clash : List String) (key : String) (item : V) (root : KV) : Except Err KV :=
  withKey clash key fun p l => .ok (setSegs p l item root)

def getItem (clash : List String) (key : String) (root : KV) : Except Err V :=
  withKey clash key fun p l => getSegs p l root

def delItem (clash : List String) (key : String) (root : KV) : Except Err KV :=
  withKey clash key fun p l => delSegs p l root

def contains (clash : List String) (key : String) (root : KV) : Bool :=
  match withKey clash key (fun p l => .ok (containsSegs p l root)) with
  | .ok b => b
  | .error _ => false

def pop (clash : List String) (key : String) (dflt : V) (root : KV) : Except Err (V × KV) :=
  withKey clash key fun p l => popSegs p l dflt root

/-- `get`: `self[key]` with `(KeyError, TypeError)` mapped to the default -/
def get (clash : List String) (key : String) (dflt : V) (root : KV) : V :=
  match getItem clash key root with
  | .ok v => v
  | .error _ => dflt

/-- `__setattr__` -/
def setAttr (clash : List String) (name : String) (item : V) (root : KV) : Except Err KV :=
  if name.toList.contains '.' then setItem clash name item root
  else .ok (insert (mark clash name) item root)

/-! ### iteration -/

mutual
/-- `items(branches)`: leaf (and optionally branch) items, dotted unmarked keys, storage order -/
def items (branches : Bool) : KV → List (String × V)
  | [] => []
  | (k, .ns sub) :: r =>
    (if branches then [(unmark k, V.ns sub)] else []) ++
      (itemsPref (unmark k) branches sub) ++ items branches r
  | (k, v) :: r => (unmark k, v) :: items branches r
def itemsPref (pre : String) (branches : Bool) : KV → List (String × V)
  | [] => []
  | (k, .ns sub) :: r =>
    (if branches then [(pre ++ "." ++ unmark k, V.ns sub)] else []) ++
      (itemsPref (pre ++ "." ++ unmark k) branches sub) ++ itemsPref pre branches r
  | (k, v) :: r => (pre ++ "." ++ unmark k, v) :: itemsPref pre branches r
end

def keys (branches : Bool) (root : KV) : List String := (items branches root).map (·.1)
def values (branches : Bool) (root : KV) : List V := (items branches root).map (·.2)

/-- `update(value, key, only_unset)` -/
def update (clash : List String) (value : V) (key : Option String) (onlyUnset : Bool) (root : KV) : Except Err KV :=
  match value with
  | .ns vkvs =>
    let pre := match key with
      | some k => if k = "" then "" else k ++ "."
      | .none => ""
    (items false vkvs).foldlM (fun acc (kv : String × V) =>
      if !onlyUnset || !(contains clash (pre ++ kv.1) acc) then setItem clash (pre ++ kv.1) kv.2 acc
      else .ok acc) root
  | v =>
    match key with
    | .none => .error .key
    | some k =>
      if k = "" then .error .key
      else if !onlyUnset || !(contains clash k root) then setItem clash k v root
      else .ok root

/-! ### `items` and `update` on key segments

`items()` builds `key + "." + subkey` strings and `update` re-parses them with `_parse_key`.  Stored names
never contain "." (assignment of a dotted name goes through `__setitem__`), so joining and re-splitting is
the identity on segments; `itemsSegs`/`updateSegs` are the same functions with the segments kept apart
(the driver uses them, the correspondence with the real `update` checks the equivalence). -/

mutual
/-- the items contributed by the value stored at key path `pre` -/
def itemsSegsV (pre : List String) (branches : Bool) : V → List (List String × V)
  | .ns sub => (if branches then [(pre, V.ns sub)] else []) ++ itemsSegsKV pre branches sub
  | .none => [(pre, .none)]
  | .atom a => [(pre, .atom a)]
  | .lst xs => [(pre, .lst xs)]
  | .tup xs => [(pre, .tup xs)]
  | .dct d => [(pre, .dct d)]
def itemsSegsKV (pre : List String) (branches : Bool) : KV → List (List String × V)
  | [] => []
  | (k, v) :: r => itemsSegsV (pre ++ [unmark k]) branches v ++ itemsSegsKV pre branches r
end

def itemsSegs (branches : Bool) (root : KV) : List (List String × V) := itemsSegsKV [] branches root

/-- one assignment of `update`: `if not only_unset or key not in self: self[key] = val` -/
def updateOne (clash : List String) (onlyUnset : Bool) (segs : List String) (v : V) (root : KV) : KV :=
  match splitLast (segs.map (mark clash)) with
  | .none => root
  | some (p, l) => if !onlyUnset || !(containsSegs p l root) then setSegs p l v root else root

/-- `update(value, key, only_unset)` for a Namespace `value`, key prefix already split -/
def updateSegs (clash : List String) (value : KV) (pre : List String) (onlyUnset : Bool) (root : KV) : KV :=
  (itemsSegs false value).foldl (fun acc kv => updateOne clash onlyUnset (pre ++ kv.1) kv.2 acc) root

/-- `update` with the string layer: the key prefix is parsed when the first item is assigned -/
def update2 (clash : List String) (value : V) (key : Option String) (onlyUnset : Bool) (root : KV) : Except Err KV :=
  match value with
  | .ns vkvs =>
    if (itemsSegs false vkvs).isEmpty then .ok root
    else
      match key with
      | .none => .ok (updateSegs clash vkvs [] onlyUnset root)
      | some k =>
        if k = "" then .ok (updateSegs clash vkvs [] onlyUnset root)
        else match parseKey clash k with
          | .error e => .error e
          | .ok segs => .ok (updateSegs clash vkvs (segs.map (·.name)) onlyUnset root)
  | v => update clash v key onlyUnset root

/-! ### conversions -/

def allNs : List V → Bool
  | [] => true
  | .ns _ :: r => allNs r
  | _ :: _ => false

mutual
/-- `as_dict` -/
def asDict : KV → KV
  | [] => []
  | (k, v) :: r => (⟨false, unmark k⟩, asDictV v) :: asDict r
def asDictV : V → V
  | .ns sub => .dct (asDict sub)
  | .dct kvs =>
    if !kvs.isEmpty && allNs (kvs.map (·.2)) then .dct (asDictVals kvs) else .dct kvs
  | .lst xs =>
    if !xs.isEmpty && allNs xs then .lst (asDictList xs) else .lst xs
  | v => v
def asDictVals : KV → KV
  | [] => []
  | (k, .ns sub) :: r => (k, .dct (asDict sub)) :: asDictVals r
  | (k, v) :: r => (k, v) :: asDictVals r
def asDictList : List V → List V
  | [] => []
  | .ns sub :: r => .dct (asDict sub) :: asDictList r
  | v :: r => v :: asDictList r
end

/-- `clone` = `recreate_branches`: value-level identity (identities are the subject of E11/C08) -/
def clone (root : KV) : KV := root

/-! Python `==` on the modelled values: dicts and namespaces compare as unordered maps -/
mutual
def veq : V → V → Bool
  | .none, .none => true
  | .atom a, .atom b => a == b
  | .lst xs, .lst ys => veqList xs ys
  | .tup xs, .tup ys => veqList xs ys
  | .dct a, .dct b => a.length == b.length && kvSub a b
  | .ns a, .ns b => a.length == b.length && kvSub a b
  | _, _ => false
def veqList : List V → List V → Bool
  | [], [] => true
  | x :: xs, y :: ys => veq x y && veqList xs ys
  | _, _ => false
/-- every entry of `a` has an equal entry in `b` (keys are unique in both) -/
def kvSub : KV → KV → Bool
  | [], _ => true
  | (k, v) :: r, b => kvFind k v b && kvSub r b
def kvFind (k : SKey) (v : V) : KV → Bool
  | [] => false
  | (k', v') :: r => if k' = k then veq v v' else kvFind k v r
end

/-- `Namespace(dict)`: `self[key] = val` for every item; keys are strings in the model -/
def fromDict (clash : List String) (d : List (String × V)) : Except Err KV :=
  d.foldlM (fun acc (kv : String × V) => setItem clash kv.1 kv.2 acc) []

/-! `dict_to_namespace` (`expand_dict` after a copy).  Dict keys are `SKey`s with `marked = false`. -/
mutual
def expandDict (clash : List String) : Nat → KV → Except Err KV
  | 0, _ => .error .value
  | fuel+1, kvs =>
    kvs.foldlM (fun acc (kv : SKey × V) => do
      let v' ← expandVal clash fuel kv.2
      setAttr clash kv.1.name v' acc) []
def expandVal (clash : List String) : Nat → V → Except Err V
  | 0, _ => .error .value
  | fuel+1, .dct sub => do let r ← expandDict clash fuel sub; pure (.ns r)
  | fuel+1, .lst xs => do
    let ys ← xs.mapM (fun x => match x with
      | .dct sub => do let r ← expandDict clash fuel sub; pure (V.ns r)
      | v => pure v)
    pure (.lst ys)
  | _+1, v => .ok v
end

end Jap.NS

/-
E12 — persistent parser state (C09).

What an `ArgumentParser` (and the process) remembers between two calls, and what each operation of the public
API does to it, in the order the code does it NOW (jsonargparse/_core.py, _actions.py, _typehints.py,
_common.py, _completions.py, _link_arguments.py).

Carriers (`World`; the only pieces of state that survive a call):
  per parser   pending     `parser.print_config`            set by the --print_config action, consumed later
               lastArgs    `parser.args`                    last argv (application parser AND each sub-command
                                                            parser), read by the `--x.help Class` action
               shtabAdded  lazily added --print_shtab       the first parse_args adds the action
               linked      sub_add_kwargs['linked_targets'] on the parser's typed actions
               wired       sub-parser <-> parent wiring     (parent_parser / subcommand attributes)
               dcDefault   sub_add_kwargs['default']        what the dataclass branch of adapt_typehints may store
  process      parseKwargs / subclassArgParser / dumpKwargs context variables set on entry, never reset
               lenient / parentParser                       parser_context variables (set + reset by token)

`Facts` are properties of the source text which the extractor regenerates on every run (Gen/PState.lean);
`step` consults them, so a source edit that changes a fact changes the model.  Where a fact is false the model
does what the edited source would do (no `finally`: the reset is skipped on exceptions; a write that is not made
on entry is made after the read; a write that goes to the action's own dict persists).

Granularity: an argv is a list of `Tok`s (what each element does to the carriers), a non-argv input a list of
`VTok`s, followed by a `Tail` (what `_parse_common` / validation / serialisation meet).  Which values are
acceptable is NOT modelled: failure positions are part of the operation.
-/
namespace Jap.PState

/-- `--print_config[=comments,skip_default,skip_null]` -/
structure Flags where
  comments : Bool := false
  skipDefault : Bool := false
  skipNull : Bool := false
deriving DecidableEq, Repr, Inhabited

/-- a parser object: an application parser, one of its sub-command parsers, or a per-class parser
    built during adaptation (a fresh object every time) -/
inductive PRef
  | root (p : Nat)
  | sub (p : Nat) (i : Nat)
  | eph
deriving DecidableEq, Repr, Inhabited

/-- facts about the source, regenerated on every run -/
structure Facts where
  /-- `parse_args`: a `finally` around parse_known_args + _parse_common removes `print_config` from the parser -/
  finallyPops : Bool
  /-- `print_config_if_requested`: the request is deleted before `parser.exit()` -/
  pcirDeletes : Bool
  /-- `parser_context` (and every other set/reset context manager) resets its tokens in a `finally` -/
  ctxResetFinally : Bool
  /-- `parse_args`: `self.args = args` precedes the `try` that parses -/
  argsBeforeParse : Bool
  /-- `parse_args`: parse_known_args runs inside `parse_kwargs_context`, which sets before yielding;
      the variable is read only by the sub-command action -/
  kwSetAroundParse : Bool
  /-- `parse_known_args`: `_parse_known_args` runs inside `subclass_arg_context(self)`; read only by `parse_argv_item` -/
  sapSetAroundParse : Bool
  /-- `ActionTypeHint.serialize`: every serialising adapt runs inside `dump_kwargs_context`; read only when serialising -/
  dkSetInSerialize : Bool
  /-- `adapt_typehints`, dataclass branch: `sub_add_kwargs["default"] = prev_val` writes the dict it was given
      (the action's own dict), not a copy -/
  dcDefaultOnAction : Bool
  /-- `adapt_class_type` / `adapt_typehints` / `get_class_parser` write `linked_targets` only into dicts of
      freshly built parsers or copies -/
  linkedOnFreshOnly : Bool
  /-- `handle_completions` adds --print_shtab only when the parser has none yet -/
  shtabGuarded : Bool
  /-- `parent_parser` / `subcommand` attributes are assigned only while the parser is being built -/
  wiringAtBuildOnly : Bool
deriving DecidableEq, Repr

/-- a pending `--print_config` request (always stored on the application parser) -/
structure Pending where
  flags : Flags
  /-- `none`: given among the parser's own options; `some i`: given among the options of sub-command `i` -/
  key : Option Nat
deriving DecidableEq, Repr

/-- content of the `parse_kwargs` context variable -/
structure KW where
  env : Option Bool
  defaults : Bool
deriving DecidableEq, Repr

/-- content of the `dump_kwargs` context variable -/
structure DK where
  skipValidation : Bool
  skipNone : Bool
deriving DecidableEq, Repr

/-- everything that survives a call.  Process-wide context variables first, then the carriers of the
    application parsers (indexed by parser number; `lastArgs` by parser object: sub-command parsers have an
    `args` attribute of their own). -/
structure World where
  -- context variables set on entry and never reset
  parseKwargs : Option KW := none
  subclassArgParser : Option PRef := none
  dumpKwargs : Option DK := none
  -- parser_context variables (set, and reset by token)
  lenient : Bool := false
  parentParser : Option PRef := none
  -- per parser
  pending : Nat → Option Pending := fun _ => none
  lastArgs : PRef → Option Nat := fun _ => none
  shtabAdded : Nat → Bool := fun _ => false
  linked : Nat → List Nat
  wired : Nat → Bool := fun _ => true
  dcDefault : Nat → Option Nat := fun _ => none

/-- what the builder function fixes for parser `p` -/
structure PDesc where
  exitOnError : Bool
  /-- the `shtab` package is importable (environment) -/
  shtab : Bool
  /-- linked targets recorded while the parser was built -/
  linked0 : List Nat
deriving DecidableEq, Repr

def init (D : Nat → PDesc) : World := { linked := fun p => (D p).linked0 }

/-! ## observable -/

inductive Outcome
  /-- the call returned (a namespace, a string, None) -/
  | result
  /-- `ArgumentError` (parser.error with exit_on_error=False) -/
  | argError
  /-- another exception class (validate / dump / instantiate_classes raise TypeError, KeyError) -/
  | raised
  /-- SystemExit: status, configuration printed, help printed -/
  | exit (code : Nat) (config : Bool) (help : Bool)
deriving DecidableEq, Repr

/-- values of persistent carriers that flowed into the answer, in the order they were read -/
inductive Infl
  | kw (k : Option KW)
  | args (a : Option Nat)
  | dk (d : Option DK)
  | lenient (b : Bool)
  | parent (p : Option PRef)
  | linked (l : List Nat)
  | dcDefault (d : Option Nat)
  | wired (b : Bool)
deriving DecidableEq, Repr

structure Out where
  cls : Outcome
  infl : List Infl
deriving DecidableEq, Repr

/-! ## operations -/

inductive TokKind
  /-- an option or value that touches no carrier; `cls`: its value is class-typed
      (adaptation builds a per-class parser: reads `parent_parser` and `linked_targets`) -/
  | plain (cls : Bool)
  /-- option addressed two levels down (`--model.inner.k=4`): nested `parse_args(defaults=False)` on a per-class parser -/
  | deep
  /-- value (`nested = false`) or nested option (`nested = true`: nested `parse_args` on a per-class parser) of a
      dataclass-typed argument; `onAction`: the action's `sub_add_kwargs` is the non-empty dict made by
      `_add_signature_parameter` (parameter of a class group); `hasPrev`: the namespace already holds a value -/
  | dc (nested onAction hasPrev : Bool)
  | printConfig (f : Flags)
  /-- `--cfg FILE_OR_STRING` (ActionConfigFile): a nested parse_path / parse_string on the SAME parser, whose
      `_parse_common` honours a pending `--print_config` request; `dumpFails`: that dump raises before serialising
      (the file names no sub-command although one is required) -/
  | cfg (dumpFails : Bool)
  | help
  /-- `--x.help Class`; trailing = none: nothing follows; some true: what follows ends in a nested help;
      some false: what follows is parsed and then rejected -/
  | classHelp (trailing : Option Bool)
deriving DecidableEq, Repr

/-- does processing the element write `parser.print_config`? -/
def TokKind.touchesPending : TokKind → Bool
  | .printConfig _ => true
  | .cfg _ => true
  | _ => false

/-- one element of an argv, `fails`: its processing raises -/
structure Tok where
  kind : TokKind
  fails : Bool := false
deriving DecidableEq, Repr

/-- one entry of an object / string / environment input (no option-only actions there) -/
inductive VKind
  | plain (cls : Bool)
  | dc (onAction hasPrev : Bool)
deriving DecidableEq, Repr

structure VTok where
  kind : VKind
  fails : Bool := false
deriving DecidableEq, Repr

def VTok.toTok (v : VTok) : Tok :=
  match v.kind with
  | .plain cls => { kind := .plain cls, fails := v.fails }
  | .dc onAction hasPrev => { kind := .dc false onAction hasPrev, fails := v.fails }

/-- what happens after the elements were consumed -/
structure Tail where
  /-- leftover arguments: error("Unrecognized arguments") -/
  unrec : Bool := false
  /-- required sub-command missing (raised by handle_subcommands, before the print_config check) -/
  subMissing : Bool := false
  /-- link application or validation rejects the configuration (after the print_config check) -/
  lateFail : Bool := false
  /-- the configuration holds class-typed values (validation / serialisation adapts them again) -/
  clsFinal : Bool := false
  /-- the configuration holds a value for a dataclass-typed class parameter (action dict non-empty) -/
  dcFinal : Bool := false
  /-- the configuration holds a non-None value of a type-hinted argument (serialize is called) -/
  typed : Bool := true
  /-- `dump(skip_default=True)` of this configuration by the application parser raises, after the first serialisation
      (a required sub-command: the defaults name none; a class-typed value whose default is None) -/
  sdFails : Bool := false
  /-- … with an exception class that the parse methods do not hand to parser.error() (AttributeError) -/
  sdEscapes : Bool := false
deriving DecidableEq, Repr

structure SubCall where
  idx : Nat
  argsId : Nat
  toks : List Tok
  unrec : Bool := false
deriving DecidableEq, Repr

structure Argv where
  /-- stands for the argument list (what `parser.args` remembers) -/
  id : Nat
  kw : KW := { env := none, defaults := true }
  toks : List Tok := []
  sub : Option SubCall := none
  tail : Tail := {}
deriving DecidableEq, Repr

/-- parse_object / parse_string / parse_path / parse_env: entries applied, then the common tail -/
structure Input where
  id : Nat
  /-- the text does not load (parse_string / parse_path): error before anything is applied -/
  loadFails : Bool := false
  toks : List VTok := []
  tail : Tail := {}
deriving DecidableEq, Repr

/-- dump / validate / instantiate_classes on a configuration -/
structure CfgArg where
  id : Nat
  /-- validation (or the adaptation done by instantiate_classes) rejects the configuration -/
  invalid : Bool := false
  /-- dump only: an exception after the values were serialised (format, yaml representer) -/
  late : Bool := false
  /-- dump only: strip_link_target_keys, the first statement, raises (required sub-command missing) -/
  stripFails : Bool := false
  tail : Tail := {}
deriving DecidableEq, Repr

inductive Op
  | parseArgs (a : Argv)
  | parseOther (i : Input)
  | getDefaults
  | dump (c : CfgArg) (dk : DK) (skipDefault : Bool)
  | validate (c : CfgArg)
  | instantiate (c : CfgArg)
  | formatHelp
deriving DecidableEq, Repr

/-! ## micro steps

Every function below is a pipeline of a few named combinators, in the order of the statements of the source. -/

structure Run where
  w : World
  infl : List Infl := []
  stop : Option Outcome := none

def Run.upd (r : Run) (f : World → World) : Run := { r with w := f r.w }
def Run.note (r : Run) (i : Infl) : Run := { r with infl := r.infl ++ [i] }
/-- a read of a carrier that flows into the answer -/
def Run.noteW (r : Run) (g : World → Infl) : Run := r.note (g r.w)
def Run.halt (r : Run) (o : Outcome) : Run := { r with stop := some o }
def Run.haltIf (r : Run) (c : Bool) (o : Outcome) : Run := if c then r.halt o else r
def Run.when (r : Run) (c : Bool) (f : Run → Run) : Run := if c then f r else r
/-- nothing more happens once an exception / exit is propagating -/
def Run.live (r : Run) (f : Run → Run) : Run :=
  match r.stop with
  | some _ => r
  | none => f r

/-- functional update of a per-parser carrier -/
def setAt {α β : Type} [DecidableEq α] (f : α → β) (a : α) (v : β) : α → β := fun x => if x = a then v else f x

def setPending (p : Nat) (v : Option Pending) (w : World) : World := { w with pending := setAt w.pending p v }
def setDc (p : Nat) (v : Option Nat) (w : World) : World := { w with dcDefault := setAt w.dcDefault p v }
def growLinked (p : Nat) (w : World) : World := { w with linked := setAt w.linked p (w.linked p ++ [0]) }
def setWired (p : Nat) (v : Bool) (w : World) : World := { w with wired := setAt w.wired p v }
def setShtab (p : Nat) (w : World) : World := { w with shtabAdded := setAt w.shtabAdded p true }
def setArgs (x : PRef) (v : Nat) (w : World) : World := { w with lastArgs := setAt w.lastArgs x (some v) }
def setKw (v : KW) (w : World) : World := { w with parseKwargs := some v }
/-- the sub-command action passes on what it read from `parse_kwargs` (same content, set again) -/
def reSetKw (w : World) : World := { w with parseKwargs := some (w.parseKwargs.getD { env := none, defaults := true }) }
def setSap (v : PRef) (w : World) : World := { w with subclassArgParser := some v }
def setDk (v : DK) (w : World) : World := { w with dumpKwargs := some v }

/-- parser.error(): exit status 2 or ArgumentError -/
def errOutcome (d : PDesc) : Outcome := if d.exitOnError then .exit 2 false false else .argError

/-- entering `with parser_context(lenient_check=…, parent_parser=…)`: the given variables are set -/
def enterCtx (len : Option Bool) (par : Option PRef) (w : World) : World :=
  { w with lenient := len.getD w.lenient, parentParser := par.or w.parentParser }

/-- token reset: the variables get the values they had when the context was entered -/
def leaveCtx (l0 : Bool) (p0 : Option PRef) (w : World) : World :=
  { w with lenient := l0, parentParser := p0 }

/-- `with parser_context(lenient_check=…, parent_parser=…): body` — tokens are reset on normal exit, and on an
    exception/exit only if the reset sits in a `finally` -/
def withCtx (F : Facts) (len : Option Bool) (par : Option PRef) (body : Run → Run) (r : Run) : Run :=
  let r1 := body (r.upd (enterCtx len par))
  if r1.stop.isNone || F.ctxResetFinally then r1.upd (leaveCtx r.w.lenient r.w.parentParser) else r1

/-- nested `parse_args` on a per-class parser (fresh object: its own attributes are not carriers):
    parse_kwargs_context sets (no reset); parse_known_args runs under parser_context(parent_parser=self,
    lenient_check=True) and subclass_arg_context(self); `out`: how the nested call ends, if not normally -/
def ephParse (F : Facts) (kw : KW) (out : Option Outcome) (r : Run) : Run :=
  withCtx F (some true) (some .eph)
    (fun r => match out with
      | some o => (r.upd (setSap .eph)).halt o
      | none => r.upd (setSap .eph))
    (r.upd (setKw kw))

/-- adaptation of a class-typed value: `get_class_parser` reads the `parent_parser` context variable and the
    action's `linked_targets` -/
def adaptClass (F : Facts) (p : Nat) (r : Run) : Run :=
  ((r.noteW fun w => .parent w.parentParser).noteW fun w => .linked (w.linked p)).when (!F.linkedOnFreshOnly)
    fun r => r.upd (growLinked p)

/-- adaptation of a dataclass-typed argument: with a previous value, `default := prev_val` goes into
    `sub_add_kwargs` (the action's own dict, or a copy of it); then `get_class_parser(typehint, sub_add_kwargs)`
    uses whatever default the dict holds -/
def adaptDc (F : Facts) (p : Nat) (onAction hasPrev : Bool) (valId : Nat) (r : Run) : Run :=
  (((r.when (hasPrev && onAction && F.dcDefaultOnAction) fun r => r.upd (setDc p (some valId))).when (!hasPrev)
      fun r => r.noteW fun w => .dcDefault (if onAction then w.dcDefault p else none)).noteW
    fun w => .parent w.parentParser)

/-- the `--print_config` action walks up `parent_parser` and stores the request on the application parser -/
def storeRequest (p : Nat) (self : PRef) (f : Flags) (r : Run) : Run :=
  match self with
  | .sub _ i => (r.noteW fun w => .wired (w.wired p)).upd (setPending p (some { flags := f, key := some i }))
  | _ => r.upd (setPending p (some { flags := f, key := none }))

/-- the `--x.help Class` action: reads `parser.args` to see what follows the option -/
def classHelp (F : Facts) (self : PRef) (trailing : Option Bool) (err : Outcome) (r : Run) : Run :=
  let r := r.noteW fun w => .args (w.lastArgs self)
  match trailing with
  | none => r.halt (.exit 0 false true)
  | some true => ephParse F { env := none, defaults := true } (some (.exit 0 false true)) r
  | some false => (ephParse F { env := none, defaults := true } none r).halt err

/-- `parser.dump(cfg, …)` after validation: strip_link_target_keys reads linked_targets; ActionTypeHint.serialize
    sets dump_kwargs (no reset) and the serialising adapt of class / dataclass values reads it back
    (were the set not made on entry — fact false — it is modelled as made after the read; likewise `self.args`) -/
def dumpBody (F : Facts) (p : Nat) (dk : DK) (t : Tail) (r : Run) : Run :=
  (r.noteW fun w => .linked (w.linked p)).when t.typed fun r =>
    (((r.when F.dkSetInSerialize fun r => r.upd (setDk dk)).when (t.clsFinal || t.dcFinal)
      fun r => r.noteW fun w => .dk w.dumpKwargs).when (!F.dkSetInSerialize) fun r => r.upd (setDk dk))

/-- `dump(…, skip_default=…)`: with skip_default the defaults are fetched, stripped (`sdFails` without `sdEscapes`:
    raises), serialised too (`dump_kwargs` := skip_validation=True) and compared (`sdEscapes`: raises) -/
def dumpFull (F : Facts) (p : Nat) (dk : DK) (skipDefault : Bool) (t : Tail) (fail : Outcome) (r : Run) : Run :=
  (dumpBody F p dk t r).when skipDefault fun r =>
    if t.sdFails && !t.sdEscapes then r.halt fail
    else (r.when t.typed fun r => r.upd (setDk { skipValidation := true, skipNone := dk.skipNone })).haltIf t.sdEscapes fail

/-- what validation does unless the lenient flag is on: every value is adapted again
    (`_check_value_key`: under parser_context(parent_parser=self)) -/
def revalidate (F : Facts) (p : Nat) (valId : Nat) (t : Tail) (fail : Outcome) (r : Run) : Run :=
  withCtx F none (some (.root p))
    (fun r => ((r.when t.clsFinal (adaptClass F p)).when t.dcFinal (adaptDc F p true true valId)).haltIf t.lateFail fail) r

/-- `validate(cfg)` -/
def validateBody (F : Facts) (p : Nat) (valId : Nat) (t : Tail) (fail : Outcome) (r : Run) : Run :=
  let r := r.noteW fun w => .lenient w.lenient
  if r.w.lenient then r else revalidate F p valId t fail r

/-- `print_config_if_requested` with a request: dump under lenient_check (an exception of the dump propagates to the
    caller's handler), delete the request, exit.  `early`: the dump raises before serialising.  A request made among
    the options of a sub-command is dumped by that sub-command's parser. -/
def printAndExit (F : Facts) (d : PDesc) (p : Nat) (pd : Pending) (t : Tail) (early : Bool) (r : Run) : Run :=
  let fail := if t.sdEscapes then Outcome.raised else errOutcome d
  (withCtx F (some true) none
    (fun r => if early then r.halt (errOutcome d) else
      dumpFull F p { skipValidation := false, skipNone := pd.flags.skipNull } pd.flags.skipDefault
        t fail r) r).live
    fun r => (r.when F.pcirDeletes fun r => r.upd (setPending p none)).halt (.exit 0 true false)

/-- one argv element processed by `self` (application parser `p` or one of its sub-command parsers) -/
def tokStep (F : Facts) (d : PDesc) (p : Nat) (self : PRef) (valId : Nat) (r : Run) (t : Tok) : Run :=
  r.live fun r =>
    let err := errOutcome d
    match t.kind with
    | .plain cls => (r.when cls (adaptClass F p)).haltIf t.fails err
    | .deep => ephParse F { env := none, defaults := false } (if t.fails then some err else none) (adaptClass F p r)
    | .dc nested onAction hasPrev =>
      if nested then
        ephParse F { env := none, defaults := true } (if t.fails then some err else none) (adaptDc F p onAction hasPrev valId r)
      else (adaptDc F p onAction hasPrev valId r).haltIf t.fails err
    | .printConfig f =>
      -- an unknown flag is rejected before the request is stored
      if t.fails then r.halt err else storeRequest p self f r
    | .cfg dumpFails =>
      if t.fails then r.halt err   -- the file cannot be read / the text is no configuration
      else
        match self, r.w.pending p with
        | .root _, some pd => printAndExit F d p pd {} dumpFails r
        | _, _ => r
    | .help => r.halt (.exit 0 false true)
    | .classHelp trailing =>
      -- a class that is no subclass is rejected before `parser.args` is read
      if t.fails then r.halt err else classHelp F self trailing err r

def runToks (F : Facts) (d : PDesc) (p : Nat) (self : PRef) (valId : Nat) (toks : List Tok) (r : Run) : Run :=
  toks.foldl (tokStep F d p self valId) r

/-- `_parse_common` of the application parser -/
def parseCommon (F : Facts) (d : PDesc) (p : Nat) (valId : Nat) (t : Tail) (r : Run) : Run :=
  r.live fun r =>
    if t.subMissing then r.halt (errOutcome d)
    else
      match r.w.pending p with
      | some pd => printAndExit F d p pd t false r
      | none =>
        -- apply_parsing_links + validate, under parser_context(parent_parser=self)
        withCtx F none (some (.root p)) (validateBody F p valId t (errOutcome d)) r

/-- nested `parse_args` of sub-command parser `i` (called by the sub-command action, `_skip_validation=True`).
    The action reads `parse_kwargs`; a parser with a parent gets no --print_shtab; `self.args = args`; the
    request is stored on the application parser, so the sub-parser's own check and `finally` find nothing -/
def subCall (F : Facts) (d : PDesc) (p : Nat) (sc : SubCall) (r : Run) : Run :=
  r.live fun r =>
    let self := PRef.sub p sc.idx
    let r := r.noteW fun w => .kw w.parseKwargs
    let r := r.when (!F.wiringAtBuildOnly) fun r => r.upd (setWired p false)
    let r := r.when F.argsBeforeParse fun r => r.upd (setArgs self sc.argsId)
    let r := r.when F.kwSetAroundParse fun r => r.upd reSetKw
    let r := withCtx F (some true) (some self)
      (fun r => runToks F d p self sc.argsId sc.toks (r.when F.sapSetAroundParse fun r => r.upd (setSap self))) r
    r.live fun r => r.haltIf sc.unrec (errOutcome d)

def finish (r : Run) : World × Out := (r.w, { cls := r.stop.getD .result, infl := r.infl })

/-- what `parse_args` does inside its `try` -/
def parseArgsBody (F : Facts) (d : PDesc) (p : Nat) (a : Argv) (r : Run) : Run :=
  -- with parse_kwargs_context(...): parse_known_args
  let r := r.when F.kwSetAroundParse fun r => r.upd (setKw a.kw)
  let r := withCtx F (some true) (some (.root p))
    (fun r =>
      let r := runToks F d p (.root p) a.id a.toks (r.when F.sapSetAroundParse fun r => r.upd (setSap (.root p)))
      match a.sub with
      | none => r
      | some sc => subCall F d p sc r) r
  let r := r.live fun r => r.haltIf a.tail.unrec (errOutcome d)
  parseCommon F d p a.id a.tail r

def parseArgs (F : Facts) (d : PDesc) (p : Nat) (a : Argv) (w : World) : World × Out :=
  -- handle_completions; self.args = args
  let r : Run := { w := w }
  let r := r.when d.shtab fun r => r.upd (setShtab p)
  let r := r.when F.argsBeforeParse fun r => r.upd (setArgs (.root p) a.id)
  let r := parseArgsBody F d p a r
  let r := r.when (!F.argsBeforeParse) fun r => r.upd (setArgs (.root p) a.id)
  -- finally: self.__dict__.pop("print_config", None)
  finish (r.when F.finallyPops fun r => r.upd (setPending p none))

def parseOther (F : Facts) (d : PDesc) (p : Nat) (i : Input) (w : World) : World × Out :=
  let r : Run := { w := w }
  let r := r.haltIf i.loadFails (errOutcome d)
  -- _apply_actions: parser_context(parent_parser=self, lenient_check=True)
  let r := r.live fun r =>
    withCtx F (some true) (some (.root p)) (runToks F d p (.root p) i.id (i.toks.map VTok.toTok)) r
  finish (parseCommon F d p i.id i.tail r)

def dumpOp (F : Facts) (p : Nat) (c : CfgArg) (dk : DK) (skipDefault : Bool) (w : World) : World × Out :=
  let r : Run := { w := w }
  -- validate(cfg) unless skip_validation, then cleanup/serialize, then the output format
  let r := r.haltIf c.stripFails .raised
  let r := r.live fun r => r.when (!dk.skipValidation) (validateBody F p c.id { c.tail with lateFail := c.invalid } .raised)
  finish (r.live fun r => (dumpFull F p dk skipDefault c.tail .raised r).live fun r => r.haltIf c.late .raised)

def validateOp (F : Facts) (p : Nat) (c : CfgArg) (w : World) : World × Out :=
  finish (validateBody F p c.id { c.tail with lateFail := c.invalid } .raised { w := w })

def instantiateOp (F : Facts) (p : Nat) (c : CfgArg) (w : World) : World × Out :=
  -- parser_context(parent_parser=self, …): component.instantiate_classes(value)
  finish (withCtx F none (some (.root p))
    (fun r => ((r.when c.tail.clsFinal (adaptClass F p)).when c.tail.dcFinal (adaptDc F p true false c.id)).haltIf c.invalid .raised)
    { w := w })

/-- one operation on application parser `p` -/
def step (F : Facts) (D : Nat → PDesc) (w : World) (pop : Nat × Op) : World × Out :=
  let p := pop.1
  match pop.2 with
  | .parseArgs a => parseArgs F (D p) p a w
  | .parseOther i => parseOther F (D p) p i w
  | .getDefaults => (w, { cls := .result, infl := [] })
  | .dump c dk sd => dumpOp F p c dk sd w
  | .validate c => validateOp F p c w
  | .instantiate c => instantiateOp F p c w
  | .formatHelp => (w, { cls := .result, infl := [] })

def runHist (F : Facts) (D : Nat → PDesc) (hist : List (Nat × Op)) (w : World) : World :=
  hist.foldl (fun w o => (step F D w o).1) w

end Jap.PState

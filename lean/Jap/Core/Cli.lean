/-
E10a — model of `jsonargparse/_cli.py` (`auto_cli`, `_add_component_to_parser`, `_add_subcommands`,
`_run_component`) and of the part of `_signatures.py:_add_signature_parameter` that decides how a
signature parameter becomes a parser argument.

* `Param`, `Sig`                      — what `inspect.signature` gives: name, kind, default, "annotation is Optional"
* `effDefault`, `isRequired`, `skipped`, `argOfParam`, `parserOfSig`
                                      — `_add_signature_parameter`: default / `Optional`→`None` / required, `*args`/`**kwargs`
                                        and non-required `_private` parameters skipped, required + `as_positional` → positional
* `collides`                          — the "argument '--name' already exists" check of `_add_signature_arguments`
* `fill`                              — ABSTRACT parse of one parser: every argument gets the given value, else its default,
                                        else the parse fails; an unknown key fails (argparse itself is the subject of other properties)
* `Cfg`                               — the parsed `Namespace`, as the list of its leaves addressed by key paths (C11); this is
                                        also what `component(**cfg)` sees: `Namespace.keys()` yields the dotted leaf keys
* `parseComp`, `parseTree`            — shape of the namespace that `parser.parse_args` returns for a function, a class
                                        (init arguments + `subcommand` + one sub-namespace) and a dict of components
* `pyBind`                            — Python's own call binding of keyword arguments to a signature (`TypeError` on an
                                        unexpected / missing argument), yielding the callee's local bindings
* `runComponent`                      — `_run_component` line by line, returning the CALL LOG and the returned value
* `resolve`, `autoCli`, `autoCliTree` — the subcommand-chain loop of `auto_cli` and the two entry points
* `bind`                              — the SPECIFICATION: given value, else signature default (None for Optional without default)

Imports nothing beyond core Lean.
-/
namespace Jap.Cli

inductive Kind where
  | posOrKw | kwOnly | varPos | varKw
deriving DecidableEq, Repr

/-- a converted argument value; the model never looks inside (`tok` carries the harness' canonical text) -/
inductive Val where
  | none
  | tok (s : String)
deriving DecidableEq, Repr, Inhabited

structure Param where
  name : String
  kind : Kind
  /-- the signature default (`inspect.Parameter.default`), if any -/
  dflt : Option Val
  /-- `is_optional(annotation)`: the annotation is `Optional[...]` -/
  optional : Bool
deriving DecidableEq, Repr

abbrev Sig := List Param
abbrev KV := List (String × Val)

def lookup {α : Type} [DecidableEq α] (k : α) : List (α × Val) → Option Val
  | [] => .none
  | (k', v) :: r => if k' = k then some v else lookup k r

instance decEqExcept {ε α : Type} [DecidableEq ε] [DecidableEq α] : DecidableEq (Except ε α)
  | .ok a, .ok b => if h : a = b then isTrue (h ▸ rfl) else isFalse (fun e => by cases e; exact h rfl)
  | .error a, .error b => if h : a = b then isTrue (h ▸ rfl) else isFalse (fun e => by cases e; exact h rfl)
  | .ok _, .error _ => isFalse (fun e => by cases e)
  | .error _, .ok _ => isFalse (fun e => by cases e)

/-- element-wise map that stops at the first error -/
def mapE {ε α β : Type} (f : α → Except ε β) : List α → Except ε (List β)
  | [] => .ok []
  | a :: r =>
    match f a with
    | .error e => .error e
    | .ok b =>
      match mapE f r with
      | .error e => .error e
      | .ok bs => .ok (b :: bs)

def mapO {α β : Type} (f : α → Option β) : List α → Option (List β)
  | [] => some []
  | a :: r =>
    match f a with
    | .none => .none
    | some b =>
      match mapO f r with
      | .none => .none
      | some bs => some (b :: bs)

/-! ### `_add_signature_parameter` -/

/-- `default = param.default; if empty and is_optional(annotation): default = None` -/
def effDefault (p : Param) : Option Val :=
  match p.dflt with
  | some d => some d
  | .none => if p.optional then some Val.none else .none

/-- `is_required = default == inspect_empty` -/
def isRequired (p : Param) : Bool := (effDefault p).isNone

/-- `name[0] == "_"` -/
def isPrivate (name : String) : Bool := name.toList.head? == some '_'

def isVar (p : Param) : Bool := p.kind == .varPos || p.kind == .varKw

/-- `if kind in {VAR_POSITIONAL, VAR_KEYWORD} or (not is_required and name[0] == "_"): return` -/
def skipped (p : Param) : Bool := isVar p || (!isRequired p && isPrivate p.name)

/-- one parser argument -/
structure Arg where
  dest : String
  /-- `args = [dest if is_required and as_positional else "--" + dest]` -/
  positional : Bool
  /-- `kwargs["default"]` (absent = the argument is required) -/
  default : Option Val
deriving DecidableEq, Repr

def argOfParam (asPos : Bool) (p : Param) : Arg :=
  { dest := p.name, positional := isRequired p && asPos, default := effDefault p }

def parserOfSig (asPos : Bool) (sig : Sig) : List Arg :=
  (sig.filter (fun p => !skipped p)).map (argOfParam asPos)

/-- `if prefix + param.name in self._option_string_actions: raise ValueError(...)` -/
def collides (existing : List String) (sig : Sig) : Bool :=
  sig.any (fun p => !isVar p && existing.contains p.name)

/-- option strings that exist in a parser before a component's arguments are added
    (`--help`, the `--config` added by `auto_cli`, and the `--print_config` that comes with it) -/
def baseOptions : List String := ["help", "config", "print_config"]

/-! ### the abstract parse of one parser -/

inductive Target where
  | func (name : String)
  | init (cls : String)
  | method (cls m : String)
deriving DecidableEq, Repr

structure Call where
  target : Target
  args : KV
deriving DecidableEq, Repr

inductive Err where
  | construction   -- ValueError while the parser is being built
  | parse          -- parser.error → SystemExit(2)
  | typeError      -- the Python call itself fails
  | crash          -- another exception out of parse_args
  /-- the class was constructed (the logged call) and then the call of the method failed -/
  | typeErrorAfter (done : Call)
deriving DecidableEq, Repr

def fillArg (given : KV) (a : Arg) : Except Err (String × Val) :=
  match lookup a.dest given with
  | some v => .ok (a.dest, v)
  | .none =>
    match a.default with
    | some d => .ok (a.dest, d)
    | .none => .error .parse

def fill (args : List Arg) (given : KV) : Except Err KV :=
  if given.any (fun g => !(args.any (fun a => a.dest == g.1))) then .error .parse
  else mapE (fillArg given) args

/-! ### components, what is given, the parsed namespace -/

structure Method where
  name : String
  sig : Sig
deriving DecidableEq, Repr

inductive Comp where
  | func (name : String) (sig : Sig)
  /-- a class with its `__init__` signature (without `self`) and its public methods (callable members whose name does not
      start with `_`); `methods = []` is a class that is run by constructing it -/
  | cls (name : String) (init : Sig) (methods : List Method)
deriving DecidableEq, Repr

structure Given where
  /-- values for the function's / the constructor's parameters -/
  top : KV
  /-- the chosen method and the values for its parameters -/
  method : Option String := .none
  sub : KV := []
  /-- what the `config` keys of the namespace hold (None, or the list of config paths) -/
  cfgTop : Val := .none
  cfgSub : Val := .none
deriving DecidableEq, Repr

abbrev Key := List String
abbrev Cfg := List (Key × Val)

def topEntries (kv : KV) : Cfg := kv.map (fun e => ([e.1], e.2))
def under (pre : Key) (c : Cfg) : Cfg := c.map (fun e => (pre ++ e.1, e.2))

/-- option strings present in a method's subparser before `add_method_arguments`:
    `if not has_parameter(method_object, "config"): subparser.add_argument("--config", ...)` -/
def methodBase (m : Method) : List String :=
  if m.sig.any (fun p => p.name == "config") then ["help"] else baseOptions

/-- the namespace `parse_args` returns for one component.  `root`: the parser is the one created by `auto_cli` itself
    (a subparser that ends up without arguments gets its `--config` removed: `remove_actions`). -/
def parseComp (asPos root : Bool) (comp : Comp) (g : Given) : Except Err Cfg :=
  match comp with
  | .func _ sig =>
    if collides baseOptions sig then .error .construction else
    match fill (parserOfSig asPos sig) g.top with
    | .error e => .error e
    | .ok vals =>
      .ok ((if root || !(parserOfSig asPos sig).isEmpty then [(["config"], g.cfgTop)] else []) ++ topEntries vals)
  | .cls _ init [] =>
    if collides baseOptions init then .error .construction else
    match fill (parserOfSig asPos init) g.top with
    | .error e => .error e
    | .ok vals =>
      .ok ((if root || !(parserOfSig asPos init).isEmpty then [(["config"], g.cfgTop)] else []) ++ topEntries vals)
  | .cls _ init (m0 :: ms) =>
    if collides baseOptions init then .error .construction else
    if (m0 :: ms).any (fun m => collides (methodBase m) m.sig) then .error .construction else
    -- "A subcommand name can't be the same as the subcommands dest"
    if (m0 :: ms).any (fun m => m.name == "subcommand") then .error .construction else
    match g.method with
    | .none => .error .parse                      -- `add_subcommands(required=True)`
    | some m =>
      match (m0 :: ms).find? (fun md => md.name == m) with
      | .none => .error .parse
      | some md =>
        match fill (parserOfSig asPos init) g.top with
        | .error e => .error e
        | .ok vals =>
          let allEmpty := (parserOfSig asPos init).isEmpty && (m0 :: ms).all (fun x => (parserOfSig asPos x.sig).isEmpty)
          -- an argument of the class parser with the name of the chosen method shares its key with the method's
          -- sub-namespace: `_check_subcommand_settings` reports "Expected the settings of subcommand … to be a mapping"
          -- (a parse error) for an init parameter of that name, and for `config` when a --config was given at this level;
          -- a method called `config` without --config parses (and `_run_component` then pops its whole namespace)
          if vals.any (fun e => e.1 == m) || (m == "config" && (root || !allEmpty) && g.cfgTop != Val.none) then .error .parse else
          match fill (parserOfSig asPos md.sig) g.sub with
          | .error e => .error e
          | .ok sub =>
            let subCfg : Cfg :=
              (if !(md.sig.any (fun p => p.name == "config")) && !(parserOfSig asPos md.sig).isEmpty
                then [([m, "config"], g.cfgSub)] else []) ++ under [m] (topEntries sub)
            .ok ((if root || !allEmpty then [(["config"], g.cfgTop)] else [])
                  -- the subcommands action owns the key `subcommand`
                  ++ topEntries (vals.filter (fun e => e.1 != "subcommand"))
                  ++ [(["subcommand"], Val.tok m)] ++ subCfg)

/-! ### Python's call binding -/

def hasVarKw (sig : Sig) : Bool := sig.any (fun p => p.kind == .varKw)

/-- is `k` a keyword the signature accepts by name? -/
def acceptsKw (sig : Sig) (k : Key) : Bool := sig.any (fun p => !isVar p && k == [p.name])

def bindOne (kw : Cfg) (p : Param) : Except Err (String × Val) :=
  match lookup [p.name] kw with
  | some v => .ok (p.name, v)
  | .none =>
    match p.dflt with
    | some d => .ok (p.name, d)
    | .none => .error .typeError

/-- `f(**kw)`: the local bindings of the named parameters, in signature order -/
def pyBind (sig : Sig) (kw : Cfg) : Except Err KV :=
  if !hasVarKw sig && kw.any (fun e => !acceptsKw sig e.1) then .error .typeError
  else mapE (bindOne kw) (sig.filter (fun p => !isVar p))

/-! ### `_run_component` -/

structure Run where
  calls : List Call
  ret : Val
deriving DecidableEq, Repr

/-- `cfg.pop(k, None)`: the key and everything below it is gone -/
def dropKey (k : String) (c : Cfg) : Cfg := c.filter (fun e => e.1.head? != some k)

/-- the sub-namespace `cfg[k]` (`{}` when absent) -/
def subCfg (k : String) (c : Cfg) : Cfg :=
  c.filterMap (fun e =>
    match e.1 with
    | h :: t => if h == k && !t.isEmpty then some (t, e.2) else .none
    | [] => .none)

/-- `body t args`: what the component `t` returns when its parameters are bound to `args` -/
abbrev Body := Target → KV → Val

def runComponent (body : Body) (comp : Comp) (cfg : Cfg) : Except Err Run :=
  let cfg := dropKey "config" cfg                      -- cfg.pop("config", None)
  let subcommand := lookup ["subcommand"] cfg          -- subcommand = cfg.pop("subcommand")
  let cfg := dropKey "subcommand" cfg
  match comp, subcommand with
  | .cls c init methods, some (.tok m) =>              -- inspect.isclass(component) and subcommand
    let subcommandCfg := subCfg m cfg                  -- subcommand_cfg = cfg.pop(subcommand, {})
    let cfg := dropKey m cfg
    let subcommandCfg := dropKey "config" subcommandCfg
    match pyBind init cfg with                         -- component_obj = component(**cfg)
    | .error e => .error e
    | .ok a1 =>
      match methods.find? (fun md => md.name == m) with
      | .none => .error .crash                         -- getattr(component, subcommand)
      | some md =>
        match pyBind md.sig subcommandCfg with         -- return component(**cfg)
        | .error _ => .error (.typeErrorAfter ⟨.init c, a1⟩)
        | .ok a2 => .ok { calls := [⟨.init c, a1⟩, ⟨.method c m, a2⟩], ret := body (.method c m) a2 }
  | .cls c init _, _ =>
    match pyBind init cfg with
    | .error e => .error e
    | .ok a => .ok { calls := [⟨.init c, a⟩], ret := body (.init c) a }
  | .func f sig, _ =>
    match pyBind sig cfg with
    | .error e => .error e
    | .ok a => .ok { calls := [⟨.func f, a⟩], ret := body (.func f) a }

/-- `auto_cli(component, args)` for a single component -/
def autoCli (body : Body) (asPos : Bool) (comp : Comp) (g : Given) : Except Err Run :=
  match parseComp asPos true comp g with
  | .error e => .error e
  | .ok cfg => runComponent body comp cfg

/-! ### lists and nested dicts of components -/

/-- `dict_to_namespace(components)`: the leaves of the nested dict addressed by key paths -/
abbrev Comps := List (Key × Comp)

def lookupComp (k : Key) : Comps → Option Comp
  | [] => .none
  | (k', c) :: r => if k' = k then some c else lookupComp k r

/-- `key in components_ns` (a leaf or a branch) -/
def inComps (comps : Comps) (k : Key) : Bool := comps.any (fun e => k.isPrefixOf e.1)

/-- the `config` / `subcommand` keys of the parsers above the selected component -/
def chainEntries : Key → Key → Cfg
  | _, [] => []
  | pre, s :: rest => (pre ++ ["config"], Val.none) :: (pre ++ ["subcommand"], Val.tok s) :: chainEntries (pre ++ [s]) rest

def parseTree (asPos : Bool) (comps : Comps) (path : Key) (g : Given) : Except Err Cfg :=
  -- every subparser is built up front: a colliding name anywhere is a construction error
  if comps.any (fun e => parseCompBuild e.2 || e.1.any (· == "subcommand")) then .error .construction else
  -- (a chosen subcommand called `config` shares its key with the `config` argument of the parser above it: it works as
  -- long as no --config is given at that level, which is all this model of a dict of components represents)
  match lookupComp path comps with
  | .none => .error .parse
  | some comp =>
    match parseComp asPos false comp g with
    | .error e => .error e
    | .ok c => .ok (chainEntries [] path ++ under path c)
where
  parseCompBuild : Comp → Bool
    | .func _ sig => collides baseOptions sig
    | .cls _ init ms => collides baseOptions init || ms.any (fun m => collides (methodBase m) m.sig || m.name == "subcommand")

/-- the `while` loop of `auto_cli` that follows `subcommand` keys down the components namespace -/
def resolve (comps : Comps) (cfg : Cfg) : Nat → Key → Key
  | 0, cur => cur
  | fuel + 1, cur =>
    match lookup (cur ++ ["subcommand"]) cfg with
    | some (.tok s) => if inComps comps (cur ++ [s]) then resolve comps cfg fuel (cur ++ [s]) else cur
    | _ => cur

/-- the sub-namespace at a key path -/
def subAt (path : Key) (c : Cfg) : Cfg :=
  c.filterMap (fun e => if path.isPrefixOf e.1 && e.1.length > path.length then some (e.1.drop path.length, e.2) else .none)

def autoCliTree (body : Body) (asPos : Bool) (comps : Comps) (path : Key) (g : Given) : Except Err Run :=
  match parseTree asPos comps path g with
  | .error e => .error e
  | .ok cfg =>
    match lookup ["subcommand"] cfg with
    | some (.tok s0) =>
      let key := resolve comps cfg cfg.length [s0]
      match lookupComp key comps with
      | .none => .error .crash
      | some comp => runComponent body comp (subAt key cfg)
    | _ => .error .crash

/-! ### `enable_path`: where a given value may be replaced by the content of the file it names -/

/-- how `_add_signature_parameter` sees an annotation when it decides `enable_path` -/
inductive TyClass where
  /-- `annotation in {str, int, float, bool}`: the branch that computes `enable_path` is not even reached -/
  | fastPath
  /-- `ActionTypeHint.is_subclass_typehint(annotation, all_subtypes=False)` -/
  | subclass
  /-- `ActionTypeHint.is_return_subclass_typehint(annotation)` (a callable returning a class) -/
  | returnsSubclass
  /-- every other annotation that goes through the type-hint action: Optional, List, Literal, Enum, Union[int, str], Any … -/
  | other
deriving DecidableEq, Repr

/-- `enable_path = sub_configs and (is_subclass_typehint or ActionTypeHint.is_return_subclass_typehint(annotation))` -/
def enablePath (subConfigs : Bool) : TyClass → Bool
  | .fastPath => false
  | .subclass => subConfigs
  | .returnsSubclass => subConfigs
  | .other => false

/-- `parse_value_or_config(val, enable_path=…)` in `ActionTypeHint._check_type`: where `enable_path` is set, a value that
    names a readable file (`fs v = some content`) is replaced by the file's loaded content; elsewhere it stays as given -/
def loadGiven (fs : Val → Option Val) (ep : String → Bool) (given : KV) : KV :=
  given.map (fun e => (e.1, if ep e.1 then (fs e.2).getD e.2 else e.2))

/-- `auto_cli` in a world with files: `tcTop` / `tcSub` classify the annotations of the function's / constructor's and of
    the method's parameters; `auto_cli` passes `sub_configs=True` -/
def autoCliFS (body : Body) (asPos : Bool) (comp : Comp) (g : Given) (fs : Val → Option Val)
    (tcTop tcSub : String → TyClass) : Except Err Run :=
  autoCli body asPos comp
    { g with top := loadGiven fs (fun n => enablePath true (tcTop n)) g.top,
             sub := loadGiven fs (fun n => enablePath true (tcSub n)) g.sub }

/-! ### positional-only parameters and `auto_cli(set_defaults=…)` -/

/-- what the signature grammar of `Sig` leaves out: the names of the positional-only parameters (`def f(a, b, /, c)`) of
    the function / constructor and of the chosen method, and the `set_defaults` dict of `auto_cli` split into the keys of
    the function's / constructor's arguments (`name`) and of the chosen method's (`method.name`) -/
structure Ext where
  poTop : List String := []
  poSub : List String := []
  sdTop : KV := []
  sdSub : KV := []

/-- `parser.set_defaults(set_defaults)`: the argument's default is replaced (the argument itself stays what it was) -/
def overrideSig (sd : KV) (sig : Sig) : Sig :=
  sig.map (fun p => match lookup p.name sd with
    | some v => { p with dflt := some v }
    | .none => p)

/-- every key names an argument of the parser ("No action for key … to set its default" otherwise); private names are
    outside the model's domain (an overridden private parameter would change from required to hidden here) -/
def sdKnown (sd : KV) (sig : Sig) : Bool :=
  sd.all (fun e => !isPrivate e.1 && sig.any (fun p => !skipped p && p.name == e.1))

/-- `component(**cfg)` passes EVERY parsed value by keyword: a positional-only parameter that has a parser argument makes
    the call a TypeError ("got some positional-only arguments passed as keyword arguments") -/
def poHit (po : List String) (sig : Sig) : Bool := sig.any (fun p => !skipped p && po.contains p.name)

def overrideComp (x : Ext) (m : Option String) : Comp → Comp
  | .func f sig => .func f (overrideSig x.sdTop sig)
  | .cls c init ms =>
    .cls c (overrideSig x.sdTop init) (ms.map (fun md => if some md.name == m then ⟨md.name, overrideSig x.sdSub md.sig⟩ else md))

def chosenSig (comp : Comp) (m : Option String) : Sig :=
  match comp, m with
  | .cls _ _ ms, some m => (match ms.find? (fun md => md.name == m) with | some md => md.sig | .none => [])
  | _, _ => []

def topSig : Comp → Sig
  | .func _ sig => sig
  | .cls _ init _ => init

/-- `auto_cli(component, args, set_defaults=…)` for a single component whose signatures may have positional-only parameters -/
def autoCliX (body : Body) (asPos : Bool) (comp : Comp) (x : Ext) (g : Given) : Except Err Run :=
  if !(sdKnown x.sdTop (topSig comp) && sdKnown x.sdSub (chosenSig comp g.method)) then .error .crash else
  match autoCli body asPos (overrideComp x g.method comp) g with
  | .error e => .error e
  | .ok r =>
    if poHit x.poTop (topSig comp) then .error .typeError
    else if poHit x.poSub (chosenSig comp g.method) then
      (match r.calls.head? with
       | some c => .error (.typeErrorAfter c)
       | .none => .error .typeError)
    else .ok r

/-! ### the specification -/

/-- value given, else the signature default, else `None` for an `Optional` parameter without default -/
def bindParam (given : KV) (p : Param) : Option (String × Val) :=
  match lookup p.name given with
  | some v => some (p.name, v)
  | .none => (effDefault p).map (fun d => (p.name, d))

/-- every named parameter of the signature, in order -/
def bind (sig : Sig) (given : KV) : Option KV :=
  mapO (bindParam given) (sig.filter (fun p => !isVar p))

/-- names the CLI uses itself: `_run_component` pops them from the parsed namespace before the call -/
def reservedNames : List String := ["config", "subcommand"]

def noReserved (sig : Sig) : Bool := sig.all (fun p => !reservedNames.contains p.name)

/-- what `inspect.signature` guarantees: distinct names -/
def distinctNames (sig : Sig) : Bool := decide (sig.map (·.name)).Nodup

end Jap.Cli

/-
E3 — vocabulary of the adapter model: type hints (`Ty`), plain/parsed values
(`Val`), the loader oracle, Python equality and hashability on `Val`, and the
independent structural validator `Conforms`.

Imports nothing beyond core Lean.  Every function is structurally recursive
(mutual recursion over the nested inductives) so that closed terms reduce in
the kernel (`rfl`/`decide` witnesses).
-/
namespace Jap.Adapt

/-- dictionary keys: the model covers `str` and `int` keys -/
inductive DKey where
  | str (s : String)
  | int (i : Int)
deriving DecidableEq, Repr, Inhabited

/-- plain / parsed Python values.  `flt r`: a float, `r` is its Python `repr`
    (`'1.0'`, `'1e+22'`, `'inf'`, `'nan'`); no float arithmetic is modelled.
    `set xs`: a set, elements in some enumeration order.
    `enum cls n`: member `n` of the Enum class number `cls`. -/
inductive Val where
  | null
  | bool (b : Bool)
  | int (i : Int)
  | flt (r : String)
  | str (s : String)
  | list (xs : List Val)
  | tuple (xs : List Val)
  | set (xs : List Val)
  | dict (kvs : List (DKey × Val))
  | enum (cls : Nat) (name : String)
  | obj (kind : Nat) (repr : String)     -- a value of the registered type number `kind` (timedelta, UUID, Path ...), opaque
deriving Repr, Inhabited

/-- base type of a restricted type (`restricted_number_type` / `restricted_string_type`) -/
inductive RBase where
  | int | float | str
deriving DecidableEq, Repr, Inhabited

/-- members of a `Literal[...]` -/
inductive Lit where
  | str (s : String)
  | int (i : Int)
  | bool (b : Bool)
deriving DecidableEq, Repr, Inhabited

def Lit.toVal : Lit → Val
  | .str s => .str s
  | .int i => .int i
  | .bool b => .bool b

inductive KTy where
  | str
  | int
deriving DecidableEq, Repr, Inhabited

/-- the modelled grammar of type hints -/
inductive Ty where
  | str | int | float | bool | none | any
  | union (ts : List Ty)
  | list (t : Ty)
  | dict (k : KTy) (t : Ty)
  | tuple (ts : List Ty)          -- `Tuple[t1, ..., tn]` (n may be 0: `Tuple[()]`)
  | tupleVar (t : Ty)             -- `Tuple[t, ...]`
  | set (t : Ty)
  | literal (ls : List Lit)
  | enum (cls : Nat) (members : List String)
  | rnum (base : RBase) (k : Nat)   -- restricted number / string type number `k` (PositiveInt, NotEmptyStr ...)
  | reg (k : Nat)                   -- registered type number `k` (timedelta, range, bytes, UUID, complex, Path, Decimal ...)
deriving Repr, Inhabited

inductive Err where
  | value      -- ValueError (raise_unexpected_value, int('a'), ...)
  | type       -- any other exception class that reaches `_check_type` (TypeError: unhashable, `Union[()]`)
deriving DecidableEq, Repr, Inhabited

/-- External parsers as parameters.  In the driver the harness supplies, with each
    raw string, what the real function returned for it; in theorems the oracle is
    universally quantified. -/
structure Oracle where
  /-- `yaml_load(s)` (`_loaders_dumpers.py`), `none` = a loader exception (`yaml.YAMLError`) -/
  yaml : String → Option Val
  /-- `load_value(s, simple_types=True)` as used by the `Any` branch, `none` = loader exception -/
  loadAny : String → Option Val
  /-- `repr(float(i))` for `|i| > 2^53` (where the conversion rounds); `none` = `OverflowError` (the int is beyond
      the float range; the code turns it into a `ValueError`, commit 31f099f) -/
  bigFlt : Int → Option String
  /-- `int(s)` for a dictionary key, `none` = ValueError -/
  intOf : String → Option Int
  /-- `int(s)` / `float(s)` / — for the text given to a restricted number type, `none` = ValueError -/
  numStr : RBase → String → Option Val := fun _ _ => .none
  /-- the restriction of the restricted type `k` (comparisons / regular expression) on a value of its base type -/
  rnumOk : Nat → Val → Bool := fun _ _ => false
  /-- the serializer of a restricted type (its base type `int` / `float` / `str`) applied to a value that is NOT of
      the base type (`int(0.5)`, `float(True)` ...), `none` = it raises -/
  baseOf : RBase → Val → Option Val := fun _ _ => .none
  /-- the deserializer of the registered type `k` applied to a value that is not of the type, `none` = ValueError
      (`RegisteredType.deserializer` wraps ValueError / TypeError / AttributeError) -/
  regDeser : Nat → Val → Option Val := fun _ _ => .none
  /-- the serializer of the registered type `k`, `none` = it raises -/
  regSer : Nat → Val → Option Val := fun _ _ => .none

/-! ### Python `str.strip()` -/

/-- `str.isspace` for one character (the Unicode White_Space set used by CPython plus U+001C–U+001F) -/
def pyIsSpace (c : Char) : Bool :=
  let n := c.toNat
  (9 ≤ n && n ≤ 13) || (28 ≤ n && n ≤ 32) || n == 0x85 || n == 0xa0 || n == 0x1680 ||
  (0x2000 ≤ n && n ≤ 0x200a) || n == 0x2028 || n == 0x2029 || n == 0x202f || n == 0x205f || n == 0x3000

def pyStrip (s : String) : String :=
  String.ofList (((s.toList.dropWhile pyIsSpace).reverse.dropWhile pyIsSpace).reverse)

def isBlank (s : String) : Bool := s.toList.all pyIsSpace

/-! ### floats as `repr` strings -/

def digitVal (c : Char) : Option Nat :=
  if '0' ≤ c && c ≤ '9' then some (c.toNat - '0'.toNat) else .none

/-- value of a string of decimal digits (`none` when empty or a non-digit occurs) -/
def digitsVal : List Char → Option Nat
  | [] => .none
  | cs => cs.foldl (fun acc c => match acc, digitVal c with
      | some a, some d => some (10 * a + d)
      | _, _ => .none) (some 0)

/-- The integer a float `repr` denotes, when it denotes one: `'1.0'`→1, `'-0.0'`→0, `'1e+22'`→10^22,
    `'1.5'`, `'inf'`, `'nan'` → none.  Used for Python `==` between int/bool and float. -/
def fltAsInt (r : String) : Option Int :=
  let cs := r.toList
  let neg := cs.head? == some '-'
  let cs := if neg then cs.drop 1 else cs
  let mant := cs.takeWhile (fun c => c != 'e')
  let expPart := (cs.dropWhile (fun c => c != 'e')).drop 1
  let ip := mant.takeWhile (fun c => c != '.')
  let fp := (mant.dropWhile (fun c => c != '.')).drop 1
  let e : Option Int :=
    match expPart with
    | [] => some 0
    | '+' :: ds => (digitsVal ds).map Int.ofNat
    | '-' :: ds => (digitsVal ds).map (fun n => - Int.ofNat n)
    | ds => (digitsVal ds).map Int.ofNat
  match digitsVal (ip ++ fp), e with
  | some m, some e =>
    let e' : Int := e - fp.length
    let sgn : Int := if neg then -1 else 1
    if e' ≥ 0 then some (sgn * (m * 10 ^ e'.toNat))
    else
      let d := 10 ^ (-e').toNat
      if m % d == 0 then some (sgn * (m / d)) else .none
  | _, _ => .none

/-- `repr(float(i))`: the conversion is exact for `|i| ≤ 2^53` (< 10^16, so `repr` is positional), the oracle above -/
def toFlt (O : Oracle) (i : Int) : Option String :=
  if i.natAbs ≤ 2 ^ 53 then some (toString i ++ ".0") else O.bigFlt i

/-! ### Python `==` and hashability -/

/-- numeric view shared by bool / int / integral floats -/
def numOf : Val → Option Int
  | .bool b => some (if b then 1 else 0)
  | .int i => some i
  | .flt r => fltAsInt r
  | _ => .none

mutual
/-- Python `==` on modelled values (`True == 1 == 1.0`; list ≠ tuple; enum members by identity;
    two floats are equal when they denote the same integer or have the same `repr`) -/
def pyEq : Val → Val → Bool
  | .null, .null => true
  | .str a, .str b => a == b
  | .bool a, w => match numOf w with | some j => (if a then 1 else 0) == j | .none => false
  | .int a, w => match numOf w with | some j => a == j | .none => false
  | .flt a, w => match w with
      | .flt b => a == b || (match fltAsInt a, fltAsInt b with | some x, some y => x == y | _, _ => false)
      | w => match fltAsInt a, numOf w with | some x, some y => x == y | _, _ => false
  | .list xs, .list ys => pyEqList xs ys
  | .tuple xs, .tuple ys => pyEqList xs ys
  | .set xs, .set ys => pyEqList xs ys
  | .dict xs, .dict ys => pyEqKvs xs ys
  | .enum c n, .enum c' n' => c == c' && n == n'
  | .obj k r, .obj k' r' => k == k' && r == r'
  | _, _ => false
def pyEqList : List Val → List Val → Bool
  | [], [] => true
  | x :: xs, y :: ys => pyEq x y && pyEqList xs ys
  | _, _ => false
def pyEqKvs : List (DKey × Val) → List (DKey × Val) → Bool
  | [], [] => true
  | (k, x) :: xs, (k', y) :: ys => k == k' && pyEq x y && pyEqKvs xs ys
  | _, _ => false
end

mutual
/-- can the value be an element of a `set` / a dict key -/
def hashable : Val → Bool
  | .list _ => false
  | .set _ => false
  | .dict _ => false
  | .tuple xs => hashableAll xs
  | _ => true
def hashableAll : List Val → Bool
  | [] => true
  | x :: xs => hashable x && hashableAll xs
end

/-- `set(ys)`: elements are added one by one; an element equal to one already present is dropped -/
def setInsert (acc : List Val) (y : Val) : List Val :=
  if acc.any (fun x => pyEq x y) then acc else acc ++ [y]

def pySet (ys : List Val) : List Val := ys.foldl setInsert []

/-! ### identity of values (same type and same value), for `Literal` conformance -/

def Lit.same : Lit → Val → Bool
  | .str a, .str b => a == b
  | .int a, .int b => a == b
  | .bool a, .bool b => a == b
  | _, _ => false

/-! ### the independent structural validator

Written from the meaning of the typing constructs, not from the code: a value conforms to a hint when it has
the right Python type at every level, tuple arity, `Literal` membership (same type *and* value), Enum
membership, dictionary keys of the declared key type.

`confL P ll lk` is the validator (`P` = the predicates of the restricted types: comparisons / regular expression,
see Core/AdaptRestr.lean) with two requirements that can be relaxed: with `ll` a `Literal` member may be
matched by Python `==` instead of identity (`True` for `Literal[1]`), with `lk` dictionary keys are not looked
at.  `conf = confL false false` is the specification; the relaxed versions delimit the two known deviations
of the code exactly. -/

def DKey.conf : KTy → DKey → Bool
  | .str, .str _ => true
  | .int, .int _ => true
  | _, _ => false

def litLoose (ls : List Lit) (v : Val) : Bool := ls.any (fun l => pyEq l.toVal v)

mutual
def confL (P : Nat → Val → Bool) (ll lk : Bool) : Ty → Val → Bool
  | .str, v => match v with | .str _ => true | _ => false
  | .int, v => match v with | .int _ => true | _ => false
  | .float, v => match v with | .flt _ => true | _ => false
  | .bool, v => match v with | .bool _ => true | _ => false
  | .none, v => match v with | .null => true | _ => false
  | .any, _ => true
  | .union ts, v => confLAny P ll lk ts v
  | .list t, v => match v with | .list xs => xs.all (fun x => confL P ll lk t x) | _ => false
  | .dict k t, v => match v with
      | .dict kvs => kvs.all (fun kv => (lk || DKey.conf k kv.1) && confL P ll lk t kv.2)
      | _ => false
  | .tuple ts, v => match v with | .tuple xs => confLZip P ll lk ts xs | _ => false
  | .tupleVar t, v => match v with | .tuple xs => xs.all (fun x => confL P ll lk t x) | _ => false
  | .set t, v => match v with | .set xs => xs.all (fun x => confL P ll lk t x) | _ => false
  | .literal ls, v => if ll then litLoose ls v else ls.any (fun l => l.same v)
  | .enum c ms, v => match v with | .enum c' n => c == c' && ms.contains n | _ => false
  | .rnum b k, v => (match b, v with            -- the right base type AND the restriction of the type
      | .int, .int _ => true
      | .float, .flt _ => true
      | .str, .str _ => true
      | _, _ => false) && P k v
  | .reg k, v => match v with | .obj k' _ => k == k' | _ => false
def confLAny (P : Nat → Val → Bool) (ll lk : Bool) : List Ty → Val → Bool
  | [], _ => false
  | t :: ts, v => confL P ll lk t v || confLAny P ll lk ts v
def confLZip (P : Nat → Val → Bool) (ll lk : Bool) : List Ty → List Val → Bool
  | [], xs => xs.isEmpty
  | t :: ts, xs => match xs with
    | [] => false
    | x :: xs => confL P ll lk t x && confLZip P ll lk ts xs
end

/-- the specification: strict validator (`P k v`: the value `v` of the base type satisfies the restriction of the
    restricted type number `k`) -/
abbrev conf (P : Nat → Val → Bool) (t : Ty) (v : Val) : Bool := confL P false false t v

abbrev Conforms (P : Nat → Val → Bool) (t : Ty) (v : Val) : Prop := conf P t v = true

end Jap.Adapt

/-
E8 (continued) — the registries of `jsonargparse/typing.py`:

* `extend_base_type` / `add_type` / the register key of `restricted_number_type` and
  `restricted_string_type` (`registered_types`, the name table `globals()`),
* `register_type` / `RegisteredType.__eq__` / `RegisteredType.deserializer` /
  `register_type_on_first_use` / `get_registered_type` (`registered_type_handlers`, `registration_pending`),
* the registered-type branch of `adapt_typehints` (`_typehints.py`), parametric in the handler.

A class is a *value* here (`NumCls` carries a private copy of the restriction list, exactly what the
comprehension `restrictions = [(_operators2[x[0]], x[1]) for x in restrictions]` builds); the caller's list
lives in a heap cell that creation reads once (`createNumFrom`).

Imports nothing beyond core Lean.
-/
import Jap.Core.Typing

namespace Jap.Typing

/-! ## register key of a restricted number type: `(tuple(sorted(restrictions)), base_type, join)` -/

/-- position of the operator symbol in Python's string order: `"!=" < "<" < "<=" < "==" < ">" < ">="` -/
def Op.sortRank : Op → Nat
  | .ne => 0 | .lt => 1 | .le => 2 | .eq => 3 | .gt => 4 | .ge => 5

/-- `<=` of the tuples `(symbol, reference)` (references passed the creation-time test, so none is `nan`) -/
def restrLe (a b : Restr) : Bool :=
  a.1.sortRank < b.1.sortRank || (a.1.sortRank = b.1.sortRank && (XNum.lt a.2 b.2 || XNum.eq a.2 b.2))

def insertR (a : Restr) : List Restr → List Restr
  | [] => [a]
  | b :: r => if restrLe a b then a :: b :: r else b :: insertR a r

/-- `sorted(restrictions)` -/
def sortR : List Restr → List Restr
  | [] => []
  | a :: r => insertR a (sortR r)

abbrev NumKey := List Restr × Base × Join

def numKey (b : Base) (rs : List Restr) (j : Join) : NumKey := (sortR rs, b, j)

/-- a created restricted number class: identity (`id` = creation index), name, and the class attributes
`_type`, `_restrictions` (a private list, caller's order), `_join` -/
structure NumCls where
  id : Nat
  name : String
  base : Base
  rs : List Restr
  join : Join
deriving DecidableEq, Repr, Inhabited

/-- `T(v)` for a created class -/
def NumCls.call (c : NumCls) (v : PyVal) : Except Err BVal := validateNum c.base c.rs c.join v

/-- `registered_types` restricted to number keys, the names bound in `globals()` of the module, the class counter -/
structure TReg where
  types : List (NumKey × NumCls)
  names : List String
  next : Nat
deriving DecidableEq, Repr, Inhabited

def TReg.find (r : TReg) (k : NumKey) : Option NumCls :=
  match r.types.find? (fun e => e.1 = k) with
  | some e => some e.2
  | none => none

/-- `restricted_number_type(name, base, restrictions, join)` behind its argument checks:
`extend_base_type` (key already registered: same class, or ValueError for another name) and `add_type`
(ValueError when the name clashes with a global of `jsonargparse.typing`) -/
def createNum (r : TReg) (name : String) (b : Base) (rs : List Restr) (j : Join) : Except Err (TReg × NumCls) :=
  match r.find (numKey b rs j) with
  | some c => if c.name ≠ name then .error .value else .ok (r, c)
  | none =>
    if r.names.contains name then .error .value
    else .ok (⟨r.types ++ [(numKey b rs j, ⟨r.next, name, b, rs, j⟩)], name :: r.names, r.next + 1⟩, ⟨r.next, name, b, rs, j⟩)

/-- the caller keeps the list in a heap cell `a`; creation reads the cell once -/
def createNumFrom (heap : Nat → List Restr) (r : TReg) (name : String) (b : Base) (a : Nat) (j : Join) :
    Except Err (TReg × NumCls) :=
  createNum r name b (heap a) j

/-- every entry is filed under the key of its own class attributes -/
def TReg.OK (r : TReg) : Prop := ∀ e ∈ r.types, e.1 = numKey e.2.base e.2.rs e.2.join

/-! ### automatic name (`name is None`), integer references: `int_gt0_and_lt10` -/

def autoName (b : Base) (rs : List (Op × Int)) (j : Join) : String :=
  let bn := match b with | .int => "int" | .float => "float"
  let jn := match j with | .and => "and" | .or => "or"
  let parts := rs.map fun r => r.1.pyName ++ String.ofList (showInt r.2)
  bn ++ "_" ++ String.intercalate ("_" ++ jn ++ "_") parts

/-- `_expression` for integer references: `v>0 and v<10` -/
def exprText (rs : List (Op × Int)) (j : Join) : String :=
  let jn := match j with | .and => " and " | .or => " or "
  String.intercalate jn (rs.map fun r => "v" ++ r.1.symbol ++ String.ofList (showInt r.2))

/-! ## restricted string types: key `("matching " + regex.pattern, str)` — the flags are not part of it -/

structure StrCls where
  id : Nat
  name : String
  pattern : String
  flags : Nat          -- `regex.flags` of the pattern object the class keeps
deriving DecidableEq, Repr, Inhabited

structure SReg where
  types : List (String × StrCls)
  names : List String
  next : Nat
deriving DecidableEq, Repr, Inhabited

def SReg.find (r : SReg) (k : String) : Option StrCls :=
  match r.types.find? (fun e => e.1 = k) with
  | some e => some e.2
  | none => none

/-- `restricted_string_type(name, regex)` -/
def createStr (r : SReg) (name : String) (pattern : String) (flags : Nat) : Except Err (SReg × StrCls) :=
  match r.find ("matching " ++ pattern) with
  | some c => if c.name ≠ name then .error .value else .ok (r, c)
  | none =>
    if r.names.contains name then .error .value
    else .ok (⟨r.types ++ [("matching " ++ pattern, ⟨r.next, name, pattern, flags⟩)], name :: r.names, r.next + 1⟩,
      ⟨r.next, name, pattern, flags⟩)

/-! ## `register_type` -/

/-- a `RegisteredType`: the five attributes as identities of the objects -/
structure HandlerId where
  cls : Nat
  ser : Nat
  deser : Nat          -- `base_deserializer` (the class itself when `deserializer is None`)
  exc : Nat
  check : Nat
deriving DecidableEq, Repr, Inhabited

/-- `RegisteredType.__eq__`: `type_class`, `serializer`, `base_deserializer` only -/
def HandlerId.eq3 (a b : HandlerId) : Bool := a.cls = b.cls && a.ser = b.ser && a.deser = b.deser

/-- a pending registration of `register_type_on_first_use`: the arguments of the delayed `register_type` call -/
structure Pending where
  handler : HandlerId
  fail : Bool
  ukey : Option (Nat × Bool)
deriving DecidableEq, Repr, Inhabited

/-- `registered_type_handlers`, `registered_types` (for `uniqueness_key`s: key ↦ class), `registration_pending`,
and the module global `_fail_already_registered` (`some false` while the module body runs, deleted afterwards) -/
structure HReg where
  handlers : List (Nat × HandlerId)
  ukeys : List (Nat × Nat)
  pending : List (Nat × Pending)
  globalFail : Option Bool
deriving DecidableEq, Repr, Inhabited

def assocSet {β : Type} (l : List (Nat × β)) (k : Nat) (v : β) : List (Nat × β) :=
  match l with
  | [] => [(k, v)]
  | (k', v') :: r => if k' = k then (k, v) :: r else (k', v') :: assocSet r k v

def assocGet {β : Type} (l : List (Nat × β)) (k : Nat) : Option β :=
  match l with
  | [] => none
  | (k', v') :: r => if k' = k then some v' else assocGet r k

def assocDel {β : Type} (l : List (Nat × β)) (k : Nat) : List (Nat × β) :=
  match l with
  | [] => []
  | (k', v') :: r => if k' = k then assocDel r k else (k', v') :: assocDel r k

/-- the dictionary lookup at the end of `get_registered_type` -/
def HReg.handlerOf (st : HReg) (t : Nat) : Option HandlerId := assocGet st.handlers t

/-- `get_registered_type` without the pending table: the plain dictionary lookup -/
def getPlain (st : HReg) (t : Nat) : HReg × Option HandlerId := (st, st.handlerOf t)

/-- is `not uniqueness_key` true (`None`, or an empty tuple) -/
def noKey : Option (Nat × Bool) → Bool
  | none => true
  | some (_, truthy) => !truthy

/-- the two stores at the end of `register_type` -/
def storeH (s : HReg) (h : HandlerId) (ukey : Option (Nat × Bool)) : HReg :=
  match ukey with
  | some (k, _) => { s with handlers := assocSet s.handlers h.cls h, ukeys := assocSet s.ukeys k h.cls }
  | none => { s with handlers := assocSet s.handlers h.cls h }

/-- `register_type(type_class, serializer, deserializer, deserializer_exceptions, type_check,
fail_already_registered, uniqueness_key)`; `ukey = some (k, truthy)` (an empty tuple is a key that is falsy);
`get` is the `get_registered_type` it calls -/
def registerWith (get : HReg → Nat → HReg × Option HandlerId) (st : HReg) (h : HandlerId) (fail : Bool)
    (ukey : Option (Nat × Bool)) : HReg × Option Err :=
  if noKey ukey && st.globalFail.getD fail then
    match (get st h.cls).2 with
    | some old => if h.eq3 old then ((get st h.cls).1, none) else ((get st h.cls).1, some .value)
    | none => (storeH (get st h.cls).1 h ukey, none)
  else (storeH st h ukey, none)

/-- `get_registered_type(type_class)`: a pending registration of the class is popped and run first (a `ValueError`
of the delayed `register_type` is suppressed; its own `get_registered_type` finds the entry already popped, hence
`getPlain`); then the dictionary lookup -/
def getRegistered (st : HReg) (t : Nat) : HReg × Option HandlerId :=
  if (assocGet st.handlers t).isNone then
    match assocGet st.pending t with
    | some p =>
      ((registerWith getPlain { st with pending := assocDel st.pending t } p.handler p.fail p.ukey).1,
        (registerWith getPlain { st with pending := assocDel st.pending t } p.handler p.fail p.ukey).1.handlerOf t)
    | none => (st, st.handlerOf t)
  else (st, st.handlerOf t)

/-- the result is the state afterwards and the `ValueError`, if one is raised (the state can have changed even
then: the `get_registered_type` inside may have run a pending registration) -/
def registerType (st : HReg) (h : HandlerId) (fail : Bool) (ukey : Option (Nat × Bool)) : HReg × Option Err :=
  registerWith getRegistered st h fail ukey

/-! ## `RegisteredType.deserializer` and the registered-type branch of `adapt_typehints` -/

/-- a value on its way through the adapter: an instance of the registered class or a basic (config) value -/
inductive RVal (α β : Type) where
  | inst (a : α)
  | basic (b : β)
deriving DecidableEq, Repr

/-- what `base_deserializer(value)` raises: a class listed in `deserializer_exceptions`, or another one -/
inductive Raised where
  | listed
  | unlisted
deriving DecidableEq, Repr, Inhabited

/-- what the caller of `RegisteredType.deserializer` sees -/
inductive DErr where
  | valueError       -- `ValueError("Not of type …")` with the original exception as `parent`
  | propagated       -- an exception outside `deserializer_exceptions` passes through unchanged
deriving DecidableEq, Repr, Inhabited

/-- the three callables of a `RegisteredType` as functions -/
structure Handler (α β : Type) where
  ser : RVal α β → β
  deser : RVal α β → Except Raised α
  isType : RVal α β → Bool

/-- `RegisteredType.deserializer` -/
def Handler.deserializer {α β : Type} (h : Handler α β) (v : RVal α β) : Except DErr α :=
  match h.deser v with
  | .ok a => .ok a
  | .error .listed => .error .valueError
  | .error .unlisted => .error .propagated

/-- the branch `elif get_registered_type(typehint):` of `adapt_typehints` -/
def adaptReg {α β : Type} (h : Handler α β) (serialize : Bool) (val : RVal α β) : Except DErr (RVal α β) :=
  if serialize then .ok (.basic (h.ser val))
  else if !h.isType val then
    match h.deserializer val with
    | .ok a => .ok (.inst a)
    | .error e => .error e
  else .ok val

/-- value → dump → channel (config text / argv word, modelled by `chan` on basic values) → parse -/
def regRoundTrip {α β : Type} (h : Handler α β) (chan : β → β) (a : α) : Except DErr (RVal α β) :=
  match adaptReg h true (.inst a) with
  | .ok (.basic b) => adaptReg h false (.basic (chan b))
  | .ok v => .ok v
  | .error e => .error e

/-- a handler built from a codec pair of the model: `str`-like serializer, deserializer errors are declared ones,
default `type_check`
(every exception the model's codecs raise is a declared one: `Gen.Registered.registeredExc`, pinned by
`C20_handler_exceptions_tie`, lists `ArithmeticError` for the types whose constructor can overflow) -/
def codecHandler {α : Type} (ser : α → List Char) (deser : List Char → Except Err α) : Handler α (List Char) where
  ser := fun v => match v with
    | .inst a => ser a
    | .basic s => s
  deser := fun v => match v with
    | .basic s => match deser s with
      | .ok a => .ok a
      | .error _ => .error .listed
    | .inst _ => .error .listed
  isType := fun v => match v with
    | .inst _ => true
    | .basic _ => false

end Jap.Typing

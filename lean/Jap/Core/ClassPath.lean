/-
E10b — model of the subclass branch of `jsonargparse/_typehints.py:adapt_typehints` with `adapt_class_type`,
`subclass_spec_as_namespace`, `resolve_class_path_by_name`, `discard_init_args_on_class_path_change`, of the final
defaults / required check of the per-class parser, and of `instantiate_classes` on a class-typed argument.

* `Val`                        — a value given for a class-typed argument (string, dict forms, `NestedArg` of a dotted
                                 option) and equally the stored `Namespace(class_path=…, init_args=…, dict_kwargs=…)`
* `ClassEnv`                   — the importable world: classes with their resolved `__init__` parameters, direct
                                 subclass edges, the import table path ↦ class | function returning a class | non-class
* `isSubclass`                 — reflexive-transitive closure of the edges (fuel = number of edges)
* `resolveName`                — `resolve_class_path_by_name`: a name without dot is looked up among the non-abstract
                                 subclasses of the declared type; several hits are an error
* `asNamespace`                — `subclass_spec_as_namespace` with the implicit `class_path` of a concrete declared type
* `adapt`                      — one assignment to the argument (`ActionTypeHint.__call__` → `adapt_typehints` →
                                 `adapt_class_type` → `cfg.update`): import, subclass check, normalised `class_path`,
                                 discard of the previous init_args the new class does not accept, dict_kwargs that are
                                 real parameters moved to init_args, every init arg validated against THAT class's
                                 parameters (recursively for class-typed parameters), merge with the previous value
* `finalize`                   — the end of `parse_args`: defaults of the named class filled in, required parameters checked
* `adaptAll`                   — several sources in order, then `finalize`
* `inst`, `instantiate`        — `instantiate_classes`: children first, one constructor call per spec; the CALL LOG
* `shortToExplicit`            — the explicit `{class_path, init_args, dict_kwargs}` dict a short form stands for

Imports nothing beyond core Lean.
-/
namespace Jap.ClassPath

inductive Val where
  /-- a scalar: Python type name (`int`, `str`, `float`, `bool`, `NoneType`) and canonical text -/
  | lit (ty tok : String)
  /-- a dict / Namespace whose keys are among `class_path`, `init_args`, `dict_kwargs` (absent = `none` / `[]`) -/
  | spec (cp : Option String) (ia : List (String × Val)) (dk : List (String × Val))
  /-- any other dict: taken as the init_args of the class known so far -/
  | bare (kvs : List (String × Val))
  /-- `NestedArg(key, val)`: the value of a dotted option `--opt.KEY=val` (leading `init_args.` already removed) -/
  | nested (key : List String) (v : Val)
  /-- a list: the value of a `List[Class]` argument / parameter (given or stored) -/
  | lst (xs : List Val)
  /-- a dict with string keys: the value of a `Dict[str, Class]` argument / parameter (given or stored) -/
  | dct (kvs : List (String × Val))

instance : Inhabited Val := ⟨.lit "NoneType" "None"⟩

abbrev KV := List (String × Val)

inductive PTy where
  | scalar (ty : String)
  /-- `Optional[ty]` for a scalar `ty`: `None` or a value of the scalar type -/
  | optScalar (ty : String)
  | cls (base : String)
  | optCls (base : String)
  /-- `List[base]` -/
  | listOf (base : String)
  /-- `Dict[str, base]` -/
  | dictOf (base : String)
deriving DecidableEq, Repr

structure IParam where
  name : String
  ty : PTy
  /-- `none`: the parameter is required -/
  dflt : Option Val

structure ClassDef where
  /-- canonical import path (`get_import_path`) -/
  path : String
  /-- `__name__` -/
  name : String
  params : List IParam
  abstract : Bool

inductive Import where
  | cls (path : String)
  /-- a function, its canonical path, the class its return annotation names, its own parameters -/
  | func (path ret : String) (params : List IParam)
  | other

structure ClassEnv where
  classes : List ClassDef
  /-- (subclass, direct base) -/
  edges : List (String × String)
  /-- every importable dotted path; a path that is absent does not import -/
  imports : List (String × Import)

inductive Err where
  | fuel
  | notSpec            -- "Not a valid subclass of … Subclass types expect one of"
  | importFail         -- ImportError / AttributeError / "Expected a dot import path string"
  | notSubclass        -- "does not correspond to a subclass of"
  | ambiguous          -- "Multiple subclasses with name"
  | unknownKey         -- "Key … is not expected"
  | illTyped           -- "Expected a <class …>"
  | missingRequired    -- "Key … is required but not included"
  | notList            -- "Expected a <class 'list'>"
  | notDict            -- "Expected a <class 'dict'>"
deriving DecidableEq, Repr

/-! ### association lists -/

def getKV (k : String) : KV → Option Val
  | [] => none
  | (k', v) :: r => if k' = k then some v else getKV k r

/-- `ns[k] = v`: replace in place, else append -/
def setKV (k : String) (v : Val) : KV → KV
  | [] => [(k, v)]
  | (k', v') :: r => if k' = k then (k', v) :: r else (k', v') :: setKV k v r

def hasKey (k : String) (kv : KV) : Bool := kv.any (fun e => e.1 == k)

/-! ### the class environment -/

def lookupClass (E : ClassEnv) (path : String) : Option ClassDef := E.classes.find? (fun c => c.path == path)

def importOf (E : ClassEnv) (path : String) : Option Import :=
  match E.imports.find? (fun e => e.1 == path) with
  | some e => some e.2
  | none => none

def supers (E : ClassEnv) (a : String) : List String := (E.edges.filter (fun e => e.1 == a)).map (·.2)

def isSubFuel (E : ClassEnv) : Nat → String → String → Bool
  | 0, a, b => a == b
  | n + 1, a, b => a == b || (supers E a).any (fun s => isSubFuel E n s b)

/-- `issubclass(a, b)` -/
def isSubclass (E : ClassEnv) (a b : String) : Bool := isSubFuel E E.edges.length a b

def isAbstract (E : ClassEnv) (path : String) : Bool :=
  match lookupClass E path with
  | some c => c.abstract
  | none => false

def isDotted (s : String) : Bool := s.toList.contains '.'

/-- `resolve_class_path_by_name(cls, name)` -/
def resolveName (E : ClassEnv) (base name : String) : Except Err String :=
  if isDotted name then .ok name else
  match ((E.classes.filter (fun c => !c.abstract && c.name == name && isSubclass E c.path base)).map (·.path)).eraseDups with
  | [] => .ok name
  | [p] => .ok p
  | _ => .error .ambiguous

/-- the import, the subclass check, the normalised path and the parameters of the per-class parser -/
def checkImport (E : ClassEnv) (base path : String) : Except Err (String × List IParam) :=
  match importOf E path with
  | none => .error .importFail
  | some (.cls c) =>
    if isSubclass E c base then
      match lookupClass E c with
      | some d => .ok (c, d.params)
      | none => .error .importFail
    else .error .notSubclass
  | some (.func p ret params) => if isSubclass E ret base then .ok (p, params) else .error .notSubclass
  | some .other => .error .notSubclass

def findParam (params : List IParam) (k : String) : Option IParam := params.find? (fun p => p.name == k)

/-! ### `subclass_spec_as_namespace` -/

def isNone : Val → Bool
  | .lit "NoneType" _ => true
  | _ => false

/-- `(class_path, init_args, dict_kwargs)` of the value, the class_path completed from what is known so far -/
def asNamespace (prevCp : Option String) (raw : Val) : Except Err (String × KV × KV) :=
  let withPrev (ia dk : KV) : Except Err (String × KV × KV) :=
    match prevCp with
    | some cp => .ok (cp, ia, dk)
    | none => .error .notSpec
  match raw with
  | .lit "str" s => .ok (s, [], [])
  | .lit _ _ => .error .notSpec
  | .spec (some cp) ia dk => .ok (cp, ia, dk)
  | .spec none ia dk => withPrev ia dk
  | .bare kvs => withPrev kvs []
  | .nested [] _ => .error .notSpec
  | .nested ["dict_kwargs", k] v => withPrev [] [(k, v)]
  | .nested [k] v => withPrev [(k, v)] []
  | .nested (k :: rest) v => withPrev [(k, .nested rest v)] []
  | .lst _ => .error .notSpec
  | .dct _ => .error .notSpec

/-! ### one assignment -/

/-- the scalar conversions of the adapter that matter here (the adapter itself is the subject of C02): a literal of the
    declared type is taken as it is, an `int` given for a `float` parameter becomes a float; nothing else is accepted
    (strings that look like numbers are kept out of the model's domain) -/
def coerceScalar (t : String) : Val → Option Val
  | .lit t' tok =>
    if t' == t then some (.lit t' tok)
    else if t == "float" && t' == "int" then some (.lit "float" (tok ++ ".0"))
    else none
  | _ => none

/-! ### `List[Class]` and `Dict[str, Class]`: the List and Dict branches of `adapt_typehints` -/

/-- the previous value handed to each item of a list of `n` items: `prev_val[n]` only when the previous value is a list
    of the SAME length; otherwise the (deep-copied) kwargs keep the whole previous value, whatever it is -/
def listPrevs (prev : Option Val) (n : Nat) : List (Option Val) :=
  match prev with
  | some (.lst ps) => if ps.length = n then ps.map some else List.replicate n (some (.lst ps))
  | other => List.replicate n other

/-- `for n, v in enumerate(val): val[n] = adapt_typehints(v, subtypehints[0], prev_val=...)` -/
def adaptItems (rec : String → Option Val → Val → Except Err Val) (b : String) :
    List (Option Val) → List Val → Except Err (List Val)
  | _, [] => .ok []
  | ps, v :: vs =>
    match rec b (ps.head?.getD none) v with
    | .error e => .error e
    | .ok y =>
      match adaptItems rec b ps.tail vs with
      | .error e => .error e
      | .ok ys => .ok (y :: ys)

def prevList : Option Val → List Val
  | some (.lst ps) => ps
  | _ => []

/-- the List branch without `+`: a list is taken item by item; a `NestedArg` (dotted sub-option) addresses the LAST item
    of the previous list: `val = prev_val[:-1] + [val]` -/
def adaptListWith (rec : String → Option Val → Val → Except Err Val) (b : String) (prev : Option Val) (raw : Val) :
    Except Err Val :=
  let items : Option (List Val) := match raw with
    | .lst xs => some xs
    | .nested key v => some ((prevList prev).dropLast ++ [.nested key v])
    | _ => none
  match items with
  | none => .error .notList
  | some xs =>
    match adaptItems rec b (listPrevs prev xs.length) xs with
    | .error e => .error e
    | .ok ys => .ok (.lst ys)

/-- the List branch with `+` (`--opt+=value`): the previous list (a previous non-list is adapted into a one-item list if
    that works, else dropped) followed by the new item(s); the old items keep themselves as previous value, the new
    ones have none -/
def adaptListAppendWith (rec : String → Option Val → Val → Except Err Val) (b : String) (prev : Option Val) (raw : Val) :
    Except Err Val :=
  let prevL : List Val := match prev with
    | none => []
    | some (.lst ps) => ps
    | some p => if (match p with | .lit "NoneType" _ => true | _ => false) then [] else
      (match rec b none p with
       | .ok y => [y]
       | .error _ => [])
  let added : List Val := match raw with
    | .lst xs => xs
    | v => [v]
  match adaptItems rec b (prevL.map some ++ List.replicate added.length none) (prevL ++ added) with
  | .error e => .error e
  | .ok ys => .ok (.lst ys)

/-- the previous value handed to key `k` of a dict: `kwargs = adapt_kwargs.copy()` for every key, then
    `if kwargs.get("prev_val"): kwargs["prev_val"] = prev_val.get(k) if isinstance(prev_val, dict) else None` -/
def dictPrev (prev : Option Val) (k : String) : Option Val :=
  match prev with
  | some (.dct []) => some (.dct [])        -- falsy: handed on as it is
  | some (.dct pkvs) => getKV k pkvs
  | _ => none

/-- `for k, v in val.items(): val[k] = adapt_typehints(v, subtypehints[1], prev_val=...)` -/
def adaptEntries (rec : String → Option Val → Val → Except Err Val) (b : String) (prev : Option Val) : KV → Except Err KV
  | [] => .ok []
  | (k, v) :: r =>
    match rec b (dictPrev prev k) v with
    | .error e => .error e
    | .ok y =>
      match adaptEntries rec b prev r with
      | .error e => .error e
      | .ok ys => .ok ((k, y) :: ys)

/-- `NestedArg.key` of `--opt.a.b.c=v` is the string `a.b.c` -/
def joinKey (key : List String) : String := String.intercalate "." key

/-- the Dict branch: a dict is taken key by key; a `NestedArg` sets ONE key — the whole dotted remainder is the key —
    keeping the other keys of the previous dict: `val = {**prev_val, val.key: val.val}` -/
def adaptDictWith (rec : String → Option Val → Val → Except Err Val) (b : String) (prev : Option Val) (raw : Val) :
    Except Err Val :=
  let items : Option KV := match raw with
    | .dct kvs => some kvs
    | .nested key v => some (match prev with
        | some (.dct pkvs) => setKV (joinKey key) v pkvs
        | _ => [(joinKey key, v)])
    | _ => none
  match items with
  | none => .error .notDict
  | some kvs =>
    match adaptEntries rec b prev kvs with
    | .error e => .error e
    | .ok ys => .ok (.dct ys)

/-- validation of one init arg against the parameter's type; `rec` adapts a class-typed value -/
def adaptValueWith (rec : String → Option Val → Val → Except Err Val) (ty : PTy) (prev : Option Val) (v : Val) :
    Except Err Val :=
  match ty with
  | .scalar t =>
    match coerceScalar t v with
    | some y => .ok y
    | none => .error .illTyped
  | .optScalar t =>
    if isNone v then .ok v else
    match coerceScalar t v with
    | some y => .ok y
    | none => .error .illTyped
  | .cls b => rec b prev v
  | .optCls b => if isNone v then .ok v else rec b prev v
  | .listOf b => adaptListWith rec b prev v
  | .dictOf b => adaptDictWith rec b prev v

def isOk {α : Type} : Except Err α → Bool
  | .ok _ => true
  | .error _ => false

/-- `discard_init_args_on_class_path_change`: keep what the new class has a parameter for and accepts.  A scalar that
    is kept is stored as the NEW class's type reads it (the merge that follows re-validates the carried namespace: an
    int kept for a float parameter is a float from then on); a kept class spec stays as it is. -/
def keepArgs (rec : String → Option Val → Val → Except Err Val) (params : List IParam) (prevIa : KV) : KV :=
  prevIa.filterMap (fun e =>
    match findParam params e.1 with
    | none => none
    | some p =>
      match adaptValueWith rec p.ty none e.2 with
      | .error _ => none
      | .ok y =>
        match p.ty with
        | .scalar _ => some (e.1, y)
        | .optScalar _ => some (e.1, y)
        | _ => some (e.1, e.2))

/-- the previous value of a parameter that has not been set so far: when the parameter's own default is a class spec (a
    `lazy_instance(Sub, …)` default; the environment holds it completed with the defaults of its class) the parse starts
    from that spec — a short form without class_path keeps the DEFAULT's class, not the declared type -/
def paramPrev (p : IParam) (acc : KV) : Option Val :=
  match getKV p.name acc with
  | some v => some v
  | none =>
    match p.dflt with
    | some (.spec (some cp) ia dk) => some (.spec (some cp) ia dk)
    | _ => none

/-- `parser.parse_object(init_args, cfg_base=prev_init_args)`: every key must be a parameter of THIS class -/
def mergeArgs (rec : String → Option Val → Val → Except Err Val) (params : List IParam) : KV → KV → Except Err KV
  | [], acc => .ok acc
  | (k, x) :: r, acc =>
    match findParam params k with
    | none => .error .unknownKey
    | some p =>
      match adaptValueWith rec p.ty (paramPrev p acc) x with
      | .error e => .error e
      | .ok y => mergeArgs rec params r (setKV k y acc)

def overlay : KV → KV → KV
  | [], acc => acc
  | (k, v) :: r, acc => overlay r (setKV k v acc)

/-- the stored parts of the previous value -/
def prevParts : Option Val → Option (String × KV × KV)
  | some (.spec (some cp) ia dk) => some (cp, ia, dk)
  | _ => none

/-- `if prev_val is None and not inspect.isabstract(typehint): prev_val = Namespace(class_path=get_import_path(typehint))`:
    the class_path known before the value is looked at -/
def prevCpOf (E : ClassEnv) (base : String) (prev : Option Val) : Option String :=
  match prevParts prev with
  | some (cp, _, _) => some cp
  | none =>
    -- a previous value that is neither None nor a spec (a whole list handed to an item, an empty dict) is not None:
    -- no implicit class_path, and nothing to complete a short form from
    let isNonePrev : Bool := match prev with
      | none => true
      | some v => isNone v
    if isNonePrev && !isAbstract E base then some base else none

/-- `adapt_class_type` (and the `cfg.update` that stores its result) once the class is known -/
def adaptClass (rec : String → Option Val → Val → Except Err Val) (pp : Option (String × KV × KV))
    (cp : String) (params : List IParam) (ia0 dk0 : KV) : Except Err Val :=
  -- discard_init_args_on_class_path_change
  let prevIa : KV := match pp with
    | some (pcp, pia, _) => if pcp != cp then keepArgs rec params pia else pia
    | none => []
  -- dict_kwargs that are real parameters become init_args
  let moved := dk0.filter (fun e => (findParam params e.1).isSome)
  let dk1 := dk0.filter (fun e => !(findParam params e.1).isSome)
  match mergeArgs rec params (ia0 ++ moved) prevIa with
  | .error e => .error e
  | .ok ia =>
    -- new dict_kwargs are merged over the previous ones of the same class; without new ones the stored
    -- dict_kwargs stay where they are (`cfg.update(val, dest)` only writes the keys `val` has)
    let dk : KV := match pp with
      | some (pcp, _, pdk) => if dk1.isEmpty then pdk else if pcp == cp then overlay dk1 pdk else dk1
      | none => dk1
    .ok (.spec (some cp) ia dk)

def adapt (E : ClassEnv) : Nat → String → Option Val → Val → Except Err Val
  | 0, _, _, _ => .error .fuel
  | fuel + 1, base, prev, raw =>
    match asNamespace (prevCpOf E base prev) raw with
    | .error e => .error e
    | .ok (cp0, ia0, dk0) =>
      match resolveName E base cp0 with
      | .error e => .error e
      | .ok path =>
        match checkImport E base path with
        | .error e => .error e
        | .ok (cp, params) => adaptClass (adapt E fuel) (prevParts prev) cp params ia0 dk0

/-! ### the end of the parse: defaults and required parameters of the named class -/

/-- the init_args of a parameter's own spec default (`lazy_instance(Sub, …)`, completed) -/
def defaultIa (p : IParam) : KV :=
  match p.dflt with
  | some (.spec (some _) ia _) => ia
  | _ => []

/-- what the spec default of the ENCLOSING parameter offers for a scalar parameter that has no value: used when the type
    accepts it (the default's init_args act as defaults of whatever class the nested value finally names) -/
def fallbackValue (fallback : KV) (p : IParam) : Option Val :=
  match getKV p.name fallback with
  | none => none
  | some v =>
    match p.ty with
    | .scalar t => coerceScalar t v
    | .optScalar t => if isNone v then some v else coerceScalar t v
    | _ => none

/-- one parameter after the other, in signature order: the stored value (class-typed ones completed by `rec`, which gets
    the init_args of the parameter's own spec default), else what the enclosing default offers, else the default, else the
    parse fails -/
def finalizeArgsWith (rec : KV → Val → Except Err Val) (fallback : KV) (ia : KV) : List IParam → Except Err KV
  | [] => .ok []
  | p :: ps =>
    let one : Except Err Val :=
      match getKV p.name ia with
      | some x =>
        (match p.ty with
         | .scalar t =>
           -- the final check adapts every stored value once more (a value kept across a class change is converted here)
           (match coerceScalar t x with
            | some y => .ok y
            | none => .error .illTyped)
         | .optScalar t =>
           if isNone x then .ok x else
           (match coerceScalar t x with
            | some y => .ok y
            | none => .error .illTyped)
         | _ => if isNone x then .ok x else rec (defaultIa p) x)
      | none =>
        (match fallbackValue fallback p with
         | some y => .ok y
         | none =>
           (match p.dflt with
            | some d => .ok d
            | none => .error .missingRequired))
    match one with
    | .error e => .error e
    | .ok y =>
      match finalizeArgsWith rec fallback ia ps with
      | .error e => .error e
      | .ok rest => .ok ((p.name, y) :: rest)

/-- the parameters of the per-class parser of a stored class_path -/
def paramsOf (E : ClassEnv) (cp : String) : List IParam :=
  match importOf E cp with
  | some (.cls c) => (match lookupClass E c with | some d => d.params | none => [])
  | some (.func _ _ ps) => ps
  | _ => []

def mapValsE (f : Val → Except Err Val) : List Val → Except Err (List Val)
  | [] => .ok []
  | v :: r =>
    match f v with
    | .error e => .error e
    | .ok y =>
      match mapValsE f r with
      | .error e => .error e
      | .ok ys => .ok (y :: ys)

def mapKVE (f : Val → Except Err Val) : KV → Except Err KV
  | [] => .ok []
  | (k, v) :: r =>
    match f v with
    | .error e => .error e
    | .ok y =>
      match mapKVE f r with
      | .error e => .error e
      | .ok ys => .ok ((k, y) :: ys)

def finalizeWith (E : ClassEnv) : Nat → KV → Val → Except Err Val
  | 0, _, _ => .error .fuel
  | fuel + 1, fallback, v =>
    match v with
    | .spec (some cp) ia dk =>
      match finalizeArgsWith (finalizeWith E fuel) fallback ia (paramsOf E cp) with
      | .error e => .error e
      | .ok ia' => .ok (.spec (some cp) ia' dk)
    | .lst xs =>
      match mapValsE (finalizeWith E fuel []) xs with
      | .error e => .error e
      | .ok ys => .ok (.lst ys)
    | .dct kvs =>
      match mapKVE (finalizeWith E fuel []) kvs with
      | .error e => .error e
      | .ok ys => .ok (.dct ys)
    | other => .ok other

/-- the end of the parse of an argument (no enclosing default) -/
def finalize (E : ClassEnv) (fuel : Nat) (v : Val) : Except Err Val := finalizeWith E fuel [] v

/-- the sources of one argument, in order -/
def adaptSeq (E : ClassEnv) (fuel : Nat) (base : String) : Option Val → List Val → Except Err (Option Val)
  | prev, [] => .ok prev
  | prev, raw :: r =>
    match adapt E fuel base prev raw with
    | .error e => .error e
    | .ok s => adaptSeq E fuel base (some s) r

def adaptAll (E : ClassEnv) (fuel : Nat) (base : String) (srcs : List Val) : Except Err (Option Val) :=
  match adaptSeq E fuel base none srcs with
  | .error e => .error e
  | .ok none => .ok none
  | .ok (some s) =>
    match finalize E fuel s with
    | .error e => .error e
    | .ok s' => .ok (some s')

/-- an argument with a `default=` spec: the default is adapted AND completed with the defaults of its class before the
    first source is looked at (the parse starts from the namespace of defaults), so values filled in from the default's
    class count as given when a later source changes the class -/
def adaptAllWithDefault (E : ClassEnv) (fuel : Nat) (base : String) (dflt : Option Val) (srcs : List Val) :
    Except Err (Option Val) :=
  match dflt with
  | none => adaptAll E fuel base srcs
  | some d =>
    match adaptAll E fuel base [d] with
    | .error e => .error e
    | .ok p0 =>
      match adaptSeq E fuel base p0 srcs with
      | .error e => .error e
      | .ok none => .ok none
      | .ok (some s) =>
        match finalize E fuel s with
        | .error e => .error e
        | .ok s' => .ok (some s')

/-! ### an argument of any of the modelled types (class, Optional class, list of class, dict of class) -/

/-- one source of an argument: the value and whether it came through `--opt+` -/
structure Src where
  raw : Val
  append : Bool := false

/-- `ActionTypeHint.__call__` → `_check_type` → `adapt_typehints` for the argument's own type -/
def adaptArg (E : ClassEnv) (fuel : Nat) (ty : PTy) (prev : Option Val) (s : Src) : Except Err Val :=
  match ty, s.append with
  | .listOf b, true => adaptListAppendWith (adapt E fuel) b prev s.raw
  | ty, _ => adaptValueWith (adapt E fuel) ty prev s.raw

def adaptArgSeq (E : ClassEnv) (fuel : Nat) (ty : PTy) : Option Val → List Src → Except Err (Option Val)
  | prev, [] => .ok prev
  | prev, s :: r =>
    match adaptArg E fuel ty prev s with
    | .error e => .error e
    | .ok v => adaptArgSeq E fuel ty (some v) r

def adaptArgAll (E : ClassEnv) (fuel : Nat) (ty : PTy) (srcs : List Src) : Except Err (Option Val) :=
  match adaptArgSeq E fuel ty none srcs with
  | .error e => .error e
  | .ok none => .ok none
  | .ok (some s) =>
    match finalize E fuel s with
    | .error e => .error e
    | .ok s' => .ok (some s')

/-! ### `instantiate_classes` -/

inductive Arg where
  | lit (ty tok : String)
  /-- the object built by the `idx`-th constructor call of the log -/
  | obj (idx : Nat)
  | raw
  /-- a list / a dict whose items are objects of the log (`none`: an item that is not a spec, passed as it is) -/
  | lst (items : List (Option Nat))
  | dct (items : List (String × Option Nat))
deriving DecidableEq, Repr

structure Ctor where
  /-- the class (or the function) that is called -/
  target : String
  args : List (String × Arg)
  /-- dict_kwargs are passed as they are -/
  kwargs : List (String × Arg)
deriving DecidableEq, Repr

def rawArg : Val → Arg
  | .lit ty tok => .lit ty tok
  | _ => .raw

/-- the log index of an instantiated item -/
def objIdx : Arg → Option Nat
  | .obj i => some i
  | _ => none

mutual
def inst : Val → List Ctor → List Ctor × Arg
  | .spec (some cp) ia dk, log =>
    let r := instArgs ia log
    (r.1 ++ [⟨cp, r.2, dk.map (fun e => (e.1, rawArg e.2))⟩], .obj r.1.length)
  | .lit ty tok, log => (log, .lit ty tok)
  | .spec none _ _, log => (log, .raw)
  | .bare _, log => (log, .raw)
  | .nested _ _, log => (log, .raw)
  | .lst xs, log =>
    let r := instList xs log
    (r.1, .lst r.2)
  | .dct kvs, log =>
    let r := instDict kvs log
    (r.1, .dct r.2)
def instArgs : KV → List Ctor → List Ctor × List (String × Arg)
  | [], log => (log, [])
  | (k, v) :: r, log =>
    let a := inst v log
    let b := instArgs r a.1
    (b.1, (k, a.2) :: b.2)
/-- the items of a list, in list order -/
def instList : List Val → List Ctor → List Ctor × List (Option Nat)
  | [], log => (log, [])
  | v :: r, log =>
    let a := inst v log
    let b := instList r a.1
    (b.1, objIdx a.2 :: b.2)
/-- the values of a dict, in dict order -/
def instDict : KV → List Ctor → List Ctor × List (String × Option Nat)
  | [], log => (log, [])
  | (k, v) :: r, log =>
    let a := inst v log
    let b := instDict r a.1
    (b.1, (k, objIdx a.2) :: b.2)
end

/-- the constructor calls of `instantiate_classes` on one stored value, in order -/
def instantiate (v : Val) : List Ctor := (inst v []).1

/-! ### class instantiators (`add_instantiator`, `_get_instantiators`, `ClassInstantiator.__call__`) -/

structure Instantiator where
  tag : String
  /-- the key `(class_type, subclasses)` -/
  cls : String
  subclasses : Bool
deriving DecidableEq, Repr

def sameKey (a b : Instantiator) : Bool := a.cls == b.cls && a.subclasses == b.subclasses

/-- `add_instantiator(fn, class_type, subclasses, prepend)`: an entry with the same key is replaced -/
def addInstantiator (reg : List Instantiator) (i : Instantiator) (prepend : Bool) : List Instantiator :=
  let rest := reg.filter (fun j => !sameKey j i)
  if prepend then i :: rest else rest ++ [i]

/-- `_get_instantiators`: the parser's OWN instantiators first, then those of the parent parser whose key it does not have,
    then those of the context whose key is not there yet -/
def getInstantiators (own parent ctx : List Instantiator) : List Instantiator :=
  let a := own ++ parent.filter (fun k => !(own.any (sameKey k)))
  a ++ ctx.filter (fun k => !(a.any (sameKey k)))

/-- `class_type is cls or (subclasses and is_subclass(class_type, cls))` -/
def instMatches (E : ClassEnv) (cls : String) (i : Instantiator) : Bool :=
  i.cls == cls || (i.subclasses && isSubclass E cls i.cls)

/-- `ClassInstantiator.__call__`: the first matching entry, else the default instantiator -/
def pickInstantiator (E : ClassEnv) (l : List Instantiator) (cls : String) : String :=
  match l.find? (instMatches E cls) with
  | some i => i.tag
  | none => "default"

/-! ### several class-typed options: the work-list walk of `ActionTypeHint.discard_init_args_on_class_path_change` -/

/-- `k.startswith(key + sep)` on the characters of two flat keys; `sep` is the string literal of the source -/
def isChildKey (sep key k : String) : Bool := (key.toList ++ sep.toList).isPrefixOf k.toList

/-- the walk over `keys = list(prev_cfg.keys(branches=True))`: a key that holds a class spec on BOTH sides (`both`) is
    handled — the module-level discard for that option, then, recursively, its init_args — and the keys below it are
    taken off the work list (`keys = keys[:num+1] + [k for k in keys[num+1:] if not k.startswith(key + sep)]`); every
    other key is skipped.  The result lists the handled keys in order.  The bound is the length of the work list. -/
def discardWalk (sep : String) (both : String → Bool) : Nat → List String → List String
  | 0, _ => []
  | _ + 1, [] => []
  | n + 1, key :: rest =>
    if both key then key :: discardWalk sep both n (rest.filter (fun k => !isChildKey sep key k))
    else discardWalk sep both n rest

/-! ### dataclass-like types (inside Optional / List / Dict / Union): the Dataclass-like branch of `adapt_typehints` -/

/-- the dict that is parsed as the FIELDS of the declared dataclass `decl` (= `get_import_path(typehint)`): a class spec
    counts as its init_args only when its class_path IS `decl`; any other dict is taken as the fields themselves — so a spec
    that names another class (whatever its simple name) fails on the keys `class_path` / `init_args`, which are no fields -/
def dataFieldsOf (decl : String) : Val → Option KV
  | .spec (some cp) ia _ => if cp == decl then some ia else none
  | .bare kvs => some kvs
  -- `NestedArg(key, val)` of `--opt.FIELD=val`: `parser.parse_args(["--FIELD=val"], namespace=prev_val)`
  | .nested [k] v => some [(k, v)]
  | _ => none

/-- one assignment to a dataclass-typed value: the fields are validated by the dataclass's own parser and merged over
    the previous field values; the stored value is the bare namespace of fields (no class_path) -/
def adaptData (fields : List IParam) (decl : String) (prev : KV) (v : Val) : Except Err Val :=
  match dataFieldsOf decl v with
  | none => .error .unknownKey
  | some kvs =>
    match mergeArgs (fun _ _ _ => .error .notSpec) fields kvs prev with
    | .error e => .error e
    | .ok r => .ok (.bare r)

/-- the Union branch for two member types: the first member that adapts the value without error wins -/
def adaptUnion2 (f g : Val → Except Err Val) (v : Val) : Except Err Val :=
  match f v with
  | .ok r => .ok r
  | .error _ => g v

/-! ### `Union[Dataclass, Class]` / `Union[Class, Dataclass]` over several sources, and the final check -/

/-- the field values the Dataclass-like branch starts from (`sub_add_kwargs["default"] = prev_val`): nothing, or the stored
    field namespace; a stored CLASS SPEC as previous value brings the keys `class_path` / `init_args` into the dataclass's
    parser, which has no such fields -/
def dataPrev : Option Val → Except Err KV
  | none => .ok []
  | some (.bare kv) => .ok kv
  | some (.lit "NoneType" _) => .ok []
  | some _ => .error .unknownKey

structure UnionTy where
  /-- the fields of the dataclass member -/
  fields : List IParam
  /-- `get_import_path` of the dataclass member -/
  decl : String
  /-- the class member -/
  b : String
  /-- the dataclass member is listed first -/
  dataFirst : Bool

def dataArm (U : UnionTy) (prev : Option Val) (v : Val) : Except Err Val :=
  match dataPrev prev with
  | .error e => .error e
  | .ok kv => adaptData U.fields U.decl kv v

/-- one assignment to the argument: the members in declared order, the first that adapts the value wins; both get the
    stored value as previous value -/
def unionAdapt (E : ClassEnv) (fuel : Nat) (U : UnionTy) (prev : Option Val) (v : Val) : Except Err Val :=
  if U.dataFirst then adaptUnion2 (dataArm U prev) (adapt E fuel U.b prev) v
  else adaptUnion2 (adapt E fuel U.b prev) (dataArm U prev) v

/-- `cfg.update(val, dest)`: a Namespace is merged key by key INTO the stored Namespace.  Class spec over class spec and
    fields over fields are what the members computed anyway; a class spec written over stored dataclass fields (or the
    reverse) leaves a hybrid `Namespace(<fields>, class_path=…, init_args=…)` that no member accepts at the final check -/
def unionStore (prev : Option Val) (new : Val) : Except Err Val :=
  match prev, new with
  | some (.bare _), .spec _ _ _ => .error .notSpec
  | some (.spec _ _ _), .bare _ => .error .notSpec
  | _, v => .ok v

def unionSeq (E : ClassEnv) (fuel : Nat) (U : UnionTy) : Option Val → List Val → Except Err (Option Val)
  | prev, [] => .ok prev
  | prev, v :: r =>
    match unionAdapt E fuel U prev v with
    | .error e => .error e
    | .ok s =>
      match unionStore prev s with
      | .error e => .error e
      | .ok s' => unionSeq E fuel U (some s') r

/-- the defaults of the dataclass for the fields that were not given -/
def finalizeFields (fields : List IParam) (kv : KV) : Except Err Val :=
  match finalizeArgsWith (fun _ _ => .error .notSpec) [] kv fields with
  | .error e => .error e
  | .ok kv' => .ok (.bare kv')

/-- the end of the parse: the stored value goes through the Union ONCE MORE, without previous value (the final check
    adapts every stored value again and keeps the result), then the defaults of whatever it now is are filled in -/
def unionFinal (E : ClassEnv) (fuel : Nat) (U : UnionTy) (s : Val) : Except Err Val :=
  match unionAdapt E fuel U none s with
  | .error e => .error e
  | .ok (.bare kv) => finalizeFields U.fields kv
  | .ok r => finalize E fuel r

def unionAll (E : ClassEnv) (fuel : Nat) (U : UnionTy) (srcs : List Val) : Except Err (Option Val) :=
  match unionSeq E fuel U none srcs with
  | .error e => .error e
  | .ok none => .ok none
  | .ok (some s) =>
    match unionFinal E fuel U s with
    | .error e => .error e
    | .ok r => .ok (some r)

/-- the class `instantiate_classes` constructs for a finally stored value: the named class of a spec; the declared
    dataclass for a field namespace -/
def builtClass (decl : String) : Val → Option String
  | .spec (some cp) _ _ => some cp
  | .bare _ => some decl
  | _ => none

/-- an argument typed with the dataclass alone (`Optional[D]`; an item of `List[D]` / `Dict[str, D]`): `optional` admits None -/
def dataSeq (fields : List IParam) (decl : String) (optional : Bool) : Option Val → List Val → Except Err (Option Val)
  | prev, [] => .ok prev
  | prev, v :: r =>
    if isNone v then (if optional then dataSeq fields decl optional (some v) r else .error .illTyped) else
    match dataPrev prev with
    | .error e => .error e
    | .ok kv =>
      match adaptData fields decl kv v with
      | .error e => .error e
      | .ok s => dataSeq fields decl optional (some s) r

def dataAll (fields : List IParam) (decl : String) (optional : Bool) (srcs : List Val) : Except Err (Option Val) :=
  match dataSeq fields decl optional none srcs with
  | .error e => .error e
  | .ok (some (.bare kv)) =>
    (match finalizeFields fields kv with
     | .error e => .error e
     | .ok r => .ok (some r))
  | .ok other => .ok other

/-! ### containers of classes at any depth: `List[Dict[str, Optional[Base]]]`, … -/

inductive CTy where
  | cls (b : String)
  | opt (t : CTy)
  | list (t : CTy)
  | dict (t : CTy)

/-- `adapt_typehints` by recursion over the type: the List / Dict branches hand every item / entry to the element type,
    Optional tries None first -/
def adaptC (E : ClassEnv) (fuel : Nat) : CTy → Option Val → Val → Except Err Val
  | .cls b, prev, v => adapt E fuel b prev v
  | .opt t, prev, v => if isNone v then .ok v else adaptC E fuel t prev v
  | .list t, prev, v => adaptListWith (fun _ p x => adaptC E fuel t p x) "" prev v
  | .dict t, prev, v => adaptDictWith (fun _ p x => adaptC E fuel t p x) "" prev v

/-- how many List / Dict levels lie above the class (Optional does not count) -/
def containerDepth : CTy → Nat
  | .cls _ => 0
  | .opt t => containerDepth t
  | .list t => containerDepth t + 1
  | .dict t => containerDepth t + 1

/-- the end of the parse: required parameters are checked at EVERY depth; the defaults of the named classes are written
    into the stored configuration only for specs under at most one List / Dict level (deeper ones keep the given
    init_args; the constructor's own defaults apply when the object is built) -/
def adaptCAll (E : ClassEnv) (fuel : Nat) (t : CTy) (v : Val) : Except Err Val :=
  match adaptC E fuel t none v with
  | .error e => .error e
  | .ok s =>
    match finalize E fuel s with
    | .error e => .error e
    | .ok s' => if containerDepth t ≤ 1 then .ok s' else .ok s

/-! ### short forms -/

/-- the explicit dict `{class_path, init_args, dict_kwargs}` that a value stands for, given the class known so far -/
def shortToExplicit (E : ClassEnv) (base : String) (prev : Option Val) (raw : Val) : Except Err Val :=
  match asNamespace (prevCpOf E base prev) raw with
  | .error e => .error e
  | .ok (cp0, ia0, dk0) =>
    match resolveName E base cp0 with
    | .error e => .error e
    | .ok path => .ok (.spec (some path) ia0 dk0)

end Jap.ClassPath

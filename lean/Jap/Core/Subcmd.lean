/-
Engine "Subcmd" — model of the subcommand selection of jsonargparse (C17).

Transcribed from `/repo/jsonargparse/_actions.py` (`_ActionSubCommands.get_subcommands`,
`get_subcommand`, `handle_subcommands`, `__call__`) and `/repo/jsonargparse/_core.py`
(`_parse_common`, `merge_config`, the `check_required` part of `validate`) and
`_link_arguments.py` (`ActionLink.apply_parsing_links`, whose first statement is a
`get_subcommand` call that removes left-over sections), as the code is NOW (after the
`fix:` commits f6d3709, 124a9c5, 96e4fb9, adfb1a7, 456b357, a5d1a53, 00c879c and a6b5b04).

Configuration objects (`Namespace`) are finite trees `Cfg`; the dotted-key addressing with a
`prefix` that the code uses is modelled by recursion on the sub-tree (C11 is the property that
justifies this reading of dotted keys).  The key path is still threaded (`pre`) because it is
part of the error messages that the correspondence compares.

What a sub-parser contributes when it is selected (`subparser.parse_env(...)` resp.
`subparser.get_defaults(...)`) enters through the parameter `lay`; the theorems hold for every
`lay`.  The instance `layFuel` builds it from the sub-parser's own defaults and environment
(`_parse_defaults_and_environ`: `merge_config(cfg_env, cfg_defaults)`) by running the same
`handle`/`sweep` on the sub-parser, as `parse_env(_skip_validation=True)` does.

Outside the model (inputs of it): what `get_defaults` and `_load_env_vars` of each parser return
(`Info.dflt`, `Info.envc`: default config files and the `parent_parsers` context that decides which
files apply, the environment-variable names), argparse's tokenisation of the command line, typed
option values.  An exception raised inside a sub-parser's `parse_env` propagates in the code; the
model's layer is a total function (such calls are counted as skipped by the correspondence).

Imports nothing beyond core Lean.  Every function is structurally recursive.
-/
namespace Jap.Subcmd

/-! ### configuration trees -/

inductive Val where
  | none                                  -- Python `None`
  | int (i : Int)                         -- an option value
  | str (s : String)                      -- a string (subcommand names)
  | sec (kvs : List (String × Val))       -- a nested `Namespace`
deriving Repr, Inhabited

abbrev Cfg := List (String × Val)

def lookup (k : String) : Cfg → Option Val
  | [] => .none
  | (k', v) :: r => if k' = k then some v else lookup k r

/-- attribute assignment: replace in place, else append -/
def insert (k : String) (v : Val) : Cfg → Cfg
  | [] => [(k, v)]
  | (k', v') :: r => if k' = k then (k, v) :: r else (k', v') :: insert k v r

/-- `del cfg[k]` -/
def erase (k : String) : Cfg → Cfg
  | [] => []
  | (k', v') :: r => if k' = k then erase k r else (k', v') :: erase k r

def eraseAll : List String → Cfg → Cfg
  | [], c => c
  | k :: ks, c => eraseAll ks (erase k c)

def Val.isSec : Val → Bool
  | .sec _ => true
  | _ => false

/-- `isinstance(cfg.get(k), Namespace)` -/
def isSecAt (k : String) (c : Cfg) : Bool :=
  match lookup k c with
  | some v => v.isSec
  | .none => false

/-- Python truthiness (`Namespace.__bool__` is "has attributes") -/
def Val.truthy : Val → Bool
  | .none => false
  | .int i => i != 0
  | .str s => s != ""
  | .sec kvs => !kvs.isEmpty

/-- the namespace held under a key, the empty namespace for anything else -/
def secOf : Option Val → Cfg
  | some (.sec kvs) => kvs
  | _ => []

/-! ### `merge_config(cfg_from, cfg_to)` = `cfg_to.update(cfg_from)`: every LEAF of `cfg_from` is assigned -/

mutual
def Val.hasLeaf : Val → Bool
  | .sec kvs => hasLeafL kvs
  | _ => true
def hasLeafL : List (String × Val) → Bool
  | [] => false
  | (_, v) :: r => v.hasLeaf || hasLeafL r
end

/-! `merge frm to`: the values of `frm` win; a namespace without leaves contributes nothing;
    assigning below a key that does not hold a namespace replaces it (`_create_nested_namespace`) -/
mutual
def merge : List (String × Val) → Cfg → Cfg
  | [], to => to
  | (k, v) :: r, to => merge r (mergeV k v to)
def mergeV (k : String) : Val → Cfg → Cfg
  | .sec s, to => if hasLeafL s then insert k (.sec (merge s (secOf (lookup k to)))) to else to
  | .none, to => insert k .none to
  | .int i, to => insert k (.int i) to
  | .str x, to => insert k (.str x) to
end

/-! ### parser trees -/

/-- what the model knows about one parser besides its subcommands.  `dflt`/`envc` are the OPAQUE form (whatever
    `get_defaults` / `_load_env_vars` return, used by `layFuel` and `baseOf`); the other fields are the CONCRETE form from
    which `getDefaultsC` / `loadEnvC` / `layerC` below compute those namespaces -/
structure Info where
  /-- `get_defaults(skip_validation=True)` of this parser: option defaults, default config files -/
  dflt : Cfg
  /-- `_load_env_vars(...)` of this parser: what the environment gives (empty unless `default_env`) -/
  envc : Cfg
  /-- subcommand names from the root to this parser -/
  path : List String := []
  /-- the defaults of the actions (`action.default` of every action with a dest): options, the config argument
      (`None`), the subcommand key (`None`) -/
  opts : Cfg := []
  /-- dests of the plain option actions (neither the config argument nor the subcommand key), in `_actions` order -/
  options : List String := []
  /-- dest of the `ActionConfigFile` argument, if there is one -/
  cfgKey : Option String := .none
  /-- contents of this parser's existing default config files, in the order `_get_default_config_files` lists them -/
  dcfs : List Cfg := []
  /-- the same for the PARENT parser (what `parent_parsers_context(key, parser)` makes visible to this parser) -/
  pdcfs : List Cfg := []
deriving Repr, Inhabited

def Info.basic (d e : Cfg) : Info := { dflt := d, envc := e }

/-- `add_subcommands(required, dest)` -/
structure SubHdr where
  dest : String
  required : Bool
deriving Repr, Inhabited

inductive P where
  | node (info : Info) (sub : Option SubHdr) (choices : List (String × P))
deriving Inhabited

def P.info : P → Info
  | .node i _ _ => i
def P.sub : P → Option SubHdr
  | .node _ s _ => s
def P.choices : P → List (String × P)
  | .node _ _ c => c

def names (choices : List (String × P)) : List String := choices.map (·.1)

/-- which namespace `handle_subcommands` merges under the selected section:
    none (`env=False, defaults=False`), `get_defaults` (`defaults`), `parse_env` (`env`) -/
inductive Mode where
  | none | dflt | env
deriving DecidableEq, Repr, Inhabited

structure Flags where
  /-- `fail_no_subcommand` -/
  fail : Bool
  /-- the context variable `single_subcommand` (False inside `ActionConfigFile.apply_config`) -/
  single : Bool
  mode : Mode
deriving Repr, Inhabited

inductive Err where
  /-- `NSKeyError('expected "<key>" to be one of {...}, but it was not provided.')` -/
  | nosub (key : List String)
  /-- `TypeError('Key "<key>" is required but not included in config object or its value is None.')` -/
  | reqkey (key : List String)
  /-- `NSKeyError('expected "<key>" to be one of {...}, but got: <value>.')` (fix 96e4fb9): an explicit value that is not a
      subcommand name -/
  | badname (key : List String)
  /-- `TypeError('Expected the settings of subcommand "<key>" to be a mapping, but got: ...')` (fix adfb1a7) -/
  | badsec (key : List String)
  /-- an exception that is not an argument error (`AttributeError` on a `None` sub-parser / a non-namespace section) -/
  | crash
deriving DecidableEq, Repr, Inhabited

/-! ### `get_subcommands` -/

structure GetRes where
  cfg : Cfg
  /-- the code's local `subcommand` (`none` = Python `None`) -/
  sub : Option Val
  /-- the returned `subcommand_keys` (`[]` also stands for the `None, None` return) -/
  todo : List Val
  /-- the "Multiple subcommand settings provided" warning was issued -/
  warn : Bool
deriving Inhabited

/-- `dest in cfg and cfg.get(dest) is not None` -/
def explicitOf : Option Val → Option Val
  | some .none => .none
  | some v => some v
  | .none => .none

def isStr (k : String) : Option Val → Bool
  | some (.str s) => s == k
  | _ => false

def validName (ns : List String) : Val → Bool
  | .str s => ns.contains s
  | _ => false

def validNameO (ns : List String) : Option Val → Bool
  | some v => validName ns v
  | .none => false

def truthyO : Option Val → Bool
  | some v => v.truthy
  | .none => false

/-- `subcommand_keys = [k for k in action.choices.keys() if isinstance(cfg.get(prefix + k), Namespace)]` -/
def subKeys (ns : List String) (cfg : Cfg) : List String := ns.filter (fun k => isSecAt k cfg)

/-- the body of `get_subcommands` up to the `if fail_no_subcommand:` block -/
def getSubCore (h : SubHdr) (ns : List String) (fl : Flags) (cfg : Cfg) : GetRes :=
  let keys := subKeys ns cfg
  let expl := explicitOf (lookup h.dest cfg)
  -- elif len(subcommand_keys) > 0 and (fail_no_subcommand or require_single): cfg[dest] = subcommand = subcommand_keys[0]
  let pick := expl.isNone && !keys.isEmpty && (fl.fail || fl.single)
  let sub : Option Val := if pick then keys.head?.map Val.str else expl
  let cfg1 := if pick then insert h.dest (.str (keys.headD "")) cfg else cfg
  let warn := pick && decide (keys.length > 1)
  -- if subcommand and len(subcommand_keys) > 1: delete the other sections
  let cfg2 := if truthyO sub && decide (keys.length > 1) then eraseAll (keys.filter (fun k => !isStr k sub)) cfg1 else cfg1
  -- if subcommand: subcommand_keys = [subcommand]
  let todo : List Val := if truthyO sub then sub.toList else keys.map Val.str
  ⟨cfg2, sub, todo, warn⟩

def getSub (h : SubHdr) (ns : List String) (fl : Flags) (pre : List String) (cfg : Cfg) : Except Err GetRes :=
  let r := getSubCore h ns fl cfg
  -- if subcommand is not None and subcommand not in action._name_parser_map: raise (fix 96e4fb9; since fix 456b357 BEFORE and
  -- outside `if fail_no_subcommand:`: also for a `--cfg` document or a default config file loaded on its own)
  if r.sub.isSome && !validNameO ns r.sub then .error (.badname (pre ++ [h.dest]))
  else if fl.fail then
    if r.sub.isNone && !h.required then .ok ⟨r.cfg, .none, [], r.warn⟩
    else if h.required && !validNameO ns r.sub then .error (.nosub (pre ++ [h.dest]))
    else .ok r
  else .ok r

def findP (n : String) : List (String × P) → Option P
  | [] => .none
  | (m, q) :: r => if m = n then some q else findP n r

def nameOf : Val → Option String
  | .str s => some s
  | _ => .none

/-! ### `handle_subcommands` -/

/-- `cfg[key] = subparser.merge_config(cfg.get(key) or Namespace(), subnamespace)`; a truthy value that is not a
    namespace has no `clone` (`AttributeError`) -/
def mergeLayer (mode : Mode) (layer : Cfg) (n : String) (cfg : Cfg) : Except Err Cfg :=
  match mode with
  | .none => .ok cfg
  | _ =>
    match lookup n cfg with
    | some (.sec kvs) => .ok (insert n (.sec (merge kvs layer)) cfg)
    | some v => if v.truthy then .error .crash else .ok (insert n (.sec (merge [] layer)) cfg)
    | .none => .ok (insert n (.sec (merge [] layer)) cfg)

/-- `if cfg.get(key) is not None: _check_subcommand_settings(key, cfg.get(key))` (fix adfb1a7) -/
def checkSettings (key : List String) : Option Val → Except Err Unit
  | some (.sec _) => .ok ()
  | some .none => .ok ()
  | .none => .ok ()
  | some _ => .error (.badsec key)

/-- store the section processed by the inner call (the inner call works in place on the same object) -/
def writeBack (n : String) (inner : Cfg) (cfg : Cfg) : Cfg :=
  if isSecAt n cfg then insert n (.sec inner) cfg else cfg

mutual
def handle (lay : Mode → P → Cfg) (fl : Flags) (pre : List String) : P → Cfg → Except Err Cfg
  | .node _ .none _, cfg => .ok cfg
  | .node _ (some h) choices, cfg =>
    match getSub h (names choices) fl pre cfg with
    | .error e => .error e
    | .ok r =>
      -- `action._name_parser_map.get(s)` is None for anything that is not a subcommand name
      if r.todo.any (fun v => !validName (names choices) v) then .error .crash
      else handleEach lay fl pre choices (r.todo.filterMap nameOf) r.cfg
def handleEach (lay : Mode → P → Cfg) (fl : Flags) (pre : List String) :
    List (String × P) → List String → Cfg → Except Err Cfg
  | [], _, cfg => .ok cfg
  | (n, q) :: rest, todo, cfg =>
    if todo.contains n then
      match checkSettings (pre ++ [n]) (lookup n cfg) with
      | .error e => .error e
      | .ok _ =>
        match mergeLayer fl.mode (lay fl.mode q) n cfg with
        | .error e => .error e
        | .ok cfg1 =>
          match handle lay fl (pre ++ [n]) q (secOf (lookup n cfg1)) with
          | .error e => .error e
          | .ok inner => handleEach lay fl pre rest todo (writeBack n inner cfg1)
    else handleEach lay fl pre rest todo cfg
end

/-! ### `ActionLink.apply_parsing_links`: `get_subcommand(parser, cfg, fail_no_subcommand=False)`, recursion into
the selected section (this is the call that removes a single left-over section) -/

mutual
def sweep (single : Bool) : P → Cfg → Except Err Cfg
  | .node _ .none _, cfg => .ok cfg
  | .node _ (some h) choices, cfg =>
    match getSub h (names choices) ⟨false, single, .none⟩ [] cfg with
    | .error e => .error e
    | .ok r =>
      match r.todo.head? with
      | .none => .ok r.cfg
      | some v =>
        -- if subcommand and subcommand in cfg: apply_parsing_links(subparser, cfg[subcommand])
        match v with
        | .str n =>
          if v.truthy && (lookup n r.cfg).isSome then
            if (names choices).contains n then sweepIn single choices n r.cfg else .error .crash
          else .ok r.cfg
        | _ => .ok r.cfg
def sweepIn (single : Bool) : List (String × P) → String → Cfg → Except Err Cfg
  | [], _, cfg => .ok cfg
  | (m, q) :: rest, n, cfg =>
    if m = n then
      match lookup n cfg with
      | some (.sec kvs) =>
        match sweep single q kvs with
        | .error e => .error e
        | .ok inner => .ok (insert n (.sec inner) cfg)
      | _ => if q.sub.isNone then .ok cfg else .error .crash
    else sweepIn single rest n cfg
end

/-! ### `validate` → `check_required` (works on a clone: it can only fail) -/

def isNoneO : Option Val → Bool
  | some .none => true
  | .none => true
  | _ => false

mutual
def checkReq (single : Bool) (pre : List String) : P → Cfg → Except Err Unit
  | .node _ .none _, _ => .ok ()
  | .node _ (some h) choices, cfg =>
    if h.required && isNoneO (lookup h.dest cfg) then .error (.reqkey (pre ++ [h.dest]))
    else
      match getSub h (names choices) ⟨false, single, .none⟩ [] cfg with
      | .error e => .error e
      | .ok r =>
        match r.todo.head? with
        | some (.str n) => checkReqIn single pre choices n r.cfg
        | _ => .ok ()
def checkReqIn (single : Bool) (pre : List String) : List (String × P) → String → Cfg → Except Err Unit
  | [], _, _ => .ok ()
  | (m, q) :: rest, n, cfg =>
    if m = n then
      match lookup n cfg with
      | some (.sec kvs) => checkReq single (pre ++ [n]) q kvs
      | _ => match q.sub with
        | .none => .ok ()
        | some h => if h.required then .error (.reqkey (pre ++ [n, h.dest])) else .error .crash
    else checkReqIn single pre rest n cfg
end

/-! ### `_parse_common` (the part that concerns subcommands) -/

/-- `links`: `apply_parsing_links` runs (it does not inside `ActionConfigFile.apply_config`);
    `validate`: `not skip_validation` -/
def parseCommon (lay : Mode → P → Cfg) (fl : Flags) (links validate : Bool) (p : P) (cfg : Cfg) : Except Err Cfg :=
  match handle lay fl [] p cfg with
  | .error e => .error e
  | .ok c1 =>
    match (if links then sweep fl.single p c1 else .ok c1) with
    | .error e => .error e
    | .ok c2 =>
      if validate then
        match checkReq fl.single [] p c2 with
        | .error e => .error e
        | .ok _ => .ok c2
      else .ok c2

/-! ### the layer of a sub-parser, built from its own defaults and environment

`subparser.get_defaults(skip_validation=True)` is `info.dflt`;
`subparser.parse_env(defaults=True, _skip_validation=True)` is
`_parse_common(merge_config(cfg_env, cfg_defaults), env=True, fail_no_subcommand=False, skip_validation)`,
i.e. the same `handle` and `sweep` run on the sub-parser.  The recursion goes down the parser tree;
`fuel` is a structural bound (any value ≥ the depth of the tree gives the same result). -/

def layFuel : Nat → Bool → Mode → P → Cfg
  | _, _, .none, _ => []
  | _, _, .dflt, q => q.info.dflt
  | 0, _, .env, q => merge q.info.envc q.info.dflt
  | fuel + 1, single, .env, q =>
    match parseCommon (layFuel fuel single) ⟨false, single, .env⟩ true false q (merge q.info.envc q.info.dflt) with
    | .ok c => c
    | .error _ => merge q.info.envc q.info.dflt

/-! ### sources that are loaded on their own before they are merged -/

/-- what `ActionConfigFile.apply_config` (`--cfg`, also the config environment variable) does with the loaded
    tree before merging it over the current configuration: `parse_string/parse_path(env=False, defaults=False,
    _skip_validation=True, _fail_no_subcommand=False)` under `not_single_subcommand()` and `skip_apply_links()` -/
def loadCfgArg (p : P) (tree : Cfg) : Except Err Cfg :=
  parseCommon (fun _ _ => []) ⟨false, false, .none⟩ false false p tree

/-- `cfg, cfg_file ↦ merge_config(cfg_file, cfg)` after `loadCfgArg` -/
def applyCfgArg (p : P) (tree cfg : Cfg) : Except Err Cfg :=
  match loadCfgArg p tree with
  | .error e => .error e
  | .ok t => .ok (merge t cfg)

/-- one default config file in `get_defaults`: `merge_config(cfg_file, cfg)` then
    `_parse_common(env=False, defaults=False, skip_validation, skip_required, fail_no_subcommand=False)` -/
def applyDefaultCfg (single : Bool) (p : P) (tree cfg : Cfg) : Except Err Cfg :=
  parseCommon (fun _ _ => []) ⟨false, single, .none⟩ true false p (merge tree cfg)

/-! ### the argv path: `_ActionSubCommands.__call__`

`namespace[dest] = name; namespace[name] = subparser.parse_args(rest, namespace=<checked clone of namespace.get(name), if not None>,
_skip_validation=True, env, defaults)`.  Options and config arguments of the sub-parser's command line are option
parsing (argparse), not selection: they are folded into `given` by the caller in command-line order
(`items` below); what is modelled here is the selection skeleton of the command line: which
subcommand name was written at each level. -/

inductive Argv where
  /-- the command line of this parser: the values it assigns (in order: `false` = an option, `true` = a config
      argument whose tree is loaded on its own first), then possibly a subcommand name and that sub-parser's command line -/
  | mk (items : List (Bool × Cfg)) (sub : Option (String × Argv))
deriving Inhabited

def applyItems (p : P) : List (Bool × Cfg) → Cfg → Except Err Cfg
  | [], cfg => .ok cfg
  | (false, t) :: r, cfg => applyItems p r (merge t cfg)
  | (true, t) :: r, cfg =>
    match applyCfgArg p t cfg with
    | .error e => .error e
    | .ok c => applyItems p r c

/-- `_parse_defaults_and_environ` of a parser -/
def baseOf (mode : Mode) (p : P) : Cfg :=
  match mode with
  | .none => []
  | .dflt => p.info.dflt
  | .env => merge p.info.envc p.info.dflt

mutual
/-- `parser.parse_args(argv, namespace=ns, _skip_validation=skipVal)`: defaults and environment, the namespace
    handed in on top, the command line on top of that, then `_parse_common` (with `fail_no_subcommand=True`) -/
def parseArgs (lay : Mode → P → Cfg) (single : Bool) (mode : Mode) (validate : Bool) :
    P → Argv → Cfg → Except Err Cfg
  | .node info sub choices, .mk items asub, ns =>
    match applyItems (.node info sub choices) items (merge ns (baseOf mode (.node info sub choices))) with
    | .error e => .error e
    | .ok c0 =>
      match (match asub, sub with
             | some (n, rest), some h => argvCall lay single mode h choices n rest c0
             | _, _ => .ok c0) with
      | .error e => .error e
      | .ok c1 => parseCommon lay ⟨true, single, mode⟩ true validate (.node info sub choices) c1
/-- the subcommand action: argparse has checked that `n` is a choice -/
def argvCall (lay : Mode → P → Cfg) (single : Bool) (mode : Mode) (h : SubHdr) :
    List (String × P) → String → Argv → Cfg → Except Err Cfg
  | [], _, _, cfg => .ok cfg
  | (m, q) :: rest, n, av, cfg =>
    if m = n then
      let cfg1 := insert h.dest (.str n) cfg
      match lookup n cfg1 with
      | some (.sec kvs) =>
        match parseArgs lay single mode false q av kvs with
        | .error e => .error e
        | .ok s => .ok (insert n (.sec s) cfg1)
      | some .none =>                -- `subnamespace = None`
        match parseArgs lay single mode false q av [] with
        | .error e => .error e
        | .ok s => .ok (insert n (.sec s) cfg1)
      | some _ => .error (.badsec [n])     -- `_check_subcommand_settings(subcommand, subnamespace)` (fix adfb1a7)
      | .none =>
        match parseArgs lay single mode false q av [] with
        | .error e => .error e
        | .ok s => .ok (insert n (.sec s) cfg1)
    else argvCall lay single mode h rest n av cfg
end

/-! ### environment variable names

`get_env_var` (`_formatters.py`): `parser.env_prefix.replace("-", "_") + "_" + action.dest`, then `.replace(".", "__").upper()`.
`add_subcommands`: `subcommands.env_prefix = get_env_var(self)`; `add_subcommand`: `parser.env_prefix = f"{self.env_prefix}{name}_"`.
Strings are lists of code points here; `upN` is `str.upper` on ASCII (names outside ASCII are outside the model). -/

def upN (n : Nat) : Nat := if 97 ≤ n ∧ n ≤ 122 then n - 32 else n
def dashN (n : Nat) : Nat := if n = 45 then 95 else n
def dotsN (n : Nat) : List Nat := if n = 46 then [95, 95] else [n]
def up (s : List Nat) : List Nat := s.map upN
def dash (s : List Nat) : List Nat := s.map dashN
def dots (s : List Nat) : List Nat := s.flatMap dotsN

def codes (s : String) : List Nat := s.toList.map Char.toNat

/-- `get_env_var(parser, action)` for a parser whose `env_prefix` is `envPrefix` (`dest = []`: `get_env_var(parser)`) -/
def getEnvVar (envPrefix dest : List Nat) : List Nat := up (dots (dash envPrefix ++ [95] ++ dest))

/-- `env_prefix` of the sub-parser `name` of a parser whose `env_prefix` is `parentPrefix` -/
def subPrefix (parentPrefix name : List Nat) : List Nat := getEnvVar parentPrefix [] ++ name ++ [95]

/-- `env_prefix` of the parser reached from a parser with prefix `root` through the subcommands `path` -/
def prefixAt (root : List Nat) : List (List Nat) → List Nat
  | [] => root
  | n :: rest => prefixAt (subPrefix root n) rest

/-- the variable read for `dest` of the parser at `path` -/
def envVarAt (root : List Nat) (path : List (List Nat)) (dest : List Nat) : List Nat :=
  getEnvVar (prefixAt root path) dest

/-- the process environment as far as the parsers read it: typed values of option / subcommand-key variables, loaded
    trees of config variables; `root` is the root parser's `env_prefix` -/
structure Env where
  root : List Nat
  vals : List (List Nat × Val)
  cfgs : List (List Nat × Cfg)
deriving Inhabited

def lookupE {α : Type} (k : List Nat) : List (List Nat × α) → Option α
  | [] => .none
  | (k', v) :: r => if k' = k then some v else lookupE k r

/-! ### `get_defaults`, `_load_env_vars`, `parse_env` concretely -/

/-- the stack of `parent_parsers`: (key, default config files of that parser) -/
abbrev Ctx := List (String × List Cfg)

/-- `cfg_dict.get(key, {})` -/
def narrow (key : String) (t : Cfg) : Cfg := secOf (lookup key t)

def lastEntry (ctx : Ctx) : Ctx :=
  match ctx.getLast? with
  | some e => [e]
  | .none => []

/-- `_get_default_config_files`: the files of the LAST parser on the stack (`parent_parsers.get()[-1:]`, fix 00c879c: the
    immediate parent only) narrowed to its key, then the parser's own -/
def filesOf (ctx : Ctx) (own : List Cfg) : List Cfg :=
  (lastEntry ctx).flatMap (fun kf => kf.2.map (narrow kf.1)) ++ own

/-- `__default_config__`: the path of the first file, a list from the second on (tokens of the wire format) -/
def metaTok (c : Cfg) : Val :=
  match lookup "__default_config__" c with
  | .none => .str "§Path"
  | some _ => .str "§list"

/-- one round of the loop of `get_defaults` -/
def defaultsStep (single : Bool) (p : P) (cfg tree : Cfg) : Cfg :=
  match applyDefaultCfg single p tree cfg with
  | .ok c => insert "__default_config__" (metaTok c) c
  | .error _ => merge tree cfg     -- the code raises ("Problem in default config file"): outside the model

/-- `get_defaults(skip_validation=True)` under the `parent_parsers` stack `ctx` -/
def getDefaultsC (single : Bool) (ctx : Ctx) (p : P) : Cfg :=
  (filesOf ctx p.info.dcfs).foldl (defaultsStep single p) p.info.opts

/-- `for k, v in vars(pcfg).items(): cfg[subcommand + "." + k] = v` -/
def copyUnder (sub : String) (pcfg cfg : Cfg) : Cfg :=
  if pcfg.isEmpty then cfg
  else insert sub (.sec (pcfg.foldl (fun s kv => insert kv.1 kv.2 s) (secOf (lookup sub cfg)))) cfg

/-- `_load_env_vars`, first loop: the config variable through `apply_config` -/
def envCfgPart (E : Env) (q : P) : Cfg :=
  match q.info.cfgKey with
  | some ck => match lookupE (getEnvVar (prefixAt E.root (q.info.path.map codes)) (codes ck)) E.cfgs with
    | some tree => match loadCfgArg q tree with
      | .ok t => insert ck (.str "§list") (merge t [])
      | .error _ => []
    | .none => []
  | .none => []

/-- second loop: the subcommand variable selects (if it names a choice) and the `parse_env` of the named sub-parser (`penv`; since
    fix a5d1a53 the environment-only one, `layerEO`) is copied key by key -/
def envSubPart (E : Env) (penv : P → Cfg) (q : P) (c0 : Cfg) : Cfg :=
  match q.sub with
  | some h => match lookupE (getEnvVar (prefixAt E.root (q.info.path.map codes)) (codes h.dest)) E.vals with
    | some (.str v) =>
      match findP v q.choices with
      | some r => copyUnder v (penv r) (insert h.dest (.str v) c0)
      | .none => c0
    | _ => c0
  | .none => c0

/-- `cfg[action.dest] = <value of the variable>` if the variable of the option is set -/
def envOptStep (E : Env) (pre : List Nat) (c : Cfg) (o : String) : Cfg :=
  match lookupE (getEnvVar pre (codes o)) E.vals with
  | some v => insert o v c
  | .none => c

/-- third loop: the option variables -/
def envOptPart (E : Env) (q : P) (c1 : Cfg) : Cfg :=
  q.info.options.foldl (envOptStep E (prefixAt E.root (q.info.path.map codes))) c1

/-- `_load_env_vars` -/
def loadEnvC (E : Env) (penv : P → Cfg) (q : P) : Cfg :=
  envOptPart E q (envSubPart E penv q (envCfgPart E q))

/-- `parse_env(env=env, defaults=False, _skip_validation=True)` of a parser (fix a5d1a53: what the subcommand branch of
    `_load_env_vars` copies for the named sub-parser): ONLY what the environment gives — `_load_env_vars` merged over an empty
    namespace, then `_parse_common(env=True, defaults=False, fail_no_subcommand=False)`, whose `handle_subcommands` asks the
    sub-parsers for the same.  No `get_defaults` is involved, hence no `parent_parsers` stack -/
def layerEO (E : Env) : Nat → Bool → P → Cfg
  | 0, _, _ => []
  | fuel + 1, single, q =>
    let e := merge (loadEnvC E (layerEO E fuel single) q) []
    match parseCommon (fun _ r => layerEO E fuel single r) ⟨false, single, .env⟩ true false q e with
    | .ok c => c
    | .error _ => e

/-- the key under which `handle_subcommands` (started on `base` with an empty prefix) pushes the parser `r`: `prefix + name` -/
def relKey (base r : P) : String := ".".intercalate (r.info.path.drop base.info.path.length)

/-- `subparser.get_defaults(skip_validation=True)` resp. `subparser.parse_env(defaults=True, _skip_validation=True)` of
    the parser `q` under the stack `ctx`.  Inside `parse_env` the sub-parsers named by the environment contribute their
    environment-only `parse_env` (`layerEO`), the sub-parsers handled by `handle_subcommands` are asked under the stack extended by
    `(key, q's files)` (of which `filesOf` uses the last entry). -/
def layerC (E : Env) : Nat → Bool → Ctx → Mode → P → Cfg
  | _, _, _, .none, _ => []
  | _, single, ctx, .dflt, q => getDefaultsC single ctx q
  | 0, single, ctx, .env, q => getDefaultsC single ctx q
  | fuel + 1, single, ctx, .env, q =>
    let d := getDefaultsC single ctx q
    let e := loadEnvC E (layerEO E fuel single) q
    match parseCommon (fun m r => layerC E fuel single (ctx ++ [(relKey q r, r.info.pdcfs)]) m r)
        ⟨false, single, .env⟩ true false q (merge e d) with
    | .ok c => c
    | .error _ => merge e d

/-- the layer function of the final stage of a parse started on `base` (no ambient stack) -/
def layC (E : Env) (fuel : Nat) (single : Bool) (base : P) : Mode → P → Cfg :=
  fun m r => layerC E fuel single [(relKey base r, r.info.pdcfs)] m r

/-! ### the statements of the code that the definitions above transcribe

Text of the anchored statements as `ast.unparse` prints them.  `harness/extractors/subcmd_shape.py` regenerates the same
constants from /repo's working tree into `Jap.Gen.SubcmdShape` on every run; the tie theorems of `Props/C17.lean`
(`tie_*`) state that both agree, so an edit of any of these statements breaks a proof until the model is revisited. -/
namespace Shape
def keysExpr : String := "[k for k in action.choices.keys() if isinstance(cfg.get(prefix + k), Namespace)]"
def explicitTest : String := "dest in cfg and cfg.get(dest) is not None"
def pickTest : String := "len(subcommand_keys) > 0 and (fail_no_subcommand or require_single)"
def pickFromEnd : Bool := false
def pickOffset : Nat := 0
def removeTest : String := "subcommand and len(subcommand_keys) > 1"
def removeFilter : String := "[k for k in subcommand_keys if k != subcommand]"
def singleTest : String := "subcommand"
def failTests : List String := ["subcommand is None and (not (fail_no_subcommand and action._required))", "action._required and subcommand not in action._name_parser_map"]
/-- the unknown-name check stands BEFORE and outside `if fail_no_subcommand:` (fix 456b357): first test of `getSub` -/
def nameTest : String := "subcommand is not None and subcommand not in action._name_parser_map"
def returns : List String := ["(subcommand_keys, [action._name_parser_map.get(s) for s in subcommand_keys])", "(None, None)", "(None, None)"]
def layerCalls : List String := ["env: subnamespace = subparser.parse_env(defaults=defaults, _skip_validation=True)", "defaults: subnamespace = subparser.get_defaults(skip_validation=True)"]
def mergeCall : String := "subparser.merge_config(cfg.get(key) or Namespace(), subnamespace)"
def givenFirst : Bool := true
def recurseCall : String := "_ActionSubCommands.handle_subcommands(subparser, cfg, env, defaults, key + '.', fail_no_subcommand=fail_no_subcommand)"
def argvAction : List String := ["subcommand = values[0]", "arg_strings = values[1:]", "namespace[self.dest] = subcommand", "if subcommand in self._name_parser_map:\n    subparser = self._name_parser_map[subcommand]\n    subnamespace = namespace.get(subcommand) if subcommand in namespace else None\n    if subnamespace is not None:\n        _check_subcommand_settings(subcommand, subnamespace)\n        subnamespace = subnamespace.clone()\n    kwargs = dict(_skip_validation=True, **parse_kwargs.get())\n    namespace[subcommand] = subparser.parse_args(arg_strings, namespace=subnamespace, **kwargs)"]
def applyConfigWith : List String := ["_ActionSubCommands.not_single_subcommand()", "previous_config_context(cfg)", "skip_apply_links()"]
def applyConfigKwargs : List String := ["_fail_no_subcommand=False", "_skip_validation=True", "defaults=False", "env=False"]
def defaultCfgParseCommon : List String := ["cfg=cfg", "defaults=False", "env=False", "fail_no_subcommand=False", "skip_required=True", "skip_validation=skip_validation", "with_meta=None"]
def parseCommonFailDefault : String := "True"
def parseStringPrivate : List String := ["_fail_no_subcommand=True", "_skip_validation=False"]
def parseArgsParseCommonKw : List String := ["cfg", "defaults", "env", "skip_validation", "with_meta"]
def envBranch : List String := ["env_var in env and isinstance(action, _ActionSubCommands)", "env_val = env[env_var]", "if env_val in action.choices:\n    cfg[action.dest] = subcommand = self._check_value_key(action, env_val, action.dest, cfg)\n    pcfg = action._name_parser_map[env_val].parse_env(env=env, defaults=False, _skip_validation=True)\n    for k, v in vars(pcfg).items():\n        cfg[subcommand + '.' + k] = v"]
def applyLinksHead : List String := ["if apply_config_skip.get() or _ActionPrintConfig.is_print_config_requested(parser):\n    return", "subcommand, subparser = _ActionSubCommands.get_subcommand(parser, cfg, fail_no_subcommand=False)", "if subcommand and subcommand in cfg:\n    ActionLink.apply_parsing_links(subparser, cfg[subcommand])"]
def addSubcommand : List String := ["if parser._subparsers is not None:\n    raise ValueError('Multiple levels of subcommands must be added in level order.')", "if self.dest == name or self.dest in kwargs.get('aliases', ()):\n    raise ValueError(f\"A subcommand name can't be the same as the subcommands dest: '{self.dest}'.\")", "parser.prog = f'{self._prog_prefix} [options] {name}'", "parser.env_prefix = f'{self.env_prefix}{name}_'", "parser.default_env = self.parent_parser.default_env", "parser.parent_parser = self.parent_parser", "parser.parser_mode = self.parent_parser.parser_mode", "parser._error_handler = self.parent_parser._error_handler", "parser.exit_on_error = self.parent_parser.exit_on_error", "parser.logger = self.parent_parser.logger", "parser.subcommand = name"]
/-- the `default_env` setter assigns THROUGH THE PROPERTY on every sub-parser, i.e. recursively: environment parsing is
    on or off for the whole tree, which is why `handle`, `argvCall`, `parseArgs` and `layFuel` carry ONE `mode` -/
def defaultEnvPropagation : List String := ["self._subcommands_action", "for subparser in self._subcommands_action._name_parser_map.values():\n    subparser.default_env = self._default_env"]
/-- the statements behind `getEnvVar`/`subPrefix`, `filesOf`/`narrow`, the stack extension in `layerC`, `defaultsStep`,
    `merge e d` in `layerC` and the three loops of `loadEnvC` -/
def getEnvVarBody : List String := ["if isinstance(parser_or_formatter, DefaultHelpFormatter):\n    parser = parent_parser.get()\nelse:\n    parser = parser_or_formatter", "assert parser is not None", "env_var = ''", "if isinstance(parser.env_prefix, str):\n    env_var = parser.env_prefix.replace('-', '_') + '_'", "if action:\n    env_var += action.dest", "env_var = env_var.replace('.', '__').upper()", "return env_var"]
def envPrefixOfSubcommands : List String := ["subcommands.env_prefix = get_env_var(self)", "env_prefix = os.path.splitext(self.prog)[0]"]
def defaultConfigFilesLoops : List String := ["for key, parser in parent_parsers.get()[-1:]:\n    for pattern in parser.default_config_files:\n        files = sorted(glob.glob(os.path.expanduser(pattern)))\n        default_config_files += [(key, v) for v in files]", "for pattern in self.default_config_files:\n    files = sorted(glob.glob(os.path.expanduser(pattern)))\n    default_config_files += [(None, x) for x in files]"]
def parentParsersContext : List String := ["prev = parent_parsers.get()", "curr = [] if parser is None else prev + [(key, parser)]", "token = parent_parsers.set(curr)", "parent_parsers_context(key, parser)", "key = prefix + subcommand"]
def defaultConfigLoad : List String := ["if key and isinstance(cfg_dict, dict):\n    cfg_dict = cfg_dict.get(key, {})", "cfg_file = self._load_config_parser_mode(default_config_file.get_content(), key=key)", "cfg = self.merge_config(cfg_file, cfg)"]
def envOverDefaults : List String := ["cfg = self.merge_config(cfg_env, cfg)"]
def loadEnvVarsLoops : List String := ["env_var in env and isinstance(action, ActionConfigFile)", "env_var in env and isinstance(action, _ActionSubCommands)", "env_var in env and (not isinstance(action, (ActionConfigFile, _ActionSubCommands)))"]
/-- added by later fixes: the settings check of `handle_subcommands` / the argv action (`checkSettings`) -/
def settingsCheck : List String := ["if not isinstance(value, Namespace):\n    raise TypeError(f'Expected the settings of subcommand \"{key}\" to be a mapping, but got: {value!r}')", "if cfg.get(key) is not None:\n    _check_subcommand_settings(key, cfg.get(key))"]
/-- EVERY statement of `get_subcommands`, in order (session 2).  `getSubCore` = statements 4-9 (`keys`, `expl`, the
    `if/elif` = `pick`/`sub`/`cfg1`/`warn`, the removal = `cfg2`, `todo`), `getSub` = statement 10 (the `fail_no_subcommand` block) and the
    return; statement 1 is the `.node _ .none _` case of `handle`/`sweep`/`checkReq`; `prefix` is the recursion into the section -/
def bodyGetSubcommands : List String := ["if parser._subcommands_action is None:\n    return (None, None)", "action = parser._subcommands_action", "require_single = single_subcommand.get()", "subcommand_keys = [k for k in action.choices.keys() if isinstance(cfg.get(prefix + k), Namespace)]", "subcommand = None", "dest = prefix + action.dest", "if dest in cfg and cfg.get(dest) is not None:\n    subcommand = cfg[dest]\nelif len(subcommand_keys) > 0 and (fail_no_subcommand or require_single):\n    cfg[dest] = subcommand = subcommand_keys[0]\n    if len(subcommand_keys) > 1:\n        warnings.warn(f'Multiple subcommand settings provided ({', '.join(subcommand_keys)}) without an explicit \"{dest}\" key. Subcommand \"{subcommand}\" will be used.')", "if subcommand and len(subcommand_keys) > 1:\n    for key in [k for k in subcommand_keys if k != subcommand]:\n        del cfg[prefix + key]", "if subcommand:\n    subcommand_keys = [subcommand]", "if subcommand is not None and subcommand not in action._name_parser_map:\n    raise NSKeyError(f'expected \"{dest}\" to be one of {{{','.join(action._name_parser_map)}}}, but got: {subcommand!r}.')", "if fail_no_subcommand:\n    if subcommand is None and (not (fail_no_subcommand and action._required)):\n        return (None, None)\n    if action._required and subcommand not in action._name_parser_map:\n        available_subcommands = list(action._name_parser_map.keys())\n        if len(available_subcommands) <= 5:\n            candidate_subcommands_str = '{' + ','.join(available_subcommands) + '}'\n        else:\n            candidate_subcommands_str = '{' + ','.join(available_subcommands[:5]) + ', ...}'\n        raise NSKeyError(f'expected \"{dest}\" to be one of {candidate_subcommands_str}, but it was not provided.')", "return (subcommand_keys, [action._name_parser_map.get(s) for s in subcommand_keys])"]
/-- `get_subcommand`: the FIRST of the returned names (`r.todo.head?` in `sweep` and `checkReq`) -/
def bodyGetSubcommand : List String := ["subcommands, subparsers = _ActionSubCommands.get_subcommands(parser, cfg, prefix=prefix, fail_no_subcommand=fail_no_subcommand)", "return (subcommands[0] if subcommands else None, subparsers[0] if subparsers else None)"]
/-- EVERY statement of `handle_subcommands`: `handle` (the call of `getSub`, the early return = empty `todo`), `handleEach` (the loop in
    `zip` order = declaration order restricted to `todo`: `checkSettings`, `mergeLayer`, the recursion, `writeBack`) -/
def bodyHandleSubcommands : List String := ["subcommands, subparsers = _ActionSubCommands.get_subcommands(parser, cfg, prefix=prefix, fail_no_subcommand=fail_no_subcommand)", "if not subcommands or not subparsers:\n    return", "for subcommand, subparser in zip(subcommands, subparsers):\n    subnamespace = None\n    key = prefix + subcommand\n    with parent_parsers_context(key, parser):\n        if env:\n            subnamespace = subparser.parse_env(defaults=defaults, _skip_validation=True)\n        elif defaults:\n            subnamespace = subparser.get_defaults(skip_validation=True)\n    if cfg.get(key) is not None:\n        _check_subcommand_settings(key, cfg.get(key))\n    if subnamespace is not None:\n        cfg[key] = subparser.merge_config(cfg.get(key) or Namespace(), subnamespace)\n    if subparser._subparsers is not None:\n        _ActionSubCommands.handle_subcommands(subparser, cfg, env, defaults, key + '.', fail_no_subcommand=fail_no_subcommand)"]
/-- EVERY statement of `add_subcommand`: the two rejections (`wf`: a name differs from the subcommand key; level order), the
    attributes handed down (env prefix → `subPrefix`; `default_env`, `parser_mode`), the name-parser map in which ALIASES are further
    names of the same parser (in the model: a further entry of `choices` with the same sub-tree) -/
def bodyAddSubcommand : List String := ["if parser._subparsers is not None:\n    raise ValueError('Multiple levels of subcommands must be added in level order.')", "if self.dest == name or self.dest in kwargs.get('aliases', ()):\n    raise ValueError(f\"A subcommand name can't be the same as the subcommands dest: '{self.dest}'.\")", "parser.prog = f'{self._prog_prefix} [options] {name}'", "parser.env_prefix = f'{self.env_prefix}{name}_'", "parser.default_env = self.parent_parser.default_env", "parser.parent_parser = self.parent_parser", "parser.parser_mode = self.parent_parser.parser_mode", "parser._error_handler = self.parent_parser._error_handler", "parser.exit_on_error = self.parent_parser.exit_on_error", "parser.logger = self.parent_parser.logger", "parser.subcommand = name", "aliases = kwargs.pop('aliases', ())", "help_arg = None", "if 'help' in kwargs:\n    help_arg = kwargs.pop('help')", "choice_action = self._ChoicesPseudoAction(name, aliases, help_arg)", "self._choices_actions.append(choice_action)", "self._name_parser_map[name] = parser", "for alias in aliases:\n    self._name_parser_map[alias] = parser", "return parser"]
/-- EVERY statement of `add_subcommands`: `dest`/`required` = `SubHdr`, `required_args.add(dest)` = the `reqkey` check of `checkReq`,
    `env_prefix = get_env_var(self)` = `subPrefix`; a second call is rejected by argparse (`super().add_subparsers`) -/
def bodyAddSubcommands : List String := ["if 'description' not in kwargs:\n    kwargs['description'] = 'For more details of each subcommand, add it as an argument followed by --help.'", "default_config_files = self.default_config_files", "self.default_config_files = []", "subcommands: _ActionSubCommands = super().add_subparsers(dest=dest, **kwargs)", "self.default_config_files = default_config_files", "if required:\n    self.required_args.add(dest)", "subcommands._required = required", "subcommands.required = False", "subcommands.parent_parser = self", "subcommands.env_prefix = get_env_var(self)", "self._subcommands_action = subcommands", "return subcommands"]
/-- the first line of every top-level statement of `_load_env_vars`: three loops in this order (`envCfgPart`, `envSubPart`,
    `envOptPart` of `loadEnvC`); their tests and the subcommand branch are `loadEnvVarsLoops` / `envBranch` -/
def loadEnvVarsSkeleton : List String := ["cfg = Namespace()", "actions = filter_default_actions(self._actions)", "for action in actions:", "for action in actions:", "for action in actions:", "self._apply_actions(cfg)", "return cfg"]
/-- parameter lists with defaults: `fail_no_subcommand=True`, `prefix=''`, `required=True`, `dest='subcommand'` -/
def signatures : List String := ["add_subcommands(self, required=True, dest='subcommand')", "get_subcommand(parser, cfg, prefix='', fail_no_subcommand=True)", "get_subcommands(parser, cfg, prefix='', fail_no_subcommand=True)", "handle_subcommands(parser, cfg, env, defaults, prefix='', fail_no_subcommand=True)"]
end Shape

end Jap.Subcmd

/-
Engine "Scalar", part 2 (C01): the emitter's style decision for str scalars and the scanner's reading of
single-line scalars, so that the str round trip is a statement about the model.

* `allowBlockPlain`, `allowSingle`, `isMultiline` : PyYAML `Emitter.analyze_scalar` (block context).
* `chooseStyle` : `Emitter.choose_scalar_style` for a str event without forced style, not canonical, flow_level 0.
* `writeSingle`, `writeDouble` : `write_single_quoted` / `write_double_quoted` WITHOUT line folding;
  `emitScalar` is therefore partial: `none` for strings with line breaks (multi-line styles are outside the
  model) and when the emitter may fold the text: it does not fit into `best_width` from the start column and
  contains a space (or is double-quoted); folding is outside the model.
* `loadLine` : libyaml's reading of one line that starts with a scalar (`yaml_parser_fetch_next_token` decision,
  `yaml_parser_scan_plain_scalar` in block context, `yaml_parser_scan_flow_scalar` single/double quoted), returning
  the tag (plain: `resolveLoadC`; quoted: str), the value and the rest of the line.
The character sets are PyYAML/libyaml constants (third-party code, not regenerated): tied by correspondence.
-/
import Jap.Core.Scalar

namespace Jap.Scalar

/-! ### analyze_scalar -/

/-- `'\0 \t\r\n\x85  '` -/
def isWsA (c : Char) : Bool :=
  c.toNat = 0 || c.toNat = 32 || c.toNat = 9 || c.toNat = 13 || c.toNat = 10 || c.toNat = 133 || c.toNat = 8232 || c.toNat = 8233

/-- `'\n\x85  '` -/
def isBreakA (c : Char) : Bool := c.toNat = 10 || c.toNat = 133 || c.toNat = 8232 || c.toNat = 8233

def followedWs : List Char → Bool
  | [] => true
  | d :: _ => isWsA d

/-- contribution of one character to `special_characters` -/
def isSpecialA (allowUnicode : Bool) (c : Char) : Bool :=
  let n := c.toNat
  if n = 10 || (decide (32 ≤ n) && decide (n ≤ 126)) then false
  else if (n = 133 || (decide (160 ≤ n) && decide (n ≤ 55295)) || (decide (57344 ≤ n) && decide (n ≤ 65533))
      || (decide (65536 ≤ n) && decide (n < 1114111))) && !(n = 65279) then !allowUnicode
  else true

/-- leading indicators: ``#,[]{}&*!|>'"%@` `` -/
def firstInd (c : Char) : Bool :=
  let n := c.toNat
  n = 35 || n = 44 || n = 91 || n = 93 || n = 123 || n = 125 || n = 38 || n = 42 || n = 33 || n = 124 || n = 62 ||
  n = 39 || n = 34 || n = 37 || n = 64 || n = 96

def startsDoc : List Char → Bool
  | a :: b :: c :: _ => (a.toNat = 45 && b.toNat = 45 && c.toNat = 45) || (a.toNat = 46 && b.toNat = 46 && c.toNat = 46)
  | _ => false

/-- block indicators at positions > 0: `:` followed by whitespace, `#` preceded by whitespace -/
def innerBlock (prev : Char) : List Char → Bool
  | [] => false
  | c :: rest => (c.toNat = 58 && followedWs rest) || (c.toNat = 35 && isWsA prev) || innerBlock c rest

def blockInd : List Char → Bool
  | [] => false
  | c :: rest =>
    startsDoc (c :: rest) || firstInd c || ((c.toNat = 63 || c.toNat = 58) && followedWs rest) ||
    (c.toNat = 45 && followedWs rest) || innerBlock c rest

def pairAny (p q : Char → Bool) : List Char → Bool
  | a :: b :: rest => (p a && q b) || pairAny p q (b :: rest)
  | _ => false

def isSpaceA (c : Char) : Bool := c.toNat = 32
def lastIs (p : Char → Bool) : List Char → Bool
  | [] => false
  | [c] => p c
  | _ :: b :: rest => lastIs p (b :: rest)
def firstIs (p : Char → Bool) : List Char → Bool
  | [] => false
  | c :: _ => p c

def isMultiline (s : List Char) : Bool := s.any isBreakA
def hasSpecial (au : Bool) (s : List Char) : Bool := s.any (isSpecialA au)

/-- `analysis.allow_single_quoted` -/
def allowSingle (au : Bool) (s : List Char) : Bool :=
  !(pairAny isBreakA isSpaceA s) && !(pairAny isSpaceA isBreakA s || hasSpecial au s)

/-- `analysis.allow_block_plain` (the empty scalar allows it) -/
def allowBlockPlain (au : Bool) (s : List Char) : Bool :=
  match s with
  | [] => true
  | _ =>
    !(firstIs isSpaceA s || firstIs isBreakA s || lastIs isSpaceA s || lastIs isBreakA s) &&
    !(pairAny isBreakA isSpaceA s) && !(pairAny isSpaceA isBreakA s || hasSpecial au s) &&
    !(isMultiline s) && !(blockInd s)

inductive Style | plain | single | double
  deriving DecidableEq, Repr

/-- `choose_scalar_style` for a str event (`implicit` = the dumper resolves the text as str), no forced style,
not canonical, block context -/
def chooseStyle (au simpleKey implicit : Bool) (s : List Char) : Style :=
  if implicit && !(simpleKey && (s.isEmpty || isMultiline s)) && allowBlockPlain au s then .plain
  else if allowSingle au s && !(simpleKey && isMultiline s) then .single
  else .double

/-! ### writers (no folding) -/

def writeSingleBody : List Char → List Char
  | [] => []
  | c :: cs => (if c.toNat = 39 then ['\'', '\''] else [c]) ++ writeSingleBody cs

def hexDigitU (n : Nat) : Char := if n < 10 then Char.ofNat (48 + n) else Char.ofNat (55 + n)
def hexU2 (n : Nat) : List Char := [hexDigitU (n / 16 % 16), hexDigitU (n % 16)]
def hexU4 (n : Nat) : List Char := [hexDigitU (n / 4096 % 16), hexDigitU (n / 256 % 16), hexDigitU (n / 16 % 16), hexDigitU (n % 16)]
def hexU8 (n : Nat) : List Char :=
  [hexDigitU (n / 268435456 % 16), hexDigitU (n / 16777216 % 16), hexDigitU (n / 1048576 % 16), hexDigitU (n / 65536 % 16)] ++ hexU4 n

/-- `Emitter.ESCAPE_REPLACEMENTS` -/
def namedEscape (n : Nat) : Option Char :=
  if n = 0 then some '0' else if n = 7 then some 'a' else if n = 8 then some 'b' else if n = 9 then some 't'
  else if n = 10 then some 'n' else if n = 11 then some 'v' else if n = 12 then some 'f' else if n = 13 then some 'r'
  else if n = 27 then some 'e' else if n = 34 then some '"' else if n = 92 then some '\\' else if n = 133 then some 'N'
  else if n = 160 then some '_' else if n = 8232 then some 'L' else if n = 8233 then some 'P' else none

def dqRaw (au : Bool) (c : Char) : Bool :=
  let n := c.toNat
  !(n = 34 || n = 92 || n = 133 || n = 8232 || n = 8233 || n = 65279) &&
  ((decide (32 ≤ n) && decide (n ≤ 126)) ||
   (au && ((decide (160 ≤ n) && decide (n ≤ 55295)) || (decide (57344 ≤ n) && decide (n ≤ 65533)))))

def writeDoubleChar (au : Bool) (c : Char) : List Char :=
  if dqRaw au c then [c]
  else
    let n := c.toNat
    match namedEscape n with
    | some e => ['\\', e]
    | none =>
      if n ≤ 255 then '\\' :: 'x' :: hexU2 n
      else if n ≤ 65535 then '\\' :: 'u' :: hexU4 n
      else '\\' :: 'U' :: hexU8 n

def writeDoubleBody (au : Bool) : List Char → List Char
  | [] => []
  | c :: cs => writeDoubleChar au c ++ writeDoubleBody au cs

def allowUnicodeCfg : Bool := Gen.DumpCfg.yamlEmitterAllowUnicode

/-- style and text written for the str `s` when nothing is folded -/
def styleOf (simpleKey : Bool) (s : List Char) : Style :=
  chooseStyle allowUnicodeCfg simpleKey (decide (resolveDumpC s = .str)) s

def textOf (simpleKey : Bool) (s : List Char) : List Char :=
  match styleOf simpleKey s with
  | .plain => s
  | .single => '\'' :: (writeSingleBody s ++ ['\''])
  | .double => '"' :: (writeDoubleBody allowUnicodeCfg s ++ ['"'])

/-- the emitter never breaks the text of this value: it fits into `best_width` from column `col`, or it is written
plain / single-quoted and has no space (`write_plain` and `write_single_quoted` fold only at a space that lies beyond
`best_width`; `write_double_quoted` may also break elsewhere) -/
def noFold (col : Nat) (s : List Char) : Bool :=
  decide (col + (textOf false s).length ≤ Gen.DumpCfg.yamlBestWidth) ||
  (!(s.any isSpaceA) && !(decide (styleOf false s = .double)))

/-- the text the emitter writes for a str VALUE starting at column `col`; `none` = outside the model: the emitter may
fold the text (see `noFold`), or the string has a line break and is written single-quoted over several lines.
A string with a line break that `choose_scalar_style` sends to the DOUBLE-quoted style (a blank next to a break —
indented text —, a TAB or another special character) is written on one line with `\n` / `\N` / `\L` / `\P` escapes and is
inside the model when it fits into `best_width` -/
def emitScalar (col : Nat) (s : List Char) : Option (List Char) :=
  if isMultiline s then
    (if decide (styleOf false s = .double) && decide (col + (textOf false s).length ≤ Gen.DumpCfg.yamlBestWidth)
      then some (textOf false s) else none)
  else if noFold col s then some (textOf false s) else none

/-- length of the prepared tag handle that `check_simple_key` adds to the length of the scalar (`!!str`, `!!int` 5,
`!!null`, `!!bool` 6, `!!float` 7: the event of an implicit scalar still carries its tag) -/
def strTagHandleLen : Nat := 5

/-- the text the emitter writes for a str KEY as a simple key (`check_simple_key`: not empty, prepared tag + scalar
shorter than 128, single line; simple keys are never folded); `none` = the `? ` complex-key form, outside the model -/
def emitKey (s : List Char) : Option (List Char) :=
  if isMultiline s || s.isEmpty || decide (128 ≤ strTagHandleLen + s.length) then none else some (textOf true s)

/-! ### the scanner on one line -/

/-- IS_BLANKZ without the blanks: CR LF NEL LS PS NUL -/
def isBreakZ (c : Char) : Bool := isBreak c || c.toNat = 0
def followedBlankZ : List Char → Bool
  | [] => true
  | d :: _ => isBlank d || isBreakZ d

/-- characters that cannot start a plain scalar: ``-?:,[]{}#&*!|>'"%@` `` -/
def indicatorStart (c : Char) : Bool := firstInd c || c.toNat = 45 || c.toNat = 63 || c.toNat = 58

/-- `yaml_parser_fetch_next_token` reaches `fetch_plain_scalar` (block context; the column-0 tests for `---`, `...`
and `%` are not modelled: the emitter never writes such a text plain, see `blockInd`) -/
def plainStartOK : List Char → Bool
  | [] => false
  | c :: rest =>
    !(isBlank c || isBreakZ c) &&
    (!(indicatorStart c) || ((c.toNat = 45 || c.toNat = 63 || c.toNat = 58) && !(followedBlankZ rest)))

/-- `yaml_parser_scan_plain_scalar` on one line, block context: value so far, pending blanks; returns the value
and the rest of the line from the terminating character on -/
def plainGo (acc ws : List Char) : List Char → List Char × List Char
  | [] => (acc, [])
  | c :: rest =>
    if isBlank c then plainGo acc (ws ++ [c]) rest
    else if isBreakZ c then (acc, c :: rest)
    else if c.toNat = 35 && !ws.isEmpty then (acc, c :: rest)
    else if c.toNat = 58 && followedBlankZ rest then (acc, c :: rest)
    else plainGo (acc ++ ws ++ [c]) [] rest

inductive QEsc
  | none | bs | hex (left acc : Nat) | crlf
  | quote          -- the second `'` of `''`
  deriving DecidableEq, Repr

structure QSt where
  out : List Char
  pend : Pend
  col0 : Bool
  esc : QEsc
  deriving DecidableEq, Repr

/-- `yaml_parser_scan_flow_scalar` after the opening quote: returns the value and the text after the closing quote -/
def qGo (single : Bool) (st : QSt) : List Char → Option (List Char × List Char)
  | [] => none
  | c :: rest =>
    match st.esc with
    | .crlf => qGo single { st with esc := .none } rest
    | .quote => qGo single { st with out := st.out ++ [c], esc := .none } rest
    | .bs =>
      if isBreak c then
        let esc' := match rest with
          | d :: _ => if c.toNat = 13 && d.toNat = 10 then QEsc.crlf else QEsc.none
          | [] => QEsc.none
        qGo single { st with pend := .brk [] [], col0 := true, esc := esc' } rest
      else if c = 'x' then qGo single { st with esc := .hex 2 0 } rest
      else if c = 'u' then qGo single { st with esc := .hex 4 0 } rest
      else if c = 'U' then qGo single { st with esc := .hex 8 0 } rest
      else match simpleEscape c with
        | some v => qGo single { st with out := st.out ++ [Char.ofNat v], esc := .none } rest
        | none => none
    | .hex left acc =>
      match hexVal c with
      | none => none
      | some d =>
        let v := acc * 16 + d
        if left ≤ 1 then
          if validCode v then qGo single { st with out := st.out ++ [Char.ofNat v], esc := .none } rest else none
        else qGo single { st with esc := .hex (left - 1) v } rest
    | .none =>
      if isBlank c then
        match st.pend with
        | .ws b => qGo single { st with pend := .ws (b ++ [c]), col0 := false } rest
        | .brk _ _ => qGo single { st with col0 := false } rest
      else if isBreak c then
        let esc' := match rest with
          | d :: _ => if c.toNat = 13 && d.toNat = 10 then QEsc.crlf else QEsc.none
          | [] => QEsc.none
        match st.pend with
        | .ws _ => qGo single { st with pend := .brk [normBreak c] [], col0 := true, esc := esc' } rest
        | .brk l t => qGo single { st with pend := .brk l (t ++ [normBreak c]), col0 := true, esc := esc' } rest
      else if st.col0 && docIndicator (c :: rest) then none
      else if single && c.toNat = 39 then
        match rest with
        | d :: _ =>
          if d.toNat = 39 then qGo single { out := flush st.out st.pend, pend := .ws [], col0 := false, esc := .quote } rest
          else some (flush st.out st.pend, rest)
        | [] => some (flush st.out st.pend, rest)
      else if !single && c.toNat = 34 then some (flush st.out st.pend, rest)
      else if !single && c.toNat = 92 then qGo single { out := flush st.out st.pend, pend := .ws [], col0 := false, esc := .bs } rest
      else qGo single { out := flush st.out st.pend ++ [c], pend := .ws [], col0 := false, esc := .none } rest

def qStart : QSt := { out := [], pend := .ws [], col0 := false, esc := .none }

/-- reading of a line that starts with a scalar: tag, value, rest of the line (from the terminator on).
`none`: reader error, another token, or unterminated quote -/
def loadLine (line : List Char) : Option (Tag × List Char × List Char) :=
  if !(line.all yamlPrintable) then none
  else match line with
    | [] => none
    | c :: rest =>
      if c.toNat = 39 then (qGo true qStart rest).map fun r => (Tag.str, r.1, r.2)
      else if c.toNat = 34 then (qGo false qStart rest).map fun r => (Tag.str, r.1, r.2)
      else if plainStartOK line then
        let r := plainGo [] [] line
        some (resolveLoadC r.1, r.1, r.2)
      else none

end Jap.Scalar

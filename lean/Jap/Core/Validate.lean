/-
Engine "Validate" (C06, C07) — model of the key enforcement every parse method of
`jsonargparse.ArgumentParser` applies to the configuration it is about to return:

* `ArgumentParser.validate` = `check_values` + `check_required` (`_core.py`),
  with `_find_action`, `_is_branch_key`, `_find_parent_action` (`_actions.py`) read
  positionally: the parser is a *spec tree* (`Node`), the configuration a tree
  (`Val`), and the walk goes down both together;
* the per-class parsers that validate `init_args` of a class-typed argument and the
  items of `List[dataclass]` / `List[Class]` (`_typehints.py: adapt_class_type`,
  `get_class_parser`, the dataclass branch of `adapt_typehints`);
* subcommand selection and the removal of the non-selected sections
  (`_ActionSubCommands.get_subcommands`), required subcommand;
* argv leftovers (`parse_args`: "Unrecognized arguments") through the option table
  of the parser (`flatten`);
* for C07: the four ways of declaring a nested group as *action tables*
  (`declDotted`, `declDataclass`, `declClassArgs`, `declInnerParser`) mirroring
  `add_argument`, `_add_signature_arguments/_add_signature_parameter`,
  `_create_group_if_requested`, `ActionParser._move_parser_actions`, and a parse
  fold over such a table.

The model mirrors the code as it is, including what the property C06 does not
want: a foreign key whose value is a mapping without any leaf is invisible
(`Namespace.keys()` lists leaves only), the section of a non-selected subcommand
is dropped unvalidated, `dict_kwargs` of a class specification is not looked
into, and a non-mapping value at a group key is accepted (`_is_branch_key`).

Everything is structurally recursive (over `Val`, over `Node`, or over a path).
The YAML loader is a parameter (`ld : String → Val`, "load oracle").
Imports nothing beyond core Lean.
-/
namespace Jap.Validate

/-! ## configuration trees -/

inductive Val where
  | null
  | bool (b : Bool)
  | int (i : Int)
  | str (s : String)
  | flt (repr : String)
  | list (xs : List Val)
  | dict (kvs : List (String × Val))
deriving Repr, Inhabited

abbrev KV := List (String × Val)

/-- leaf type tags of the generated grammar -/
inductive Ty where
  | int | str | bool | float | optInt | listInt
  | optListInt      -- Optional[List[int]]
  | optDictStrInt   -- Optional[Dict[str, int]]
  | optTupleIntStr  -- Optional[Tuple[int, str]]
  | optLitAB        -- Optional[Literal['a', 'b']]
deriving DecidableEq, Repr, Inhabited

/-- the annotation is `Optional[...]` of ANYTHING (`is_optional(annotation)`, no reference type) -/
def isOptTy : Ty → Bool
  | .optInt | .optListInt | .optDictStrInt | .optTupleIntStr | .optLitAB => true
  | _ => false

/-- `ActionTypeHint.supports_append`: a sequence type, or a Union with a sequence member -/
def hasPlus : Ty → Bool
  | .listInt | .optListInt => true
  | _ => false

/-! ## parser spec trees -/

inductive Node where
  /-- a typed argument -/
  | leaf (ty : Ty) (required : Bool) (default : Option Val)
  /-- a nested group; `whole` = an `_ActionConfigLoad` option `--g` exists for the group key -/
  | group (whole : Bool) (fields : List (String × Node))
  /-- an argument typed by a base class: `classes` = the accepted class paths with their init parameters;
      `implicit` = the class path taken when a value gives none (the base type itself when it is concrete) -/
  | classArg (required : Bool) (implicit : Option String) (classes : List (String × List (String × Node)))
  /-- `List[item]` -/
  | listOf (required : Bool) (item : Node)
  /-- `Optional[Dataclass]` (a `Union` with one dataclass-like member): one `ActionTypeHint` argument whose value is `None`
      or a mapping that the per-class parser of the dataclass validates (`adapt_typehints`, branch "Dataclass-like":
      `get_class_parser(typehint, sub_add_kwargs)` + `parser.parse_object(val, defaults=...)`) -/
  | optGroup (required : Bool) (fields : List (String × Node))
  /-- the subcommands action stored under its `dest`; the sections are siblings of `dest` -/
  | subcommands (required : Bool) (choices : List (String × List (String × Node)))
deriving Repr, Inhabited

abbrev Fields := List (String × Node)
abbrev Choices := List (String × Fields)

/-- position in a configuration tree -/
inductive Seg where
  | key (s : String)
  | idx (i : Nat)
deriving DecidableEq, Repr, Inhabited

abbrev Path := List Seg

/-- `full` is the complete position of the offending key; the message of the real code shows
    `full.drop cut` (the key relative to the parser that raised: the top-level parser, or the
    per-class parser of an `init_args` / list item) -/
inductive Err where
  | unknown (full : Path) (cut : Nat)        -- NSKeyError: key not expected / group, subcommand does not accept nested key
  | required (full : Path) (cut : Nat)       -- "Key ... is required but not included in config object or its value is None"
  | type (full : Path) (cut : Nat)           -- value of the wrong shape at a defined key
  | noSubcommand (full : Path) (cut : Nat)   -- 'expected "subcommand" to be one of ...'
  | unrecognized (arg : String)              -- "Unrecognized arguments: ..."
deriving DecidableEq, Repr, Inhabited

abbrev R := Except Err Unit

/-! ## association lists (first match, like `_find_action` and `dict` reads) -/

def assoc {β : Type} (k : String) : List (String × β) → Option β
  | [] => none
  | (k', v) :: r => if k' = k then some v else assoc k r

def hasKey {β : Type} (k : String) (l : List (String × β)) : Bool := (assoc k l).isSome

/-! ## leaves of a namespace

`Namespace.keys()` lists leaf keys only, and a nested namespace without any leaf
contributes nothing: `merge_config` (`Namespace.update`) and `check_values`
(`get_sorted_keys`) never see it. -/

mutual
def leafless : Val → Bool
  | .dict kvs => leaflessKVs kvs
  | _ => false
def leaflessKVs : List (String × Val) → Bool
  | [] => true
  | (_, v) :: r => leafless v && leaflessKVs r
end

/-! `get_sorted_keys` sorts by descending depth (stable): the first key reported below an
    undefined branch is the first among its deepest leaves. `deep v = (depth, path)`. -/
mutual
def deep : Val → Option (Nat × List String)
  | .dict kvs => deepKVs kvs
  | _ => some (0, [])
def deepKVs : List (String × Val) → Option (Nat × List String)
  | [] => none
  | (k, v) :: r =>
    match deep v, deepKVs r with
    | none, x => x
    | some dp, none => some (dp.1 + 1, k :: dp.2)
    | some dp, some dp' => if dp.1 + 1 < dp'.1 then some dp' else some (dp.1 + 1, k :: dp.2)
end

def deepPath (v : Val) : List String :=
  match deep v with
  | some dp => dp.2
  | none => []

/-! ## the leaf types (value channel; a string is re-loaded as `_check_type` does) -/

def resolve (ld : String → Val) : Val → Val
  | .str s => ld s
  | v => v

def allInts : List Val → Bool
  | [] => true
  | .int _ :: r => allInts r
  | _ :: _ => false

def intToFlt (i : Int) : String := toString i ++ ".0"

/-- normal form of a value for a leaf type, `none` = rejected (`None` is handled by the callers) -/
def adapt (ld : String → Val) : Ty → Val → Option Val
  | .int, v => match resolve ld v with | .int i => some (.int i) | _ => none
  | .str, v => match v with | .str s => some (.str s) | _ => none
  | .bool, v => match resolve ld v with | .bool b => some (.bool b) | _ => none
  | .float, v => match resolve ld v with
      | .int i => some (.flt (intToFlt i))
      | .flt r => some (.flt r)
      | _ => none
  | .optInt, v => match resolve ld v with
      | .int i => some (.int i)
      | .null => some .null
      | _ => none
  | .listInt, v => match resolve ld v with
      | .list xs => if allInts xs then some (.list xs) else none
      | _ => none
  | .optListInt, v => match resolve ld v with
      | .list xs => if allInts xs then some (.list xs) else none
      | .null => some .null
      | _ => none
  | .optDictStrInt, v => match resolve ld v with
      | .dict kvs => if allInts (kvs.map (·.2)) then some (.dict kvs) else none
      | .null => some .null
      | _ => none
  | .optTupleIntStr, v => match resolve ld v with
      | .list [.int i, .str s] => some (.list [.int i, .str s])
      | .null => some .null
      | _ => none
  | .optLitAB, v => match v with
      | .str s => if s = "a" || s = "b" then some (.str s) else (match ld s with | .null => some .null | _ => none)
      | .null => some .null
      | _ => none

/-! ## subcommand selection (`_ActionSubCommands.get_subcommands`) -/

/-- the subcommands action of a parser: `(dest, required, choices)` -/
def subOf : Fields → Option (String × Bool × Choices)
  | [] => none
  | (d, .subcommands r cs) :: _ => some (d, r, cs)
  | _ :: rest => subOf rest

/-- `isinstance(cfg.get(k), Namespace)` after `merge_config`: a mapping with at least one leaf -/
def isSection : Option Val → Bool
  | some (.dict kvs) => !leaflessKVs kvs
  | _ => false

def firstSection (kvs : KV) : Choices → Option String
  | [] => none
  | (c, _) :: r => if isSection (assoc c kvs) then some c else firstSection kvs r

/-- the selected subcommand: the value of `dest` when given, else the first choice with a section -/
def selectedOf (dest : String) (cs : Choices) (kvs : KV) : Option String :=
  match assoc dest kvs with
  | some (.str c) => some c
  | some .null => firstSection kvs cs
  | none => firstSection kvs cs
  | some _ => none

def selected (fs : Fields) (kvs : KV) : Option String :=
  match subOf fs with
  | none => none
  | some (d, _, cs) => selectedOf d cs kvs

/-- what a key means at one level of a parser -/
inductive Slot where
  | field (n : Node)
  | sect (cfs : Fields)
  | none

def slotOf (fs : Fields) (k : String) : Slot :=
  match assoc k fs with
  | some n => .field n
  | none =>
    match subOf fs with
    | some (_, _, cs) =>
      match assoc k cs with
      | some cfs => .sect cfs
      | none => .none
    | none => .none

/-! ## append keys (`ActionTypeHint.apply_appends`)

`merge_config` ends with `apply_appends(cfg)`: for every key of the configuration that ends with "+",
`action = _find_action(parser, key[:-1])`, and ONLY WHEN `ActionTypeHint.supports_append(action)` the value is
appended to the value of `key[:-1]` and the key `k+` is popped.  Any other key ending in "+" (a misspelt append
key, "+" on an argument that is not a list) STAYS in the configuration and `check_values` reports it like any
other unknown key.  (The same rule is `Jap.Sources.appendStep` of C04; here it is stated per level of the walk,
each level being the parser whose `merge_config` sees the key.) -/

/-- `key[:-1]` of a key that ends with "+" (on the characters, so that it reduces in the kernel) -/
def plusBase (k : String) : Option String :=
  match k.toList.reverse with
  | '+' :: r => some (String.ofList r.reverse)
  | _ => none

/-- `ActionTypeHint.supports_append(action)` for the arguments of the model: a list-typed argument whose
    elements are plain values.  (A list of dataclasses / class instances also "supports append", but what
    `k+` does there depends on the element parser and includes a crash — outside the model, the harness does
    not write such keys.) -/
def appendable : Node → Bool
  | .leaf ty _ _ => hasPlus ty
  | .listOf _ (.leaf _ _ _) => true
  | _ => false

/-- the argument an append key `k+` of this level is consumed by — only a list-typed argument named `k` -/
def appendSlot (fs : Fields) (k : String) : Option (String × Node) :=
  match plusBase k with
  | some b =>
    match assoc b fs with
    | some n => if appendable n then some (b, n) else none
    | none => none
  | none => none

def itemsOf : Val → List Val
  | .list xs => xs
  | x => [x]

/-- is the appended value (a list of elements or one element) acceptable for the argument? -/
def appendOk (ld : String → Val) : Node → Val → Bool
  | .leaf ty _ _, v => (adapt ld ty (.list (itemsOf v))).isSome
  | .listOf _ (.leaf ty _ _), v =>
    (itemsOf v).all fun x => match x with
      | .null => false
      | x => (adapt ld ty x).isSome
  | _, _ => false

/-! ## meta keys (`Namespace.get_sorted_keys`, `is_meta_key`)

`check_values` iterates `cfg.get_sorted_keys()`, whose default filter drops every key whose LEAF name is in
`meta_keys = {"__path__", "__default_config__", "__orig__"}` (`is_meta_key`: `leaf_key in meta_keys` — membership
in that set, NOT the spelling `__...__`).  The three names are the library's own bookkeeping entries, but nothing
distinguishes one written by the user: such an entry with a plain value is invisible to validation at every level
(open finding C06-meta-key-foreign).  Any other name, `__comment__` and `__pth__` included, is a key like any other. -/

def metaKeys : List String := ["__path__", "__default_config__", "__orig__"]

def isMeta (k : String) : Bool := metaKeys.contains k

/-- an entry `get_sorted_keys` filters out: a meta key holding a value that is not a mapping (a mapping is listed by the
    dotted keys of its leaves, whose leaf names decide) -/
def metaLeaf (k : String) : Val → Bool
  | .dict _ => false
  | _ => isMeta k

/-! ## `check_required` -/

def isNullOrMissing : Option Val → Bool
  | none => true
  | some .null => true
  | some _ => false

/-- `cfg[key]` below a group key: a nested namespace, anything else holds nothing -/
def kvsOf : Option Val → KV
  | some (.dict kvs) => kvs
  | _ => []

/-- a mapping without leaves given for an `Optional[Dataclass]` argument never reaches the namespace (`Namespace` lists leaves only,
    `{}` and `{zz: {}}` contribute nothing): `check_values` and `check_required` see the key as missing — also when the dataclass
    has required fields (open finding C06-optdc-empty-mapping) -/
def invisibleO : Option Val → Bool
  | some (.dict kvs) => leaflessKVs kvs
  | _ => false

mutual
/-- `check_required(cfg, parser, prefix)`: `pre` is the position of the level, `kvs` its content -/
def reqFields (pre : Path) (cut : Nat) (kvs : KV) : Fields → R
  | [] => .ok ()
  | (name, node) :: r =>
    match reqNode pre cut kvs name node with
    | .error e => .error e
    | .ok () => reqFields pre cut kvs r
def reqNode (pre : Path) (cut : Nat) (kvs : KV) (name : String) : Node → R
  | .leaf _ req _ =>
    if req && isNullOrMissing (assoc name kvs) then .error (.required (pre ++ [.key name]) cut) else .ok ()
  | .classArg req _ _ =>
    if req && isNullOrMissing (assoc name kvs) then .error (.required (pre ++ [.key name]) cut) else .ok ()
  | .listOf req _ =>
    if req && isNullOrMissing (assoc name kvs) then .error (.required (pre ++ [.key name]) cut) else .ok ()
  | .optGroup req _ =>
    if req && (isNullOrMissing (assoc name kvs) || invisibleO (assoc name kvs)) then .error (.required (pre ++ [.key name]) cut) else .ok ()
  | .group _ gfs => reqFields (pre ++ [.key name]) cut (kvsOf (assoc name kvs)) gfs
  | .subcommands req cs =>
    match selectedOf name cs kvs with
    | none => if req then .error (.noSubcommand (pre ++ [.key name]) cut) else .ok ()
    | some c => reqChoices pre cut kvs name req c cs
/-- recursion of `check_required` into the parser of the selected subcommand -/
def reqChoices (pre : Path) (cut : Nat) (kvs : KV) (dest : String) (req : Bool) (c : String) : Choices → R
  | [] => if req then .error (.noSubcommand (pre ++ [.key dest]) cut) else .ok ()
  | (c', cfs) :: r =>
    if c' = c then reqFields (pre ++ [.key c]) cut (kvsOf (assoc c kvs)) cfs
    else reqChoices pre cut kvs dest req c r
end

/-! ## `check_values` (with the nested per-class parsers) -/

/-- the class a value without `class_path` is taken to be of -/
def implicitClass (imp : Option String) (cls : Choices) : Option Fields :=
  match imp with
  | some c => assoc c cls
  | none => none

def chkLeaf (ld : String → Val) (pre : Path) (cut : Nat) (nullOk : Bool) (ty : Ty) (v : Val) : R :=
  match v with
  | .null => if nullOk || isOptTy ty then .ok () else .error (.type pre cut)
  | v => if (adapt ld ty v).isSome then .ok () else .error (.type pre cut)

mutual
/-- the value stored at a defined key.  `item = false`: an argument of the current parser (`None` is
    skipped, a group continues the dotted key).  `item = true`: an element of a list (its own parser). -/
def chkVal (ld : String → Val) (pre : Path) (cut : Nat) (item : Bool) : Node → Val → R
  | .leaf ty _ _, v => chkLeaf ld pre cut (!item) ty v
  | .group _ fs, .dict kvs =>
    if item then
      match walk ld pre pre.length fs (selected fs kvs) kvs with
      | .error e => .error e
      | .ok () => reqFields pre pre.length kvs fs
    else walk ld pre cut fs (selected fs kvs) kvs
  | .group whole _, .str _ => if item || whole then .error (.type pre cut) else .ok ()
  | .group _ _, _ => if item then .error (.type pre cut) else .ok ()
  | .classArg _ _ _, .null => if item then .error (.type pre cut) else .ok ()
  | .classArg _ _ cls, .str c =>
    match assoc c cls with
    | some cfs => reqFields (pre ++ [.key "init_args"]) (pre.length + 1) [] cfs
    | none => .error (.type pre cut)
  | .classArg _ imp cls, .dict kvs =>
    match assoc "class_path" kvs with
    | some (.str c) =>
      match assoc c cls with
      | some cfs =>
        match chkCls ld pre cfs kvs with
        | .error e => .error e
        | .ok () =>
          if hasKey "init_args" kvs then .ok ()
          else reqFields (pre ++ [.key "init_args"]) (pre.length + 1) [] cfs
      | none => .error (.type pre cut)
    | none =>
      -- no `class_path`: `subclass_spec_as_namespace` takes the class known before (for a concrete base type: the base)
      match implicitClass imp cls with
      | some cfs =>
        if hasKey "init_args" kvs || hasKey "dict_kwargs" kvs then
          -- `class_path` is added; any other key next to `init_args` / `dict_kwargs` makes it "not a valid subclass"
          match chkCls ld pre cfs kvs with
          | .error e => .error e
          | .ok () =>
            if hasKey "init_args" kvs then .ok ()
            else reqFields (pre ++ [.key "init_args"]) (pre.length + 1) [] cfs
        else
          -- the mapping itself is taken as the `init_args` of that class
          match walk ld pre pre.length cfs (selected cfs kvs) kvs with
          | .error e => .error e
          | .ok () => reqFields pre pre.length kvs cfs
      | none => .error (.type pre cut)
    | some _ => .error (.type pre cut)
  | .classArg _ _ _, _ => .error (.type pre cut)
  | .listOf _ _, .null => if item then .error (.type pre cut) else .ok ()
  | .listOf _ it, .list xs => chkItems ld pre 0 it xs
  | .listOf _ _, _ => .error (.type pre cut)
  | .optGroup _ _, .null => if item then .error (.type pre cut) else .ok ()
  | .optGroup _ fs, .dict kvs =>
    if leaflessKVs kvs then .ok ()          -- a mapping without leaves is invisible: the argument keeps its default
    else
    -- the per-class parser of the dataclass: its own `check_values` and `check_required` (keys relative to it)
    match walk ld pre pre.length fs (selected fs kvs) kvs with
    | .error e => .error e
    | .ok () => reqFields pre pre.length kvs fs
  | .optGroup _ _, _ => .error (.type pre cut)
  | .subcommands _ _, _ => .ok ()
/-- one level of a namespace against one level of a parser -/
def walk (ld : String → Val) (pre : Path) (cut : Nat) (fs : Fields) (sel : Option String) : KV → R
  | [] => .ok ()
  | (k, v) :: r =>
    match slotOf fs k with
    | .field n =>
      match chkVal ld (pre ++ [.key k]) cut false n v with
      | .error e => .error e
      | .ok () => walk ld pre cut fs sel r
    | .sect cfs =>
      if sel = some k then
        -- the section of the selected subcommand: its keys continue the dotted key, like a group of dotted arguments
        match chkVal ld (pre ++ [.key k]) cut false (.group false cfs) v with
        | .error e => .error e
        | .ok () => walk ld pre cut fs sel r
      else walk ld pre cut fs sel r            -- section of a non-selected subcommand: removed, never validated
    | .none =>
      if metaLeaf k v then walk ld pre cut fs sel r       -- filtered out of `get_sorted_keys`: never looked at
      else
      match appendSlot fs k with
      | some (b, n) =>
        -- `k+` of a list-typed argument `k`: consumed by `apply_appends`, the elements are checked
        if appendOk ld n v then walk ld pre cut fs sel r else .error (.type (pre ++ [.key b]) cut)
      | none =>
        if leafless v then walk ld pre cut fs sel r   -- a namespace without leaves is invisible
        else .error (.unknown (pre ++ [.key k] ++ (deepPath v).map .key) cut)
/-- the entries of a class specification `{class_path, init_args, dict_kwargs}` -/
def chkCls (ld : String → Val) (pre : Path) (cfs : Fields) : KV → R
  | [] => .ok ()
  | (k, v) :: r =>
    if k = "class_path" then chkCls ld pre cfs r
    else if k = "init_args" then
      -- `parser.parse_object(init_args)` on the per-class parser: its own `validate`; a non-mapping (also `null`) is refused
      match chkVal ld (pre ++ [.key "init_args"]) pre.length true (.group true cfs) v with
      | .error e => .error e
      | .ok () => chkCls ld pre cfs r
    else if k = "dict_kwargs" then chkCls ld pre cfs r      -- not looked into
    else if k = "__path__" then chkCls ld pre cfs r         -- `is_subclass_spec` allows exactly this fourth key
    else .error (.unknown (pre ++ [.key k]) pre.length)
def chkItems (ld : String → Val) (pre : Path) (i : Nat) (it : Node) : List Val → R
  | [] => .ok ()
  | x :: r =>
    match chkVal ld (pre ++ [.idx i]) (pre.length + 1) true it x with
    | .error e => .error e
    | .ok () => chkItems ld pre (i + 1) it r
end

/-- `ArgumentParser.validate` as the parse methods apply it to the merged configuration -/
def validate (ld : String → Val) (fs : Fields) (kvs : KV) : R :=
  chkVal ld [] 0 true (.group false fs) (.dict kvs)


/-! ## the action table of a parser (`parser._actions`, `option_strings`, `parser.required_args`)

Option strings are kept without the leading `--`.  Sub-parsers of subcommands are listed with the
prefix `choice:` in front of the dest (one table per parser level). -/

inductive ActKind where
  | arg      -- a typed argument
  | cls      -- a class-typed argument: `--dest.<anything>` is routed to it
  | whole    -- `_ActionConfigLoad` of a group key
  | sub      -- the subcommands action
deriving DecidableEq, Repr, Inhabited

structure Act where
  level : String
  dest : String
  optKeys : List String
  kind : ActKind
  required : Bool
deriving DecidableEq, Repr, Inhabited

def itemIsClass : Node → Bool
  | .classArg _ _ _ => true
  | _ => false

mutual
def flatten (level pre : String) : Fields → List Act
  | [] => []
  | (name, node) :: r => flattenNode level pre name node ++ flatten level pre r
def flattenNode (level pre name : String) : Node → List Act
  | .leaf ty req _ =>
    [⟨level, pre ++ name, (pre ++ name) :: (if hasPlus ty then [pre ++ name ++ "+"] else []), .arg, req⟩]
  | .classArg req _ _ => [⟨level, pre ++ name, [pre ++ name], .cls, req⟩]
  | .listOf req it =>
    [⟨level, pre ++ name, [pre ++ name, pre ++ name ++ "+"], if itemIsClass it then .cls else .arg, req⟩]
  | .optGroup req _ => [⟨level, pre ++ name, [pre ++ name], .cls, req⟩]     -- `--dest.<field>` is routed to the argument
  | .group whole gfs =>
    (if whole then [⟨level, pre ++ name, [pre ++ name], .whole, false⟩] else []) ++ flatten level (pre ++ name ++ ".") gfs
  | .subcommands req cs => ⟨level, pre ++ name, [], .sub, req⟩ :: flattenChoices level cs
def flattenChoices (level : String) : Choices → List Act
  | [] => []
  | (c, cfs) :: r => flatten (level ++ c ++ ":") "" cfs ++ flattenChoices level r
end

/-- `_is_branch_key` on the strings (characters): some destination continues the key AFTER A "." —
    `action.dest.startswith(key + ".")`.  The boundary matters: `epoch` is not a branch of `epochs`. -/
def isBranchKeyL (dests : List (List Char)) (key : List Char) : Bool :=
  dests.any fun d => (key ++ ['.']).isPrefixOf d

/-- `_is_branch_key(parser, key)` for the parser at `level` and a key whose root is not a subcommand name -/
def isBranchKey (acts : List Act) (level key : String) : Bool :=
  isBranchKeyL ((acts.filter fun a => a.level = level).map fun a => a.dest.toList) key.toList

/-- is the option `--k` (given at parser level `level`) one of the parser's options? -/
def recognised (acts : List Act) (level k : String) : Bool :=
  acts.any fun a => a.level = level && (a.optKeys.contains k || (a.kind = .cls && (a.dest ++ ".").isPrefixOf k))

/-- `parse_args`: the first leftover argument is reported as "Unrecognized arguments" -/
def argvCheck (acts : List Act) : List (String × String) → R
  | [] => .ok ()
  | (level, k) :: r => if recognised acts level k then argvCheck acts r else .error (.unrecognized k)

/-- the argv channel: leftovers first, then the configuration the arguments amount to -/
def parseArgv (ld : String → Val) (fs : Fields) (opts : List (String × String)) (kvs : KV) : R :=
  match argvCheck (flatten "" "" fs) opts with
  | .error e => .error e
  | .ok () => validate ld fs kvs

/-! ## C07 — four ways of declaring the nested group `key` with the fields `fields` -/

structure Field where
  name : String
  ty : Ty
  default : Option Val
deriving Repr, Inhabited

/-- one argument of the group: `name` relative to the group, `dest`/`optKeys` as the parser holds them -/
structure Entry where
  name : String
  dest : String
  optKeys : List String
  ty : Ty
  default : Val
deriving Repr, Inhabited

structure Table where
  entries : List Entry
  required : List String        -- `parser.required_args`
  whole : Option String         -- the option of the `_ActionConfigLoad` for the group key, if there is one
deriving Repr, Inhabited

/-- `ActionsContainer.add_argument("--" ++ k, type=ty, default=d | required=True)` for a typed argument:
    the action (an `--k+` option is added for list types) and what goes into `required_args` -/
def addArgument (name k : String) (ty : Ty) (d : Option Val) : Entry × List String :=
  (⟨name, k, k :: (if hasPlus ty then [k ++ "+"] else []), ty, d.getD .null⟩, if d.isNone then [k] else [])

/-- style 1: `parser.add_argument("--key.name", ...)` for every field -/
def declDotted (key : String) (fields : List Field) : Table :=
  let rs := fields.map fun f => addArgument f.name (key ++ "." ++ f.name) f.ty f.default
  ⟨rs.map (·.1), (rs.map (·.2)).flatten, none⟩

/-- `_add_signature_parameter`, no default in the signature: `if is_optional(annotation): default = None` — for an annotation
    that is Optional of ANYTHING (`Optional[int]`, `Optional[List[int]]`, `Optional[Dict[..]]`, `Optional[Literal[..]]`, ...) -/
def normOptD (ty : Ty) (d : Option Val) : Option Val :=
  match d with
  | none => if isOptTy ty then some Val.null else none
  | some v => some v

/-- the same field as one states it on a plain argument: an Optional parameter without default is `default=None`, not required -/
def normOpt (f : Field) : Field := ⟨f.name, f.ty, normOptD f.ty f.default⟩

def sigParam (f : Field) : Option Field :=
  let d := normOptD f.ty f.default
  if d.isSome && f.name.front = '_' then none else some ⟨f.name, f.ty, d⟩

/-- style 3: `parser.add_class_arguments(Class, key)` — `_add_signature_arguments`: the group gets an
    `_ActionConfigLoad` `--key` when the signature has parameters, then one `add_argument` per parameter -/
def declClassArgs (key : String) (fields : List Field) : Table :=
  let ps := fields.filterMap sigParam
  let rs := ps.map fun f => addArgument f.name (key ++ "." ++ f.name) f.ty f.default
  ⟨rs.map (·.1), (rs.map (·.2)).flatten, if fields.isEmpty then none else some key⟩

/-- style 2: `parser.add_argument("--key", type=Dataclass)` — `add_argument` sees a dataclass-like type and
    calls `add_class_arguments(type, nested_key = "--key".lstrip("-"))` -/
def declDataclass (key : String) (fields : List Field) : Table := declClassArgs key fields

/-- style 4: an inner parser with `--name` arguments attached by `ActionParser` under `--key`:
    `_move_parser_actions` prefixes dests, option strings and `required_args` and adds `--key` -/
def declInnerParser (key : String) (fields : List Field) : Table :=
  let inner := fields.map fun f => addArgument f.name f.name f.ty f.default
  let innerRequired := (inner.map (·.2)).flatten
  ⟨inner.map (fun r => { r.1 with dest := key ++ "." ++ r.1.dest, optKeys := r.1.optKeys.map (fun o => key ++ "." ++ o) }),
   innerRequired.map (fun x => key ++ "." ++ x), some key⟩

inductive Style where | dotted | dataclass | classArgs | inner
deriving DecidableEq, Repr, Inhabited

/-- the four declarations of ONE field list: the dotted and inner-parser styles state an Optional field without default as
    `default=None` (`normOpt`), which is what the signature styles derive from the annotation -/
def decl : Style → String → List Field → Table
  | .dotted => fun key fields => declDotted key (fields.map normOpt)
  | .dataclass => declDataclass
  | .classArgs => declClassArgs
  | .inner => fun key fields => declInnerParser key (fields.map normOpt)

/-- the parser spec tree the table amounts to (for `validate`) -/
def specOf (key : String) (t : Table) : Fields :=
  [(key, .group t.whole.isSome (t.entries.map fun e => (e.name, .leaf e.ty (t.required.contains e.dest) (some e.default))))]

/-! ### the parse fold over a table -/

/-- Python dict assignment -/
def insert (k : String) (v : Val) : KV → KV
  | [] => [(k, v)]
  | (k', v') :: r => if k' = k then (k, v) :: r else (k', v') :: insert k v r

inductive Item where
  | opt (k : String) (raw : Val)      -- `--k=text` (raw = `.str text`); also an environment variable of the argument with option `k`
  | wholeOpt (v : Val)                -- `--key=<JSON>`: the loaded value
  | wholeEnv (v : Val)                -- the environment variable of the group key
  | tree (kvs : KV)                   -- a configuration: config string / file / object / `--cfg`
deriving Repr, Inhabited

def findEntry (t : Table) (k : String) : Option Entry := t.entries.find? fun e => e.optKeys.contains k

/-- `prev + (val if list else [val])` -/
def appendVal (ld : String → Val) (prev : Option Val) (raw : Val) : Val :=
  let p := match prev with
    | some (.list xs) => xs
    | _ => []
  match resolve ld raw with
  | .list ys => .list (p ++ ys)
  | y => .list (p ++ [y])

def setG (key name : String) (v : Val) (cfg : KV) : KV :=
  insert key (.dict (insert name v (kvsOf (assoc key cfg)))) cfg

def applyOpt (ld : String → Val) (t : Table) (key k : String) (raw : Val) (cfg : KV) : Except Err KV :=
  match findEntry t k with
  | none => .error (.unrecognized k)
  | some e =>
    let raw' := if k = e.dest ++ "+" then appendVal ld (assoc e.name (kvsOf (assoc key cfg))) raw else raw
    match adapt ld e.ty raw' with
    | some v => .ok (setG key e.name v cfg)
    | none => .error (.type [.key key, .key e.name] 0)

/-- the entries of a mapping given for the group (`_apply_actions` below the group key, then `merge_config`) -/
def applyGroup (ld : String → Val) (t : Table) (key : String) : KV → KV → Except Err KV
  | [], cfg => .ok cfg
  | (n, x) :: r, cfg =>
    match t.entries.find? (fun e => e.name = n) with
    | none => if leafless x then applyGroup ld t key r cfg else applyGroup ld t key r (setG key n x cfg)   -- kept; `validate` names it
    | some e =>
      match x with
      | .null => applyGroup ld t key r (setG key n .null cfg)
      | x =>
        match adapt ld e.ty x with
        | some v => applyGroup ld t key r (setG key n v cfg)
        | none => .error (.type [.key key, .key n] 0)

def applyTree (ld : String → Val) (t : Table) (key : String) : KV → KV → Except Err KV
  | [], cfg => .ok cfg
  | (k, v) :: r, cfg =>
    if k = key then
      match v with
      | .dict gkvs =>
        match applyGroup ld t key gkvs cfg with
        | .error e => .error e
        | .ok cfg' => applyTree ld t key r cfg'
      | .str s => if t.whole.isSome then .error (.type [.key key] 0) else applyTree ld t key r (insert key (.str s) cfg)
      | v => applyTree ld t key r (insert key v cfg)
    else if leafless v then applyTree ld t key r cfg
    else applyTree ld t key r (insert k v cfg)

def applyItem (ld : String → Val) (t : Table) (key : String) (cfg : KV) : Item → Except Err KV
  | .opt k raw => applyOpt ld t key k raw cfg
  | .wholeOpt v =>
    match t.whole with
    | none => .error (.unrecognized key)
    | some _ =>
      match v with
      | .dict gkvs =>
        -- `_ActionConfigLoad.__call__`: merged into the namespace held for the group, else it replaces what is there
        applyGroup ld t key gkvs (match assoc key cfg with
          | some (.dict _) => cfg
          | _ => insert key (.dict []) cfg)
      | _ => .error (.type [.key key] 0)
  | .wholeEnv v =>
    match t.whole with
    | none => .ok cfg                       -- there is no action for the variable: never read
    | some _ =>
      match v with
      | .dict gkvs => applyGroup ld t key gkvs cfg
      | _ => .error (.type [.key key] 0)
  | .tree kvs => applyTree ld t key kvs cfg

def applyItems (ld : String → Val) (t : Table) (key : String) : List Item → KV → Except Err KV
  | [], cfg => .ok cfg
  | it :: r, cfg =>
    match applyItem ld t key cfg it with
    | .error e => .error e
    | .ok cfg' => applyItems ld t key r cfg'

def defaults7 (key : String) (t : Table) : KV := [(key, .dict (t.entries.map fun e => (e.name, e.default)))]

/-- defaults, then the sources in order (environment first), then `validate` -/
def parse7 (ld : String → Val) (t : Table) (key : String) (items : List Item) : Except Err KV :=
  match applyItems ld t key items (defaults7 key t) with
  | .error e => .error e
  | .ok cfg =>
    match validate ld (specOf key t) cfg with
    | .error e => .error e
    | .ok () => .ok cfg

end Jap.Validate

import Jap.Core.Channels
import Jap.Gen.ChannelSrc
/-!
E5 "Channels", typed part (property C05): what a TYPED position does with a setting, depending on the channel.

Every channel ends in `ActionTypeHint._check_type(value)`:
* the command line and the environment give it the TEXT of the option (a `str`),
* a config document / a Python object give it the loaded VALUE (a `str` only when the setting is a string).

`_check_type` keeps `orig_val = value`, loads a `str` with `parse_value_or_config` (`load_value` without
`simple_types`: only `None`, lists and dicts replace the text, scalars stay the text) and calls `adapt_typehints`;
when that fails and `orig_val` is a `str`, it tries once more with the text itself.  `adapt_typehints` is
transcribed for the type grammar

    int | float | bool | str | NoneType | Enum | Union[…] (Optional) | List[T] | Dict[str, T] | Tuple[T, …]
    | Tuple[T1, …, Tn] | TypedDict (total)

with the `orig_val` mechanism of the `Union` branch ("a non-str value that no member accepts, while the user typed a
string: keep the text for the `str` member") and the per-item reset of `orig_val` in the container branches.  WHETHER
each container branch resets it is regenerated from the source (`Jap.Gen.ChannelSrc.origReset*`); the statements of
the transcribed branches are pinned (`tie_src_*`, Lemmas/ChannelsSrcTie.lean).

The two loaders are PARAMETERS (`L` = `load_value(simple_types=True)` i.e. `load_basic` + the mode's loader,
`Y` = `json_or_yaml_load`): scalar resolution of arbitrary text is C01's subject; the theorems hold for every
loader and only ask that both read the option's text as the value in question.

Outside: `Literal`, `Set`, registered types (`PositiveInt` …), `Any`, paths, class/dataclass types, `--k+` appends
(`append=True`), `--k.item` (`NestedArg`), the `val == default` early return of the retry call, float overflow.
-/
namespace Jap.Channels.Typed
open Jap.Channels

/-- Python values as loaders produce them and `adapt_typehints` returns them -/
inductive PV where
  | none
  | bool (b : Bool)
  | int (i : Int)
  /-- a float, as its JSON number token -/
  | num (t : NumTok)
  /-- `float(i)`: what an int becomes at a float position -/
  | fint (i : Int)
  | str (s : String)
  | list (xs : List PV)
  | dict (kvs : List (String × PV))
  /-- the result at a `Tuple` position -/
  | tuple (xs : List PV)
deriving Repr, Inhabited

inductive Ty where
  | int | float | bool | str | none
  | enum (names : List String)
  | union (ts : List Ty)
  | list (t : Ty)
  | dict (t : Ty)
  | tupleVar (t : Ty)
  | tuple (ts : List Ty)
  /-- a total `TypedDict`: field names and field types (parallel lists) -/
  | tdict (names : List String) (ts : List Ty)
deriving Repr, Inhabited

def PV.isStr : PV → Bool
  | .str _ => true
  | _ => false

def Ty.isStr : Ty → Bool
  | .str => true
  | _ => false

def Ty.isNone : Ty → Bool
  | .none => true
  | _ => false

/-- `get_typehint_origin(x) in sequence_or_mapping_origin_types` -/
def Ty.isSeqOrMap : Ty → Bool
  | .list _ => true
  | .dict _ => true
  | .tdict _ _ => true
  | _ => false

/-- `json_or_yaml_load`: a blank string is returned as it is -/
def yload (Y : String → PV) (s : String) : PV :=
  if strip s.toList = [] then .str s else Y s

/-- basic types: `if isinstance(val, str) and typehint is not str: val = json_or_yaml_load(val)` -/
def leafVal (Y : String → PV) : PV → PV
  | .str s => yload Y s
  | v => v

/-- the `orig_val` a container branch hands to its items -/
def itemOrig (reset : Bool) (o : Option String) : Option String := if reset then Option.none else o

def zipKeys (kvs : List (String × PV)) (vs : List PV) : List (String × PV) :=
  List.zipWith (fun kv v => (kv.1, v)) kvs vs

mutual
/-- `adapt_typehints(val, typehint, orig_val=o)`; `none` = ValueError -/
def adapt (Y : String → PV) (o : Option String) : Ty → PV → Option PV
  | .int, v =>
    match leafVal Y v with
    | .int i => some (.int i)
    | _ => Option.none
  | .float, v =>
    match leafVal Y v with
    | .num t => some (.num t)
    | .fint i => some (.fint i)
    | .int i => some (.fint i)
    | _ => Option.none
  | .bool, v =>
    match leafVal Y v with
    | .bool b => some (.bool b)
    | _ => Option.none
  | .none, v =>
    match leafVal Y v with
    | .none => some .none
    | _ => Option.none
  | .str, v =>
    match v with
    | .str s => some (.str s)
    | _ => Option.none
  | .enum names, v =>
    match v with
    | .str s => if names.contains s then some (.str s) else Option.none
    | _ => Option.none
  | .union ts, v =>
    -- sort_subtypes_for_union (stable): NoneType first; for a str value lists/dicts next; the first member that accepts wins
    match (match v with
           | .str _ =>
             (tryM Y o (fun t => t.isNone) ts v
               <|> tryM Y o (fun t => !t.isNone && t.isSeqOrMap) ts v
               <|> tryM Y o (fun t => !t.isNone && !t.isSeqOrMap) ts v)
           | _ => (tryM Y o (fun t => t.isNone) ts v <|> tryM Y o (fun t => !t.isNone) ts v)) with
    | some r => some r
    | Option.none =>
      -- `if subtype is str and not isinstance(val, str) and isinstance(orig_val, str): vals.append(orig_val)`
      if ts.any Ty.isStr && !v.isStr then o.map PV.str else Option.none
  | .list t, v =>
    match v with
    | .list xs => (traverse (fun x => adapt Y (itemOrig Jap.Gen.ChannelSrc.origResetList o) t x) xs).map PV.list
    | .tuple xs => (traverse (fun x => adapt Y (itemOrig Jap.Gen.ChannelSrc.origResetList o) t x) xs).map PV.list
    | _ => Option.none
  | .dict t, v =>
    match v with
    | .dict kvs =>
      (traverse (fun kv => adapt Y (itemOrig Jap.Gen.ChannelSrc.origResetDict o) t kv.2) kvs).map (fun vs => PV.dict (zipKeys kvs vs))
    | _ => Option.none
  | .tupleVar t, v =>
    match v with
    | .list xs => (traverse (fun x => adapt Y (itemOrig Jap.Gen.ChannelSrc.origResetTupleSet o) t x) xs).map PV.tuple
    | .tuple xs => (traverse (fun x => adapt Y (itemOrig Jap.Gen.ChannelSrc.origResetTupleSet o) t x) xs).map PV.tuple
    | _ => Option.none
  | .tuple ts, v =>
    match v with
    | .list xs => (adaptZip Y (itemOrig Jap.Gen.ChannelSrc.origResetTupleSet o) ts xs).map PV.tuple
    | .tuple xs => (adaptZip Y (itemOrig Jap.Gen.ChannelSrc.origResetTupleSet o) ts xs).map PV.tuple
    | _ => Option.none
  | .tdict names ts, v =>
    match v with
    | .dict kvs =>
      -- missing required keys / unexpected keys; then every item against its field's type
      if names.all (fun n => kvs.any (fun kv => kv.1 == n)) && kvs.all (fun kv => names.contains kv.1) then
        (traverse (fun kv => adaptField Y (itemOrig Jap.Gen.ChannelSrc.origResetTypedDict o) names ts kv.1 kv.2) kvs).map
          (fun vs => PV.dict (zipKeys kvs vs))
      else Option.none
    | _ => Option.none

/-- the first member (in list order) among those selected by `p` that accepts the value -/
def tryM (Y : String → PV) (o : Option String) (p : Ty → Bool) : List Ty → PV → Option PV
  | [], _ => Option.none
  | t :: r, v =>
    if p t then
      match adapt Y o t v with
      | some x => some x
      | Option.none => tryM Y o p r v
    else tryM Y o p r v

/-- `Tuple[T1, …, Tn]`: as many items as types, item `n` against type `n` -/
def adaptZip (Y : String → PV) (o : Option String) : List Ty → List PV → Option (List PV)
  | [], [] => some []
  | t :: r, x :: xs =>
    match adapt Y o t x with
    | Option.none => Option.none
    | some y =>
      match adaptZip Y o r xs with
      | Option.none => Option.none
      | some ys => some (y :: ys)
  | _, _ => Option.none

/-- the value of field `k` against `typehint.__annotations__[k]` -/
def adaptField (Y : String → PV) (o : Option String) : List String → List Ty → String → PV → Option PV
  | n :: ns, t :: r, k, v => if n = k then adapt Y o t v else adaptField Y o ns r k v
  | _, _, _, _ => Option.none
end

/-! ## `load_value` / `parse_value_or_config` / `_check_type` -/

/-- `load_value(value)` with `simple_types=False`: `-` stays; a loaded int / float / bool / str is replaced by the text -/
def loadValue (L : String → PV) (s : String) : PV :=
  if strip s.toList = ['-'] then .str s
  else match L s with
    | .none => .none
    | .list xs => .list xs
    | .dict kvs => .dict kvs
    | _ => .str s

/-- `parse_value_or_config(value, enable_path=False)`: only a non-blank `str` is loaded -/
def parseValue (L : String → PV) : PV → PV
  | .str s =>
    if strip s.toList = [] then .str s
    else match loadValue L s with
      | .str _ => .str s
      | p => p
  | v => v

def origOf : PV → Option String
  | .str s => some s
  | _ => Option.none

/-- `ActionTypeHint._is_valid_string` -/
def isValidString (t : Ty) (v : PV) : Bool :=
  v.isStr && (t.isStr || (match t with
    | .union ts => ts.any Ty.isStr
    | _ => false))

/-- `ActionTypeHint._check_type(value)` of an option that is not list-valued; `none` = TypeError.
    The command line / the environment call it with `.str text`, documents / objects with the loaded value. -/
def checkType (L Y : String → PV) (t : Ty) (v : PV) : Option PV :=
  match adapt Y (origOf v) t (parseValue L v) with
  | some r => some r
  | Option.none =>
    match (match v with
           | .str s => adapt Y (origOf v) t (.str s)      -- `if isinstance(orig_val, str)`: once more with the text
           | _ => Option.none) with
    | some r => some r
    | Option.none => if isValidString t (parseValue L v) then some (parseValue L v) else Option.none

/-- the setting `v` through a TEXT channel, spelled `s` -/
def viaText (L Y : String → PV) (t : Ty) (s : String) : Option PV := checkType L Y t (.str s)

/-- the setting `v` through a VALUE channel -/
def viaValue (L Y : String → PV) (t : Ty) (v : PV) : Option PV := checkType L Y t v

/-! ## hypotheses of the typed channel theorem -/

mutual
/-- no `str` reachable from the top of the type through Unions (and through the fields of a TypedDict should its branch
    not reset `orig_val`; it does since /repo 6fc0048, the fact is regenerated): the option's text can not be taken for a `str` member -/
def noStrTop : Ty → Bool
  | .str => false
  | .union ts => noStrTopAll ts
  | .tdict _ ts => Jap.Gen.ChannelSrc.origResetTypedDict || noStrTopAll ts
  | _ => true
def noStrTopAll : List Ty → Bool
  | [] => true
  | t :: r => noStrTop t && noStrTopAll r
end

mutual
/-- the text is not the name of a member of an Enum reachable from the top through Unions -/
def noEnumName (s : String) : Ty → Bool
  | .enum names => !names.contains s
  | .union ts => noEnumNameAll s ts
  | _ => true
def noEnumNameAll (s : String) : List Ty → Bool
  | [] => true
  | t :: r => noEnumName s t && noEnumNameAll s r
end

/-- what a document can hold at the top that is not a string -/
def jsonTop : PV → Bool
  | .none => true
  | .bool _ => true
  | .int _ => true
  | .num _ => true
  | .list _ => true
  | .dict _ => true
  | _ => false

def isContainerVal : PV → Bool
  | .list _ => true
  | .dict _ => true
  | .tuple _ => true
  | _ => false

/-- a loader given by a finite table (the driver's instance: the harness supplies what the real loaders return) -/
def tableLoader (tab : List (String × PV)) (s : String) : PV :=
  match tab.find? (fun e => e.1 == s) with
  | some e => e.2
  | Option.none => .str s

end Jap.Channels.Typed

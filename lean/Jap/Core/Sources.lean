import Jap.Lemmas.NamespaceSpec
/-!
Engine "Sources" (C04) — model of the precedence pipeline of `ArgumentParser` AS THE CODE IMPLEMENTS IT,
and the ten-line reference fold it is compared with.

Anchors (jsonargparse): `_core.py` `_parse_defaults_and_environ`, `get_defaults`, `_load_env_vars`,
`parse_args`/`parse_object`/`parse_string`/`parse_env`, `merge_config`, `_apply_actions`;
`_actions.py` `ActionConfigFile.apply_config`; `_namespace.py` `update`; `_typehints.py` `apply_appends`,
`ActionTypeHint.__call__` (append / `NestedArg`), `adapt_typehints` (List append branch, Dict `NestedArg` branch);
`_formatters.py` `get_env_var`.

Namespaces are the `Jap.NS.KV` trees of engine E1; assignment / read / pop are the one-pass `setK`/`getK`/`delK`
(proved equal to `__setitem__`/`__getitem__`/`__delitem__` whenever no dict value is on the key path, C11).
Imports only Mathlib-free modules.

Outside the model: argparse tokenisation (`--k=v` and `--k v` are one item), glob / expanduser (the ordered
list of matching default config files is an input), the loaders (trees arrive parsed), type adaptation (values are
in normal form: C02's subject), groups, links, positionals.  Subcommand levels and the `default_env` switch over the
parser tree: Core/SourcesSub.lean.
-/
namespace Jap.Src
open Jap.NS

abbrev Key := List SKey

inductive Kind where
  | scalar | list | dict | config
deriving DecidableEq, Repr, Inhabited

/-- a leaf argument of the parser: `add_argument("--<dest>", type=…, default=…)`;
    `config` is the `ActionConfigFile` argument (its default is `None`) -/
structure Arg where
  dest : Key
  kind : Kind
  default : V
deriving Inhabited

structure Parser where
  args : List Arg                 -- in `add_argument` order (`parser._actions`)
  envPrefix : Option String       -- `env_prefix` when it is a string
  defaultEnv : Bool               -- the `default_env` constructor argument
  osDefaultEnv : Option String    -- `JSONARGPARSE_DEFAULT_ENV` at construction time
deriving Inhabited

/-- `_find_action`: first action whose dest is the key -/
def findArg (p : Parser) (k : Key) : Option Arg := p.args.find? (fun a => a.dest = k)

def nonNs : V → Bool
  | .ns _ => false
  | _ => true

/-! ### `key+` names -/

def plusSeg (s : SKey) : SKey := ⟨s.marked, String.ofList (s.name.toList ++ ['+'])⟩
def isPlusSeg (s : SKey) : Bool := s.name.toList.getLast? == some '+'
def baseSeg (s : SKey) : SKey := ⟨s.marked, String.ofList s.name.toList.dropLast⟩

/-- `key + "+"` -/
def plus : Key → Key
  | [] => []
  | [s] => [plusSeg s]
  | s :: r => s :: plus r
/-- `key.endswith("+")` -/
def isPlus : Key → Bool
  | [] => false
  | [s] => isPlusSeg s
  | _ :: r => isPlus r
/-- `key[:-1]` -/
def base : Key → Key
  | [] => []
  | [s] => [baseSeg s]
  | s :: r => s :: base r

/-! ### values -/

/-- the list held so far (`adapt_typehints`, sequence branch with `append`): `None` ⇒ `[]`; a previous SCALAR (a key typed
    `Union[int, List[int]]`; 0 and "" included) is promoted to the one-element list; anything else that is no list ⇒ `[]` -/
def listOf : Option V → List V
  | some (.lst xs) => xs
  | some (.atom a) => [.atom a]
  | _ => []
def toList : V → List V
  | .lst xs => xs
  | v => [v]
/-- `prev_val + (val if val_is_list else [val])` -/
def appendVal (prev : Option V) (v : V) : V := .lst (listOf prev ++ toList v)
/-- the dict held so far (`NestedArg` on a mapping: `{**prev_val, key: val}` if `prev_val` is a dict, else `{key: val}`) -/
def dictOf : Option V → KV
  | some (.dct d) => d
  | _ => []
/-- `if not isinstance(cfg.get(dest), list): cfg[dest] = []`, then `cfg[dest].append(cfg_path)`: the bookkeeping list of the config
    argument; NOTHING is promoted here -/
def noteList : Option V → List V
  | some (.lst xs) => xs
  | _ => []
def noteVal (prev : Option V) : V := .lst (noteList prev ++ [.none])
def itemVal (prev : Option V) (i : SKey) (v : V) : V := .dct (insert i v (dictOf prev))

/-! ### leaves of a namespace (`Namespace.items()`: depth first, storage order, dotted keys as segment lists) -/

def consAll (k : SKey) (l : List (Key × V)) : List (Key × V) := l.map (fun kv => (k :: kv.1, kv.2))

mutual
def leaves : KV → List (Key × V)
  | [] => []
  | (k, v) :: r => leavesV k v ++ leaves r
def leavesV (k : SKey) : V → List (Key × V)
  | .ns sub => consAll k (leaves sub)
  | v => [([k], v)]
end

/-! ### `merge_config` -/

/-- `Namespace.update(cfg_from)`: `self[key] = val` for every leaf item of `cfg_from` -/
def update (frm to : KV) : KV := foldSet (leaves frm) to

/-- one round of the loop of `apply_appends` for the key `kv.1` (which ends with "+") -/
def appendStep (p : Parser) (c : KV) (kv : Key × V) : KV :=
  match findArg p (base kv.1) with
  | some a =>
    if a.kind = .list then
      match getK kv.1 c with                                              -- `cfg[key]`
      | some v => delK kv.1 (setK a.dest (appendVal (getK a.dest c) v) c)  -- `cfg[key[:-1]] = val; cfg.pop(key)`
      | .none => c
    else c
  | .none => c

/-- `ActionTypeHint.apply_appends`: the keys of `cfg` that end with "+", in `cfg.keys()` order -/
def applyAppends (p : Parser) (c : KV) : KV :=
  ((leaves c).filter (fun kv => isPlus kv.1)).foldl (appendStep p) c

/-- `merge_config(cfg_from, cfg_to)`: clone both, `cfg_to.update(cfg_from)`, `apply_appends(cfg_to)` -/
def mergeConfig (p : Parser) (frm to : KV) : KV := applyAppends p (update frm to)

/-! ### `_apply_actions` on a loaded config (values are in normal form, so only the expansion matters) -/

/-- `str.split(".")` on the characters (kernel-reducible, unlike `String.splitOn`) -/
def splitDots : List Char → List Char → List (List Char)
  | acc, [] => [acc.reverse]
  | acc, c :: r => if c = '.' then acc.reverse :: splitDots [] r else splitDots (c :: acc) r
def splitSeg (s : SKey) : Key := (splitDots [] s.name.toList).map (fun n => ⟨false, String.ofList n⟩)
/-- `Namespace(dict)`: `self[key] = val` for every item, dotted keys make branches -/
def nsOfDict (kvs : KV) : KV := kvs.foldl (fun c kv => setK (splitSeg kv.1) kv.2 c) []

/-- a dict value at a key that has no action is turned into a namespace and its keys are visited in turn;
    a value at a key that has an action is kept as it is -/
def expandV (p : Parser) : Nat → Key → V → V
  | 0, _, v => v
  | f+1, key, .dct sub =>
    if (findArg p key).isSome then .dct sub
    else .ns ((nsOfDict sub).map (fun kv => (kv.1, expandV p f (key ++ [kv.1]) kv.2)))
  | f+1, key, .ns sub =>
    if (findArg p key).isSome then .ns sub
    else .ns (sub.map (fun kv => (kv.1, expandV p f (key ++ [kv.1]) kv.2)))
  | _+1, _, v => v

/-- `_apply_actions(cfg_dict)` (`_load_config_parser_mode`, `parse_object`); nesting deeper than 32 is outside the model -/
def expand (p : Parser) (t : KV) : KV :=
  (nsOfDict t).map (fun kv => (kv.1, expandV p 32 [kv.1] kv.2))

/-! ### sources -/

inductive Item where
  | set (k : Key) (v : V)               -- `--k=v`, `--k v`
  | append (k : Key) (v : V)            -- `--k+=v`
  | item (k : Key) (i : SKey) (v : V)   -- `--k.i=v` for a dict-typed `k`
  | cfg (k : Key) (t : KV)              -- `--cfg file` / `--cfg '{…}'` (the loaded content)
deriving Inhabited

structure Sources where
  files : List (Option KV)     -- contents of the existing default config files, in the order listed (`none`: empty file)
  env : List (String × V)      -- environment: variable name ↦ value (config variable: the loaded content as `.dct`)
  argv : List Item
deriving Inhabited

/-- `ActionConfigFile.apply_config`: parse without defaults/env, merge into the namespace being built, note the path
    (`if not isinstance(cfg.get(dest), list): cfg[dest] = []`, then `cfg[dest].append(cfg_path)`) -/
def applyConfigE (p : Parser) (dest : Key) (e : KV) (c : KV) : KV :=
  let m := mergeConfig p e c
  setK dest (noteVal (getK dest m)) m
def applyConfig (p : Parser) (dest : Key) (t : KV) (c : KV) : KV := applyConfigE p dest (expand p t) c

/-- action defaults (first part of `get_defaults`) -/
def defaults (p : Parser) : KV := foldSet (p.args.map (fun a => (a.dest, a.default))) []

/-- `get_defaults`: action defaults, then every default config file merged in the order listed -/
def getDefaults (p : Parser) (files : List (Option KV)) : KV :=
  files.foldl (fun c f => match f with
    | some t => mergeConfig p (expand p t) c
    | .none => c) (defaults p)

def replaceChar (a : Char) (b : List Char) (cs : List Char) : List Char :=
  cs.flatMap (fun c => if c = a then b else [c])
def dotted : Key → List Char
  | [] => []
  | [s] => s.name.toList
  | s :: r => s.name.toList ++ '.' :: dotted r

/-- `get_env_var`: `(prefix.replace("-","_") + "_" + dest).replace(".","__").upper()` (ASCII names) -/
def envName (p : Parser) (a : Arg) : String :=
  let pre := match p.envPrefix with
    | some s => replaceChar '-' ['_'] s.toList ++ ['_']
    | .none => []
  String.ofList ((replaceChar '.' ['_', '_'] (pre ++ dotted a.dest)).map Char.toUpper)

def envLookup (name : String) : List (String × V) → Option V
  | [] => .none
  | (n, v) :: r => if n = name then some v else envLookup name r

/-- first loop of `_load_env_vars`: the config variable -/
def envCfgStep (p : Parser) (env : List (String × V)) (c : KV) (a : Arg) : KV :=
  if a.kind = .config then
    match envLookup (envName p a) env with
    | some (.dct t) => applyConfig p a.dest t c
    | _ => c
  else c
/-- third loop of `_load_env_vars`: individual variables, in action order -/
def envVarStep (p : Parser) (env : List (String × V)) (c : KV) (a : Arg) : KV :=
  if a.kind = .config then c
  else match envLookup (envName p a) env with
    | some v => setK a.dest v c
    | .none => c

/-- `_load_env_vars`: starts from an EMPTY namespace -/
def loadEnv (p : Parser) (env : List (String × V)) : KV :=
  p.args.foldl (envVarStep p env) (p.args.foldl (envCfgStep p env) [])

/-- the `default_env` property setter -/
def effectiveDefaultEnv (osVar : Option String) (flag : Bool) : Bool :=
  match osVar.map (fun s => String.ofList (s.toList.map Char.toLower)) with
  | some "true" => true
  | some "false" => false
  | _ => flag

def envOn (p : Parser) : Bool := effectiveDefaultEnv p.osDefaultEnv p.defaultEnv

/-- `_parse_defaults_and_environ(defaults=True, env)` -/
def defaultsAndEnviron (p : Parser) (src : Sources) (env : Bool) : KV :=
  let c := getDefaults p src.files
  if env then mergeConfig p (loadEnv p src.env) c else c

/-- one command line item applied to the namespace argparse is filling -/
def argvStep (p : Parser) (c : KV) : Item → KV
  | .set k v => setK k v c                                   -- `cfg.update(val, dest)`
  | .append k v => setK k (appendVal (getK k c) v) c         -- `_check_type_(val, append=True, cfg)`
  | .item k i v => setK k (itemVal (getK k c) i v) c         -- `NestedArg`
  | .cfg k t => applyConfig p k t c

def parseArgs (p : Parser) (src : Sources) : KV :=
  src.argv.foldl (argvStep p) (defaultsAndEnviron p src (envOn p))
def parseEnv (p : Parser) (src : Sources) : KV :=
  defaultsAndEnviron p src true
/-- `parse_string` (and `parse_path`): `merge_config(loaded, base)` -/
def parseString (p : Parser) (src : Sources) (t : KV) : KV :=
  mergeConfig p (expand p t) (defaultsAndEnviron p src (envOn p))
/-- `parse_object`: `merge_config(_apply_actions(obj), base)` -/
def parseObject (p : Parser) (src : Sources) (t : KV) : KV :=
  mergeConfig p (expand p t) (defaultsAndEnviron p src (envOn p))

/-! ### the arguments of a parse call: `defaults=`, `env=`, `parse_env(env=mapping)` -/

structure Call where
  defaults : Bool := true                              -- `defaults=`
  envArg : Option Bool := .none                        -- `env=` (`None`: the parser's `default_env`)
  environ : Option (List (String × V)) := .none        -- the mapping given to `parse_env`; `None`: `os.environ` (= `Sources.env`)
deriving Inhabited

/-- `env or (env is None and self._default_env)` -/
def envRead (p : Parser) (envArg : Option Bool) : Bool :=
  match envArg with
  | some b => b
  | .none => envOn p

/-- `if environ is None: environ = os.environ` — an EMPTY mapping stays the empty mapping -/
def environOf (src : Sources) (c : Call) : List (String × V) :=
  match c.environ with
  | some m => m
  | .none => src.env

/-- `cfg = Namespace(); if defaults: cfg = self.get_defaults(...)` -/
def baseCfg (p : Parser) (files : List (Option KV)) (defaults : Bool) : KV :=
  if defaults then getDefaults p files else []

/-- `_parse_defaults_and_environ(defaults, env, environ)` -/
def defaultsAndEnvironC (p : Parser) (src : Sources) (c : Call) : KV :=
  if envRead p c.envArg then mergeConfig p (loadEnv p (environOf src c)) (baseCfg p src.files c.defaults)
  else baseCfg p src.files c.defaults

def parseArgsC (p : Parser) (src : Sources) (c : Call) : KV :=
  src.argv.foldl (argvStep p) (defaultsAndEnvironC p src c)
/-- `parse_env(env=mapping, defaults=…)`: `_parse_defaults_and_environ(defaults, env=True, environ=mapping)` -/
def parseEnvC (p : Parser) (src : Sources) (c : Call) : KV :=
  defaultsAndEnvironC p src { c with envArg := some true }
/-- `parse_string` / `parse_path`: the base is merged only `if defaults or env` (the ARGUMENT `env`, not `default_env`);
    otherwise the loaded content is returned as it is, its `key+` entries unapplied -/
def parseStringC (p : Parser) (src : Sources) (c : Call) (t : KV) : KV :=
  if c.defaults || c.envArg == some true then mergeConfig p (expand p t) (defaultsAndEnvironC p src c)
  else expand p t
def parseObjectC (p : Parser) (src : Sources) (c : Call) (t : KV) : KV :=
  mergeConfig p (expand p t) (defaultsAndEnvironC p src c)

/-! ### `_get_default_config_files`: which default config files, in which order -/

def insertSorted (le : String → String → Bool) (x : String) : List String → List String
  | [] => [x]
  | y :: r => if le x y then x :: y :: r else y :: insertSorted le x r
/-- `sorted(...)` -/
def sortBy (le : String → String → Bool) : List String → List String
  | [] => []
  | x :: r => insertSorted le x (sortBy le r)

/-- for every entry of `default_config_files` IN THE LISTED ORDER: `sorted(glob.glob(pattern))`, appended; nothing is
    deduplicated — a file matched by two entries is applied at both positions.  `glob` is the abstract match relation
    (what `glob.glob` returns for an entry, in any order), `le` the order of `sorted` on paths -/
def defaultConfigFiles (le : String → String → Bool) (glob : String → List String) (patterns : List String) : List String :=
  patterns.flatMap (fun pat => sortBy le (glob pat))

/-- the contents in that order (`content f = none`: an empty file) -/
def resolveFiles (le : String → String → Bool) (glob : String → List String) (content : String → Option KV)
    (patterns : List String) : List (Option KV) :=
  (defaultConfigFiles le glob patterns).map content

/-! ### acceptance (only what the correspondence needs: unknown options and unknown keys are errors) -/

def kindOf (p : Parser) (k : Key) : Option Kind := (findArg p k).map (·.kind)

def itemOk (p : Parser) : Item → Bool
  | .set k _ => match kindOf p k with
    | some .config => false
    | some _ => true
    | .none => false
  | .append k _ => kindOf p k == some .list
  | .item k _ _ => kindOf p k == some .dict
  | .cfg k _ => kindOf p k == some .config

/-- `validate`: every leaf key has an action -/
def valid (p : Parser) (c : KV) : Bool := (leaves c).all (fun kv => (findArg p kv.1).isSome)

/-! ## THE REFERENCE: a left-to-right fold of assignments -/

inductive Assign where
  | set (k : Key) (v : V)
  | append (k : Key) (v : V)
  | item (k : Key) (i : SKey) (v : V)
  | note (k : Key)                       -- a config was given through the config argument `k`: its own list gets one more entry
deriving Inhabited

def Assign.key : Assign → Key
  | .set k _ => k
  | .append k _ => k
  | .item k _ _ => k
  | .note k => k

def refStep (c : KV) : Assign → KV
  | .set k v => setK k v c
  | .append k v => setK k (appendVal (getK k c) v) c
  | .item k i v => setK k (itemVal (getK k c) i v) c
  | .note k => setK k (noteVal (getK k c)) c

def refFold (as : List Assign) (c : KV) : KV := as.foldl refStep c

/-! ### flattening of every source, in order -/

/-- a config tree: its plain leaves, then its `key+` leaves (a mapping has no order; the code takes this one) -/
def asgTree (t : KV) : List Assign :=
  ((leaves t).filter (fun kv => !isPlus kv.1)).map (fun kv => .set kv.1 kv.2) ++
  ((leaves t).filter (fun kv => isPlus kv.1)).map (fun kv => .append (base kv.1) kv.2)

/-- a config given through the config argument: its content, then the note in the config argument's own list -/
def asgConfig (p : Parser) (dest : Key) (t : KV) : List Assign :=
  asgTree (expand p t) ++ [.note dest]

def asgDefaults (p : Parser) : List Assign := p.args.map (fun a => .set a.dest a.default)

def asgFiles (p : Parser) (files : List (Option KV)) : List Assign :=
  files.flatMap (fun f => match f with
    | some t => asgTree (expand p t)
    | .none => [])

def asgEnvCfg (p : Parser) (env : List (String × V)) : List Assign :=
  p.args.flatMap (fun a =>
    if a.kind = .config then
      match envLookup (envName p a) env with
      | some (.dct t) => asgConfig p a.dest t
      | _ => []
    else [])

def asgEnvVars (p : Parser) (env : List (String × V)) : List Assign :=
  p.args.flatMap (fun a =>
    if a.kind = .config then []
    else match envLookup (envName p a) env with
      | some v => [.set a.dest v]
      | .none => [])

def asgItem (p : Parser) : Item → List Assign
  | .set k v => [.set k v]
  | .append k v => [.append k v]
  | .item k i v => [.item k i v]
  | .cfg k t => asgConfig p k t

def asgArgv (p : Parser) (argv : List Item) : List Assign := argv.flatMap (asgItem p)

def asgBase (p : Parser) (src : Sources) (env : Bool) : List Assign :=
  asgDefaults p ++ asgFiles p src.files ++ (if env then asgEnvCfg p src.env ++ asgEnvVars p src.env else [])

/-- defaults ++ default config files ++ env config ++ env variables ++ command line -/
def asgAll (p : Parser) (src : Sources) : List Assign :=
  asgBase p src (envOn p) ++ asgArgv p src.argv

def asgBaseC (p : Parser) (src : Sources) (c : Call) : List Assign :=
  (if c.defaults then asgDefaults p ++ asgFiles p src.files else []) ++
  (if envRead p c.envArg then asgEnvCfg p (environOf src c) ++ asgEnvVars p (environOf src c) else [])

def asgAllC (p : Parser) (src : Sources) (c : Call) : List Assign := asgBaseC p src c ++ asgArgv p src.argv

/-! ### the reference, key by key: the value a key holds after a history of assignments -/

def stepKey (k : Key) (cur : Option V) : Assign → Option V
  | .set k' v => if k' = k then some v else cur
  | .append k' v => if k' = k then some (appendVal cur v) else cur
  | .item k' i v => if k' = k then some (itemVal cur i v) else cur
  | .note k' => if k' = k then some (noteVal cur) else cur

/-- `valueAfter h k` starting from `cur` -/
def evalKey (k : Key) (as : List Assign) (cur : Option V) : Option V := as.foldl (stepKey k) cur

def valueAfter (h : List Assign) (k : Key) : Option V := evalKey k h .none

/-! ## the domain of the theorems, as decidable predicates -/

/-- the two keys differ at some common position (neither is a prefix of the other) -/
def divergeB : Key → Key → Bool
  | a :: p, b :: q => if a = b then divergeB p q else true
  | _, _ => false

def pairwiseDiv : List Key → Bool
  | [] => true
  | k :: r => r.all (divergeB k) && pairwiseDiv r

/-- every key the parser gives a meaning to: the destinations, and `dest+` for list-typed ones -/
def allKeys (p : Parser) : List Key :=
  p.args.map (fun a => a.dest) ++ (p.args.filter (fun a => a.kind = .list)).map (fun a => plus a.dest)

/-- destinations are pairwise divergent (prefix-free and distinct, `dest+` included), none ends with "+",
    defaults are leaf values -/
def wfParser (p : Parser) : Bool :=
  pairwiseDiv (allKeys p) && p.args.all (fun a => !isPlus a.dest && !a.dest.isEmpty && nonNs a.default)

def nodupKeys : List (Key × V) → Bool
  | [] => true
  | x :: r => !(r.any (fun y => y.1 = x.1)) && nodupKeys r

/-- a loaded config (after `_apply_actions`): every leaf key is a destination or `dest+` of a list-typed one;
    `key+` leaves are distinct (true of any mapping) -/
def treeOk (p : Parser) (t : KV) : Bool :=
  (leaves t).all (fun kv => (allKeys p).contains kv.1) && nodupKeys ((leaves t).filter (fun kv => isPlus kv.1))

def isDest (p : Parser) (k : Key) : Bool := p.args.any (fun a => a.dest = k)

def itemWf (p : Parser) : Item → Bool
  | .set k v => isDest p k && nonNs v
  | .append k _ => isDest p k
  | .item k _ _ => isDest p k
  | .cfg k t => isDest p k && treeOk p (expand p t)

def envWf (p : Parser) (env : List (String × V)) : Bool :=
  p.args.all (fun a =>
    match envLookup (envName p a) env with
    | some v =>
      if a.kind = .config then
        match v with
        | .dct t => treeOk p (expand p t)
        | _ => true
      else nonNs v
    | .none => true)

/-- every key of every source is known to the parser and values are leaf values -/
def srcWf (p : Parser) (src : Sources) : Bool :=
  src.files.all (fun f => match f with
    | some t => treeOk p (expand p t)
    | .none => true)
  && envWf p src.env && src.argv.all (itemWf p)

/-- `srcWf` for a call: the environment that is read is the mapping of the call when one is given -/
def srcWfC (p : Parser) (src : Sources) (c : Call) : Bool :=
  src.files.all (fun f => match f with
    | some t => treeOk p (expand p t)
    | .none => true)
  && envWf p (environOf src c) && src.argv.all (itemWf p)

def Assign.isSet : Assign → Bool
  | .set _ _ => true
  | _ => false

/-- THE GUARD of `C04_order`, for one key: the environment makes only plain assignments to it
    (`key+` in the env config, and the env config's own bookkeeping entry, are the excluded class) -/
def envPlain (p : Parser) (env : List (String × V)) (k : Key) : Bool :=
  (asgEnvCfg p env ++ asgEnvVars p env).all (fun s => s.key != k || s.isSet)

/-- all plain assignments of a history, in order -/
def setsOf : List Assign → List (Key × V)
  | [] => []
  | .set k v :: r => (k, v) :: setsOf r
  | _ :: r => setsOf r

def noPlusLeaves (t : KV) : Bool := (leaves t).all (fun kv => !isPlus kv.1)

/-- sufficient for `envPlain` at every non-config key: the config given in the environment variable has no `key+` entry -/
def envNoAppend (p : Parser) (env : List (String × V)) : Bool :=
  p.args.all (fun a =>
    if a.kind = .config then
      match envLookup (envName p a) env with
      | some (.dct t) => noPlusLeaves (expand p t)
      | _ => true
    else true)

end Jap.Src

import Jap.Lemmas.Namespace
import Jap.Gen.YesNoWords
import Jap.Gen.ChannelTables
/-!
E5 "Channels" — the CHANNEL layer of the parser (property C05).

The same settings `S : List (Key × Val)` can reach a parser as command line
options, as a config document (nested or dotted mapping), as a Python object
(nested or dotted), or as environment variables.  This file models, as small
total functions,

* the *renderings*  `render : Parser → Channel → Settings → Source`
  (`--a.b=text`, mappings, `PREFIX_A__B`),
* the *addressing*: `dest`/`splitDot` (dotted spelling `a.b` ⇄ segments),
  `envVar` exactly as `_formatters.get_env_var` computes the variable name
  (prefix with `-`→`_`, plus `_`, plus dest; then `.`→`__`; then upper case),
* the *text of a value* `textOf` (= `json.dumps` on the grammar) and a small
  reader `loadText` for exactly that image, which is what `load_basic` and the
  JSON-superset loaders return on those texts (scalar resolution in general is
  the subject of C01; the type adapter is the subject of C02),
* `apply : Parser → Source → KV → Option KV`: decode the source into an
  assignment list and assign with `Jap.NS.setK` (the one-pass `__setitem__`
  of the Namespace model, `Lemmas/Namespace.lean`); `none` = rejected.

Order of assignment, as in the code: the command line assigns option by option
onto the running namespace (`cfg.update(val, dest)`); every other channel first
builds a fresh namespace (`Namespace(dict)` / `_load_env_vars`) and then merges
it into the base with `Namespace.update`, i.e. in `items()` order of the fresh
namespace — `groupOrder`: keys with the same first segment become contiguous,
recursively.

Imports only the Namespace model (core Lean otherwise).
-/
namespace Jap.Channels
open Jap.NS

/-! ## settings -/

/-- the exponent part of a JSON number token: `e`/`E`, optional sign, digits -/
structure ExpTok where
  upper : Bool
  sign : Option Bool          -- `some true` = '+', `some false` = '-', `none` = no sign (`1e5`)
  digits : List Char
deriving DecidableEq, Repr, Inhabited

/-- a JSON number TOKEN that is not an integer literal (it has a fraction or an exponent), kept exactly as written:
    sign, integer digits, optional fraction, optional exponent with optional sign -/
structure NumTok where
  neg : Bool
  ip : List Char
  frac : Option (List Char)
  exp : Option ExpTok
deriving DecidableEq, Repr, Inhabited

inductive Scalar where
  | int (i : Int)
  | bool (b : Bool)
  | null
  | str (s : String)
  | num (t : NumTok)
deriving DecidableEq, Repr, Inhabited

/-- the spelling of a yes/no setting: the word used where a channel carries text, and (optionally) the word given to
    the negated option `--no_k=word` -/
structure YWord where
  word : String
  negWord : Option String
deriving DecidableEq, Repr, Inhabited

inductive Val where
  | sc (s : Scalar)
  | list (xs : List Scalar)
  | dict (kvs : List (String × Int))
  /-- a boolean for an `ActionYesNo` option, with its spelling -/
  | yesno (w : YWord)
deriving DecidableEq, Repr, Inhabited

/-- a non-empty list of name segments -/
structure Key where
  head : String
  tail : List String
deriving DecidableEq, Repr, Inhabited

def Key.segs (k : Key) : List String := k.head :: k.tail

abbrev Settings := List (Key × Val)

/-! ## characters: ASCII upper/lower case by table (`str.upper()` on ASCII names) -/

def lookupC (c : Char) : List (Char × Char) → Option Char
  | [] => none
  | (a, b) :: r => if a = c then some b else lookupC c r

def upTable : List (Char × Char) :=
  [('a','A'),('b','B'),('c','C'),('d','D'),('e','E'),('f','F'),('g','G'),('h','H'),('i','I'),
   ('j','J'),('k','K'),('l','L'),('m','M'),('n','N'),('o','O'),('p','P'),('q','Q'),('r','R'),
   ('s','S'),('t','T'),('u','U'),('v','V'),('w','W'),('x','X'),('y','Y'),('z','Z')]

def lowTable : List (Char × Char) := upTable.map (fun p => (p.2, p.1))

def up (c : Char) : Char := match lookupC c upTable with | some d => d | none => c
def low (c : Char) : Char := match lookupC c lowTable with | some d => d | none => c

def upper (l : List Char) : List Char := l.map up
def lower (l : List Char) : List Char := l.map low

/-! ## addressing: dotted keys -/

/-- `".".join(segments)` -/
def joinDot : List (List Char) → List Char
  | [] => []
  | [x] => x
  | x :: y :: r => x ++ '.' :: joinDot (y :: r)

def consHead (c : Char) : List (List Char) → List (List Char)
  | [] => [[c]]
  | x :: r => (c :: x) :: r

/-- `key.split(".")` -/
def splitDot : List Char → List (List Char)
  | [] => [[]]
  | c :: r => if c = '.' then [] :: splitDot r else consHead c (splitDot r)

/-- the argument's `dest` (dotted spelling of the key) -/
def destL (k : Key) : List Char := joinDot (k.segs.map String.toList)
def dest (k : Key) : String := String.ofList (destL k)

/-- dotted spelling back to segments -/
def segsOf (s : List Char) : List String := (splitDot s).map String.ofList

/-! ## addressing: environment variable names (`get_env_var`) -/

/-- `prefix.replace("-", "_")` -/
def replDash (l : List Char) : List Char := l.map (fun c => if c = '-' then '_' else c)

/-- `.replace(".", "__")` -/
def replDots : List Char → List Char
  | [] => []
  | c :: r => if c = '.' then '_' :: '_' :: replDots r else c :: replDots r

/-- the prefix part before the dest: `env_prefix.replace("-","_") + "_"`, or nothing when `env_prefix` is not a string -/
def prefixL : Option String → List Char
  | some p => replDash p.toList ++ ['_']
  | none => []

def envVarL (pfx : Option String) (k : Key) : List Char :=
  upper (replDots (prefixL pfx ++ destL k))

def envVar (pfx : Option String) (k : Key) : String := String.ofList (envVarL pfx k)

/-- `s.split("__")` (leftmost, non-overlapping) -/
def splitDU : List Char → List (List Char)
  | [] => [[]]
  | [c] => [[c]]
  | c :: d :: r => if c = '_' ∧ d = '_' then [] :: splitDU r else consHead c (splitDU (d :: r))

def keyOfSegs : List String → Option Key
  | [] => none
  | h :: t => some ⟨h, t⟩

/-- recover the (lower-case) key from a variable name: drop the prefix part, split at `__`, lower-case -/
def keyOfEnvVar (pfx : Option String) (name : String) : Option Key :=
  let body := name.toList.drop (upper (replDots (prefixL pfx))).length
  keyOfSegs ((splitDU body).map (fun w => String.ofList (lower w)))

/-! ## `ActionYesNo._boolean_type`: the word table is regenerated from the source (Gen/YesNoWords) -/

def ynWord (l : List String) (w : List Char) : Bool := l.any (fun s => s.toList == w)

/-- a word to a boolean, as written: `x.lower() in accepted`, then `x.lower() in truthy` (each `.lower()` only if the source has it) -/
def boolWord (w : List Char) : Option Bool :=
  if ynWord Jap.Gen.ynAccepted (if Jap.Gen.ynAcceptedLowered then lower w else w) then
    some (ynWord Jap.Gen.ynTrue (if Jap.Gen.ynTrueLowered then lower w else w))
  else none

def ynBool (w : YWord) : Bool := (boolWord w.word.toList).getD false

/-! ## JSON number tokens -/

/-- `str.isdigit()` on ASCII -/
def isDigits (l : List Char) : Bool := !l.isEmpty && l.all Char.isDigit

/-- the integer part of a JSON number: `0` or a digit string that does not start with `0` -/
def canonInt (l : List Char) : Bool :=
  isDigits l && (match l with
    | [_] => true
    | c :: _ => c != '0'
    | [] => false)

def wfTok (t : NumTok) : Bool :=
  canonInt t.ip
  && (match t.frac with | some f => isDigits f | none => true)
  && (match t.exp with | some e => isDigits e.digits | none => true)
  && (t.frac.isSome || t.exp.isSome)

def signChars : Option Bool → List Char
  | some true => ['+']
  | some false => ['-']
  | none => []

def expChars (e : ExpTok) : List Char := (if e.upper then 'E' else 'e') :: (signChars e.sign ++ e.digits)

def fracChars : Option (List Char) → List Char
  | some f => '.' :: f
  | none => []

def expOptChars : Option ExpTok → List Char
  | some e => expChars e
  | none => []

def tokBody (t : NumTok) : List Char := t.ip ++ (fracChars t.frac ++ expOptChars t.exp)

def tokChars (t : NumTok) : List Char := if t.neg then '-' :: tokBody t else tokBody t

def readExp : List Char → Option ExpTok
  | [] => none
  | c :: r =>
    if c = 'e' ∨ c = 'E' then
      match r with
      | [] => none
      | d :: r' =>
        if d = '+' then (if isDigits r' then some ⟨decide (c = 'E'), some true, r'⟩ else none)
        else if d = '-' then (if isDigits r' then some ⟨decide (c = 'E'), some false, r'⟩ else none)
        else if isDigits (d :: r') then some ⟨decide (c = 'E'), none, d :: r'⟩ else none
    else none

/-- after the integer digits: optional fraction, optional exponent, nothing else; at least one of the two -/
def readTail (neg : Bool) (ip : List Char) : List Char → Option NumTok
  | [] => none
  | c :: r =>
    if c = '.' then
      if (r.takeWhile Char.isDigit).isEmpty then none
      else if (r.dropWhile Char.isDigit).isEmpty then some ⟨neg, ip, some (r.takeWhile Char.isDigit), none⟩
      else (readExp (r.dropWhile Char.isDigit)).map (fun e => ⟨neg, ip, some (r.takeWhile Char.isDigit), some e⟩)
    else (readExp (c :: r)).map (fun e => ⟨neg, ip, none, some e⟩)

def readNumBody (neg : Bool) (w : List Char) : Option NumTok :=
  if canonInt (w.takeWhile Char.isDigit) then readTail neg (w.takeWhile Char.isDigit) (w.dropWhile Char.isDigit) else none

def readNum : List Char → Option NumTok
  | [] => none
  | c :: r => if c = '-' then readNumBody true r else readNumBody false (c :: r)

/-! ## the canonical text of a value (`json.dumps`) -/

/-- characters that `json.dumps` writes as themselves inside a string literal -/
def safeChar (c : Char) : Bool :=
  decide (32 ≤ c.toNat) && decide (c.toNat < 127) && c != '"' && c != '\\'

def intChars (i : Int) : List Char :=
  if i < 0 then '-' :: Nat.toDigits 10 i.natAbs else Nat.toDigits 10 i.natAbs

def quoteL (s : List Char) : List Char := '"' :: (s ++ ['"'])

def scalarChars : Scalar → List Char
  | .int i => intChars i
  | .bool true => ['t', 'r', 'u', 'e']
  | .bool false => ['f', 'a', 'l', 's', 'e']
  | .null => ['n', 'u', 'l', 'l']
  | .str s => quoteL s.toList
  | .num t => tokChars t

/-- `", ".join(...)` -/
def joinSep : List (List Char) → List Char
  | [] => []
  | [x] => x
  | x :: y :: r => x ++ ',' :: ' ' :: joinSep (y :: r)

def pairChars (kv : String × Int) : List Char := quoteL kv.1.toList ++ ':' :: ' ' :: intChars kv.2

def valChars : Val → List Char
  | .sc s => scalarChars s
  | .list xs => '[' :: (joinSep (xs.map scalarChars) ++ [']'])
  | .dict kvs => '{' :: (joinSep (kvs.map pairChars) ++ ['}'])
  | .yesno w => scalarChars (.bool (ynBool w))          -- a document / object carries the boolean itself

def textOf (v : Val) : String := String.ofList (valChars v)

/-- the text of an option / environment variable: a string at a str-typed position is given as it is -/
def argChars : Val → List Char
  | .sc (.str s) => s.toList
  | v => valChars v

def argText (v : Val) : String := String.ofList (argChars v)

/-! ## the reader for exactly that image -/

/-- canonical decimal only: the digits must print back (no leading zeros, no empty string) -/
def readNat (ds : List Char) : Option Nat :=
  let n := Nat.ofDigitChars 10 ds 0
  if Nat.toDigits 10 n = ds then some n else none

def readInt : List Char → Option Int
  | [] => none
  | c :: r =>
    if c = '-' then
      match readNat r with
      | some n => if n = 0 then none else some (-(n : Int))
      | none => none
    else (readNat (c :: r)).map Int.ofNat

/-- a bare word: an integer, `true`, `false`, `null` -/
def readBare (w : List Char) : Option Scalar :=
  match readInt w with
  | some i => some (.int i)
  | none =>
    if w = ['t', 'r', 'u', 'e'] then some (.bool true)
    else if w = ['f', 'a', 'l', 's', 'e'] then some (.bool false)
    else if w = ['n', 'u', 'l', 'l'] then some .null
    else (readNum w).map .num

def bareChar (c : Char) : Bool := c != ',' && c != ']' && c != '}' && c != ' ' && c != '"'

def notQuote (c : Char) : Bool := c != '"'

/-- one scalar token at the head of the input, and the rest -/
def readTok : List Char → Option (Scalar × List Char)
  | [] => none
  | c :: r =>
    if c = '"' then
      match r.dropWhile notQuote with
      | _ :: rest => if (r.takeWhile notQuote).all safeChar then some (.str (String.ofList (r.takeWhile notQuote)), rest) else none
      | [] => none
    else
      match readBare ((c :: r).takeWhile bareChar) with
      | some s => some (s, (c :: r).dropWhile bareChar)
      | none => none

/-- `tok, tok, …, tok]` -/
def readItems : Nat → List Char → Option (List Scalar)
  | 0, _ => none
  | n + 1, cs =>
    match readTok cs with
    | none => none
    | some (s, rest) =>
      if rest = [']'] then some [s]
      else match rest with
        | c1 :: c2 :: r => if c1 = ',' ∧ c2 = ' ' then (readItems n r).map (s :: ·) else none
        | _ => none

/-- `"key": int` -/
def readPair (cs : List Char) : Option ((String × Int) × List Char) :=
  match readTok cs with
  | some (.str k, c1 :: c2 :: r) =>
    if c1 = ':' ∧ c2 = ' ' then
      match readInt (r.takeWhile bareChar) with
      | some i => some ((k, i), r.dropWhile bareChar)
      | none => none
    else none
  | _ => none

/-- `pair, pair, …, pair}` -/
def readPairs : Nat → List Char → Option (List (String × Int))
  | 0, _ => none
  | n + 1, cs =>
    match readPair cs with
    | none => none
    | some (p, rest) =>
      if rest = ['}'] then some [p]
      else match rest with
        | c1 :: c2 :: r => if c1 = ',' ∧ c2 = ' ' then (readPairs n r).map (p :: ·) else none
        | _ => none

def distinctKeys (ps : List (String × Int)) : Bool := decide (ps.map (·.1)).Nodup

def loadL : List Char → Option Val
  | [] => none
  | c :: r =>
    if c = '[' then
      if r = [']'] then some (.list []) else (readItems r.length r).map .list
    else if c = '{' then
      if r = ['}'] then some (.dict [])
      else
        match readPairs r.length r with
        | some ps => if distinctKeys ps then some (.dict ps) else none   -- a repeated key is not the text of a dict
        | none => none
    else
      match readTok (c :: r) with
      | some (s, []) => some (.sc s)
      | _ => none

def loadText (t : String) : Option Val := loadL t.toList

/-! ## kinds of positions -/

/-- `nargs` of a yes/no action: flags only (`nargs=0`), optional word (`'?'`), word required (`1`, which the action turns into `None`) -/
inductive YN where
  | bare | opt | one
deriving DecidableEq, Repr, Inhabited

/-- `nargs` as given to `add_argument` -/
inductive RawNargs where
  | none | q | star | plus | int (n : Nat)
deriving DecidableEq, Repr, Inhabited

/-- `_actions._is_action_value_list`: `nargs in {"*", "+"} or (isinstance(nargs, int) and nargs != 0)` -/
def isActionValueList : RawNargs → Bool
  | .star => true
  | .plus => true
  | .int n => n != 0
  | _ => false

/-- the list-valued options of the grammar -/
inductive NArgs where
  | n1 | n2 | plus | star
deriving DecidableEq, Repr, Inhabited

def NArgs.raw : NArgs → RawNargs
  | .n1 => .int 1
  | .n2 => .int 2
  | .plus => .plus
  | .star => .star

/-- how many values the command line may give (argparse) -/
def NArgs.admits : NArgs → Nat → Bool
  | .n1, n => n == 1
  | .n2, n => n == 2
  | .plus, n => decide (1 ≤ n)
  | .star, _ => true

inductive Kind where
  /-- a typed position that is not str: option / variable text is loaded -/
  | json
  /-- a str-typed position (`str`, `Literal` of strings, `Enum`): option / variable text is the value -/
  | raw
  /-- an `ActionYesNo` option -/
  | yesno (n : YN)
  /-- a list-valued option (`nargs` 1, 2, '+', '*'); `elemRaw`: the items are at str-typed positions -/
  | nlist (n : NArgs) (elemRaw : Bool)
deriving DecidableEq, Repr, Inhabited

/-- `ActionYesNo._boolean_type` on a loaded value: a str among the words, or a bool; anything else is a TypeError -/
def booleanType : Val → Option Bool
  | .sc (.str s) => boolWord s.toList
  | .sc (.bool b) => some b
  | _ => none

/-- the value as documents and objects carry it -/
def norm : Val → Val
  | .yesno w => .sc (.bool (ynBool w))
  | v => v

/-- a loaded value at a position (`_check_value_key`): a yes/no action converts words -/
def coerce : Kind → Val → Option Val
  | .yesno _, v => (booleanType v).map (fun b => .sc (.bool b))
  | _, v => some v

/-- one item of a list-valued option given as text -/
def readElem (elemRaw : Bool) (t : List Char) : Option Scalar :=
  if elemRaw then some (.str (String.ofList t))
  else match loadL t with
    | some (.sc s) => some s
    | _ => none

/-- the text of ONE option value or of an environment variable, read at a position of the kind.  A list-valued
    option (`_load_env_vars`): the text is loaded; a list is taken as the items, anything else is the single item -/
def readLeafK : Kind → List Char → Option Val
  | .json, t => loadL t
  | .raw, t => some (.sc (.str (String.ofList t)))
  | .yesno _, t => (boolWord t).map (fun b => .sc (.bool b))
  | .nlist _ er, t =>
    match loadL t with
    | some (.list xs) => some (.list xs)
    | _ => (readElem er t).map (fun s => .list [s])

/-- the text an environment variable carries -/
def envChars : Kind → Val → List Char
  | .yesno _, .yesno w => w.word.toList
  | .nlist _ _, v => valChars v
  | _, v => argChars v

/-! ## `load_basic` (`_loaders_dumpers.py`), on ASCII text -/

inductive Basic where
  | notLoaded
  | bool (b : Bool)
  | null
  | int (i : Int)
  /-- `float(value)` succeeded; the number itself is not modelled (the grammar is float-free) -/
  | float
deriving DecidableEq, Repr, Inhabited

/-- ASCII characters removed by `str.strip()` -/
def isSpace (c : Char) : Bool :=
  c == ' ' || (decide (9 ≤ c.toNat) && decide (c.toNat ≤ 13)) || (decide (28 ≤ c.toNat) && decide (c.toNat ≤ 31))

def strip (l : List Char) : List Char := ((l.dropWhile isSpace).reverse.dropWhile isSpace).reverse

/-- `s.replace(c, "", n)` -/
def removeN (c : Char) : Nat → List Char → List Char
  | 0, l => l
  | _, [] => []
  | n + 1, x :: r => if x = c then removeN c n r else x :: removeN c (n + 1) r

def digitsThen (k : List Char → Bool) : List Char → Bool
  | [] => k []
  | c :: r => if c.isDigit then digitsThen k r else k (c :: r)

/-- exponent part: nothing, or `e` `-`? digits+ -/
def expOk : List Char → Bool
  | [] => true
  | c :: r =>
    if c = 'e' then
      match r with
      | d :: r' => if d = '-' then isDigits r' else isDigits (d :: r')
      | [] => false
    else false

/-- after the integer digits: `.` digits* exponent | exponent -/
def fracOk (hadInt : Bool) : List Char → Bool
  | c :: r =>
    if c = '.' then
      match r with
      | d :: _ => if d.isDigit then digitsThen expOk r else hadInt && expOk r
      | [] => hadInt
    else hadInt && expOk (c :: r)
  | [] => hadInt

/-- would `float(value)` succeed, for `value` made of digits, `.`, `e`, `-` only -/
def floatOk (v : List Char) : Bool :=
  let body := match v with
    | c :: r => if c = '-' then r else c :: r
    | [] => []
  match body with
  | c :: _ => if c.isDigit then digitsThen (fracOk true) body else fracOk false body
  | [] => false

def loadBasicL (t : List Char) : Basic :=
  let v := strip t
  if v = ['t', 'r', 'u', 'e'] then .bool true
  else if v = ['f', 'a', 'l', 's', 'e'] then .bool false
  else if v = ['n', 'u', 'l', 'l'] then .null
  else if isDigits v then .int (Nat.ofDigitChars 10 v 0)
  else if (match v with | c :: r => c = '-' && isDigits r | [] => false) then .int (-(Nat.ofDigitChars 10 v.tail 0 : Nat))
  else if isDigits (removeN '-' 2 (removeN 'e' 1 (removeN '.' 1 v))) && (v.contains 'e' || v.contains '.') then
    (if floatOk v then .float else .notLoaded)
  else .notLoaded

def loadBasic (t : String) : Basic := loadBasicL t.toList

def basicOf : Scalar → Basic
  | .int i => .int i
  | .bool b => .bool b
  | .null => .null
  | .str _ => .notLoaded
  | .num _ => .notLoaded      -- not claimed: `1e5` is a float for load_basic, `2E3` is not loaded (C01 covers the loaders)

/-! ## values inside the Namespace model -/

def encScalar : Scalar → V
  | .int i => .atom i
  | .null => .none
  | .bool b => .tup [.atom 0, .atom (if b then 1 else 0)]
  | .str s => .tup [.atom 1, .lst (s.toList.map fun c => .atom c.toNat)]
  | .num t => .tup [.atom 2, .lst ((tokChars t).map fun c => .atom c.toNat)]

/-- leaves of the namespace: the Namespace model only has integer atoms, so booleans and strings are tagged tuples -/
def enc : Val → V
  | .sc s => encScalar s
  | .list xs => .lst (xs.map encScalar)
  | .dict kvs => .dct (kvs.map fun kv => (⟨false, kv.1⟩, .atom kv.2))
  | .yesno w => encScalar (.bool (ynBool w))

/-! ## the parser as far as the channels see it -/

structure Decl where
  key : Key
  kind : Kind
deriving DecidableEq, Repr, Inhabited

structure Parser where
  clash : List String
  pfx : Option String
  decls : List Decl
deriving Repr, Inhabited

def findDecl (segs : List String) : List Decl → Option Decl
  | [] => none
  | d :: r => if d.key.segs = segs then some d else findDecl segs r

abbrev Asg := List (List SKey × V)

def skeys (P : Parser) (segs : List String) : List SKey := segs.map (mark P.clash)

/-! ## sources and renderings -/

inductive Channel where
  | argv | cfgNested | cfgDotted | objNested | objDotted | env
deriving DecidableEq, Repr, Inhabited

inductive Source where
  /-- the command line, one group per option: `--a.b=text`, `--flag`, `--no_flag`, `--k v1 v2 …` -/
  | argv (groups : List (List String))
  /-- a nested mapping, given by its leaves in document order (path, leaf text) -/
  | cfgNested (leaves : List (List String × String))
  /-- a flat mapping with dotted keys (key, leaf text) -/
  | cfgDotted (items : List (String × String))
  | objNested (leaves : List (List String × Val))
  | objDotted (items : List (String × Val))
  /-- the environment: variable name ↦ text -/
  | env (vars : List (String × String))
deriving DecidableEq, Repr, Inhabited

/-! document order of a nested mapping built by inserting the keys one after the other = `items()` order of a
   namespace built by assigning the keys one after the other: same first segment ⇒ contiguous, recursively -/

def hasHead {α : Type} [BEq α] (h : α) {β : Type} (e : List α × β) : Bool :=
  match e.1 with
  | x :: _ => x == h
  | [] => false

def stripHead {α β : Type} (e : List α × β) : List α × β := (e.1.tail, e.2)
def addHead {α β : Type} (h : α) (e : List α × β) : List α × β := (h :: e.1, e.2)

def groupOrder {α : Type} [BEq α] {β : Type} : Nat → List (List α × β) → List (List α × β)
  | 0, l => l
  | _ + 1, [] => []
  | n + 1, e :: r =>
    match e.1 with
    | [] => e :: groupOrder n r
    | h :: t =>
      (groupOrder n ((t, e.2) :: (r.filter (hasHead h)).map stripHead)).map (addHead h)
        ++ groupOrder n (r.filter (fun x => !hasHead h x))

def sizeOfKeys {α β : Type} : List (List α × β) → Nat
  | [] => 0
  | e :: r => e.1.length + 1 + sizeOfKeys r

/-- document order -/
def docOrder {α : Type} [BEq α] {β : Type} (l : List (List α × β)) : List (List α × β) :=
  groupOrder (sizeOfKeys l + 1) l

def optChars (k : Key) : List Char := '-' :: '-' :: destL k
def noChars (k : Key) : List Char := '-' :: '-' :: 'n' :: 'o' :: '_' :: destL k

/-- the arguments that give one setting on the command line -/
def argGroup (kind : Kind) (k : Key) (v : Val) : List String :=
  match kind, v with
  | .yesno n, .yesno w =>
    match n, w.negWord with
    | .bare, _ => [String.ofList (if ynBool w then optChars k else noChars k)]
    | _, some nw => [String.ofList (noChars k ++ '=' :: nw.toList)]
    | _, none => [String.ofList (optChars k ++ '=' :: w.word.toList)]
  | .nlist _ _, .list [x] => [String.ofList (optChars k ++ '=' :: argChars (.sc x))]
  | .nlist _ _, .list xs => String.ofList (optChars k) :: xs.map (fun x => String.ofList (argChars (.sc x)))
  | _, v => [String.ofList (optChars k ++ '=' :: argChars v)]

def kindOf (P : Parser) (k : Key) : Kind :=
  match findDecl k.segs P.decls with
  | some d => d.kind
  | none => .json

def render (P : Parser) : Channel → Settings → Source
  | .argv, S => .argv (S.map fun kv => argGroup (kindOf P kv.1) kv.1 kv.2)
  | .cfgNested, S => .cfgNested (docOrder (S.map fun kv => (kv.1.segs, textOf kv.2)))
  | .cfgDotted, S => .cfgDotted (S.map fun kv => (dest kv.1, textOf kv.2))
  | .objNested, S => .objNested (docOrder (S.map fun kv => (kv.1.segs, kv.2)))
  | .objDotted, S => .objDotted (S.map fun kv => (dest kv.1, kv.2))
  | .env, S => .env (S.map fun kv => (envVar P.pfx kv.1, String.ofList (envChars (kindOf P kv.1) kv.2)))

/-! ## decoding a source into assignments -/

def traverse {α β : Type} (f : α → Option β) : List α → Option (List β)
  | [] => some []
  | a :: r =>
    match f a with
    | none => none
    | some b =>
      match traverse f r with
      | none => none
      | some bs => some (b :: bs)

def notEq (c : Char) : Bool := c != '='

def stripNo : List Char → Option (List Char)
  | c1 :: c2 :: c3 :: r => if c1 = 'n' ∧ c2 = 'o' ∧ c3 = '_' then some r else none
  | _ => none

/-- the value an option gives: `eqText` is the text after `=`, `vals` the arguments that follow the option;
    `neg`: the negated spelling `--no_k` of a yes/no option -/
def readOpt : Kind → Bool → Option (List Char) → List (List Char) → Option Val
  | .json, _, some t, [] => loadL t
  | .raw, _, some t, [] => some (.sc (.str (String.ofList t)))
  | .yesno n, neg, none, [] => if n = .one then none else some (.sc (.bool (!neg)))
  | .yesno n, neg, some t, [] => if n = .bare then none else (boolWord t).map (fun b => .sc (.bool (b != neg)))
  | .nlist n er, _, some t, [] => if n.admits 1 then (readElem er t).map (fun s => .list [s]) else none
  | .nlist n er, _, none, vals => if n.admits vals.length then (traverse (readElem er) vals).map .list else none
  | _, _, _, _ => none

/-- the yes/no option a `--no_<dest>` spelling belongs to -/
def negTarget (P : Parser) (kpart : List Char) : Option (Decl × YN) :=
  match stripNo kpart with
  | some rest =>
    match findDecl (segsOf rest) P.decls with
    | some d =>
      match d.kind with
      | .yesno n => some (d, n)
      | _ => none
    | none => none
  | none => none

def decodeOpt (P : Parser) (kpart : List Char) (eqText : Option (List Char)) (vals : List (List Char)) : Option (List SKey × V) :=
  match negTarget P kpart with
  | some (d, n) => (readOpt (.yesno n) true eqText vals).map (fun v => (skeys P d.key.segs, enc v))
  | none =>
    match findDecl (segsOf kpart) P.decls with
    | some d => (readOpt d.kind false eqText vals).map (fun v => (skeys P d.key.segs, enc v))
    | none => none

/-- one option with its values (`ActionTypeHint.__call__` / `ActionYesNo.__call__` → `cfg.update(val, dest)`) -/
def decodeArg (P : Parser) (g : List String) : Option (List SKey × V) :=
  match g with
  | [] => none
  | tok :: vals =>
    match tok.toList with
    | c1 :: c2 :: r =>
      if c1 = '-' ∧ c2 = '-' then
        match r.dropWhile notEq with
        | _ :: text => if vals.isEmpty then decodeOpt P (r.takeWhile notEq) (some text) [] else none
        | [] => decodeOpt P r none (vals.map String.toList)
      else none
    | _ => none

/-- a leaf of a loaded document: the key must be an argument (`_apply_actions` → `_check_value_key`) -/
def decodeLeafText (P : Parser) (e : List String × String) : Option (List SKey × V) :=
  match findDecl e.1 P.decls with
  | some d =>
    match loadL e.2.toList with
    | some v => (coerce d.kind v).map (fun v' => (skeys P e.1, enc v'))
    | none => none
  | none => none

def decodeLeafVal (P : Parser) (e : List String × Val) : Option (List SKey × V) :=
  match findDecl e.1 P.decls with
  | some d => (coerce d.kind (norm e.2)).map (fun v' => (skeys P e.1, enc v'))
  | none => none

def lookupS (k : String) : List (String × String) → Option String
  | [] => none
  | (a, b) :: r => if a = k then some b else lookupS k r

/-- `_load_env_vars`, third pass: every action in parser order whose variable is set -/
def decodeEnv (P : Parser) (vars : List (String × String)) : List Decl → Option Asg
  | [] => some []
  | d :: r =>
    match lookupS (envVar P.pfx d.key) vars with
    | none => decodeEnv P vars r
    | some t =>
      match readLeafK d.kind t.toList with
      | none => none
      | some v =>
        match decodeEnv P vars r with
        | none => none
        | some as => some ((skeys P d.key.segs, enc v) :: as)

def decode (P : Parser) : Source → Option Asg
  | .argv toks => traverse (decodeArg P) toks
  | .cfgNested leaves => (traverse (decodeLeafText P) leaves).map docOrder
  | .cfgDotted items => (traverse (decodeLeafText P) (items.map fun e => (segsOf e.1.toList, e.2))).map docOrder
  | .objNested leaves => (traverse (decodeLeafVal P) leaves).map docOrder
  | .objDotted items => (traverse (decodeLeafVal P) (items.map fun e => (segsOf e.1.toList, e.2))).map docOrder
  | .env vars => (decodeEnv P vars P.decls).map docOrder

def assign (as : Asg) (ns : KV) : KV := as.foldl (fun acc a => setK a.1 a.2 acc) ns

/-- the namespace after the source has been applied to the base `ns` (the defaults); `none` = rejected -/
def apply (P : Parser) (src : Source) (ns : KV) : Option KV :=
  match decode P src with
  | none => none
  | some as => some (assign as ns)

/-- the settings themselves as assignments (what a perfect channel delivers) -/
def asgOf (P : Parser) (S : Settings) : Asg := S.map fun kv => (skeys P kv.1.segs, enc kv.2)

/-! ## the hypotheses of the channel theorems, as decidable predicates -/

/-- a name segment that can be spelled in every channel: not empty, no `.`, no space, no `=` -/
def wfSeg (s : String) : Bool :=
  !s.toList.isEmpty && s.toList.all (fun c => c != '.' && c != ' ' && c != '=')

/-- no `__` inside, no `_` at the end (so that `__` can only be a separator) -/
def okSeg : List Char → Bool
  | [] => true
  | [c] => c != '_'
  | c :: d :: r => !(c == '_' && d == '_') && okSeg (d :: r)

def noDot (w : List Char) : Bool := w.all (· != '.')

/-- a key whose environment variable name can be decoded -/
def envSafe (k : Key) : Bool := k.segs.all (fun s => noDot s.toList && okSeg s.toList)

/-- the key with its case folded, as `get_env_var` sees it -/
def foldKey (k : Key) : List (List Char) := k.segs.map (fun s => upper s.toList)

def noUpperSeg (w : List Char) : Bool := w.all (fun c => (lookupC c lowTable).isNone)
def noUpper (k : Key) : Bool := k.segs.all (fun s => noUpperSeg s.toList)

def wfKey (k : Key) : Bool := k.segs.all wfSeg

def safeScalar : Scalar → Bool
  | .str s => s.toList.all safeChar
  | .num t => wfTok t
  | _ => true

def safeVal : Val → Bool
  | .sc s => safeScalar s
  | .list xs => xs.all safeScalar
  | .dict kvs => kvs.all (fun kv => kv.1.toList.all safeChar) && distinctKeys kvs
  | .yesno _ => true

def isStrVal : Val → Bool
  | .sc (.str _) => true
  | _ => false

def scalarIsStr : Scalar → Bool
  | .str _ => true
  | _ => false

/-- the value has the shape the position expects (strings exactly at the str-typed positions) -/
def kindMatches : Kind → Val → Bool
  | .json, .sc s => !scalarIsStr s
  | .json, .list _ => true
  | .json, .dict _ => true
  | .raw, .sc (.str _) => true
  | .yesno _, .yesno w =>
    (boolWord w.word.toList).isSome
    && (match w.negWord with
        | some nw => boolWord nw.toList == some (!ynBool w)
        | none => true)
  | .nlist n er, .list xs => n.admits xs.length && xs.all (fun x => scalarIsStr x == er)
  | _, _ => false

def incomparable (a b : List String) : Bool := !a.isPrefixOf b && !b.isPrefixOf a

def pairwiseB {α : Type} (r : α → α → Bool) : List α → Bool
  | [] => true
  | a :: l => l.all (r a) && pairwiseB r l

/-- the parser: every key can be spelled in every channel, no key is a prefix of another, variable names are distinct -/
def goodParser (P : Parser) : Bool :=
  P.decls.all (fun d => wfKey d.key && envSafe d.key && (stripNo (destL d.key)).isNone)
  && pairwiseB (fun a b => incomparable a.key.segs b.key.segs) P.decls
  && pairwiseB (fun a b => foldKey a.key != foldKey b.key) P.decls

/-- the settings: declared keys, each at most once, text form unambiguous (strings exactly at the str-typed positions) -/
def goodSettings (P : Parser) (S : Settings) : Bool :=
  S.all (fun kv => match findDecl kv.1.segs P.decls with
    | some d => kindMatches d.kind kv.2 && safeVal kv.2
    | none => false)
  && pairwiseB (fun a b => a.1 != b.1) S

/-- the base namespace holds every key of the settings (true of the defaults: every argument has one) -/
def covers (P : Parser) (S : Settings) (ns : KV) : Bool :=
  S.all (fun kv => (getK (skeys P kv.1.segs) ns).isSome)

/-! ## branch keys (`_actions._is_branch_key`, parsers without sub-commands)

A key of a document / object that has no action is an inner node of the option tree iff some dest starts with
`key + "."` (whether the source has the `+ "."` is regenerated: Gen/ChannelTables). -/

def isBranchKey (P : Parser) (key : List Char) : Bool :=
  P.decls.any (fun d => (if Jap.Gen.branchKeyDotBoundary then key ++ ['.'] else key).isPrefixOf (destL d.key))

/-! ## an `ActionParser` group in the environment

`_load_env_vars` walks `parser._actions` in order and assigns `cfg[action.dest]`.  The group-level variable
(`APP_INNER`, a mapping for the whole branch) replaces the branch; the leaf variables (`APP_INNER__X`) refine it.
`groupFirst`: the group-level action is registered before the group's leaves (regenerated: Gen/ChannelTables). -/

def envGroup (groupFirst : Bool) (g : List SKey) (mapping : KV) (leaves : Asg) (ns : KV) : KV :=
  if groupFirst then assign leaves (setK g (.ns mapping) ns) else setK g (.ns mapping) (assign leaves ns)

/-- the order the code has -/
def envGroupCode (g : List SKey) (mapping : KV) (leaves : Asg) (ns : KV) : KV :=
  envGroup Jap.Gen.groupActionFirst g mapping leaves ns

end Jap.Channels

/-
E3 — the predicates of restricted types (`jsonargparse/typing.py`: `restricted_number_type.validation_fn`,
`restricted_string_type.validation_fn`) as data the adapter model can evaluate itself.

In `Core/Adapt.lean` the restriction of the restricted type number `k` is the oracle field `rnumOk k`; every theorem
there holds for every predicate.  Here the predicate is *computed* from a specification of the type:

* a restricted number type: the list of `(comparison, reference)` pairs and the join (`and` / `or`); numbers are
  exact decimals (`m * 10^e`, what a Python `int` or the `repr` of a `float` denotes) or `inf` / `nan`;
* a restricted string type: a regular expression (`Re`, the fragment the harness translates Python patterns into:
  classes, concatenation, alternation, star, `^`, `$` with and without MULTILINE) and the meaning of
  `regex.match(v)`: a match that STARTS AT POSITION 0 (`Re.accepts`).  `Re.searches` is `regex.search` — it is
  only here so that the difference can be stated (Props/C02: `C02_match_not_search`).

`Oracle.withRestr O tab` is the oracle `O` whose `rnumOk` is computed from the table `tab`; the driver uses it
with the specifications the harness sends along with the restricted types it generated, so that the
correspondence compares the real classes with predicates evaluated by the model, not by the classes themselves.

Imports nothing beyond Core/Ty.  Everything is structurally recursive.
-/
import Jap.Core.Ty
namespace Jap.Adapt

/-! ### regular expressions -/

inductive Re where
  | eps
  | cls (neg : Bool) (ranges : List (Nat × Nat))    -- `[a-z]`, `[^@ ]`, a literal, `.` = `[^\n]`
  | cat (a b : Re)
  | alt (a b : Re)
  | star (a : Re)
  | bol                                             -- `^`
  | eol                                             -- `$`: at the end or before a final newline
  | mbol                                            -- `^` under re.MULTILINE
  | meol                                            -- `$` under re.MULTILINE
deriving Repr, Inhabited

def inRanges (n : Nat) : List (Nat × Nat) → Bool
  | [] => false
  | (lo, hi) :: r => (lo ≤ n && n ≤ hi) || inRanges n r

def dedupNat : List Nat → List Nat
  | [] => []
  | x :: r => if r.contains x then dedupNat r else x :: dedupNat r

/-- iterate a one-step position map until nothing new (bounded by fuel) -/
def closure (step : Nat → List Nat) : Nat → List Nat → List Nat → List Nat
  | 0, _, seen => seen
  | fuel + 1, frontier, seen =>
    let next := dedupNat ((frontier.flatMap step).filter fun p => !seen.contains p)
    if next.isEmpty then seen else closure step fuel next (seen ++ next)

/-- end positions of the matches of `r` in `s` that start at position `i` (set semantics) -/
def Re.ends (s : Array Char) : Re → Nat → List Nat
  | .eps, i => [i]
  | .cls neg rs, i =>
    if h : i < s.size then
      if inRanges s[i].toNat rs != neg then [i + 1] else []
    else []
  | .cat a b, i => dedupNat ((a.ends s i).flatMap (b.ends s))
  | .alt a b, i => dedupNat (a.ends s i ++ b.ends s i)
  | .star a, i => closure (a.ends s) (s.size + 1) [i] [i]
  | .bol, i => if i = 0 then [i] else []
  | .eol, i => if i = s.size ∨ (i + 1 = s.size ∧ s[i]? = some '\n') then [i] else []
  | .mbol, i => if i = 0 ∨ s[i - 1]? = some '\n' then [i] else []
  | .meol, i => if i = s.size ∨ s[i]? = some '\n' then [i] else []

/-- is there a match of `r` in `s` that starts at position `i` -/
def Re.matchAt (r : Re) (s : String) (i : Nat) : Bool := !(r.ends s.toList.toArray i).isEmpty

/-- `regex.match(s) is not None`: a match starting at position 0 -/
def Re.accepts (r : Re) (s : String) : Bool := r.matchAt s 0

/-- `regex.search(s) is not None`: a match starting anywhere -/
def Re.searches (r : Re) (s : String) : Bool := (List.range (s.length + 1)).any (r.matchAt s)

/-! ### numbers -/

/-- what a Python `int` or `float` denotes: `m * 10^e`, an infinity, or nan -/
inductive Num where
  | dec (m : Int) (e : Int)
  | inf (neg : Bool)
  | nan
deriving DecidableEq, Repr, Inhabited

/-- the number a float `repr` denotes (`'1.5'`, `'-0.0'`, `'1e+22'`, `'1.5e-07'`, `'inf'`, `'-inf'`, `'nan'`);
    two floats compare like the exact decimals of their (shortest round-trip) `repr`s -/
def fltNum (r : String) : Num :=
  let cs := r.toList
  let neg := cs.head? == some '-'
  let cs := if neg then cs.drop 1 else cs
  if cs == ['i', 'n', 'f'] then .inf neg
  else
    let mant := cs.takeWhile (fun c => c != 'e')
    let expPart := (cs.dropWhile (fun c => c != 'e')).drop 1
    let ip := mant.takeWhile (fun c => c != '.')
    let fp := (mant.dropWhile (fun c => c != '.')).drop 1
    let e : Option Int :=
      match expPart with
      | [] => some 0
      | '+' :: ds => (digitsVal ds).map Int.ofNat
      | '-' :: ds => (digitsVal ds).map (fun n => - Int.ofNat n)
      | ds => (digitsVal ds).map Int.ofNat
    match digitsVal (ip ++ fp), e with
    | some m, some e => .dec (if neg then - Int.ofNat m else Int.ofNat m) (e - fp.length)
    | _, _ => .nan

def numOfVal : Val → Option Num
  | .int i => some (.dec i 0)
  | .flt r => some (fltNum r)
  | _ => .none

/-- `a * 10^e < b * 10^f` -/
def decLt (a e b f : Int) : Bool :=
  let m := min e f
  decide (a * 10 ^ (e - m).toNat < b * 10 ^ (f - m).toNat)

def decEq (a e b f : Int) : Bool :=
  let m := min e f
  decide (a * 10 ^ (e - m).toNat = b * 10 ^ (f - m).toNat)

/-- Python / IEEE `<` (`nan` compares false with everything) -/
def Num.lt : Num → Num → Bool
  | .dec a e, .dec b f => decLt a e b f
  | .dec _ _, .inf neg => !neg
  | .inf neg, .dec _ _ => neg
  | .inf a, .inf b => a && !b
  | _, _ => false

def Num.eq : Num → Num → Bool
  | .dec a e, .dec b f => decEq a e b f
  | .inf a, .inf b => a == b
  | _, _ => false

/-- the six comparison operators of `_operators1` -/
inductive Cmp where
  | gt | ge | lt | le | eq | ne
deriving DecidableEq, Repr, Inhabited

/-- `operator.<op>(x, ref)` -/
def Cmp.holds : Cmp → Num → Num → Bool
  | .gt, x, y => Num.lt y x
  | .ge, x, y => Num.lt y x || Num.eq x y
  | .lt, x, y => Num.lt x y
  | .le, x, y => Num.lt x y || Num.eq x y
  | .eq, x, y => Num.eq x y
  | .ne, x, y => !Num.eq x y

/-! ### the specification of a restricted type and its predicate -/

inductive Restr where
  | num (isOr : Bool) (rs : List (Cmp × Num))     -- `_restrictions`, `_join`
  | re (r : Re)                                   -- `_regex`
deriving Repr, Inhabited

/-- `check = [comparison(vv, ref) for comparison, ref in cls._restrictions]`, then `all(check)` / `any(check)` -/
def numOk (isOr : Bool) (rs : List (Cmp × Num)) (x : Num) : Bool :=
  if isOr then rs.any (fun r => r.1.holds x r.2) else rs.all (fun r => r.1.holds x r.2)

/-- the restriction on a value of the base type -/
def Restr.ok : Restr → Val → Bool
  | .num isOr rs, v => (match numOfVal v with
      | some x => numOk isOr rs x
      | .none => false)
  | .re r, v => (match v with
      | .str s => r.accepts s
      | _ => false)

/-- table of the restricted types: number `k` ↦ its specification -/
abbrev RTab := Nat → Option Restr

/-- the oracle whose restrictions are computed from the table (types not in the table keep `O`'s answer) -/
def Oracle.withRestr (O : Oracle) (tab : RTab) : Oracle :=
  { O with rnumOk := fun k v => match tab k with
      | some r => r.ok v
      | .none => O.rnumOk k v }

end Jap.Adapt

/-
Engine "Scalar", part 4 (C01, C05): whole documents in the JSON formats.  `jDump` is the text `json.dumps` writes
for a nested dict / list of scalars with the arguments of `json_compact_dump` (separators `,` `:`) and
`json_indented_dump` (indent 2, `, ` never used: item separator `,` + line feed + indentation, key separator `: `);
`jValue` is libyaml's reading of that text (`loader_json_superset`): flow collections `{ }` `[ ]` `,` `:`,
double-quoted scalars (`qGo`, the scanner of `loadLine`), plain scalars in flow context resolved by the loader's
resolver, and the simple-key rule (a key and its `:` within 1024 characters on one line).
Everything outside the JSON sub-language of YAML flow style is `none`.
-/
import Jap.Core.YamlDoc

namespace Jap.Scalar

/-! ### json.dumps -/

def jScalar (s : Sc) : List Char :=
  if s.tag = .str then '"' :: (jsonEscape s.text ++ ['"']) else s.text

/-- a key is always written as a string literal (json.dumps turns int / float / bool / None keys into strings) -/
def jKey (k : Sc) : List Char :=
  '"' :: ((if k.tag = .str then jsonEscape k.text else k.text) ++ ['"'])

/-- `none`: compact; `some n`: json_indented at nesting depth n -/
def jnl : Option Nat → List Char
  | none => []
  | some n => '\n' :: List.replicate (2 * n) ' '

def jcolon : Option Nat → List Char
  | none => [':']
  | some _ => [':', ' ']

def deeper : Option Nat → Option Nat
  | none => none
  | some n => some (n + 1)

mutual
def jDump (ind : Option Nat) : V → List Char
  | .sc s => jScalar s
  | .list .nil => ['[', ']']
  | .list (.cons x xs) => '[' :: (jnl (deeper ind) ++ (jDump (deeper ind) x ++ (jDumpL (deeper ind) xs ++ (jnl ind ++ [']']))))
  | .dict .nil => ['{', '}']
  | .dict (.cons k v r) =>
    '{' :: (jnl (deeper ind) ++ (jKey k ++ (jcolon ind ++ (jDump (deeper ind) v ++ (jDumpM (deeper ind) r ++ (jnl ind ++ ['}']))))))
/-- the further items, each after `,` -/
def jDumpL (ind : Option Nat) : VL → List Char
  | .nil => []
  | .cons x xs => ',' :: (jnl ind ++ (jDump ind x ++ jDumpL ind xs))
def jDumpM (ind : Option Nat) : KVL → List Char
  | .nil => []
  | .cons k v r => ',' :: (jnl ind ++ (jKey k ++ (jcolon ind ++ (jDump ind v ++ jDumpM ind r))))
end

/-- `json_compact_dump` -/
def jsonDump (v : V) : List Char := jDump none v
/-- `json_indented_dump` -/
def jsonIndentedDump (v : V) : List Char := jDump (some 0) v ++ ['\n']

/-! ### the YAML loader on that text -/

def isJWs (c : Char) : Bool := c = ' ' || c = '\n'

def skipWs : List Char → List Char
  | [] => []
  | c :: r => if isJWs c then skipWs r else c :: r

def skipSp : List Char → List Char
  | [] => []
  | c :: r => if c = ' ' then skipSp r else c :: r

/-- characters of the plain scalars JSON uses (numbers, true, false, null, Infinity, NaN) -/
def jPlainChar (c : Char) : Bool :=
  let n := c.toNat
  (decide (48 ≤ n) && decide (n ≤ 57)) || (decide (65 ≤ n) && decide (n ≤ 90)) || (decide (97 ≤ n) && decide (n ≤ 122)) ||
  n = 45 || n = 43 || n = 46

def flowPlain (acc : List Char) : List Char → List Char × List Char
  | [] => (acc, [])
  | c :: r => if jPlainChar c then flowPlain (acc ++ [c]) r else (acc, c :: r)

/-- not empty, does not begin like a block entry / document marker -/
def plainStartJ : List Char → Bool
  | [] => false
  | [c] => !(c = '-' || c = '.' || c = '+')
  | c :: d :: _ => !((c = '-' && (d = '-' || d = '+')) || (c = '.' && d = '.') || c = '+')

/-- what may follow a value -/
def termJ : List Char → Bool
  | [] => true
  | c :: _ => isJWs c || c = ',' || c = ']' || c = '}'

/-- libyaml's simple-key rule for `whole` = the text from the opening quote of a key, `atColon` = its suffix from the
`:` on: the `:` within 1024 characters of the opening quote, and on the same line (a raw LF, CR, NEL, LS, PS inside
the quotes is a line break for the scanner) -/
def keySpanOK (whole atColon : List Char) : Bool :=
  decide (whole.length - atColon.length ≤ 1024) && !((whole.take (whole.length - atColon.length)).any isBreak)

mutual
def jValue : Nat → List Char → Option (V × List Char)
  | 0, _ => none
  | _ + 1, [] => none
  | f + 1, c :: r =>
    if c = '{' then
      match skipWs r with
      | [] => none
      | d :: r' => if d = '}' then some (.dict .nil, r') else (jMembers f (d :: r')).map fun p => (.dict p.1, p.2)
    else if c = '[' then
      match skipWs r with
      | [] => none
      | d :: r' => if d = ']' then some (.list .nil, r') else (jElems f (d :: r')).map fun p => (.list p.1, p.2)
    else if c = '"' then (qGo false qStart r).map fun p => (.sc ⟨.str, p.1⟩, p.2)
    else
      let p := flowPlain [] (c :: r)
      if plainStartJ p.1 && termJ p.2 then some (.sc ⟨resolveLoadC p.1, p.1⟩, p.2) else none
termination_by structural f => f
/-- at the first character of an item; returns the text after the closing `]` -/
def jElems : Nat → List Char → Option (VL × List Char)
  | 0, _ => none
  | f + 1, r =>
    match jValue f r with
    | none => none
    | some (x, r1) =>
      match skipWs r1 with
      | [] => none
      | c :: r2 =>
        if c = ',' then (jElems f (skipWs r2)).map fun p => (.cons x p.1, p.2)
        else if c = ']' then some (.cons x .nil, r2)
        else none
termination_by structural f => f
/-- at the opening quote of a key; returns the text after the closing `}` -/
def jMembers : Nat → List Char → Option (KVL × List Char)
  | 0, _ => none
  | _ + 1, [] => none
  | f + 1, c :: r =>
    if c = '"' then
      match qGo false qStart r with
      | none => none
      | some (k, r1) =>
        match skipSp r1 with
        | [] => none
        | d :: r2 =>
          if d = ':' && keySpanOK (c :: r) (d :: r2) then
            match jValue f (skipWs r2) with
            | none => none
            | some (v, r3) =>
              match skipWs r3 with
              | [] => none
              | e :: r4 =>
                if e = ',' then (jMembers f (skipWs r4)).map fun p => (.cons ⟨.str, k⟩ v p.1, p.2)
                else if e = '}' then some (.cons ⟨.str, k⟩ v .nil, r4)
                else none
          else none
    else none
termination_by structural f => f
end

/-- `yaml_load` on a JSON text whose top level is an object or an array (optionally followed by one line feed);
the reader's character check applies to the whole text -/
def jsonLoad (t : List Char) : Option V :=
  if t.all yamlPrintable then
    match t with
    | [] => none
    | c :: _ =>
      if c = '{' || c = '[' then
        match jValue (2 * t.length + 2) t with
        | some (v, []) => some v
        | some (v, ['\n']) => some v
        | _ => none
      else none
  else none

/-! ### the values json.dumps can write -/

/-- scalars: str over the safe alphabet; int / float / bool / null texts of the JSON image languages -/
def JScOK (s : Sc) : Bool :=
  match s.tag with
  | .str => s.text.all jsonSafe'
  | .null => inImageC Gen.Resolvers.imgNull s.text && s.text.all jPlainChar && plainStartJ s.text
  | .bool => inImageC Gen.Resolvers.imgBool s.text && s.text.all jPlainChar && plainStartJ s.text
  | .int => inImageC Gen.Resolvers.jsonInt s.text && s.text.all jPlainChar && plainStartJ s.text
  | .float => inImageC Gen.Resolvers.imgFloatJson s.text && s.text.all jPlainChar && plainStartJ s.text
  | .other _ => false
where
  /-- `jsonSafe` of Lemmas/ScalarJson (the model must not import lemma files): C0 controls and the reader's alphabet
  without NEL, LS, PS -/
  jsonSafe' (c : Char) : Bool :=
    (decide (c.toNat < 32) || yamlPrintable c) && !(c.toNat = 133 || c.toNat = 8232 || c.toNat = 8233)

/-- keys: str, safe alphabet, literal (with its quotes) not longer than libyaml's simple-key limit -/
def JKeyOK (k : Sc) : Bool :=
  decide (k.tag = .str) && JScOK k && decide (2 + (jsonEscape k.text).length ≤ 1024)

mutual
def JOK : V → Bool
  | .sc s => JScOK s
  | .list xs => JLOK xs
  | .dict kvs => JMOK kvs
def JLOK : VL → Bool
  | .nil => true
  | .cons x xs => JOK x && JLOK xs
def JMOK : KVL → Bool
  | .nil => true
  | .cons k v r => JKeyOK k && JOK v && JMOK r
end

end Jap.Scalar

/-
E3 — model of `adapt_typehints` (jsonargparse/_typehints.py) on the grammar of
`Jap.Core.Ty`, of `ActionTypeHint._check_type` around it, and of the two passes
every parse performs (apply + validate).

One function with a `serialize` flag, as in the code.  `orig` is `orig_val`
when it is a string (the code only ever tests `isinstance(orig_val, str)`); it
is handed to Union members unchanged and reset to `None` for the elements of
list / dict / tuple / set (the code as it is after commit 0d6c28f).

The Union loop is written as in the code: a `vals` list that receives values,
the original string (the `str` rescue) and exception objects, `break` on the
first success, and the result `[v for v in vals if not isinstance(v, Exception)][-1]`
(commit 759e4ed).  Each member is tried on its own copy of the value (`recreate_branches(val)`, commit
5a105c5), which is what a value-level function does anyway.  `sort_subtypes_for_union` is a stable sort on a key with
three classes; the loop walks the original member list once per class, which
visits the members in the same order and keeps the recursion structural.

Everything is structurally recursive on the type hint.
-/
import Jap.Core.Ty
namespace Jap.Adapt

/-- the order of the `if/elif` chain of `adapt_typehints` this model was written against
    (compared with the regenerated `Jap.Gen.adaptBranches` in Props/C02) -/
def branchOrder : List String :=
  ["Any", "Literal", "leaf", "Annotated", "registered", "Enum", "Type", "Union", "TupleSet",
   "Sequence", "Mapping", "NotRequired", "Callable", "Dataclass", "Subclass", "Alias"]

/-- `leaf_types` -/
def leafNames : List String := ["NoneType", "bool", "float", "int", "str"]

/-- which branch of `adapt_typehints` a constructor of `Ty` is handled by -/
def branchOf : Ty → String
  | .any => "Any"
  | .literal _ => "Literal"
  | .str | .int | .float | .bool | .none => "leaf"
  | .enum _ _ => "Enum"
  | .union _ => "Union"
  | .tuple _ | .tupleVar _ | .set _ => "TupleSet"
  | .list _ => "Sequence"
  | .dict _ _ => "Mapping"
  | .rnum _ _ | .reg _ => "registered"

/-! ### small helpers -/

def allM {α β : Type} (f : α → Except Err β) : List α → Except Err (List β)
  | [] => .ok []
  | x :: xs =>
    match f x with
    | .error e => .error e
    | .ok y =>
      match allM f xs with
      | .error e => .error e
      | .ok ys => .ok (y :: ys)

def isStr : Val → Bool | .str _ => true | _ => false
def isNoneTy : Ty → Bool | .none => true | _ => false
def isStrTy : Ty → Bool | .str => true | _ => false
/-- `get_typehint_origin(x) in sequence_or_mapping_origin_types` -/
def isSeqOrMap : Ty → Bool | .list _ => true | .dict _ _ => true | _ => false

def isErr {α : Type} : Except Err α → Bool | .error _ => true | .ok _ => false

/-- `json_or_yaml_load` inside `suppress(loader exceptions)`, applied when the value is a string -/
def loadIfStr (O : Oracle) : Val → Val
  | .str s => if isBlank s then .str s else match O.yaml s with | some v => v | .none => .str s
  | v => v

inductive Leaf where | str | int | float | bool | none
deriving DecidableEq, Repr

/-- the "Basic types" branch -/
def adaptLeaf (O : Oracle) : Leaf → Val → Except Err Val
  | .str, v => match v with | .str s => .ok (.str s) | _ => .error .value
  | .int, v => match loadIfStr O v with | .int i => .ok (.int i) | _ => .error .value      -- a bool is refused
  | .float, v => match loadIfStr O v with
      | .int i => (match toFlt O i with
          | some r => .ok (.flt r)
          | .none => .error .value)                 -- OverflowError -> raise_unexpected_value
      | .flt r => .ok (.flt r)
      | _ => .error .value
  | .bool, v => match loadIfStr O v with | .bool b => .ok (.bool b) | _ => .error .value
  | .none, v => match loadIfStr O v with | .null => .ok .null | _ => .error .value

/-! ### Literal -/

/-- `val in subtypehints` (Python `==`) -/
def litMem (ls : List Lit) (v : Val) : Bool := ls.any (fun l => pyEq l.toVal v)

def Lit.isInt : Lit → Bool | .int _ => true | _ => false
def Lit.isBool : Lit → Bool | .bool _ => true | _ => false

/-- `{type(v) for v in subtypehints if type(v) is not str}` (as a list; `int` and `bool` accept disjoint
    sets of loaded values, so the iteration order of the Python set does not matter) -/
def litLeaves (ls : List Lit) : List Leaf :=
  (if ls.any Lit.isInt then [Leaf.int] else []) ++ (if ls.any Lit.isBool then [Leaf.bool] else [])

/-- `adapt_typehints(val, Union[leaves])`: the first leaf type that accepts -/
def firstLeaf (O : Oracle) : List Leaf → Val → Except Err Val
  | [], _ => .error .value
  | l :: ls, v => match adaptLeaf O l v with
    | .ok w => .ok w
    | .error _ => firstLeaf O ls v

def adaptLiteral (O : Oracle) (ls : List Lit) (v : Val) : Except Err Val :=
  let r : Except Err Val :=
    if !litMem ls v && isStr v then
      match litLeaves ls with
      | [] => .error .type                      -- `Union[()]`: "Cannot take a Union of no types"
      | leaves => firstLeaf O leaves v
    else .ok v
  match r with
  | .error e => .error e
  | .ok v1 => if litMem ls v1 then .ok v1 else .error .value

/-! ### Enum -/

def adaptEnum (ser : Bool) (c : Nat) (ms : List String) (v : Val) : Except Err Val :=
  if ser then
    match v with
    | .enum c' n => if c = c' ∧ n ∈ ms then .ok (.str n) else .ok v
    | _ => .ok v                                 -- anything that is not a member passes unchanged
  else
    match v with
    | .enum c' n => if c = c' ∧ n ∈ ms then .ok v else .error .value
    | .str s => if s ∈ ms then .ok (.enum c s) else .error .value          -- `typehint[val]`
    | .list _ => .error .type                    -- unhashable key
    | .set _ => .error .type
    | .dict _ => .error .type
    | .tuple xs => if hashableAll xs then .error .value else .error .type
    | _ => .error .value

/-! ### registered types (restricted number / string types are registered types too) -/

def RBase.has : RBase → Val → Bool
  | .int, .int _ => true
  | .float, .flt _ => true
  | .str, .str _ => true
  | _, _ => false

/-- `cls._type(v)` inside `validation_fn` / `__new__` of a restricted type, after its bool / non-integer checks -/
def rnumConv (O : Oracle) : RBase → Val → Option Val
  | .int, .int i => some (.int i)
  | .int, .flt r => (fltAsInt r).map Val.int                 -- "not an integer" otherwise
  | .int, .str s => (match O.numStr .int s with | some (.int i) => some (.int i) | _ => .none)
  | .float, .int i => (toFlt O i).map Val.flt
  | .float, .flt r => some (.flt r)
  | .float, .str s => (match O.numStr .float s with | some (.flt r) => some (.flt r) | _ => .none)
  | .str, .str s => some (.str s)                            -- `regex.match` needs a str
  | _, _ => .none                                            -- bool, None, containers: ValueError / wrapped TypeError
  -- (`toFlt` = none: an int beyond the float range; `validation_fn` turns the OverflowError into a ValueError, commit 4c191c6)

/-- the "Registered types" branch for a restricted type: `serializer` = the base type, `deserializer` = the class
    (its exceptions are wrapped into ValueError); `is_value_of_type` is invisible here: an instance of the
    class is the plain number / string -/
def adaptRnum (O : Oracle) (ser : Bool) (b : RBase) (k : Nat) (v : Val) : Except Err Val :=
  if ser then
    if b.has v then .ok v
    else match O.baseOf b v with
      | some w => if b.has w then .ok w else .error .type
      | .none => .error .type
  else
    match rnumConv O b v with
    | some w => if O.rnumOk k w then .ok w else .error .value
    | .none => .error .value

/-- the same branch for the other registered types: `is_value_of_type` early-out, else the deserializer -/
def adaptReg (O : Oracle) (ser : Bool) (k : Nat) (v : Val) : Except Err Val :=
  if ser then
    match O.regSer k v with
    | some w => .ok w
    | .none => .error .type
  else
    match v with
    | .obj k' r => if k = k' then .ok (.obj k' r) else
        (match O.regDeser k v with | some (.obj k'' r') => if k = k'' then .ok (.obj k'' r') else .error .value | _ => .error .value)
    | v => match O.regDeser k v with
      | some (.obj k'' r') => if k = k'' then .ok (.obj k'' r') else .error .value
      | _ => .error .value

/-! ### Any -/

/-- the `Any` branch on a string: `parse_value_or_config(val, enable_path=False, simple_types=True)` under
    `suppress(loader exceptions)`; a result of type `str` keeps the original text -/
def adaptAny (O : Oracle) (ser : Bool) : Val → Val
  | .str s =>
    if isBlank s then .str s
    else match O.loadAny s with
      | some (.str _) => .str s
      | some w => w
      | .none => .str s
  | .enum c n => if ser then .str n else .enum c n
  | v => v

/-! ### containers -/

/-- `list(val)` for list / tuple / set -/
def seqItems : Val → Option (List Val)
  | .list xs => some xs
  | .tuple xs => some xs
  | .set xs => some xs
  | _ => .none

def dictInsert (k : DKey) (v : Val) : List (DKey × Val) → List (DKey × Val)
  | [] => [(k, v)]
  | (k', v') :: r => if k' = k then (k', v) :: r else (k', v') :: dictInsert k v r

/-- `{cast(k): v for k, v in val.items()}` with `cast = int` (deserialise) or `str` (serialise) -/
def castKeys (O : Oracle) (ser : Bool) : List (DKey × Val) → List (DKey × Val) → Except Err (List (DKey × Val))
  | [], acc => .ok acc
  | (k, v) :: r, acc =>
    if ser then
      match k with
      | .int i => castKeys O ser r (dictInsert (.str (toString i)) v acc)
      | .str s => castKeys O ser r (dictInsert (.str s) v acc)
    else
      match k with
      | .int i => castKeys O ser r (dictInsert (.int i) v acc)
      | .str s => match O.intOf s with
        | some i => castKeys O ser r (dictInsert (.int i) v acc)
        | .none => .error .value

def okOf : Except Err Val → Option Val | .ok v => some v | .error _ => .none

/-- `[v for v in vals if not isinstance(v, Exception)][-1]` after the `all(... Exception ...)` test -/
def unionResult (vals : List (Except Err Val)) : Except Err Val :=
  if vals.all isErr then .error .value                        -- raise_union_unexpected_value
  else match (vals.filterMap okOf).getLast? with
    | some w => .ok w
    | .none => .error .value

/-- sort key classes of `sort_subtypes_for_union` -/
def cls1 (_ : Val) (t : Ty) : Bool := isNoneTy t
def cls2 (v : Val) (t : Ty) : Bool := !isNoneTy t && isStr v && isSeqOrMap t
def cls3 (v : Val) (t : Ty) : Bool := !isNoneTy t && !(isStr v && isSeqOrMap t)

abbrev Vals := List (Except Err Val)

/-- `sort_subtypes_for_union(ts, v, append=False)`: the order in which the loop below visits the members -/
def sortedMembers {α : Type} (v : Val) (ty : α → Ty) (ts : List α) : List α :=
  ts.filter (fun x => cls1 v (ty x)) ++ ts.filter (fun x => cls2 v (ty x)) ++ ts.filter (fun x => cls3 v (ty x))

mutual
/-- `adapt_typehints(val, typehint, serialize=ser, orig_val=orig)` -/
def adapt (O : Oracle) (ser : Bool) (orig : Option String) : Ty → Val → Except Err Val
  | .any, v => .ok (adaptAny O ser v)
  | .literal ls, v => adaptLiteral O ls v
  | .str, v => adaptLeaf O .str v
  | .int, v => adaptLeaf O .int v
  | .float, v => adaptLeaf O .float v
  | .bool, v => adaptLeaf O .bool v
  | .none, v => adaptLeaf O .none v
  | .enum c ms, v => adaptEnum ser c ms v
  | .rnum b k, v => adaptRnum O ser b k v
  | .reg k, v => adaptReg O ser k v
  | .union ts, v =>
    let s1 := unionPhase O ser orig (cls1 v) ts v []
    let s2 := if s1.2 then s1 else unionPhase O ser orig (cls2 v) ts v s1.1
    let s3 := if s2.2 then s2 else unionPhase O ser orig (cls3 v) ts v s2.1
    unionResult s3.1
  | .tuple ts, v =>
    match seqItems v with
    | .none => .error .value
    | some xs =>
      if xs.length != ts.length then .error .value
      else match adaptZip O ser ts xs with
        | .error e => .error e
        | .ok ys => .ok (if ser then .list ys else .tuple ys)
  | .tupleVar t, v =>
    match seqItems v with
    | .none => .error .value
    | some xs =>
      match allM (fun x => adapt O ser .none t x) xs with
      | .error e => .error e
      | .ok ys => .ok (if ser then .list ys else .tuple ys)
  | .set t, v =>
    match seqItems v with
    | .none => .error .value
    | some xs =>
      match allM (fun x => adapt O ser .none t x) xs with
      | .error e => .error e
      | .ok ys =>
        if ser then .ok (.list ys)
        else if hashableAll ys then .ok (.set (pySet ys)) else .error .type
  | .list t, v =>
    match seqItems v with                     -- a list, or an Iterable that is not a str / mapping: `list(val)`
    | .none => .error .value
    | some xs =>
      match allM (fun x => adapt O ser .none t x) xs with
      | .error e => .error e
      | .ok ys => .ok (.list ys)
  | .dict k t, v =>
    match v with
    | .dict kvs =>
      let kvs' : Except Err (List (DKey × Val)) :=
        match k with
        | .int => castKeys O ser kvs []
        | .str => .ok kvs
      match kvs' with
      | .error e => .error e
      | .ok kvs' =>
        match allM (fun (kx : DKey × Val) =>
            match adapt O ser .none t kx.2 with
            | .error e => .error e
            | .ok y => .ok (kx.1, y)) kvs' with
        | .error e => .error e
        | .ok ys => .ok (.dict ys)
    | _ => .error .value
/-- the members of one sort class, in the order they are written; state `(vals, broke)` -/
def unionPhase (O : Oracle) (ser : Bool) (orig : Option String) (pred : Ty → Bool) :
    List Ty → Val → Vals → Vals × Bool
  | [], _, vals => (vals, false)
  | t :: ts, v, vals =>
    if pred t then
      match adapt O ser orig t v with
      | .ok w => (vals ++ [.ok w], true)                                     -- vals.append(...); break
      | .error e =>
        match isStrTy t && !isStr v, orig with
        | true, some o => unionPhase O ser orig pred ts v (vals ++ [.ok (.str o)])   -- vals.append(orig_val); continue
        | _, _ => unionPhase O ser orig pred ts v (vals ++ [.error e])       -- vals.append(ex)
    else unionPhase O ser orig pred ts v vals
def adaptZip (O : Oracle) (ser : Bool) : List Ty → List Val → Except Err (List Val)
  | [], [] => .ok []
  | t :: ts, x :: xs =>
    match adapt O ser .none t x with
    | .error e => .error e
    | .ok y =>
      match adaptZip O ser ts xs with
      | .error e => .error e
      | .ok ys => .ok (y :: ys)
  | _, _ => .error .value
end

/-! ### `_check_type` -/

/-- `load_value(s)` (simple_types=False): `none` = loader exception.  `load_basic` only matters for
    `null` here: every scalar result is replaced by the text itself. -/
def loadValue (O : Oracle) (s : String) : Option Val :=
  let t := pyStrip s
  if t == "-" then some (.str s)
  else if t == "null" then some .null
  else if t == "true" || t == "false" then some (.str s)
  else match O.yaml s with
    | .none => .none
    | some (.bool _) => some (.str s)
    | some (.int _) => some (.str s)
    | some (.flt _) => some (.str s)
    | some (.str _) => some (.str s)
    | some w => some w

/-- `parse_value_or_config(val, enable_path=False)[0]` inside `except loader exceptions` -/
def parseValueOrConfig (O : Oracle) : Val → Val
  | .str s =>
    if isBlank s then .str s
    else match loadValue O s with
      | .none => .str s
      | some (.str _) => .str s
      | some w => w
  | v => v

/-- `ActionTypeHint._is_valid_string` -/
def isValidString (t : Ty) (v : Val) : Bool :=
  isStr v && (match t with
    | .str => true
    | .union ts => ts.any isStrTy
    | _ => false)

def origOf : Val → Option String | .str s => some s | _ => .none

/-- `ActionTypeHint._check_type(value)` for an action without nargs, `enable_path=False`, no previous
    value and `default=None`: what both `parse_object` (per key) and `parse_args` (per option) call -/
def checkType (O : Oracle) (t : Ty) (v : Val) : Except Err Val :=
  let orig := origOf v
  let val := parseValueOrConfig O v
  let fallback : Except Err Val := if isValidString t val then .ok val else .error .type
  match adapt O false orig t val with
  | .ok w => .ok w
  | .error .type => fallback                               -- not a ValueError: no retry
  | .error .value =>
    match orig with
    | .none => fallback
    | some s =>
      match adapt O false orig t (.str s) with             -- retry with the original string
      | .ok w => .ok w
      | .error _ => fallback

/-! ### arguments that have a default

`adapt_typehints` starts with `if type(val) in {str, bool, int, float} and val == default: return val`.  The
default is NOT part of `adapt_kwargs`: it is only seen by the outermost call, and only the retry of `_check_type`
(and `serialize` / `instantiate_classes`) pass it.  `adaptD` is that outermost call. -/

def isSBIF : Val → Bool
  | .str _ | .bool _ | .int _ | .flt _ => true
  | _ => false

/-- `adapt_typehints(val, typehint, default=dflt, ...)` -/
def adaptD (O : Oracle) (ser : Bool) (orig : Option String) (dflt : Option Val) (t : Ty) (v : Val) : Except Err Val :=
  match dflt with
  | some d => if isSBIF v && pyEq v d then .ok v else adapt O ser orig t v       -- Python `==`: True == 1 == 1.0
  | .none => adapt O ser orig t v

/-- `_check_type` of an argument whose default is `dflt`: the first attempt does not pass the default, the retry
    (only when the original value is a `str`) does -/
def checkTypeD (O : Oracle) (t : Ty) (dflt : Option Val) (v : Val) : Except Err Val :=
  let orig := origOf v
  let val := parseValueOrConfig O v
  let fallback : Except Err Val := if isValidString t val then .ok val else .error .type
  match adapt O false orig t val with
  | .ok w => .ok w
  | .error .type => fallback
  | .error .value =>
    match orig with
    | .none => fallback
    | some s =>
      match adaptD O false orig dflt t (.str s) with
      | .ok w => .ok w
      | .error _ => fallback

def parseObjD (O : Oracle) (t : Ty) (dflt : Option Val) (v : Val) : Except Err Val :=
  match v with
  | .null => .ok .null
  | v =>
    match checkTypeD O t dflt v with
    | .error e => .error e
    | .ok .null => .ok .null
    | .ok w => match checkTypeD O t dflt w with
      | .error e => .error e
      | .ok _ => .ok w

def parseArgD (O : Oracle) (t : Ty) (dflt : Option Val) (s : String) : Except Err Val :=
  match checkTypeD O t dflt (.str s) with
  | .error e => .error e
  | .ok .null => .ok .null
  | .ok w => match checkTypeD O t dflt w with
    | .error e => .error e
    | .ok _ => .ok w

/-- value channel: `parser.parse_object({k: v})` for one key = apply pass, then the validation pass
    on the result (whose outcome is only accept/reject).  A top-level `None` is never checked. -/
def parseObj (O : Oracle) (t : Ty) (v : Val) : Except Err Val :=
  match v with
  | .null => .ok .null
  | v =>
    match checkType O t v with
    | .error e => .error e
    | .ok .null => .ok .null
    | .ok w => match checkType O t w with
      | .error e => .error e
      | .ok _ => .ok w

/-- string channel: `parser.parse_args(['--k=' ++ s])` -/
def parseArg (O : Oracle) (t : Ty) (s : String) : Except Err Val :=
  match checkType O t (.str s) with
  | .error e => .error e
  | .ok .null => .ok .null
  | .ok w => match checkType O t w with
    | .error e => .error e
    | .ok _ => .ok w

/-- the string channel of the property text -/
def adaptStr (O : Oracle) (t : Ty) (s : String) : Except Err Val := checkType O t (.str s)

/-- `ActionTypeHint.serialize` -/
def ser (O : Oracle) (t : Ty) (v : Val) : Except Err Val := adapt O true .none t v

def accepts (O : Oracle) (t : Ty) (v : Val) : Bool := !isErr (adapt O false .none t v)
def acceptsStr (O : Oracle) (t : Ty) (s : String) : Bool := !isErr (adaptStr O t s)

end Jap.Adapt

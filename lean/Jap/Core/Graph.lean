/-
E5 — model of the instantiation-order machinery of `jsonargparse/_link_arguments.py`
and of the component loop head of `ArgumentParser.instantiate_classes` (`_core.py`).

* `DG`, `addEdge`, `build`            — `DirectedGraph.__init__/add_edge` (ordered unique node list,
                                        `edges_dict : index -> list of indices`, de-duplicated)
* `stepFn`, `visit`, `topoIdx`        — `topological_sort` / `get_topological_order` exactly as written:
                                        separate `exploring` / `visited` boolean arrays, `order.insert(0, source)`,
                                        `ValueError` on a target that is being explored.  The recursion of the code is
                                        unbounded; the model takes a structural fuel (`n+1`), and `C16_fuel` proves it never runs out.
* `getTopologicalOrder`               — index order mapped back to node names / the edge named by the error message
* `keyMatches`, `reorder`             — `ActionLink.reorder` (stable extraction by `key == dest or dest.startswith(key + ".")`)
* `targetNode`, `prefixesOf`, `instantiationOrder`
                                      — `ActionLink.instantiation_order`: link edges, then shared-prefix target edges
* `sortByDepthDesc`, `componentOrder` — `components.sort(key=-len(split_key(dest)))`, `reorder(order, components)`
* `appliedAt`, `schedule`             — which not-yet-applied links `apply_instantiation_links(target=component.dest)` selects

Imports nothing beyond core Lean.  Strings are handled as `List Char` by small
structurally recursive functions (core `String.splitOn/replace` do not reduce in the kernel).
-/
namespace Jap.Graph

/-! ### DirectedGraph -/

/-- `DirectedGraph`: `nodes` (list, unique) and `edges_dict` (a `defaultdict(list)`, kept as an
    insertion-ordered association list from node index to the list of target indices). -/
structure DG (α : Type) where
  nodes : List α
  edges : List (Nat × List Nat)
deriving Repr

def DG.empty {α : Type} : DG α := ⟨[], []⟩

/-- `edges_dict[i]` (a missing key reads as `[]`) -/
def lookupE (i : Nat) : List (Nat × List Nat) → List Nat
  | [] => []
  | (k, l) :: r => if k = i then l else lookupE i r

/-- `edges_dict[i] = l` -/
def upsertE (i : Nat) (l : List Nat) : List (Nat × List Nat) → List (Nat × List Nat)
  | [] => [(i, l)]
  | (k, l') :: r => if k = i then (k, l) :: r else (k, l') :: upsertE i l r

/-- `if node not in self.nodes: self.nodes.append(node)` -/
def addNode {α : Type} [DecidableEq α] (nodes : List α) (x : α) : List α :=
  if x ∈ nodes then nodes else nodes ++ [x]

/-- `add_edge(source, target)` -/
def addEdge {α : Type} [DecidableEq α] (g : DG α) (s t : α) : DG α :=
  let nodes := addNode (addNode g.nodes s) t
  let si := nodes.idxOf s
  let ti := nodes.idxOf t
  let lst := lookupE si g.edges
  { nodes := nodes, edges := upsertE si (if ti ∈ lst then lst else lst ++ [ti]) g.edges }

/-- a graph built by a sequence of `add_edge` calls on a fresh `DirectedGraph()` -/
def build {α : Type} [DecidableEq α] (es : List (α × α)) : DG α :=
  es.foldl (fun g e => addEdge g e.1 e.2) DG.empty

/-- `self.edges_dict[source]` as read by `topological_sort` -/
def adj {α : Type} (g : DG α) (u : Nat) : List Nat := lookupE u g.edges

/-! ### topological sort -/

inductive Err where
  | fuel
  | cycle (u v : Nat)
deriving DecidableEq, Repr

/-- the three mutable lists threaded through `topological_sort` -/
structure St where
  exploring : List Bool
  visited : List Bool
  order : List Nat
deriving DecidableEq, Repr

/-- `exploring[i]` / `visited[i]` (indices are always in range, see `hadj` in the lemmas) -/
def flag (l : List Bool) (i : Nat) : Bool := l.getD i false

/-- one iteration of `for target in self.edges_dict[source]` -/
def stepFn (rec : Nat → St → Except Err St) (u : Nat) (s : St) (v : Nat) : Except Err St :=
  if flag s.exploring v then .error (.cycle u v)
  else if !(flag s.visited v) then rec v s
  else .ok s

/-- `topological_sort(source, exploring, visited, order)` -/
def visit (adj : Nat → List Nat) : Nat → Nat → St → Except Err St
  | 0, _, _ => .error .fuel
  | fuel+1, u, st =>
    match (adj u).foldlM (stepFn (visit adj fuel) u) { st with exploring := st.exploring.set u true } with
    | .error e => .error e
    | .ok s2 => .ok { exploring := s2.exploring.set u false, visited := s2.visited.set u true, order := u :: s2.order }

/-- the loop of `get_topological_order`, on indices -/
def topoIdx (adj : Nat → List Nat) (n : Nat) : Except Err (List Nat) :=
  match (List.range n).foldlM (fun s u => if !(flag s.visited u) then visit adj (n+1) u s else .ok s)
      ⟨List.replicate n false, List.replicate n false, []⟩ with
  | .error e => .error e
  | .ok s => .ok s.order

inductive TopoErr (α : Type) where
  | internal                 -- fuel exhausted / index out of range: proved unreachable (`C16_fuel`)
  | cycle (u v : α)          -- `ValueError("Graph has cycles, found while checking u --> v")`
deriving DecidableEq, Repr

/-- `[self.nodes[n] for n in order]`, resp. the two names in the error message -/
def nameResult {α : Type} (g : DG α) : Except Err (List Nat) → Except (TopoErr α) (List α)
  | .ok o => .ok (o.filterMap (fun i => g.nodes[i]?))
  | .error (.cycle u v) =>
    match g.nodes[u]?, g.nodes[v]? with
    | some a, some b => .error (.cycle a b)
    | _, _ => .error .internal
  | .error .fuel => .error .internal

/-- `get_topological_order()` -/
def getTopologicalOrder {α : Type} (g : DG α) : Except (TopoErr α) (List α) :=
  nameResult g (topoIdx (adj g) g.nodes.length)

/-- build + sort: what the driver exposes as `topo` -/
def topo {α : Type} [DecidableEq α] (es : List (α × α)) : Except (TopoErr α) (List α) :=
  getTopologicalOrder (build es)

/-! ### `ActionLink.reorder` -/

/-- `key == dest or dest.startswith(key + ".")` -/
def keyMatchesL (key dest : List Char) : Bool :=
  key == dest || (key ++ ['.']).isPrefixOf dest

def keyMatches (key dest : String) : Bool := keyMatchesL key.toList dest.toList

/-- the loop of `reorder` for an arbitrary match predicate: `ordered` accumulates, `comps` shrinks -/
def reorderLoop {κ γ : Type} (m : κ → γ → Bool) : List κ → List γ → List γ → List γ
  | [], comps, ordered => ordered ++ comps
  | key :: rest, comps, ordered =>
    reorderLoop m rest (comps.filter (fun c => !m key c)) (ordered ++ comps.filter (fun c => m key c))

def reorderBy {κ γ : Type} (m : κ → γ → Bool) (order : List κ) (comps : List γ) : List γ :=
  reorderLoop m order comps []

/-- `ActionLink.reorder(order, components)`; `dest` projects the component's `.dest` -/
def reorder {γ : Type} (dest : γ → String) (order : List String) (comps : List γ) : List γ :=
  reorderBy (fun k c => keyMatches k (dest c)) order comps

/-! ### small string layer on `List Char` -/

/-- `s.split(sep)` for a one-character separator -/
def splitOnC (sep : Char) : List Char → List (List Char)
  | [] => [[]]
  | c :: r =>
    if c = sep then [] :: splitOnC sep r
    else match splitOnC sep r with
      | [] => [[c]]
      | h :: t => (c :: h) :: t

def joinC (sep : Char) : List (List Char) → List Char
  | [] => []
  | [x] => x
  | x :: r => x ++ sep :: joinC sep r

/-- `s.replace(pat, rep)` (left to right, non-overlapping, `pat` non-empty); `skip` = characters of a match still to drop -/
def replaceAux (pat rep : List Char) : Nat → List Char → List Char
  | _, [] => []
  | skip+1, _ :: r => replaceAux pat rep skip r
  | 0, c :: r =>
    if pat.isPrefixOf (c :: r) then rep ++ replaceAux pat rep (pat.length - 1) r
    else c :: replaceAux pat rep 0 r

def replaceL (pat rep s : List Char) : List Char := replaceAux pat rep 0 s

/-- `split_key_leaf(key)[0]` = `key.rsplit(".", 1)[0]` -/
def rsplitHead (s : List Char) : List Char :=
  let parts := splitOnC '.' s
  if parts.length ≤ 1 then s else joinC '.' parts.dropLast

def initArgsSuffix : List Char := ".init_args".toList

/-- `re.sub(r"\.init_args$", "", s)` (keys contain no newline) -/
def stripInitArgs (s : List Char) : List Char :=
  if initArgsSuffix.isSuffixOf s then s.take (s.length - initArgsSuffix.length) else s

/-- graph node of a link target key -/
def targetNodeL (targetKey : List Char) : List Char := stripInitArgs (rsplitHead targetKey)

def targetNode (targetKey : String) : String := String.ofList (targetNodeL targetKey.toList)

/-- `len(split_key(x))` -/
def depthL (s : List Char) : Nat := (splitOnC '.' s).length

def depth (s : String) : Nat := depthL s.toList

/-- `[x.replace("|", ".") for x in target.replace("init_args.", "init_args|").split(".")]` -/
def partsL (target : List Char) : List (List Char) :=
  (splitOnC '.' (replaceL "init_args.".toList "init_args|".toList target)).map (replaceL ['|'] ['.'])

/-- `[".".join(parts[:num+1]) for num in range(len(parts) - 1)]` -/
def prefixesL (target : List Char) : List (List Char) :=
  let parts := partsL target
  (List.range (parts.length - 1)).map (fun num => joinC '.' (parts.take (num + 1)))

def prefixesOf (target : String) : List String := (prefixesL target.toList).map String.ofList

/-! ### `ActionLink.instantiation_order` -/

/-- stable insertion by an ascending `Nat` key (Python `sorted(..., key=...)`): `x` precedes everything in the list,
    so it goes before the first element whose key is not smaller -/
def insertAsc {γ : Type} (k : γ → Nat) (x : γ) : List γ → List γ
  | [] => [x]
  | y :: r => if k y < k x then y :: insertAsc k x r else x :: y :: r

def sortAsc {γ : Type} (k : γ → Nat) : List γ → List γ
  | [] => []
  | x :: r => insertAsc k x (sortAsc k r)

/-- an instantiation link as far as the order computation sees it:
    `[source_action.dest for _, source_action in action.source]` and `action.target[0]` -/
structure Link where
  sources : List String
  target : String
deriving DecidableEq, Repr

/-- first loop: `graph.add_edge(source_action.dest, target)` for every link, in link order -/
def linkEdges : List Link → List (String × String)
  | [] => []
  | l :: r => l.sources.map (fun s => (s, targetNode l.target)) ++ linkEdges r

/-- second loop over `targets[1:]`, threading `seen_targets` -/
def prefixEdgesLoop : List String → List String → List (String × String)
  | [], _ => []
  | t :: r, seen =>
    ((prefixesOf t).filter (fun p => seen.contains p)).map (fun p => (t, p)) ++ prefixEdgesLoop r (seen ++ [t])

/-- `targets = sorted(targets, key=depth)`; `setOrder` is the iteration order of the Python set
    (hash dependent, supplied by the caller; duplicates removed here) -/
def sortedTargets (setOrder : List String) : List String := sortAsc depth setOrder.eraseDups

def prefixEdges (setOrder : List String) : List (String × String) :=
  match sortedTargets setOrder with
  | [] => []
  | t0 :: r => prefixEdgesLoop r [t0]

/-- all `add_edge` calls of `instantiation_order`, in call order -/
def instantiationEdges (links : List Link) (setOrder : List String) : List (String × String) :=
  linkEdges links ++ prefixEdges setOrder

/-- `ActionLink.instantiation_order(parser)`; `[]` when there are no instantiation links -/
def instantiationOrder (links : List Link) (setOrder : List String) : Except (TopoErr String) (List String) :=
  if links.isEmpty then .ok [] else topo (instantiationEdges links setOrder)

/-! ### component order of `instantiate_classes` -/

/-- `components.sort(key=lambda x: -len(split_key(x.dest)))`: stable, deepest first -/
def insertDesc {γ : Type} (k : γ → Nat) (x : γ) : List γ → List γ
  | [] => [x]
  | y :: r => if k x < k y then y :: insertDesc k x r else x :: y :: r

def sortDesc {γ : Type} (k : γ → Nat) : List γ → List γ
  | [] => []
  | x :: r => insertDesc k x (sortDesc k r)

/-- the sequence in which `instantiate_classes` walks its components (by `.dest`) -/
def componentOrder (links : List Link) (setOrder : List String) (dests : List String) :
    Except (TopoErr String) (List String) :=
  match instantiationOrder links setOrder with
  | .error e => .error e
  | .ok order => .ok (reorder id order (sortDesc depth dests))

/-- `target_key == target or target_key.startswith(f"{target}.")` in `apply_instantiation_links` -/
def feeds (componentDest targetKey : String) : Bool := keyMatches componentDest targetKey

/-- links (by index) that `apply_instantiation_links(parser, cfg, target=dest)` selects given the already applied ones
    (nested links and links whose source attribute is missing are data dependent and left to the harness) -/
def appliedAt (links : List Link) (applied : List Nat) (dest : String) : List Nat :=
  (List.range links.length).filter (fun i =>
    !applied.contains i && match links[i]? with
      | some l => feeds dest l.target
      | none => false)

/-- per component: the link indices applied just before it is instantiated -/
def scheduleLoop (links : List Link) : List String → List Nat → List (String × List Nat)
  | [], _ => []
  | d :: r, applied =>
    let now := appliedAt links applied d
    (d, now) :: scheduleLoop links r (applied ++ now)

def schedule (links : List Link) (comps : List String) : List (String × List Nat) :=
  scheduleLoop links comps []

/-! ### decidable classes of link sets (hypotheses of the nested-key theorems in Props/C16) -/

/-- hypothesis of the component-order theorem over nested keys (decidable): a key of the link graph that matches a
    component consuming link `l`'s target — and so can pull that component forward in `reorder` — is `l`'s own
    target node, or the target node of some link that CONTAINS it (a shallower target node that is a dotted-part
    prefix: the second loop of `instantiation_order` then orders it after the nested one).  What this excludes is a key
    that is only a SOURCE and contains the target: findings C16-nested-target-in-source / C16-containment-cycle-accepted. -/
def NestedKeysOK (links : List Link) (setOrder dests : List String) : Prop :=
  ∀ l ∈ links, ∀ c ∈ dests, feeds c l.target = true →
    ∀ k ∈ (build (instantiationEdges links setOrder)).nodes, keyMatches k c = true →
      k = targetNode l.target ∨
      (k ∈ setOrder ∧ targetNode l.target ∈ setOrder ∧ k ∈ prefixesOf (targetNode l.target) ∧
        depth k < depth (targetNode l.target))

instance (links : List Link) (setOrder dests : List String) : Decidable (NestedKeysOK links setOrder dests) := by
  unfold NestedKeysOK; infer_instance

/-- containment among the keys of the link graph: the object named by `t` lies inside the object named by `k`, so it is
    constructed first (`t --> k`) -/
def containmentEdges (nodes : List String) : List (String × String) :=
  nodes.flatMap fun t => (nodes.filter fun k => keyMatches k t && k != t).map fun k => (t, k)

/-- link edges, shared-prefix edges and ALL containment edges: the real construction dependencies between the keys -/
def fullEdges (links : List Link) (setOrder : List String) : List (String × String) :=
  instantiationEdges links setOrder ++ containmentEdges (build (instantiationEdges links setOrder)).nodes

/-- every containment between two keys is an edge `instantiation_order` adds itself (true when the containing key is a
    target: shared-prefix edge; false exactly when a key that is only a SOURCE contains another key —
    C16-containment-cycle-accepted — or a source is nested in another key — C16-nested-source-after-enclosing-group) -/
def ContainmentCovered (links : List Link) (setOrder : List String) : Prop :=
  ∀ e ∈ containmentEdges (build (instantiationEdges links setOrder)).nodes, e ∈ instantiationEdges links setOrder

instance (links : List Link) (setOrder : List String) : Decidable (ContainmentCovered links setOrder) := by
  unfold ContainmentCovered; infer_instance

/-- every link source is a top-level component: no OTHER component contains it (decidable).  Outside this class no
    constructor call of another component can replace the source's entry in cfg before a consumer reads it. -/
def SourcesTopLevel (links : List Link) (dests : List String) : Prop :=
  ∀ l ∈ links, ∀ s ∈ l.sources, ∀ c ∈ dests, keyMatches c s = true → c = s

instance (links : List Link) (dests : List String) : Decidable (SourcesTopLevel links dests) := by
  unfold SourcesTopLevel; infer_instance

end Jap.Graph

import Jap.Core.Styles
/-!
Engine "Validate", C07 part 3: the four declaration styles over the WIDER member grammar of the Validate model.

A member of the group is
* a typed leaf,
* a dataclass-typed member (`sub`: a nested group — dataclass in dataclass, to any depth),
* `m: Optional[D] = None` (`optDc`) and `m: List[D]` / `m: Optional[List[D]] = None` (`listDc`) for a dataclass `D` whose fields are again
  members of this grammar: ONE `ActionTypeHint` in every style (`Node.optGroup` / `Node.listOf (.group ..)` of the spec tree) — the fields
  of `D` never become actions of the parser, they belong to the per-class parser of `D`,
* a class-typed member (`clsM`, abstract base): one `ActionTypeHint` plus the `--path.help` option (`_ActionHelpClassPath`); in the dotted
  and inner-parser styles it is declared with `add_subclass_arguments(Base, key, required=…)` when `viaGroup`, else `add_argument(type=Base)`.

`TableX` lists, besides the actions, three things on which the styles are known to differ: the whole-group options (`wholes`), the
`.help` options of class-typed members (`helps`), and the members that take `null` while parsing although required (`lenientNull`:
`add_subclass_arguments(required=True)` checks the requirement only at the end).
Everything is structurally recursive.
-/
namespace Jap.Validate

inductive FieldX where
  | leaf (name : String) (ty : Ty) (default : Option Val)
  | sub (name : String) (fields : List FieldX)
  | optDc (name : String) (fields : List FieldX)
  | listDc (name : String) (required : Bool) (fields : List FieldX)
  | clsM (name : String) (required : Bool) (viaGroup : Bool)
deriving Repr, Inhabited

inductive KindX where
  | leaf (ty : Ty) | optDc | listDc | cls
deriving DecidableEq, Repr, Inhabited

/-- one action: destination, whether a `--path+` option exists, kind, default (`none` = required) -/
structure ActX where
  path : List String
  plus : Bool
  kind : KindX
  default : Option Val
deriving Repr, Inhabited

structure TableX where
  entries : List ActX
  wholes : List (List String)
  helps : List (List String)
  lenientNull : List (List String)
deriving Repr, Inhabited

def TableX.append (a b : TableX) : TableX :=
  ⟨a.entries ++ b.entries, a.wholes ++ b.wholes, a.helps ++ b.helps, a.lenientNull ++ b.lenientNull⟩

def TableX.empty : TableX := ⟨[], [], [], []⟩

/-- the action of a member that is a single argument, as every style creates it with `add_argument` -/
def atomX (p : List String) : FieldX → List ActX
  | .leaf _ ty d => [⟨p, hasPlus ty, .leaf ty, normOptD ty d⟩]
  | .optDc _ _ => [⟨p, false, .optDc, some .null⟩]
  | .listDc _ req _ => [⟨p, true, .listDc, if req then none else some .null⟩]
  | .clsM _ req _ => [⟨p, false, .cls, if req then none else some .null⟩]
  | .sub _ _ => []

/-! ## style 1: dotted arguments -/
mutual
def dottedXF (pre : List String) : FieldX → TableX
  | .leaf n ty d => ⟨atomX (pre ++ [n]) (.leaf n ty d), [], [], []⟩
  | .optDc n fs => ⟨atomX (pre ++ [n]) (.optDc n fs), [], [], []⟩
  | .listDc n r fs => ⟨atomX (pre ++ [n]) (.listDc n r fs), [], [], []⟩
  -- `add_subclass_arguments(Base, "pre.n", required=r)` / `add_argument("--pre.n", type=Base, required=r)`: both add `--pre.n.help`
  | .clsM n r via => ⟨atomX (pre ++ [n]) (.clsM n r via), [], [pre ++ [n]], if r && via then [pre ++ [n]] else []⟩
  | .sub n fs => dottedXL (pre ++ [n]) fs
def dottedXL (pre : List String) : List FieldX → TableX
  | [] => .empty
  | f :: r => (dottedXF pre f).append (dottedXL pre r)
end

/-! ## styles 2 and 3: signatures (`_add_signature_parameter`; a dataclass-typed parameter → `add_class_arguments`) -/
mutual
def sigXF (pre : List String) : FieldX → TableX
  | .leaf n ty d => ⟨atomX (pre ++ [n]) (.leaf n ty d), [], [], []⟩
  | .optDc n fs => ⟨atomX (pre ++ [n]) (.optDc n fs), [], [], []⟩
  | .listDc n r fs => ⟨atomX (pre ++ [n]) (.listDc n r fs), [], [], []⟩
  -- `m: Base` / `m: Optional[Base] = None`: typed by the annotation, `null` is a type error for a required one at once
  | .clsM n r via => ⟨atomX (pre ++ [n]) (.clsM n r via), [], [pre ++ [n]], []⟩
  | .sub n fs => (⟨[], [pre ++ [n]], [], []⟩ : TableX).append (sigXL (pre ++ [n]) fs)
def sigXL (pre : List String) : List FieldX → TableX
  | [] => .empty
  | f :: r => (sigXF pre f).append (sigXL pre r)
end

/-! ## style 4: inner parsers attached with `ActionParser` -/

/-- `_move_parser_actions`: dests / option strings get the prefix, an `_ActionConfigLoad` for the key is added; the `.help` actions of the
    inner parser are NOT carried over (`filter_default_actions`) -/
def TableX.moved (n : String) (t : TableX) : TableX :=
  ⟨t.entries.map (fun e => { e with path := n :: e.path }), [n] :: t.wholes.map (n :: ·), [], t.lenientNull.map (n :: ·)⟩

mutual
def innerXF : FieldX → TableX
  | .leaf n ty d => ⟨atomX [n] (.leaf n ty d), [], [], []⟩
  | .optDc n fs => ⟨atomX [n] (.optDc n fs), [], [], []⟩
  | .listDc n r fs => ⟨atomX [n] (.listDc n r fs), [], [], []⟩
  | .clsM n r via => ⟨atomX [n] (.clsM n r via), [], [[n]], if r && via then [[n]] else []⟩
  | .sub n fs => (innerXL fs).moved n
def innerXL : List FieldX → TableX
  | [] => .empty
  | f :: r => (innerXF f).append (innerXL r)
end

def declX : Style → String → List FieldX → TableX
  | .dotted => fun key fs => dottedXL [key] fs
  | .dataclass => fun key fs => sigXF [] (.sub key fs)
  | .classArgs => fun key fs => sigXF [] (.sub key fs)
  | .inner => fun key fs => (innerXL fs).moved key

/-! ## reference descriptions (what the theorems say the four tables are) -/
mutual
def actsF (pre : List String) : FieldX → List ActX
  | .sub n fs => actsL (pre ++ [n]) fs
  | .leaf n ty d => atomX (pre ++ [n]) (.leaf n ty d)
  | .optDc n fs => atomX (pre ++ [n]) (.optDc n fs)
  | .listDc n r fs => atomX (pre ++ [n]) (.listDc n r fs)
  | .clsM n r via => atomX (pre ++ [n]) (.clsM n r via)
def actsL (pre : List String) : List FieldX → List ActX
  | [] => []
  | f :: r => actsF pre f ++ actsL pre r
end

mutual
/-- the group keys below `pre` (only `sub` members are groups of the parser) -/
def groupsXF (pre : List String) : FieldX → List (List String)
  | .sub n fs => (pre ++ [n]) :: groupsXL (pre ++ [n]) fs
  | _ => []
def groupsXL (pre : List String) : List FieldX → List (List String)
  | [] => []
  | f :: r => groupsXF pre f ++ groupsXL pre r
end

mutual
/-- class-typed members that satisfy `p` (required, viaGroup), as destinations -/
def clsPathsF (p : Bool → Bool → Bool) (pre : List String) : FieldX → List (List String)
  | .sub n fs => clsPathsL p (pre ++ [n]) fs
  | .clsM n r via => if p r via then [pre ++ [n]] else []
  | _ => []
def clsPathsL (p : Bool → Bool → Bool) (pre : List String) : List FieldX → List (List String)
  | [] => []
  | f :: r => clsPathsF p pre f ++ clsPathsL p pre r
end

/-! ## the spec tree of a declaration (for `validate`) -/
mutual
def specXF (whole : Bool) : FieldX → String × Node
  | .leaf n ty d => (n, .leaf ty (normOptD ty d).isNone (normOptD ty d))
  | .sub n fs => (n, .group whole (specXL whole fs))
  -- the dataclass of an Optional / List member is always a dataclass, whatever the style of the enclosing group
  | .optDc n fs => (n, .optGroup false (specXL true fs))
  | .listDc n r fs => (n, .listOf r (.group true (specXL true fs)))
  | .clsM n r _ => (n, .classArg r none [])
def specXL (whole : Bool) : List FieldX → Fields
  | [] => []
  | f :: r => specXF whole f :: specXL whole r
end

def specX (whole : Bool) (key : String) (fields : List FieldX) : Fields := [(key, .group whole (specXL whole fields))]

end Jap.Validate

/-
Engine "Scalar" (C01, C05): the plain-value ↔ text layer that jsonargparse configures.

(a) Scalar resolution.  `resolveLoad` / `resolveDump` : which YAML tag the loader class used by `yaml_load`,
    resp. the Dumper class used by `yaml_dump`, assigns to a plain scalar (PyYAML `BaseResolver.resolve`: the
    first matching regex in the ordered list registered for the first character, else `str`; the empty
    scalar uses the list registered for '').  Both are read off the joint automaton `J` regenerated from the
    live classes into `Jap.Gen.Resolvers` (state = class of the first character + state of every regex DFA).
    The emitter writes a `str` plain only if `resolveDump s = str` (and `analyze_scalar` permits, a parameter
    outside the model); the loader reads a plain scalar `s` with tag `resolveLoad s`.
    `inImage i s` : membership of `s` in the i-th "image language" (texts the representers can write for
    int/bool/null/float, and the JSON number grammar), further columns of `J`.
(b) JSON formats read back by the YAML loader.  `jsonEscape` : `json.dumps` string escaping with the extracted
    `ensure_ascii`; `yamlDqUnescape` : what libyaml's scanner (`yaml_parser_scan_flow_scalar`, double-quoted)
    returns for the text between the quotes, including the reader's character check, escapes, line folding.
-/
import Jap.Core.Dfa
import Jap.Gen.Resolvers
import Jap.Gen.DumpCfg

namespace Jap.Scalar
open Jap.Dfa

/-! ### (a) resolution -/

/-- the joint automaton -/
def J : Table := ⟨Gen.Resolvers.jdelta, Gen.Resolvers.BS, Gen.Resolvers.K, Gen.Resolvers.W⟩

def jstep (q c : Nat) : Nat := step J q c
def jrun (q : Nat) (w : List Nat) : Nat := run J q w

/-- loader / dumper tag code of a joint state (0 = str) -/
def tagL (j : Nat) : Nat := fld Gen.Resolvers.jtagL Gen.Resolvers.W j
def tagD (j : Nat) : Nat := fld Gen.Resolvers.jtagD Gen.Resolvers.W j
/-- joint state `j` is accepting for image language `i` -/
def inImg (i j : Nat) : Bool := Nat.beq ((fld Gen.Resolvers.jimg Gen.Resolvers.nimg j >>> i) % 2) 1

inductive Tag
  | str | null | bool | int | float
  | other (code : Nat)      -- merge, timestamp, value, yaml, …: index into `Gen.Resolvers.tagNames`
  deriving DecidableEq, Repr

/-- tag codes 0–4 are fixed by the extractor -/
def Tag.ofNat : Nat → Tag
  | 0 => .str | 1 => .null | 2 => .bool | 3 => .int | 4 => .float
  | n => .other n

def Tag.code : Tag → Nat
  | .str => 0 | .null => 1 | .bool => 2 | .int => 3 | .float => 4 | .other n => n

def charClass (c : Char) : Nat := classOf Gen.Resolvers.classTable c.toNat
def classes (s : List Char) : List Nat := s.map charClass

/-- resolution on class words -/
def resolveLoadW (w : List Nat) : Tag := Tag.ofNat (tagL (jrun 0 w))
def resolveDumpW (w : List Nat) : Tag := Tag.ofNat (tagD (jrun 0 w))
def inImageW (i : Nat) (w : List Nat) : Bool := inImg i (jrun 0 w)

/-- resolution on character lists and strings -/
def resolveLoadC (s : List Char) : Tag := resolveLoadW (classes s)
def resolveDumpC (s : List Char) : Tag := resolveDumpW (classes s)
def inImageC (i : Nat) (s : List Char) : Bool := inImageW i (classes s)
def resolveLoad (s : String) : Tag := resolveLoadC s.toList
def resolveDump (s : String) : Tag := resolveDumpC s.toList
def inImage (i : Nat) (s : String) : Bool := inImageC i s.toList

/-! ### (b) json.dumps string escaping -/

def hexDigit (n : Nat) : Char := if n < 10 then Char.ofNat (48 + n) else Char.ofNat (87 + n)

/-- `'\\u{0:04x}'.format(n)` without the backslash-u -/
def hex4 (n : Nat) : List Char :=
  [hexDigit (n / 4096 % 16), hexDigit (n / 256 % 16), hexDigit (n / 16 % 16), hexDigit (n % 16)]

/-- json.encoder: `ESCAPE`/`ESCAPE_DCT` (ensure_ascii=False) and `ESCAPE_ASCII` (ensure_ascii=True) -/
def jsonEscapeChar (ascii : Bool) (c : Char) : List Char :=
  let n := c.toNat
  if n = 34 then ['\\', '"']
  else if n = 92 then ['\\', '\\']
  else if n = 10 then ['\\', 'n']
  else if n = 13 then ['\\', 'r']
  else if n = 9 then ['\\', 't']
  else if n = 8 then ['\\', 'b']
  else if n = 12 then ['\\', 'f']
  else if n < 32 then '\\' :: 'u' :: hex4 n
  else if ascii && decide (126 < n) then
    if n < 65536 then '\\' :: 'u' :: hex4 n
    else
      let m := n - 65536
      ('\\' :: 'u' :: hex4 (55296 + m / 1024 % 1024)) ++ ('\\' :: 'u' :: hex4 (56320 + m % 1024))
  else [c]

def jsonEscapeWith (ascii : Bool) : List Char → List Char
  | [] => []
  | c :: cs => jsonEscapeChar ascii c ++ jsonEscapeWith ascii cs

/-- the text json.dumps writes between the quotes, with the `ensure_ascii` the json dumpers actually pass -/
def jsonEscape (s : List Char) : List Char := jsonEscapeWith Gen.DumpCfg.jsonEnsureAscii s

/-! ### (b) the YAML reader and double-quoted scalars (libyaml) -/

def inRanges : List (Nat × Nat) → Nat → Bool
  | [], _ => false
  | (lo, hi) :: rest, n => (Nat.ble lo n && Nat.ble n hi) || inRanges rest n

/-- accepted by the YAML reader (else ReaderError "control characters are not allowed") -/
def yamlPrintable (c : Char) : Bool := inRanges Gen.DumpCfg.readerPrintable c.toNat

def isBlank (c : Char) : Bool := c.toNat = 32 || c.toNat = 9
/-- YAML 1.1 line breaks: LF CR NEL LS PS -/
def isBreak (c : Char) : Bool := c.toNat = 10 || c.toNat = 13 || c.toNat = 133 || c.toNat = 8232 || c.toNat = 8233
/-- READ_LINE: CR LF, CR, LF, NEL become "\n"; LS and PS are copied -/
def normBreak (c : Char) : Char := if c.toNat = 8232 || c.toNat = 8233 then c else '\n'

def hexVal (c : Char) : Option Nat :=
  let n := c.toNat
  if 48 ≤ n ∧ n ≤ 57 then some (n - 48)
  else if 97 ≤ n ∧ n ≤ 102 then some (n - 87)
  else if 65 ≤ n ∧ n ≤ 70 then some (n - 55)
  else none

/-- single-character escapes of a double-quoted scalar (code `x`,`u`,`U` and line breaks are handled apart) -/
def simpleEscape (c : Char) : Option Nat :=
  match c with
  | '0' => some 0 | 'a' => some 7 | 'b' => some 8 | 't' => some 9 | '\t' => some 9 | 'n' => some 10
  | 'v' => some 11 | 'f' => some 12 | 'r' => some 13 | 'e' => some 27 | ' ' => some 32 | '"' => some 34
  | '/' => some 47 | '\\' => some 92 | 'N' => some 133 | '_' => some 160 | 'L' => some 8232 | 'P' => some 8233
  | _ => none

/-- pending material between two non-blank characters -/
inductive Pend
  | ws (blanks : List Char)                       -- blanks seen on the current line
  | brk (lead : List Char) (trail : List Char)    -- a line break was seen: normalised first break ([] after an escaped break), later breaks
  deriving DecidableEq, Repr

/-- "Join the whitespaces or fold line breaks" -/
def flush (out : List Char) : Pend → List Char
  | .ws b => out ++ b
  | .brk lead trail =>
    if lead = ['\n'] then (if trail = [] then out ++ [' '] else out ++ trail)
    else out ++ lead ++ trail

inductive Esc
  | none
  | bs                               -- just after a backslash
  | hex (left : Nat) (acc : Nat)     -- inside \x.. \u.... \U........
  | crlf                             -- just after a CR that is followed by LF (the pair is one break)
  deriving DecidableEq, Repr

structure DqSt where
  out : List Char
  pend : Pend
  col0 : Bool          -- the next character is in column 0 (directly after a line break)
  esc : Esc
  deriving DecidableEq, Repr

def validCode (v : Nat) : Bool := !(Nat.ble 55296 v && Nat.ble v 57343) && Nat.ble v 1114111

/-- `---` or `...` at column 0 followed by a blank or break: "found unexpected document indicator" -/
def docIndicator : List Char → Bool
  | a :: b :: c :: d :: _ => ((a = '-' && b = '-' && c = '-') || (a = '.' && b = '.' && c = '.')) && (isBlank d || isBreak d)
  | _ => false

/-- scan the text between the double quotes; `none` = scanner error, or an unescaped `"` (the scalar would end early) -/
def dqGo (st : DqSt) : List Char → Option (List Char)
  | [] => match st.esc with
    | .none => some (flush st.out st.pend)
    | _ => none
  | c :: rest =>
    match st.esc with
    | .crlf => dqGo { st with esc := .none } rest       -- the LF of a CR LF pair: already accounted for
    | .bs =>
      if isBreak c then
        -- escaped line break: acts as a break with an empty leading break
        let esc' := match rest with
          | d :: _ => if c.toNat = 13 && d.toNat = 10 then Esc.crlf else Esc.none
          | [] => Esc.none
        dqGo { st with pend := .brk [] [], col0 := true, esc := esc' } rest
      else if c = 'x' then dqGo { st with esc := .hex 2 0 } rest
      else if c = 'u' then dqGo { st with esc := .hex 4 0 } rest
      else if c = 'U' then dqGo { st with esc := .hex 8 0 } rest
      else match simpleEscape c with
        | some v => dqGo { st with out := st.out ++ [Char.ofNat v], esc := .none } rest
        | none => none
    | .hex left acc =>
      match hexVal c with
      | none => none
      | some d =>
        let v := acc * 16 + d
        if left ≤ 1 then
          if validCode v then dqGo { st with out := st.out ++ [Char.ofNat v], esc := .none } rest else none
        else dqGo { st with esc := .hex (left - 1) v } rest
    | .none =>
      if isBlank c then
        match st.pend with
        | .ws b => dqGo { st with pend := .ws (b ++ [c]), col0 := false } rest
        | .brk _ _ => dqGo { st with col0 := false } rest
      else if isBreak c then
        let esc' := match rest with
          | d :: _ => if c.toNat = 13 && d.toNat = 10 then Esc.crlf else Esc.none
          | [] => Esc.none
        match st.pend with
        | .ws _ => dqGo { st with pend := .brk [normBreak c] [], col0 := true, esc := esc' } rest
        | .brk l t => dqGo { st with pend := .brk l (t ++ [normBreak c]), col0 := true, esc := esc' } rest
      else if st.col0 && docIndicator (c :: rest) then none
      else if c.toNat = 34 then none
      else if c.toNat = 92 then dqGo { out := flush st.out st.pend, pend := .ws [], col0 := false, esc := .bs } rest
      else dqGo { out := flush st.out st.pend ++ [c], pend := .ws [], col0 := false, esc := .none } rest

def dqStart : DqSt := { out := [], pend := .ws [], col0 := false, esc := .none }

/-- what the YAML loader returns for the double-quoted scalar with this text between the quotes -/
def yamlDqUnescape (s : List Char) : Option (List Char) :=
  if s.all yamlPrintable then dqGo dqStart s else none

/-- a JSON string literal for `s` read back by the YAML loader -/
def jsonStringRoundTrip (s : List Char) : Option (List Char) := yamlDqUnescape (jsonEscape s)

end Jap.Scalar

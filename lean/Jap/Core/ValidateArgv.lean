import Jap.Core.Validate
/-!
Engine "Validate", third part: what happens to the command-line tokens that no action consumed.

`ArgumentParser.parse_args` (`_core.py`):

    cfg, unk = self.parse_known_args(args=args, namespace=cfg)
    cfg, unk = self._positional_optionals(cfg, unk)
    if unk:
        self.error(f'Unrecognized arguments: {" ".join(unk)}')

`_positional_optionals` (only with `set_parsing_settings(parse_optionals_as_positionals=True)`, a parser without subcommands that
is not an embedded parser) walks the eligible actions in the order they were added (`get_optionals_as_positionals_actions(...,
include_positionals=True)`): a positional that has no value aborts the loop, a positional that has one is skipped, an optional
takes `unk.pop(0)`; the loop ends when nothing is left.  What is still in `unk` is returned — and reported.

`posLoop` is a transcription of that loop (structural recursion on the action list); the statements it transcribes are
regenerated into `Jap.Gen.PositionalOptionals` and compared in `Props/C06.lean`, and the driver op `posopt` runs it next
to the real method.
-/
namespace Jap.Validate

/-- one action of `get_optionals_as_positionals_actions(parser, include_positionals=True)` -/
structure PAct where
  dest : String
  /-- `action.option_strings == []` -/
  positional : Bool
  /-- `cfg.get(action.dest) is not None` when the loop starts (read for positionals only) -/
  hasValue : Bool
deriving DecidableEq, Repr, Inhabited

/-- the `for` loop of `_positional_optionals`: `(assignments dest ↦ token in the order made, the tokens left in unk)` -/
def posLoop : List PAct → List String → List (String × String) × List String
  | _, [] => ([], [])                                   -- `if len(unk) == 0: break`
  | [], unk => ([], unk)                                -- the actions are exhausted
  | a :: r, t :: unk =>
    if a.positional then
      (if a.hasValue then posLoop r (t :: unk)          -- `continue`
       else ([], t :: unk))                             -- "Positional argument ... missing": `break`
    else
      let res := posLoop r unk                          -- `cfg[action.dest] = check(action, unk.pop(0))`
      ((a.dest, t) :: res.1, res.2)

/-- `_positional_optionals(cfg, unk)`; `enabled` = `supports_optionals_as_positionals(self)` -/
def positionalOptionals (enabled : Bool) (acts : List PAct) (unk : List String) : List (String × String) × List String :=
  if unk.isEmpty || !enabled then ([], unk) else posLoop acts unk

/-- the end of `parse_args` as far as leftovers go: the assignments, or "Unrecognized arguments: <rest>" -/
def leftoverVerdict (enabled : Bool) (acts : List PAct) (unk : List String) : Except (List String) (List (String × String)) :=
  let res := positionalOptionals enabled acts unk
  if res.2.isEmpty then .ok res.1 else .error res.2

/-- the optional actions (those that can take a token), in order -/
def optionalDests (acts : List PAct) : List String :=
  (acts.filter fun a => !a.positional).map (·.dest)

end Jap.Validate

import Jap.Core.Sources
/-!
Engine "Sources" (C04), second part: SUBCOMMAND LEVELS and the `default_env` switch over the parser tree.

Anchors (jsonargparse): `_core.py` `ArgumentParser.default_env` (property setter: resolves `JSONARGPARSE_DEFAULT_ENV`,
stores the flag, then CALLS THE SETTER of every sub-parser — the recursion is what reaches deeper levels),
`_parse_common` (`if env is None and self._default_env: env = True`, then `handle_subcommands`);
`_actions.py` `_ActionSubCommands.add_subcommand` (`parser.default_env = self.parent_parser.default_env`,
`parser.env_prefix = f"{self.env_prefix}{name}_"`), `_ActionSubCommands.__call__` (the sub-parser's OWN `parse_args`
with the `env=` / `defaults=` arguments of the outer call: it reads the environment by ITS OWN flag when `env` is None),
`handle_subcommands` (for the chosen subcommand: `parse_env` of the sub-parser if the CALLER's environment reading is
on, else its defaults, merged UNDER the namespace the sub-parser built; then the same for the inner levels with the
caller's setting).

The namespace is modelled level by level (one `KV` per parser on the chosen path); the nesting `cfg[name] = sub`
is the C11 algebra.  Outside: sections for a subcommand inside a config of an outer level, the subcommand
environment variable, default config files of outer parsers seen by inner ones (all three: C17's subject and open
findings there).
-/
namespace Jap.Src
open Jap.NS

/-! ### the `_default_env` flags of a parser tree -/

/-- a parser with its `_default_env` and its sub-parsers by subcommand name -/
inductive PT where
  | node (flag : Bool) (subs : List (String × PT))
deriving Inhabited

mutual
/-- `parser.default_env = b` while `JSONARGPARSE_DEFAULT_ENV` is `os`: the flag is resolved and stored, then
    `subparser.default_env = self._default_env` for every sub-parser — the SETTER again, hence the whole subtree -/
def setEnv (os : Option String) (b : Bool) : PT → PT
  | .node _ subs => .node (effectiveDefaultEnv os b) (setEnvL os (effectiveDefaultEnv os b) subs)
def setEnvL (os : Option String) (b : Bool) : List (String × PT) → List (String × PT)
  | [] => []
  | (n, t) :: r => (n, setEnv os b t) :: setEnvL os b r
end

mutual
/-- the setter called on the parser reached by a path of subcommand names (an unknown name: nothing happens) -/
def setAt (os : Option String) (b : Bool) : List String → PT → PT
  | [], t => setEnv os b t
  | n :: r, .node f subs => .node f (setAtL os b n r subs)
def setAtL (os : Option String) (b : Bool) (n : String) (r : List String) : List (String × PT) → List (String × PT)
  | [] => []
  | (m, t) :: rest => if m = n then (m, setAt os b r t) :: rest else (m, t) :: setAtL os b n r rest
end

mutual
/-- the flags of the parsers along a path of subcommand names, root first -/
def flagsOn : List String → PT → List Bool
  | [], .node f _ => [f]
  | n :: r, .node f subs => f :: flagsOnL n r subs
def flagsOnL (n : String) (r : List String) : List (String × PT) → List Bool
  | [] => []
  | (m, t) :: rest => if m = n then flagsOn r t else flagsOnL n r rest
end

mutual
/-- every parser of the tree holds the flag `b` -/
def uniformB (b : Bool) : PT → Bool
  | .node f subs => (f == b) && uniformL b subs
def uniformL (b : Bool) : List (String × PT) → Bool
  | [] => true
  | (_, t) :: r => uniformB b t && uniformL b r
end

/-- a tree built in level order (`add_subcommand` refuses a parser that already has subcommands): every parser that is added
    receives `parent.default_env` THROUGH THE SETTER, so — with the same `JSONARGPARSE_DEFAULT_ENV` throughout — the
    result is what one setter call at the root gives; the constructor arguments of the sub-parsers play no role -/
def build (os : Option String) (rootCtor : Bool) (shape : PT) : PT := setEnv os rootCtor shape

/-- a history of setter calls `(path, JSONARGPARSE_DEFAULT_ENV at that moment, value)` -/
def runSetters (hist : List (List String × Option String × Bool)) (t : PT) : PT :=
  hist.foldl (fun t c => setAt c.2.1 c.2.2 c.1 t) t

/-! what the seeded edit `subparser._default_env = self._default_env` would be: direct children only -/
def setEnvShallowL (b : Bool) : List (String × PT) → List (String × PT)
  | [] => []
  | (n, .node _ subs) :: r => (n, .node b subs) :: setEnvShallowL b r
def setEnvShallow (os : Option String) (b : Bool) : PT → PT
  | .node _ subs => .node (effectiveDefaultEnv os b) (setEnvShallowL (effectiveDefaultEnv os b) subs)

/-! ### parsing along a path of subcommands -/

/-- one parser of the chosen path with the sources that concern it (its default config files, the process environment,
    its segment of the command line) -/
structure Level where
  name : String
  p : Parser
  src : Sources
deriving Inhabited

/-- `get_env_var(parser)` without an action: what `add_subcommands` stores as the action's `env_prefix` -/
def envPrefixVar (p : Parser) : String :=
  let pre := match p.envPrefix with
    | some s => replaceChar '-' ['_'] s.toList ++ ['_']
    | .none => []
  String.ofList ((replaceChar '.' ['_', '_'] pre).map Char.toUpper)

/-- `add_subcommand(name, parser)`: `parser.env_prefix = f"{self.env_prefix}{name}_"` -/
def subParser (parent : Parser) (name : String) (child : Parser) : Parser :=
  { child with envPrefix := some (envPrefixVar parent ++ name ++ "_") }

/-- the prefixes along the chosen path: every level is added to the one before it -/
def chainPrefixes : Parser → List Level → List Level
  | _, [] => []
  | parent, L :: r => let q := subParser parent L.name L.p; { L with p := q } :: chainPrefixes q r

/-- the parser with the flag the tree holds for it -/
def withFlag (p : Parser) (b : Bool) : Parser := { p with defaultEnv := b, osDefaultEnv := .none }

/-- `_ActionSubCommands.__call__`: `subparser.parse_args(arg_strings, env=env, defaults=defaults)` — the level's own pipeline -/
def ownParse (c : Call) (L : Level) : KV := parseArgsC L.p L.src c

/-- `handle_subcommands`: `subparser.parse_env(defaults=defaults)` if `env`, `subparser.get_defaults()` elif `defaults` -/
def subNamespace (L : Level) (c : Call) (env : Bool) : Option KV :=
  if env then some (defaultsAndEnvironC L.p L.src { c with envArg := some true })
  else if c.defaults then some (getDefaults L.p L.src.files) else .none

/-- `cfg[key] = subparser.merge_config(cfg.get(key), subnamespace)`: what the level built goes OVER it -/
def handleStep (L : Level) (c : Call) (x : KV) (env : Bool) : KV :=
  match subNamespace L c env with
  | some s => mergeConfig L.p x s
  | .none => x

/-- a level after its own `parse_args` and the `handle_subcommands` of every enclosing `_parse_common`, innermost first
    (`ancEnv`: their `env or (env is None and self._default_env)`) -/
def finalLevel (c : Call) (ancEnv : List Bool) (L : Level) : KV := ancEnv.foldl (handleStep L c) (ownParse c L)

/-- the namespaces of the levels of the chosen path, root first -/
def parseLevels (c : Call) : List Bool → List Level → List KV
  | _, [] => []
  | anc, L :: rest => finalLevel c anc L :: parseLevels c (envRead L.p c.envArg :: anc) rest

/-- the levels with the flags of the tree along the chosen path -/
def flagLevels : List Level → List Bool → List Level
  | L :: r, f :: fs => { L with p := withFlag L.p f } :: flagLevels r fs
  | L :: r, [] => L :: flagLevels r []
  | [], _ => []

/-- whole history on one parser tree: setter calls, then `root.parse_args` along `path` -/
def parseTree (c : Call) (tree : PT) (path : List String) (lv : List Level) : List KV :=
  parseLevels c [] (flagLevels lv (flagsOn path tree))

end Jap.Src

import Jap.Core.Sources
/-!
Engine "Sources" (C04), second part: SUBCOMMAND LEVELS and the `default_env` switch over the parser tree.

Anchors (jsonargparse): `_core.py` `ArgumentParser.default_env` (property setter: resolves `JSONARGPARSE_DEFAULT_ENV`,
stores the flag, then CALLS THE SETTER of every sub-parser — the recursion is what reaches deeper levels),
`_parse_common` (`if env is None and self._default_env: env = True`, then `handle_subcommands`);
`_actions.py` `_ActionSubCommands.add_subcommand` (`parser.default_env = self.parent_parser.default_env`,
`parser.env_prefix = f"{self.env_prefix}{name}_"`), `_ActionSubCommands.__call__` (the sub-parser's OWN `parse_args`
with the `env=` / `defaults=` arguments of the outer call: it reads the environment by ITS OWN flag when `env` is None),
`handle_subcommands` (for the chosen subcommand: `parse_env` of the sub-parser if the CALLER's environment reading is
on, else its defaults, merged UNDER the namespace the sub-parser built; then the same for the inner levels with the
caller's setting).

The namespace is modelled level by level (one `KV` per parser on the chosen path); the nesting `cfg[name] = sub`
is the C11 algebra.  Sections for a subcommand inside a config of an outer level and `parse_object` on the tree: last part of this
file.  Outside: the subcommand environment variable, default config files of outer parsers seen by inner ones (C17's
subject and open findings there).
-/
namespace Jap.Src
open Jap.NS

/-! ### the `_default_env` flags of a parser tree -/

/-- a parser with its `_default_env` and its sub-parsers by subcommand name -/
inductive PT where
  | node (flag : Bool) (subs : List (String × PT))
deriving Inhabited

mutual
/-- `parser.default_env = b` while `JSONARGPARSE_DEFAULT_ENV` is `os`: the flag is resolved and stored, then
    `subparser.default_env = self._default_env` for every sub-parser — the SETTER again, hence the whole subtree -/
def setEnv (os : Option String) (b : Bool) : PT → PT
  | .node _ subs => .node (effectiveDefaultEnv os b) (setEnvL os (effectiveDefaultEnv os b) subs)
def setEnvL (os : Option String) (b : Bool) : List (String × PT) → List (String × PT)
  | [] => []
  | (n, t) :: r => (n, setEnv os b t) :: setEnvL os b r
end

mutual
/-- the setter called on the parser reached by a path of subcommand names (an unknown name: nothing happens) -/
def setAt (os : Option String) (b : Bool) : List String → PT → PT
  | [], t => setEnv os b t
  | n :: r, .node f subs => .node f (setAtL os b n r subs)
def setAtL (os : Option String) (b : Bool) (n : String) (r : List String) : List (String × PT) → List (String × PT)
  | [] => []
  | (m, t) :: rest => if m = n then (m, setAt os b r t) :: rest else (m, t) :: setAtL os b n r rest
end

mutual
/-- the flags of the parsers along a path of subcommand names, root first -/
def flagsOn : List String → PT → List Bool
  | [], .node f _ => [f]
  | n :: r, .node f subs => f :: flagsOnL n r subs
def flagsOnL (n : String) (r : List String) : List (String × PT) → List Bool
  | [] => []
  | (m, t) :: rest => if m = n then flagsOn r t else flagsOnL n r rest
end

mutual
/-- every parser of the tree holds the flag `b` -/
def uniformB (b : Bool) : PT → Bool
  | .node f subs => (f == b) && uniformL b subs
def uniformL (b : Bool) : List (String × PT) → Bool
  | [] => true
  | (_, t) :: r => uniformB b t && uniformL b r
end

/-- a tree built in level order (`add_subcommand` refuses a parser that already has subcommands): every parser that is added
    receives `parent.default_env` THROUGH THE SETTER, so — with the same `JSONARGPARSE_DEFAULT_ENV` throughout — the
    result is what one setter call at the root gives; the constructor arguments of the sub-parsers play no role -/
def build (os : Option String) (rootCtor : Bool) (shape : PT) : PT := setEnv os rootCtor shape

/-- a history of setter calls `(path, JSONARGPARSE_DEFAULT_ENV at that moment, value)` -/
def runSetters (hist : List (List String × Option String × Bool)) (t : PT) : PT :=
  hist.foldl (fun t c => setAt c.2.1 c.2.2 c.1 t) t

/-! what the seeded edit `subparser._default_env = self._default_env` would be: direct children only -/
def setEnvShallowL (b : Bool) : List (String × PT) → List (String × PT)
  | [] => []
  | (n, .node _ subs) :: r => (n, .node b subs) :: setEnvShallowL b r
def setEnvShallow (os : Option String) (b : Bool) : PT → PT
  | .node _ subs => .node (effectiveDefaultEnv os b) (setEnvShallowL (effectiveDefaultEnv os b) subs)

/-! ### parsing along a path of subcommands -/

/-- one parser of the chosen path with the sources that concern it (its default config files, the process environment,
    its segment of the command line) -/
structure Level where
  name : String
  p : Parser
  src : Sources
  onArgv : Bool := true     -- the subcommand is named on the command line (else: by the parent's subcommand variable alone)
  envSub : Bool := false    -- this parser's subcommand variable (PREFIX_SUBCOMMAND) is set and names the NEXT level of the path
deriving Inhabited

/-- `get_env_var(parser)` without an action: what `add_subcommands` stores as the action's `env_prefix` -/
def envPrefixVar (p : Parser) : String :=
  let pre := match p.envPrefix with
    | some s => replaceChar '-' ['_'] s.toList ++ ['_']
    | .none => []
  String.ofList ((replaceChar '.' ['_', '_'] pre).map Char.toUpper)

/-- `add_subcommand(name, parser)`: `parser.env_prefix = f"{self.env_prefix}{name}_"` -/
def subParser (parent : Parser) (name : String) (child : Parser) : Parser :=
  { child with envPrefix := some (envPrefixVar parent ++ name ++ "_") }

/-- the prefixes along the chosen path: every level is added to the one before it -/
def chainPrefixes : Parser → List Level → List Level
  | _, [] => []
  | parent, L :: r => let q := subParser parent L.name L.p; { L with p := q } :: chainPrefixes q r

/-- the parser with the flag the tree holds for it -/
def withFlag (p : Parser) (b : Bool) : Parser := { p with defaultEnv := b, osDefaultEnv := .none }

/-- `_ActionSubCommands.__call__`: `subparser.parse_args(arg_strings, env=env, defaults=defaults)` — the level's own pipeline -/
def ownParse (c : Call) (L : Level) : KV := parseArgsC L.p L.src c

/-- `handle_subcommands`: `subparser.parse_env(defaults=defaults)` if `env`, `subparser.get_defaults()` elif `defaults` -/
def subNamespace (L : Level) (c : Call) (env : Bool) : Option KV :=
  if env then some (defaultsAndEnvironC L.p L.src { c with envArg := some true })
  else if c.defaults then some (getDefaults L.p L.src.files) else .none

/-- `cfg[key] = subparser.merge_config(cfg.get(key), subnamespace)`: what the level built goes OVER it -/
def handleStep (L : Level) (c : Call) (x : KV) (env : Bool) : KV :=
  match subNamespace L c env with
  | some s => mergeConfig L.p x s
  | .none => x

/-- a level after its own `parse_args` and the `handle_subcommands` of every enclosing `_parse_common`, innermost first
    (`ancEnv`: their `env or (env is None and self._default_env)`) -/
def finalLevel (c : Call) (ancEnv : List Bool) (L : Level) : KV := ancEnv.foldl (handleStep L c) (ownParse c L)

/-- the namespaces of the levels of the chosen path, root first -/
def parseLevels (c : Call) : List Bool → List Level → List KV
  | _, [] => []
  | anc, L :: rest => finalLevel c anc L :: parseLevels c (envRead L.p c.envArg :: anc) rest

/-- the levels with the flags of the tree along the chosen path -/
def flagLevels : List Level → List Bool → List Level
  | L :: r, f :: fs => { L with p := withFlag L.p f } :: flagLevels r fs
  | L :: r, [] => L :: flagLevels r []
  | [], _ => []

/-! ### sections for inner levels inside a config of an outer level (`--cfg '{"s1": {...}}'`, `parse_object` on a tree)

The namespace of a level is kept in two parts: its own keys, and the section it holds for the next level of the path (what
`_ActionSubCommands.__call__` hands to the sub-parser as `namespace=`, itself holding the sections of the deeper levels).
`merge_config` of an outer parser treats the `key+` entries of a section with `_find_action(parser, "s1.l")` — the
SUB-PARSER's action — and `action._check_type_(cfg[key], append=True, cfg=cfg)`, whose previous value is
`cfg.get(action.dest)` with the sub-parser-relative dest, read in the OUTER namespace (open finding C04-subsection-append).
Assumption (checked per case by the driver, `interleave`): a config does not hold `k+` for an own key and for a section key
at once (their relative order in `cfg.keys()` depends on the storage order of the combined namespace), and the previous value of
a section's `k+` is not read at a scalar-typed key of the outer parser (promotion of a foreign scalar depends on its adapting to the
element type; atoms are opaque here). -/

def nameKey (n : String) : SKey := ⟨false, n⟩

/-- `_find_action(parser, key)` through the subcommands of the path: the action with ITS OWN (relative) dest -/
def findArgT : List Level → Key → Option Arg
  | [], _ => .none
  | L :: rest, k =>
    match findArg L.p k with
    | some a => some a
    | .none =>
      match rest, k with
      | L' :: _, s :: k' => if s.name = L'.name then findArgT rest k' else .none
      | _, _ => .none

/-- `_apply_actions` with an arbitrary "has an action" test (`expandV` is the instance `findArg p`) -/
def expandVF (f : Key → Bool) : Nat → Key → V → V
  | 0, _, v => v
  | n+1, key, .dct sub =>
    if f key then .dct sub
    else .ns ((nsOfDict sub).map (fun kv => (kv.1, expandVF f n (key ++ [kv.1]) kv.2)))
  | n+1, key, .ns sub =>
    if f key then .ns sub
    else .ns (sub.map (fun kv => (kv.1, expandVF f n (key ++ [kv.1]) kv.2)))
  | _+1, _, v => v
def expandF (f : Key → Bool) (t : KV) : KV := (nsOfDict t).map (fun kv => (kv.1, expandVF f 32 [kv.1] kv.2))

/-- the keys of the level itself: everything but the section of the next level and the subcommand dest -/
def ownPart (next : Option String) (e : KV) : KV :=
  e.filter (fun kv => kv.1.name != "subcommand" && some kv.1.name != next)
/-- the section of the next level -/
def sectionPart (next : Option String) (e : KV) : KV :=
  match next with
  | some n => match lookup (nameKey n) e with
    | some (.ns s) => s
    | _ => []
  | .none => []

/-- one round of the outer parser's `apply_appends` for a `key+` of a section: the previous value is read at the action's
    relative dest IN THE OUTER NAMESPACE `outer`, the result is stored at the full key -/
def secAppendStep (below : List Level) (outer : KV) (pend : KV) (kv : Key × V) : KV :=
  match findArgT below (base kv.1) with
  | some a =>
    if a.kind = .list then
      match getK kv.1 pend with
      | some v => delK kv.1 (setK (base kv.1) (appendVal (getK a.dest outer) v) pend)
      | .none => pend
    else pend
  | .none => pend

/-- the section part of `merge_config(cfg_from, cfg_to)` of an outer parser -/
def secMerge (below : List Level) (outer : KV) (sec pend : KV) : KV :=
  ((leaves (update sec pend)).filter (fun kv => isPlus kv.1)).foldl (secAppendStep below outer) (update sec pend)

def nextName (below : List Level) : Option String := below.head?.map (·.name)

/-- a loaded config as the level sees it -/
def expandT (L : Level) (below : List Level) (t : KV) : KV := expandF (fun k => (findArgT (L :: below) k).isSome) t

/-- a config given through the level's config argument: own keys merged into the own part, the section into the pending
    section of the next level -/
def cfgStepT (L : Level) (below : List Level) (dest : Key) (t : KV) (st : KV × KV) : KV × KV :=
  let e := expandT L below t
  let m := mergeConfig L.p (ownPart (nextName below) e) st.1
  (setK dest (noteVal (getK dest m)) m, secMerge below m (sectionPart (nextName below) e) st.2)

def argvStepT (L : Level) (below : List Level) (st : KV × KV) : Item → KV × KV
  | .cfg k t => cfgStepT L below k t st
  | it => (argvStep L.p st.1 it, st.2)

/-- the flattening of a command line item as the level sees it: of a config, the level's own keys -/
def asgItemT (L : Level) (below : List Level) : Item → List Assign
  | .cfg k t => asgTree (ownPart (nextName below) (expandT L below t)) ++ [.note k]
  | it => asgItem L.p it
def asgArgvT (L : Level) (below : List Level) (argv : List Item) : List Assign := argv.flatMap (asgItemT L below)

/-- `itemWf` with sections allowed in configs: the level's own part is what must be known to the level's parser -/
def itemWfT (L : Level) (below : List Level) : Item → Bool
  | .cfg k t => isDest L.p k && treeOk L.p (ownPart (nextName below) (expandT L below t))
  | it => itemWf L.p it

/-- THE VARIABLE THAT NAMES THE SUBCOMMAND, as a source (`_load_env_vars`, second loop): the named sub-parser's
    `parse_env(env=env, defaults=False)` — what the ENVIRONMENT alone gives for it, its own named subcommand included —
    is stored under the subcommand's name in the parent's environment layer; head of the list = the named level -/
def envSection (c : Call) : List Level → KV
  | [] => []
  | L :: rest =>
    let own := defaultsAndEnvironC L.p L.src { defaults := false, envArg := some true, environ := c.environ }
    match rest with
    | [] => own
    | L' :: _ => if L.envSub then setK [nameKey L'.name] (.ns (envSection c rest)) own else own

/-- the section the level's own base holds for the next level: from its environment layer, when it reads the environment and
    its subcommand variable names that level (a variable that names another subcommand leaves a section that
    `get_subcommands` deletes once the command line has chosen) -/
def envPending (c : Call) (L : Level) (below : List Level) : KV :=
  if envRead L.p c.envArg && L.envSub then envSection c below else []

/-- a level's own `parse_args(arg_strings, namespace=inc, env=, defaults=)`: `cfg = merge_config(namespace, cfg)` over its base,
    then its segment of the command line; returns (own keys, section for the next level) -/
def ownParseT (c : Call) (L : Level) (below : List Level) (inc : KV) : KV × KV :=
  L.src.argv.foldl (argvStepT L below)
    (mergeConfig L.p (ownPart (nextName below) inc) (defaultsAndEnvironC L.p L.src c),
     update (sectionPart (nextName below) inc) (envPending c L below))

def finalLevelT (c : Call) (ancEnv : List Bool) (L : Level) (below : List Level) (inc : KV) : KV :=
  ancEnv.foldl (handleStep L c) (ownParseT c L below inc).1

/-- a level that is NOT named on the command line (its parent's subcommand variable chose it): no `parse_args` of its own — the
    section its parent holds for it goes over `parse_env` / the defaults in the `handle_subcommands` of every enclosing parser -/
def finalLevelE (c : Call) (ancEnv : List Bool) (L : Level) (below : List Level) (inc : KV) : KV :=
  ancEnv.foldl (handleStep L c) (ownPart (nextName below) inc)

/-- `root.parse_args` along the path, sections included -/
def parseLevelsT (c : Call) : List Bool → KV → List Level → List KV
  | _, _, [] => []
  | anc, inc, L :: rest =>
    if L.onArgv then
      finalLevelT c anc L rest inc :: parseLevelsT c (envRead L.p c.envArg :: anc) (ownParseT c L rest inc).2 rest
    else
      finalLevelE c anc L rest inc :: parseLevelsT c anc (sectionPart (nextName rest) inc) rest

/-- `root.parse_object(tree)` / `parse_string` on a tree: the root merges the content over its base; `handle_subcommands` then
    merges every section of the path over the sub-parser's `parse_env` / defaults — by the ROOT's environment setting -/
def objectInner (c : Call) (envRoot : Bool) : KV → List Level → List KV
  | _, [] => []
  | inc, L :: rest =>
    (match subNamespace L c envRoot with
      | some s => mergeConfig L.p (ownPart (nextName rest) inc) s
      | .none => ownPart (nextName rest) inc) :: objectInner c envRoot (sectionPart (nextName rest) inc) rest

def parseObjectT (c : Call) (lv : List Level) (t : KV) : List KV :=
  match lv with
  | [] => []
  | L :: rest =>
    let e := expandT L rest t
    let m := mergeConfig L.p (ownPart (nextName rest) e) (defaultsAndEnvironC L.p L.src c)
    m :: objectInner c (envRead L.p c.envArg) (secMerge rest m (sectionPart (nextName rest) e) []) rest

/-- whole history on one parser tree, sections included -/
def parseTreeT (c : Call) (tree : PT) (path : List String) (lv : List Level) : List KV :=
  parseLevelsT c [] [] (flagLevels lv (flagsOn path tree))

/-- whole history on one parser tree: setter calls, then `root.parse_args` along `path` -/
def parseTree (c : Call) (tree : PT) (path : List String) (lv : List Level) : List KV :=
  parseLevels c [] (flagLevels lv (flagsOn path tree))

end Jap.Src

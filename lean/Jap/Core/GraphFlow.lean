/-
E5, value flow — model of `ActionLink.apply_instantiation_links` and of the component loop of
`ArgumentParser.instantiate_classes` as far as links, the `__applied_instantiation_links__` bookkeeping, the
source values and the constructor log are concerned.  Core-only imports (plus the order model).

* `Val`                 symbolic values: raw configuration, the not-yet-instantiated `Namespace` of a component (`ns`),
                        the constructed object (`obj`), `getattr` (`attr`), an opaque `compute_fn` application.
                        `compute_fn`s are an opaque function table `F : name → args → Val` (parameter of everything).
* `Cfg`                 the per-call copy of the configuration: which components hold an instance (`built`, in
                        construction order), the values written by links (`vals`, `cfg[target_key] = value`),
                        the applied-links set (`applied`, kept IN cfg under `Jap.Gen.appliedKey`), the constructor log.
* `applyLinks`          `apply_instantiation_links(parser, cfg, target=dest)` / `(…, order=order)`: pop the applied set,
                        walk the not-yet-applied links in declaration order (re-ordered by `order` in the final pass),
                        apply those whose target key is the component or lies inside it (all of them in the final pass),
                        mark them applied, store the set back only when a target was given.
* `construct`, `icLoop`, `instantiateClasses`
                        per component: apply links, then (class components) call the constructor with the current values
                        of its keys; finally the pass without target.
* `session`             consecutive `instantiate_classes` calls on one parser, some of them failing part-way; the
                        applied set is carried from call to call exactly when the extracted table
                        `Jap.Gen.linkStateWrites` lists a write outside cfg (it lists none).

* `Parent`, `targetSlots`, `writeAll`
                        `ActionLink.set_target_value`: where the value of an applied link is written, given what the
                        parsed configuration holds at the dest of the link's target action — a plain (class-group)
                        parameter or the subclass-typed argument itself: `cfg[target_key]`; a parameter of a subclass
                        spec: `cfg[target_key]` when the spec has that key, else nothing ("target not found"); a
                        parameter of the classes of a LIST of specs: into every item that has the key
                        (`item[child_key]`, named `itemKey dest j child_key` here), items without it untouched.

Not modelled (data dependent): the `continue` for a missing source attribute, `is_nested_instantiation_link`,
the type check of a link that targets a whole subclass-typed argument, a link applied after the component holding
its target has already been instantiated (open-finding class only); a link always has at least one source.
-/
import Jap.Core.Graph

namespace Jap.Graph

inductive Val where
  | raw (label : String)
  | ns (dest : String)
  | obj (dest : String)
  | attr (v : Val) (name : String)
  | app (fn : String) (args : List Val)
deriving Repr, Inhabited

/-- `cfg.get(target_action.dest)` of a parsed configuration, as far as `set_target_value` looks at it -/
inductive Parent where
  | gone                                         -- `None` / neither a `Namespace` nor a list
  | single (keys : List String)                  -- a `Namespace`: every key path below it (what `child_key in parent` answers)
  | list (items : List (Option (List String)))   -- a list; an item is a `Namespace` (its key paths) or something else (`none`)
deriving Repr

/-- an instantiation link with what the value flow needs: `(source_action.dest, attribute)` per source, the target
    key, the name of the compute function; and about its target action: `target_action.dest`,
    `is_subclass_typehint(target_action, all_subtypes=False, also_lists=True)`, the parsed value found there.
    The defaults describe a link into a parameter of a class group (not subclass-typed). -/
structure FLink where
  sources : List (String × Option String)
  target : String
  fn : Option String
  tdest : String := ""
  tsub : Bool := false
  parent : Parent := .gone
deriving Repr

/-- a link into a parameter of a class group -/
def FLink.plain (sources : List (String × Option String)) (target : String) (fn : Option String) : FLink :=
  { sources := sources, target := target, fn := fn }

/-- the view of the order model -/
def FLink.toLink (l : FLink) : Link := ⟨l.sources.map (·.1), l.target⟩

structure Cfg where
  built : List String
  vals : List (String × Val)
  applied : List Nat
  log : List (String × List (String × Val))
deriving Repr

/-- a configuration as `parse_args` returns it: nothing instantiated, no link applied, no bookkeeping key -/
def Cfg.parsed : Cfg := ⟨[], [], [], []⟩

/-- `cfg[k] = v` -/
def setVal (k : String) (v : Val) : List (String × Val) → List (String × Val)
  | [] => [(k, v)]
  | (k', v') :: r => if k' = k then (k, v) :: r else (k', v') :: setVal k v r

/-- `cfg[source_action.dest]`, then `getattr(·, attr)` when the source key names an attribute -/
def readSource (cfg : Cfg) (s : String × Option String) : Val :=
  let base := if cfg.built.contains s.1 then Val.obj s.1 else Val.ns s.1
  match s.2 with
  | none => base
  | some a => .attr base a

/-- `source_objects[0]` or `compute_fn(*source_objects)` -/
def combine (F : String → List Val → Val) (fn : Option String) (vs : List Val) : Val :=
  match fn with
  | some f => F f vs
  | none => vs.headD (.raw "")

def linkValue (F : String → List Val → Val) (cfg : Cfg) (l : FLink) : Val :=
  combine F l.fn (l.sources.map (readSource cfg))

/-! ### `set_target_value` -/

/-- `child_key = target_key[len(target_action.dest) + 1 :]` -/
def childKey (l : FLink) : String := String.ofList (l.target.toList.drop (l.tdest.toList.length + 1))

/-- `isinstance(i, Namespace) and child_key in i` -/
def itemHas (ck : String) : Option (List String) → Bool
  | some ks => ks.contains ck
  | none => false

/-- the model's name for the position `cfg[dest][j][child_key]` (it lies below `dest`, so `feeds dest ·` holds) -/
def itemKey (tdest : String) (j : Nat) (ck : String) : String := tdest ++ ".#" ++ toString j ++ "." ++ ck

/-- `for item in parent: if child_key in item: item[child_key] = value`, as the list of positions written -/
def listSlots (tdest ck : String) : Nat → List (Option (List String)) → List String
  | _, [] => []
  | j, it :: r => (if itemHas ck it then [itemKey tdest j ck] else []) ++ listSlots tdest ck (j + 1) r

/-- `set_target_value(action, value, cfg, logger)`: the configuration positions `value` is written to -/
def targetSlots (l : FLink) : List String :=
  if l.tsub then
    if l.target = l.tdest then [l.target]                 -- (after `_check_type(value)`) `cfg[target_key] = value`
    else match l.parent with
      | .list items =>
        if items.any (itemHas (childKey l)) then listSlots l.tdest (childKey l) 0 items
        else []        -- falls through to `target_key not in cfg`, which holds below a list: "target not found"
      | .single keys => if keys.contains (childKey l) then [l.target] else []
      | .gone => []
  else [l.target]

/-- `cfg[k] = v` for every position -/
def writeAll (v : Val) : List String → List (String × Val) → List (String × Val)
  | [], m => m
  | k :: r, m => writeAll v r (setVal k v m)

/-- `order or target_key == target or target_key.startswith(f"{target}.")` -/
def wanted (target : Option String) (l : FLink) : Bool :=
  match target with
  | none => true
  | some d => feeds d l.target

/-- body of `for action in link_actions` -/
def applyOne (F : String → List Val → Val) (links : List FLink) (target : Option String) (cfg : Cfg) (i : Nat) : Cfg :=
  match links[i]? with
  | none => cfg
  | some l =>
    if wanted target l then
      { cfg with vals := writeAll (linkValue F cfg l) (targetSlots l) cfg.vals, applied := cfg.applied ++ [i] }
    else cfg

/-- `get_link_actions(parser, "instantiate", skip=applied_links)`, as indices -/
def pendingLinks (links : List FLink) (applied : List Nat) : List Nat :=
  (List.range links.length).filter (fun i => !applied.contains i)

def targetOfIdx (links : List FLink) (i : Nat) : String :=
  match links[i]? with
  | some l => l.target
  | none => ""

def applyLinks (F : String → List Val → Val) (links : List FLink) (order : List String) (target : Option String)
    (cfg : Cfg) : Cfg :=
  if links.isEmpty then cfg
  else
    let pend := pendingLinks links cfg.applied
    let pend := match target with
      | none => reorder (targetOfIdx links) order pend
      | some _ => pend
    let cfg' := pend.foldl (applyOne F links target) cfg
    match target with
    | none => { cfg' with applied := [] }
    | some _ => cfg'

/-- the constructor call of component `d`: it receives the current values of the keys inside `d` -/
def construct (d : String) (cfg : Cfg) : Cfg :=
  { cfg with built := cfg.built ++ [d], log := cfg.log ++ [(d, cfg.vals.filter (fun kv => feeds d kv.1))] }

/-- `for component in components:`; the flag says whether the component constructs a class -/
def icLoop (F : String → List Val → Val) (links : List FLink) : List (String × Bool) → Cfg → Cfg
  | [], cfg => cfg
  | (d, isC) :: r, cfg =>
    icLoop F links r (if isC then construct d (applyLinks F links [] (some d) cfg) else applyLinks F links [] (some d) cfg)

/-- `instantiate_classes(cfg)` on the copy `strip_meta(cfg)` -/
def instantiateClasses (F : String → List Val → Val) (links : List FLink) (order : List String)
    (comps : List (String × Bool)) (cfg : Cfg) : Cfg :=
  applyLinks F links order none (icLoop F links comps cfg)

/-! ### consecutive calls on one parser -/

/-- one call: complete (`none`) or raising after `k` components (`some k`): the final pass is not reached -/
def runCall (F : String → List Val → Val) (links : List FLink) (order : List String) (comps : List (String × Bool))
    (fail : Option Nat) (cfg : Cfg) : Cfg :=
  match fail with
  | none => instantiateClasses F links order comps cfg
  | some k => icLoop F links (comps.take k) cfg

/-- the configuration a call starts from: its own copy; plus whatever a write outside cfg would have carried over -/
def startCfg (writes : List String) (carried : List Nat) (cfg : Cfg) : Cfg :=
  if writes.isEmpty then cfg else { cfg with applied := carried ++ cfg.applied }

/-- applied set each call of the session STARTS with -/
def session (writes : List String) (F : String → List Val → Val) (links : List FLink) (order : List String)
    (comps : List (String × Bool)) : List Nat → List (Cfg × Option Nat) → List (List Nat)
  | _, [] => []
  | carried, (cfg, fail) :: rest =>
    let c0 := startCfg writes carried cfg
    let c1 := runCall F links order comps fail c0
    c0.applied :: session writes F links order comps (if writes.isEmpty then carried else c1.applied) rest

/-! ### what a fed parameter must receive -/

def goodSource (s : String × Option String) : Val :=
  match s.2 with
  | none => .obj s.1
  | some a => .attr (.obj s.1) a

/-- `F(sources' constructed objects / attributes)` -/
def goodValue (F : String → List Val → Val) (l : FLink) : Val :=
  combine F l.fn (l.sources.map goodSource)

/-- every link feeding component `d` has all its sources instantiated -/
def ReadyAt (links : List FLink) (built : List String) (d : String) : Prop :=
  ∀ l ∈ links, feeds d l.target = true → ∀ s ∈ l.sources, s.1 ∈ built

/-- along the component sequence, every component finds the sources of its links already constructed -/
def SourcesReady (links : List FLink) : List String → List (String × Bool) → Prop
  | _, [] => True
  | built, (d, isC) :: r => ReadyAt links built d ∧ SourcesReady links (if isC then built ++ [d] else built) r

instance (links : List FLink) (built : List String) (d : String) : Decidable (ReadyAt links built d) := by
  unfold ReadyAt; infer_instance

instance decSourcesReady (links : List FLink) : ∀ (built : List String) (comps : List (String × Bool)),
    Decidable (SourcesReady links built comps)
  | _, [] => isTrue trivial
  | built, (d, isC) :: r =>
    have := decSourcesReady links (if isC then built ++ [d] else built) r
    by unfold SourcesReady; infer_instance

end Jap.Graph

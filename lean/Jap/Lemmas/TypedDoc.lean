/-
C01, composition: reading back the embedding of a plain value gives the value (`ofV_toV`), and the end-to-end
statements: typed value -> ser -> document text -> loader -> constructors -> adapt = the typed value.
-/
import Jap.Core.TypedDoc
import Jap.Lemmas.AdaptIdem
import Jap.Lemmas.AdaptSer
import Jap.Lemmas.YamlDocRoundtrip
import Jap.Lemmas.JsonDocRoundtrip

namespace Jap.Scalar
open Jap.Adapt (Val DKey Ty Oracle adapt ser good rt)

theorem keyOf_keySc (C : Codec) (k : DKey) (h : keyLaw C k = true) : keyOf C (keySc C k) = some k := by
  cases k with
  | str s => simp [keySc, keyOf, String.ofList_toList]
  | int i =>
    simp only [keyLaw, decide_eq_true_eq] at h
    simp [keySc, keyOf, h]

mutual
theorem ofV_toV (C : Codec) : ∀ (z : Val) (u : V), toV C z = some u → lawsOn C z = true → ofV C u = some z
  | .null, u, h, _ => by simp only [toV, Option.some.injEq] at h; subst h; rfl
  | .bool b, u, h, _ => by
    simp only [toV, Option.some.injEq] at h; subst h
    cases b <;> simp [ofV, scVal]
  | .int i, u, h, hl => by
    simp only [toV, Option.some.injEq] at h; subst h
    simp only [lawsOn, decide_eq_true_eq] at hl
    simp [ofV, scVal, hl]
  | .flt r, u, h, hl => by
    simp only [toV, Option.some.injEq] at h; subst h
    simp only [lawsOn, decide_eq_true_eq] at hl
    simp [ofV, scVal, hl]
  | .str s, u, h, _ => by
    simp only [toV, Option.some.injEq] at h; subst h
    simp [ofV, scVal, String.ofList_toList]
  | .list xs, u, h, hl => by
    simp only [toV, Option.map_eq_some_iff] at h
    obtain ⟨a, ha, rfl⟩ := h
    simp only [lawsOn] at hl
    simp [ofV, ofVL_toVL C xs a ha hl]
  | .dict kvs, u, h, hl => by
    simp only [toV, Option.map_eq_some_iff] at h
    obtain ⟨a, ha, rfl⟩ := h
    simp only [lawsOn] at hl
    simp [ofV, ofKV_toKV C kvs a ha hl]
  | .tuple _, _, h, _ => by simp [toV] at h
  | .set _, _, h, _ => by simp [toV] at h
  | .enum _ _, _, h, _ => by simp [toV] at h
  | .obj _ _, _, h, _ => by simp [toV] at h
theorem ofVL_toVL (C : Codec) : ∀ (xs : List Val) (u : VL), toVL C xs = some u → lawsOnL C xs = true → ofVL C u = some xs
  | [], u, h, _ => by simp only [toVL, Option.some.injEq] at h; subst h; rfl
  | x :: xs, u, h, hl => by
    simp only [toVL] at h
    simp only [lawsOnL, Bool.and_eq_true] at hl
    cases h1 : toV C x with
    | none => simp [h1] at h
    | some a =>
      cases h2 : toVL C xs with
      | none => simp [h1, h2] at h
      | some b =>
        simp only [h1, h2, Option.some.injEq] at h; subst h
        simp [ofVL, ofV_toV C x a h1 hl.1, ofVL_toVL C xs b h2 hl.2]
theorem ofKV_toKV (C : Codec) : ∀ (kvs : List (DKey × Val)) (u : KVL), toKV C kvs = some u → lawsOnKV C kvs = true →
    ofKV C u = some kvs
  | [], u, h, _ => by simp only [toKV, Option.some.injEq] at h; subst h; rfl
  | (k, v) :: r, u, h, hl => by
    simp only [toKV] at h
    simp only [lawsOnKV, Bool.and_eq_true] at hl
    cases h1 : toV C v with
    | none => simp [h1] at h
    | some a =>
      cases h2 : toKV C r with
      | none => simp [h1, h2] at h
      | some b =>
        simp only [h1, h2, Option.some.injEq] at h; subst h
        simp [ofKV, keyOf_keySc C k hl.1.1, ofV_toV C v a h1 hl.1.2, ofKV_toKV C r b h2 hl.2]
end

/-- the embedding is injective on the values whose numbers the codec reads back -/
theorem toV_injective (C : Codec) (z z' : Val) (u : V) (h : toV C z = some u) (h' : toV C z' = some u)
    (hl : lawsOn C z = true) (hl' : lawsOn C z' = true) : z = z' := by
  have a := ofV_toV C z u h hl
  have b := ofV_toV C z' u h' hl'
  rw [a] at b; exact Option.some.inj b

/-- ser then adapt, from the adapter's lemmas (`C10_ser_adapt_roundtrip`) -/
theorem ser_adapt (O : Oracle) (t : Ty) (v w z : Val) (hg : good t = true) (hr : rt false t = true)
    (h : adapt O false .none t v = .ok w) (hz : ser O t w = .ok z) : adapt O false .none t z = .ok w := by
  obtain ⟨z0, h1, h2, _⟩ := Jap.Adapt.ser_rt O t false w hr (Jap.Adapt.idem O t v w hg h)
  have : z0 = z := by
    have e : ser O t w = .ok z0 := h1
    rw [hz] at e; injection e with e; exact e.symm
  rw [← this]; exact h2

/-- YAML: typed value -> ser -> emitDoc -> loadDoc -> constructors -> adapt -/
theorem typed_roundtrip_yaml (O : Oracle) (C : Codec) (t : Ty) (v w z : Val) (u : V) (text : List Char)
    (hg : good t = true) (hr : rt false t = true) (h : adapt O false .none t v = .ok w) (hz : ser O t w = .ok z)
    (hu : toV C z = some u) (hl : lawsOn C z = true) (hok : VOK u = true) (he : emitDoc u = some text) :
    ((loadDoc text).bind (ofV C)).map (adapt O false .none t) = some (.ok w) := by
  rw [loadDoc_emitDoc u text hok he]
  simp only [Option.bind_some, ofV_toV C z u hu hl, Option.map_some, ser_adapt O t v w z hg hr h hz]

/-- JSON (compact and indented): typed value -> ser -> jDump -> jsonLoad -> constructors -> adapt -/
theorem typed_roundtrip_json (O : Oracle) (C : Codec) (t : Ty) (v w z : Val) (u : V)
    (hg : good t = true) (hr : rt false t = true) (h : adapt O false .none t v = .ok w) (hz : ser O t w = .ok z)
    (hu : toV C z = some u) (hl : lawsOn C z = true) (hv : ∀ s, u ≠ .sc s) (hok : JOK u = true) :
    ((jsonLoad (jsonDump u)).bind (ofV C)).map (adapt O false .none t) = some (.ok w) ∧
    ((jsonLoad (jsonIndentedDump u)).bind (ofV C)).map (adapt O false .none t) = some (.ok w) := by
  have h1 : jsonLoad (jsonDump u) = some u := by simpa [jsonDump] using jsonLoad_jDump u none [] hv hok (Or.inl rfl)
  have h2 : jsonLoad (jsonIndentedDump u) = some u := jsonLoad_jDump u (some 0) ['\n'] hv hok (Or.inr rfl)
  rw [h1, h2]
  simp only [Option.bind_some, ofV_toV C z u hu hl, Option.map_some, ser_adapt O t v w z hg hr h hz, and_self]

end Jap.Scalar

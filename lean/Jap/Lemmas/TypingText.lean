/-
C20_text_safe: the serialised text of a registered value, written as a plain YAML scalar, is read back by the
loader as a string (so it reaches the deserializer unchanged).

`resolveLoad` is the scalar-resolution model of engine "Scalar" (C01): the joint automaton `J` regenerated from
the live Loader/Dumper classes into `Jap.Gen.Resolvers`.  For a small automaton `M` over J's character classes
(a superset of the image of a serializer) the product `J × M` is explored *inside the kernel* (`computeInv`)
and the resulting invariant is checked by `certOK` (`decide +kernel`): it contains the start state, is closed
under every class, and every state in which `M` accepts carries the loader tag `str`.  `safe_of_accepts` lifts
the certificate to all words; the `*_accepts` lemmas show that the codec outputs are accepted.
Nothing here edits or restates the generated tables; when they change the certificates are re-checked.
-/
import Jap.Lemmas.ScalarCert
import Jap.Lemmas.TypingCodec
import Jap.Lemmas.TypingTd
import Jap.Lemmas.TypingB64
import Jap.Lemmas.TypingUuid

namespace Jap.TextSafe
open Jap.Dfa Jap.Scalar Jap.Typing

def K : Nat := Gen.Resolvers.K

/-- a small automaton over the character classes; states `0 … n-1` are live, anything else is the dead state -/
structure Img where
  n : Nat
  step : Nat → Nat → Nat
  acc : Nat → Bool

/-- acceptance of a class word from state `q` (leaving the live states rejects) -/
def Img.accepts (M : Img) : Nat → List Nat → Bool
  | q, [] => decide (q < M.n) && M.acc q
  | q, c :: cs => decide (q < M.n) && M.accepts (M.step q c) cs

def setBit (s j : Nat) : Nat := s ||| (1 <<< j)

/-- successors of the product state `(q, j)` under the classes below the last argument -/
def succs (M : Img) (q j : Nat) (wl : List (Nat × Nat)) (inv : List Nat) : Nat → List (Nat × Nat) × List Nat
  | 0 => (wl, inv)
  | c + 1 =>
    let r := succs M q j wl inv c
    let q' := M.step q c
    let j' := jstep j c
    if M.n ≤ q' then r
    else if Nat.testBit (r.2.getD q' 0) j' then r
    else ((q', j') :: r.1, r.2.set q' (setBit (r.2.getD q' 0) j'))

/-- work-list exploration of the reachable part of `J × M` (one bit set of J-states per live M-state) -/
def explore (M : Img) : Nat → List (Nat × Nat) → List Nat → List Nat
  | 0, _, inv => inv
  | _, [], inv => inv
  | fuel + 1, (q, j) :: rest, inv =>
    let r := succs M q j rest inv K
    explore M fuel r.1 r.2

def computeInv (M : Img) : List Nat :=
  explore M (M.n * 2 ^ J.W) [(0, 0)] ((List.replicate M.n 0).set 0 1)

/-- `inv` is an inductive invariant of `J × M` on which "M accepts ⇒ loader tag `t`" holds -/
def certOK (M : Img) (t : Nat) (inv : List Nat) : Bool :=
  Nat.beq inv.length M.n && Nat.testBit (inv.getD 0 0) 0 &&
  allBelow (fun q => allBelow (fun j => !(Nat.testBit (inv.getD q 0) j) ||
       ((!(M.acc q) || Nat.beq (tagL j) t) &&
        allBelow (fun c => Nat.ble M.n (M.step q c) || Nat.testBit (inv.getD (M.step q c) 0) (jstep j c)) K))
      (2 ^ J.W)) M.n

theorem accepts_live (M : Img) : ∀ (w : List Nat) (q : Nat), M.accepts q w = true → q < M.n
  | [], q, h => by simp [Img.accepts] at h; exact h.1
  | _ :: _, q, h => by simp [Img.accepts] at h; exact h.1

theorem cert_sound (M : Img) (t : Nat) (inv : List Nat) (hc : certOK M t inv = true) :
    ∀ (w : List Nat), (∀ c ∈ w, c < K) → ∀ q j, j < 2 ^ J.W → Nat.testBit (inv.getD q 0) j = true →
      M.accepts q w = true → tagL (jrun j w) = t := by
  simp only [certOK, Bool.and_eq_true] at hc
  obtain ⟨⟨_, _⟩, hall⟩ := hc
  have key : ∀ q j, q < M.n → j < 2 ^ J.W → Nat.testBit (inv.getD q 0) j = true →
      (M.acc q = true → tagL j = t) ∧
      ∀ c, c < K → M.n ≤ M.step q c ∨ Nat.testBit (inv.getD (M.step q c) 0) (jstep j c) = true := by
    intro q j hq hj hb
    have h1 := allBelow_spec _ _ (allBelow_spec _ _ hall q hq) j hj
    simp only [hb, Bool.not_true, Bool.false_or, Bool.and_eq_true, Bool.or_eq_true, Bool.not_eq_true'] at h1
    refine ⟨fun ha => ?_, fun c hcK => ?_⟩
    · rcases h1.1 with h | h
      · rw [ha] at h; cases h
      · exact Nat.eq_of_beq_eq_true h
    · have := allBelow_spec _ _ h1.2 c hcK
      simp only [Bool.or_eq_true] at this
      rcases this with h | h
      · exact Or.inl (Nat.le_of_ble_eq_true h)
      · exact Or.inr h
  intro w
  induction w with
  | nil =>
    intro _ q j hj hb ha
    have hq := accepts_live M [] q ha
    simp only [Img.accepts, Bool.and_eq_true, decide_eq_true_eq] at ha
    simpa [jrun, run] using (key q j hq hj hb).1 ha.2
  | cons c cs ih =>
    intro hw q j hj hb ha
    have hq := accepts_live M _ q ha
    simp only [Img.accepts, Bool.and_eq_true, decide_eq_true_eq] at ha
    have hq' := accepts_live M cs _ ha.2
    have hcK : c < K := hw c (by simp)
    rcases (key q j hq hj hb).2 c hcK with h | h
    · omega
    · have := ih (fun x hx => hw x (List.mem_cons_of_mem _ hx)) (M.step q c) (jstep j c) (step_lt J j c) h ha.2
      simpa [jrun, run, jstep] using this

theorem classTable_ok : classTableOK Gen.Resolvers.classTable Gen.Resolvers.K = true := by decide +kernel

theorem charClass_lt (c : Char) : charClass c < K :=
  classOf_lt _ _ _ classTable_ok (by decide)

/-- lifting: a text whose class word `M` accepts is resolved by the loader with tag `t` -/
theorem tag_of_accepts (M : Img) (t : Nat) (inv : List Nat) (hc : certOK M t inv = true) (s : List Char)
    (ha : M.accepts 0 (classes s) = true) : resolveLoadC s = Tag.ofNat t := by
  have h0 : Nat.testBit (inv.getD 0 0) 0 = true := by
    simp only [certOK, Bool.and_eq_true] at hc
    exact hc.1.2
  have := cert_sound M t inv hc (classes s)
    (by intro c hc'; simp only [classes, List.mem_map] at hc'; obtain ⟨x, _, rfl⟩ := hc'; exact charClass_lt x)
    0 0 (Nat.two_pow_pos _) h0 ha
  simp [resolveLoadC, resolveLoadW, this]

theorem safe_of_accepts (M : Img) (inv : List Nat) (hc : certOK M 0 inv = true) (s : List Char)
    (ha : M.accepts 0 (classes s) = true) : resolveLoadC s = .str :=
  tag_of_accepts M 0 inv hc s ha

/-- an accepting absorbing state accepts every continuation -/
theorem accepts_absorbing (M : Img) (q : Nat) (hq : q < M.n) (ha : M.acc q = true) (hs : ∀ c, M.step q c = q) :
    ∀ w, M.accepts q w = true
  | [] => by simp [Img.accepts, hq, ha]
  | c :: cs => by simp [Img.accepts, hq, hs, accepts_absorbing M q hq ha hs cs]

/-- a loop on the characters of `l` -/
theorem accepts_loop (M : Img) (q : Nat) (hq : q < M.n) (l : List Char) (hl : ∀ c ∈ l, M.step q (charClass c) = q)
    (w : List Nat) : M.accepts q (classes l ++ w) = M.accepts q w := by
  induction l with
  | nil => rfl
  | cons c r ih =>
    have := hl c (by simp)
    simp only [classes, List.map_cons, List.cons_append, Img.accepts, hq, decide_true, Bool.true_and, this]
    exact ih (fun x hx => hl x (List.mem_cons_of_mem _ hx))

theorem classes_append (a b : List Char) : classes (a ++ b) = classes a ++ classes b := by simp [classes]
theorem classes_cons (a : Char) (b : List Char) : classes (a :: b) = charClass a :: classes b := rfl

theorem accepts_step (M : Img) (q c : Nat) (w : List Nat) (hq : q < M.n) :
    M.accepts q (c :: w) = M.accepts (M.step q c) w := by
  simp [Img.accepts, hq]

/-! ### `range`: every text that starts with `r` -/

def cR : Nat := charClass 'r'
def mRangeB (cR : Nat) : Img := ⟨2, fun q c => if q = 0 then (if c = cR then 1 else 2) else q, fun q => q == 1⟩
def mRange : Img := mRangeB cR

theorem range_cert : certOK mRange 0 (computeInv mRange) = true := by decide +kernel

theorem range_accepts (r : Range) : mRange.accepts 0 (classes (rangeSer r)) = true := by
  have hp : ∀ x : List Char, rangePre ++ x = 'r' :: ("ange(".toList ++ x) := fun x => rfl
  have h : ∃ rest, rangeSer r = 'r' :: rest := by
    unfold rangeSer
    split
    · split
      · exact ⟨_, by rw [List.append_assoc, hp]⟩
      · exact ⟨_, by rw [List.append_assoc, List.append_assoc, List.append_assoc, hp]⟩
    · exact ⟨_, by rw [List.append_assoc, List.append_assoc, List.append_assoc, List.append_assoc, List.append_assoc, hp]⟩
  obtain ⟨rest, e⟩ := h
  rw [e, classes_cons, accepts_step _ _ _ _ (by decide)]
  have : mRange.step 0 (charClass 'r') = 1 := by simp [mRange, mRangeB, cR]
  rw [this]
  exact accepts_absorbing mRange 1 (by decide) rfl (fun c => rfl) _

/-! ### `timedelta` with a day part: `-?D+` followed by a blank -/

/-- the set of classes of a list of characters, as a bit set (a closed `Nat`: the kernel evaluates it once) -/
def classBits (l : List Char) : Nat := l.foldl (fun s c => s ||| (1 <<< charClass c)) 0

theorem classBits_mem (l : List Char) (c : Char) (h : c ∈ l) : Nat.testBit (classBits l) (charClass c) = true := by
  have gen : ∀ (l : List Char) (s : Nat), (Nat.testBit s (charClass c) = true ∨ c ∈ l) →
      Nat.testBit (l.foldl (fun s c => s ||| (1 <<< charClass c)) s) (charClass c) = true := by
    intro l
    induction l with
    | nil => intro s h; simpa using h
    | cons a t ih =>
      intro s h
      simp only [List.foldl_cons]
      apply ih
      rcases h with h | h
      · left; simp [Nat.testBit_or, h]
      · rcases List.mem_cons.mp h with rfl | h
        · left; simp [Nat.testBit_or, Nat.testBit_shiftLeft]
        · right; exact h
  exact gen l 0 (Or.inr h)

def digitBits : Nat := classBits "0123456789".toList
def cMinus : Nat := charClass '-'
def cSpace : Nat := charClass ' '

def mTdDaysB (digitBits cMinus cSpace : Nat) : Img :=
  ⟨4, fun q c =>
      if q = 0 then (if c = cMinus then 1 else if Nat.testBit digitBits c then 2 else 4)
      else if q = 1 then (if Nat.testBit digitBits c then 2 else 4)
      else if q = 2 then (if Nat.testBit digitBits c then 2 else if c = cSpace then 3 else 4)
      else q,
    fun q => q == 3⟩
def mTdDays : Img := mTdDaysB digitBits cMinus cSpace

theorem tdDays_cert : certOK mTdDays 0 (computeInv mTdDays) = true := by decide +kernel

theorem digit_cases (c : Char) (h : c.isDigit = true) : c ∈ "0123456789".toList := by
  have h1 := Char.isDigit_iff_toNat.mp h
  have e0 : '0'.toNat = 48 := rfl
  have e9 : '9'.toNat = 57 := rfl
  rw [e0, e9] at h1
  have key : ∀ k, c.toNat = k → c = Char.ofNat k := fun k hk => by rw [← hk, Char.ofNat_toNat]
  have h3 : c.toNat = 48 ∨ c.toNat = 49 ∨ c.toNat = 50 ∨ c.toNat = 51 ∨ c.toNat = 52 ∨ c.toNat = 53 ∨ c.toNat = 54 ∨
      c.toNat = 55 ∨ c.toNat = 56 ∨ c.toNat = 57 := by omega
  rcases h3 with e | e | e | e | e | e | e | e | e | e <;> (rw [key _ e]; decide)

theorem digit_class (c : Char) (h : c.isDigit = true) : Nat.testBit digitBits (charClass c) = true :=
  classBits_mem _ c (digit_cases c h)

theorem tdDays_facts : Nat.testBit digitBits cMinus = false ∧ Nat.testBit digitBits cSpace = false := by decide +kernel

theorem tdDays_step_digit (q : Nat) (hq : q = 0 ∨ q = 1 ∨ q = 2) (c : Nat) (h : Nat.testBit digitBits c = true) :
    mTdDays.step q c = 2 := by
  have hne : c ≠ cMinus := by
    intro e; rw [e, tdDays_facts.1] at h; cases h
  rcases hq with rfl | rfl | rfl <;> simp [mTdDays, mTdDaysB, h, hne]

theorem tdDays_step_minus : mTdDays.step 0 cMinus = 1 := by simp [mTdDays, mTdDaysB]
theorem tdDays_step_space : mTdDays.step 2 cSpace = 3 := by
  simp [mTdDays, mTdDaysB, tdDays_facts.2]

theorem tdDays_accepts (d : Int) (rest : List Char) : mTdDays.accepts 0 (classes (tdDayPart d ++ rest)) = true := by
  -- from state 2: the remaining digits, the blank, anything
  have from2 : ∀ (ds more : List Char), (∀ c ∈ ds, c.isDigit = true) →
      mTdDays.accepts 2 (classes (ds ++ ' ' :: more)) = true := by
    intro ds more hds
    rw [classes_append, accepts_loop mTdDays 2 (by decide) ds
      (fun c hc => tdDays_step_digit 2 (Or.inr (Or.inr rfl)) _ (digit_class c (hds c hc)))]
    rw [classes_cons, accepts_step _ _ _ _ (by decide)]
    have : charClass ' ' = cSpace := rfl
    rw [this, tdDays_step_space]
    exact accepts_absorbing mTdDays 3 (by decide) rfl (fun c => rfl) _
  have e : tdDayPart d ++ rest = showInt d ++ ' ' :: ("day".toList ++ ((if d.natAbs ≠ 1 then ['s'] else []) ++ ", ".toList ++ rest)) := by
    unfold tdDayPart
    have : " day".toList = ' ' :: "day".toList := by decide
    rw [this]
    simp [List.append_assoc]
  rw [e]
  unfold showInt
  cases hd : Nat.toDigits 10 d.natAbs with
  | nil => exact absurd hd Nat.toDigits_ne_nil
  | cons a t =>
    have hall : ∀ c ∈ a :: t, c.isDigit = true := by
      intro c hc; rw [← hd] at hc; exact digits_mem_isDigit hc
    have ha := digit_class a (hall a (by simp))
    have ht : ∀ c ∈ t, c.isDigit = true := fun c hc => hall c (List.mem_cons_of_mem _ hc)
    split
    · -- negative: '-' then the digits
      have hm : charClass '-' = cMinus := rfl
      simp only [List.cons_append, classes_cons]
      rw [accepts_step _ _ _ _ (by decide), hm, tdDays_step_minus, accepts_step _ _ _ _ (by decide),
        tdDays_step_digit 1 (Or.inr (Or.inl rfl)) _ ha]
      exact from2 t _ ht
    · simp only [List.cons_append, classes_cons]
      rw [accepts_step _ _ _ _ (by decide), tdDays_step_digit 0 (Or.inl rfl) _ ha]
      exact from2 t _ ht

/-! ### UUID: lower-case hexadecimal digits, a hyphen, hexadecimal digits, a second hyphen -/

def hexBits : Nat := classBits hexCharsL

def mUuidB (hexBits cMinus : Nat) : Img :=
  ⟨4, fun q c =>
      if q = 0 then (if Nat.testBit hexBits c then 1 else 4)
      else if q = 1 then (if Nat.testBit hexBits c then 1 else if c = cMinus then 2 else 4)
      else if q = 2 then (if Nat.testBit hexBits c then 2 else if c = cMinus then 3 else 4)
      else q,
    fun q => q == 3⟩
def mUuid : Img := mUuidB hexBits cMinus

theorem uuid_cert : certOK mUuid 0 (computeInv mUuid) = true := by decide +kernel

theorem uuid_facts : Nat.testBit hexBits cMinus = false := by decide +kernel

theorem hex_class (c : Char) (h : c ∈ hexCharsL) : Nat.testBit hexBits (charClass c) = true :=
  classBits_mem _ c h

theorem uuid_step_hex01 (q : Nat) (hq : q = 0 ∨ q = 1) (c : Nat) (h : Nat.testBit hexBits c = true) : mUuid.step q c = 1 := by
  rcases hq with rfl | rfl <;> simp [mUuid, mUuidB, h]
theorem uuid_step_hex2 (c : Nat) (h : Nat.testBit hexBits c = true) : mUuid.step 2 c = 2 := by
  simp [mUuid, mUuidB, h]
theorem uuid_step_minus1 : mUuid.step 1 cMinus = 2 := by simp [mUuid, mUuidB, uuid_facts]
theorem uuid_step_minus2 : mUuid.step 2 cMinus = 3 := by simp [mUuid, mUuidB, uuid_facts]

theorem uuid_accepts (n : Nat) : mUuid.accepts 0 (classes (uuidStr n)) = true := by
  have hm : charClass '-' = cMinus := rfl
  -- first group: 8 digits, at least one
  have e : uuidStr n = hexDigitL (n / 16 ^ 24 / 16 ^ 7 % 16) :: (hexFixed 7 (n / 16 ^ 24) ++
      ('-' :: (hexFixed 4 (n / 16 ^ 20) ++ '-' :: (hexFixed 4 (n / 16 ^ 16) ++ '-' ::
        (hexFixed 4 (n / 16 ^ 12) ++ '-' :: hexFixed 12 n))))) := by
    have : hexFixed 8 (n / 16 ^ 24) = hexDigitL (n / 16 ^ 24 / 16 ^ 7 % 16) :: hexFixed 7 (n / 16 ^ 24) := by
      simp [hexFixed, Nat.div_div_eq_div_mul]
    rw [uuidStr, this, List.cons_append]
  rw [e]
  have hd := hex_class _ (hexDigitL_mem (Nat.mod_lt (n / 16 ^ 24 / 16 ^ 7) (by decide : 0 < 16)))
  rw [classes_cons, accepts_step _ _ _ _ (by decide), uuid_step_hex01 0 (Or.inl rfl) _ hd]
  rw [classes_append, accepts_loop mUuid 1 (by decide) _
    (fun c hc => uuid_step_hex01 1 (Or.inr rfl) _ (hex_class c (hexFixed_mem _ _ c hc)))]
  rw [classes_cons, accepts_step _ _ _ _ (by decide), hm, uuid_step_minus1]
  rw [classes_append, accepts_loop mUuid 2 (by decide) _
    (fun c hc => uuid_step_hex2 _ (hex_class c (hexFixed_mem _ _ c hc)))]
  rw [classes_cons, accepts_step _ _ _ _ (by decide), hm, uuid_step_minus2]
  exact accepts_absorbing mUuid 3 (by decide) rfl (fun c => rfl) _

/-! ### base64 with padding: alphabet characters, then `=` signs -/

def b64Bits : Nat := classBits b64Alphabet
def cEq : Nat := charClass '='

def mB64PadB (b64Bits cEq : Nat) : Img :=
  ⟨3, fun q c =>
      if q = 0 then (if Nat.testBit b64Bits c then 1 else 3)
      else if q = 1 then (if c = cEq then 2 else if Nat.testBit b64Bits c then 1 else 3)
      else (if c = cEq then 2 else 3),
    fun q => q == 2⟩
def mB64Pad : Img := mB64PadB b64Bits cEq

theorem b64Pad_cert : certOK mB64Pad 0 (computeInv mB64Pad) = true := by decide +kernel

theorem b64_facts : Nat.testBit b64Bits cEq = false := by decide +kernel

theorem b64Char_mem_fin : ∀ n : Fin 64, b64Char n.val ∈ b64Alphabet := by decide +kernel

theorem b64_class {n : Nat} (h : n < 64) : Nat.testBit b64Bits (charClass (b64Char n)) = true :=
  classBits_mem _ _ (b64Char_mem_fin ⟨n, h⟩)

theorem b64_step_data (q : Nat) (hq : q = 0 ∨ q = 1) (c : Nat) (h : Nat.testBit b64Bits c = true) : mB64Pad.step q c = 1 := by
  have hne : c ≠ cEq := by
    intro e; rw [e, b64_facts] at h; cases h
  rcases hq with rfl | rfl <;> simp [mB64Pad, mB64PadB, h, hne]

theorem b64_step_pad (q : Nat) (hq : q = 1 ∨ q = 2) : mB64Pad.step q cEq = 2 := by
  rcases hq with rfl | rfl <;> simp [mB64Pad, mB64PadB]

/-- one alphabet character read in state 0 or 1 leads to state 1 -/
theorem b64_data_step {n : Nat} (h : n < 64) (q : Nat) (hq : q = 0 ∨ q = 1) (w : List Nat) :
    mB64Pad.accepts q (charClass (b64Char n) :: w) = mB64Pad.accepts 1 w := by
  have hlive : q < mB64Pad.n := by rcases hq with rfl | rfl <;> decide
  rw [accepts_step _ _ _ _ hlive, b64_step_data q hq _ (b64_class h)]

theorem b64_pads (w : List Nat) (q : Nat) (hq : q = 1 ∨ q = 2) :
    mB64Pad.accepts q (charClass '=' :: w) = mB64Pad.accepts 2 w := by
  have hlive : q < mB64Pad.n := by rcases hq with rfl | rfl <;> decide
  have : charClass '=' = cEq := rfl
  rw [accepts_step _ _ _ _ hlive, this, b64_step_pad q hq]

theorem b64_end : mB64Pad.accepts 2 [] = true := by decide

theorem b64Pad_accepts : ∀ (bs : List Nat), (∀ b ∈ bs, b < 256) → bs.length % 3 ≠ 0 → ∀ q, q = 0 ∨ q = 1 →
    mB64Pad.accepts q (classes (b64encode bs)) = true := by
  intro bs
  fun_induction b64encode bs with
  | case1 => intro _ h; simp at h
  | case2 a =>
    intro h _ q hq
    have ha : a < 256 := h a (by simp)
    simp only [classes_cons]
    rw [b64_data_step (by omega) q hq, b64_data_step (by omega) 1 (Or.inr rfl), b64_pads _ 1 (Or.inl rfl),
      b64_pads _ 2 (Or.inr rfl)]
    exact b64_end
  | case3 a b =>
    intro h _ q hq
    have ha : a < 256 := h a (by simp)
    have hb : b < 256 := h b (by simp)
    simp only [classes_cons]
    rw [b64_data_step (by omega) q hq, b64_data_step (by omega) 1 (Or.inr rfl), b64_data_step (by omega) 1 (Or.inr rfl),
      b64_pads _ 1 (Or.inl rfl)]
    exact b64_end
  | case4 a b c rest ih =>
    intro h hl q hq
    have ha : a < 256 := h a (by simp)
    have hb : b < 256 := h b (by simp)
    have hc : c < 256 := h c (by simp)
    simp only [classes_cons]
    rw [b64_data_step (by omega) q hq, b64_data_step (by omega) 1 (Or.inr rfl), b64_data_step (by omega) 1 (Or.inr rfl),
      b64_data_step (by omega) 1 (Or.inr rfl)]
    exact ih (fun x hx => h x (by simp [hx])) (by simp only [List.length_cons] at hl; omega) 1 (Or.inr rfl)

end Jap.TextSafe

namespace Jap.TextSafe
open Jap.Dfa Jap.Scalar Jap.Typing

/-! ### `complex`: `(…)`, or a text that contains `j` (a character no resolver regex mentions) -/

def cParen : Nat := charClass '('
def mParen : Img := ⟨2, fun q c => if q = 0 then (if c = cParen then 1 else 2) else q, fun q => q == 1⟩

theorem paren_cert : certOK mParen 0 (computeInv mParen) = true := by decide +kernel

theorem paren_accepts (rest : List Char) : mParen.accepts 0 (classes ('(' :: rest)) = true := by
  rw [classes_cons, accepts_step _ _ _ _ (by decide)]
  have : mParen.step 0 (charClass '(') = 1 := by simp [mParen, cParen]
  rw [this]
  exact accepts_absorbing mParen 1 (by decide) rfl (fun c => rfl) _

def cJ : Nat := charClass 'j'
/-- once a character of the class of `j` has been read the text is accepted, whatever follows -/
def mHasJ : Img := ⟨2, fun q c => if q = 0 then (if c = cJ then 1 else 0) else q, fun q => q == 1⟩

theorem hasJ_cert : certOK mHasJ 0 (computeInv mHasJ) = true := by decide +kernel

theorem hasJ_accepts (a b : List Char) : mHasJ.accepts 0 (classes (a ++ 'j' :: b)) = true := by
  induction a with
  | nil =>
    rw [List.nil_append, classes_cons, accepts_step _ _ _ _ (by decide)]
    have : mHasJ.step 0 (charClass 'j') = 1 := by simp [mHasJ, cJ]
    rw [this]
    exact accepts_absorbing mHasJ 1 (by decide) rfl (fun c => rfl) _
  | cons x t ih =>
    rw [List.cons_append, classes_cons, accepts_step _ _ _ _ (by decide)]
    by_cases hx : charClass x = cJ
    · have : mHasJ.step 0 (charClass x) = 1 := by simp [mHasJ, hx]
      rw [this]
      exact accepts_absorbing mHasJ 1 (by decide) rfl (fun c => rfl) _
    · have : mHasJ.step 0 (charClass x) = 0 := by simp [mHasJ, hx]
      rw [this]
      exact ih

/-- the same for ANY character of the class of `j` (the characters no resolver regex mentions: `/ @ , ( ) \` and the
letters `G H J K M P Q V W X g h j k m p q v w z` with the tables as generated today) -/
theorem hasOther_accepts (x : Char) (hx : charClass x = cJ) (a b : List Char) : mHasJ.accepts 0 (classes (a ++ x :: b)) = true := by
  induction a with
  | nil =>
    rw [List.nil_append, classes_cons, accepts_step _ _ _ _ (by decide)]
    have : mHasJ.step 0 (charClass x) = 1 := by simp [mHasJ, hx]
    rw [this]
    exact accepts_absorbing mHasJ 1 (by decide) rfl (fun c => rfl) _
  | cons y t ih =>
    rw [List.cons_append, classes_cons, accepts_step _ _ _ _ (by decide)]
    by_cases hy : charClass y = cJ
    · have : mHasJ.step 0 (charClass y) = 1 := by simp [mHasJ, hy]
      rw [this]
      exact accepts_absorbing mHasJ 1 (by decide) rfl (fun c => rfl) _
    · have : mHasJ.step 0 (charClass y) = 0 := by simp [mHasJ, hy]
      rw [this]
      exact ih

end Jap.TextSafe

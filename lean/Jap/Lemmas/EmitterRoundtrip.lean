/-
C01: composition — style choice, writers, reader character check, scanners, resolver agreement.
-/
import Jap.Lemmas.EmitterPlain
import Jap.Lemmas.ScalarCert

namespace Jap.Scalar

theorem okChar_printable (au : Bool) (c : Char) (h : okChar au c = true) : yamlPrintable c = true := by
  simp only [okChar, isSpecialA, isBreakA, Bool.and_eq_true, Bool.not_eq_true'] at h
  simp only [yamlPrintable, Gen.DumpCfg.readerPrintable, inRanges, Nat.ble_eq, Bool.or_eq_true, Bool.and_eq_true, Bool.or_false]
  obtain ⟨h1, h2⟩ := h
  split at h1
  · rename_i hh; simp at hh h2; omega
  · split at h1
    · rename_i hh; simp at hh h2; omega
    · simp at h1

theorem dqRaw_printable (au : Bool) (c : Char) (h : dqRaw au c = true) : yamlPrintable c = true := by
  simp only [dqRaw, Bool.and_eq_true, Bool.not_eq_true', Bool.or_eq_true, decide_eq_true_eq, Bool.or_eq_false_iff,
    decide_eq_false_iff_not] at h
  simp only [yamlPrintable, Gen.DumpCfg.readerPrintable, inRanges, Nat.ble_eq, Bool.or_eq_true, Bool.and_eq_true, Bool.or_false]
  obtain ⟨h1, h2⟩ := h
  rcases h2 with h2 | ⟨_, h2⟩ <;> omega

theorem namedEscape_printable (n : Nat) (e : Char) (h : namedEscape n = some e) : yamlPrintable e = true := by
  by_cases h0 : n = 0
  · subst h0; simp [namedEscape] at h; subst h; decide
  by_cases h7 : n = 7
  · subst h7; simp [namedEscape] at h; subst h; decide
  by_cases h8 : n = 8
  · subst h8; simp [namedEscape] at h; subst h; decide
  by_cases h9 : n = 9
  · subst h9; simp [namedEscape] at h; subst h; decide
  by_cases h10 : n = 10
  · subst h10; simp [namedEscape] at h; subst h; decide
  by_cases h11 : n = 11
  · subst h11; simp [namedEscape] at h; subst h; decide
  by_cases h12 : n = 12
  · subst h12; simp [namedEscape] at h; subst h; decide
  by_cases h13 : n = 13
  · subst h13; simp [namedEscape] at h; subst h; decide
  by_cases h27 : n = 27
  · subst h27; simp [namedEscape] at h; subst h; decide
  by_cases h34 : n = 34
  · subst h34; simp [namedEscape] at h; subst h; decide
  by_cases h92 : n = 92
  · subst h92; simp [namedEscape] at h; subst h; decide
  by_cases h133 : n = 133
  · subst h133; simp [namedEscape] at h; subst h; decide
  by_cases h160 : n = 160
  · subst h160; simp [namedEscape] at h; subst h; decide
  by_cases h8232 : n = 8232
  · subst h8232; simp [namedEscape] at h; subst h; decide
  by_cases h8233 : n = 8233
  · subst h8233; simp [namedEscape] at h; subst h; decide
  simp [namedEscape, h0, h7, h8, h9, h10, h11, h12, h13, h27, h34, h92, h133, h160, h8232, h8233] at h

theorem all_append {p : Char → Bool} {a b : List Char} (ha : a.all p = true) (hb : b.all p = true) : (a ++ b).all p = true := by
  simp [List.all_append, ha, hb]

theorem writeDoubleChar_printable (au : Bool) (c : Char) : (writeDoubleChar au c).all yamlPrintable = true := by
  have hb : yamlPrintable '\\' = true := by decide
  have hx : yamlPrintable 'x' = true := by decide
  have hu : yamlPrintable 'u' = true := by decide
  have hU : yamlPrintable 'U' = true := by decide
  have hd : ∀ k, yamlPrintable (hexDigitU (k % 16)) = true := fun k => printable_hexDigitU _ (Nat.mod_lt _ (by decide))
  unfold writeDoubleChar
  by_cases hraw : dqRaw au c = true
  · simp [hraw, dqRaw_printable au c hraw]
  · simp only [hraw, Bool.false_eq_true, if_false]
    cases hne : namedEscape c.toNat with
    | some e => simp [hb, namedEscape_printable _ _ hne]
    | none =>
      simp only
      split
      · simp [hexU2, hb, hx, hd]
      · split
        · simp [hexU4, hb, hu, hd]
        · simp [hexU8, hexU4, hb, hU, hd]

theorem writeDoubleBody_printable (au : Bool) (s : List Char) : (writeDoubleBody au s).all yamlPrintable = true := by
  induction s with
  | nil => rfl
  | cons c cs ih => simp only [writeDoubleBody]; exact all_append (writeDoubleChar_printable au c) ih

theorem writeSingleBody_printable (au : Bool) (s : List Char) (hs : ∀ c ∈ s, okChar au c = true) :
    (writeSingleBody s).all yamlPrintable = true := by
  induction s with
  | nil => rfl
  | cons c cs ih =>
    have hq : yamlPrintable '\'' = true := by decide
    have hc := okChar_printable au c (hs c List.mem_cons_self)
    have := ih (fun x hx => hs x (List.mem_cons_of_mem _ hx))
    simp only [writeSingleBody]
    split <;> simp [hq, hc, this]

theorem all_okChar_printable (au : Bool) (s : List Char) (hs : ∀ c ∈ s, okChar au c = true) : s.all yamlPrintable = true := by
  rw [List.all_eq_true]; intro c hc; exact okChar_printable au c (hs c hc)

/-- a tail that does not start with a quote character, for the text after a quoted scalar -/
def TailNoQuote (tail : List Char) : Prop := ∀ d ts, tail = d :: ts → d.toNat ≠ 39

/-- Main lemma: the text written for a single-line str (value or simple key, nothing folded), followed by a
tail that is empty or `:` + blank, is read back as the str itself and leaves the tail. -/
theorem text_roundtrip (sk : Bool) (s tail : List Char) (hml : isMultiline s = false) (hsk : sk = true → s ≠ [])
    (ht : TailOK tail) (htp : tail.all yamlPrintable = true) :
    loadLine (textOf sk s ++ tail) = some (Tag.str, s, tail) := by
  generalize hau : allowUnicodeCfg = au at *
  have htq : TailNoQuote tail := by
    intro d ts h
    rcases ht with rfl | ⟨t, rfl, _⟩
    · cases h
    · injection h with h1 _; subst h1; decide
  by_cases hP : (decide (resolveDumpC s = Tag.str) && !(sk && (s.isEmpty || isMultiline s)) && allowBlockPlain au s) = true
  · -- plain
    have hst : styleOf sk s = Style.plain := by simp only [styleOf, chooseStyle, hau, hP, if_true]
    simp only [textOf, hst]
    simp only [Bool.and_eq_true, decide_eq_true_eq, Bool.not_eq_true'] at hP
    obtain ⟨⟨himp, _⟩, hplain⟩ := hP
    have hne : s ≠ [] := by
      intro h; subst h; revert himp; decide +kernel
    obtain ⟨hstart, hgo⟩ := plain_roundtrip au s tail hne hplain ht
    cases s with
    | nil => exact absurd rfl hne
    | cons c rest =>
      obtain ⟨_, _, hspec, hml', hbi⟩ := plain_facts au c rest hplain
      have hok := okChars_of au (c :: rest) hspec hml'
      have hprint : ((c :: rest) ++ tail).all yamlPrintable = true := all_append (all_okChar_printable au _ hok) htp
      have hfi : firstInd c = false := by
        simp only [blockInd, Bool.or_eq_false_iff] at hbi
        exact hbi.1.1.1.2
      have h39 : c.toNat ≠ 39 := by intro h; simp [firstInd, h] at hfi
      have h34 : c.toNat ≠ 34 := by intro h; simp [firstInd, h] at hfi
      have hload : resolveLoadC (c :: rest) = Tag.str := agree_words _ himp
      simp only [loadLine, hprint, Bool.not_true, Bool.false_eq_true, if_false]
      simp only [List.cons_append] at hstart hgo ⊢
      simp [h39, h34, hstart, hgo, hload]
  · by_cases hS : (allowSingle au s && !(sk && isMultiline s)) = true
    · -- single quoted
      have hst : styleOf sk s = Style.single := by unfold styleOf chooseStyle; rw [hau, if_neg hP, if_pos hS]
      simp only [textOf, hst]
      simp only [Bool.and_eq_true, Bool.not_eq_true', allowSingle, Bool.or_eq_false_iff] at hS
      have hspec : hasSpecial au s = false := hS.1.2.2
      have hok := okChars_of au s hspec hml
      have hq : yamlPrintable '\'' = true := by decide
      have hprint : (('\'' :: (writeSingleBody s ++ ['\''])) ++ tail).all yamlPrintable = true := by
        simp [List.all_append, hq, writeSingleBody_printable au s hok, htp]
      have hgo := qGo_single au s hok [] [] tail htq
      simp only [loadLine, hprint, Bool.not_true, Bool.false_eq_true, if_false]
      simp only [List.cons_append, List.append_assoc, List.nil_append] at hgo ⊢
      simp [qStart, hgo]
    · -- double quoted
      have hst : styleOf sk s = Style.double := by unfold styleOf chooseStyle; rw [hau, if_neg hP, if_neg hS]
      simp only [textOf, hst]
      rw [hau]
      have hq : yamlPrintable '"' = true := by decide
      have hprint : (('"' :: (writeDoubleBody au s ++ ['"'])) ++ tail).all yamlPrintable = true := by
        simp [List.all_append, hq, writeDoubleBody_printable au s, htp]
      have hgo := qGo_double au s [] [] tail
      simp only [loadLine, hprint, Bool.not_true, Bool.false_eq_true, if_false]
      simp only [List.cons_append, List.append_assoc, List.nil_append] at hgo ⊢
      simp [qStart, hgo]

/-- the double-quoted style needs no hypothesis on the string: line breaks, controls, BOM ... are all escaped -/
theorem text_roundtrip_double (sk : Bool) (s tail : List Char) (hst : styleOf sk s = Style.double)
    (htp : tail.all yamlPrintable = true) : loadLine (textOf sk s ++ tail) = some (Tag.str, s, tail) := by
  simp only [textOf, hst]
  generalize allowUnicodeCfg = au
  have hq : yamlPrintable '"' = true := by decide
  have hprint : (('"' :: (writeDoubleBody au s ++ ['"'])) ++ tail).all yamlPrintable = true := by
    simp [List.all_append, hq, writeDoubleBody_printable au s, htp]
  have hgo := qGo_double au s [] [] tail
  simp only [loadLine, hprint, Bool.not_true, Bool.false_eq_true, if_false]
  simp only [List.cons_append, List.append_assoc, List.nil_append] at hgo ⊢
  simp [qStart, hgo]

end Jap.Scalar

import Jap.Lemmas.Heap
/-!
Lemmas for E11 (C08), part 2: `Namespace.update`, key deletion, and the operations composed from the
primitives.  Every operation: writes only `ok` identities, result owned, counter not lowered.
-/
namespace Jap.Heap

/-! ### association lists -/

theorem mutIdsK_insertK (p : Policy) (key : String) (v : T) :
    ∀ (to : Kids), ∀ x ∈ mutIdsK p (insertK key v to), x ∈ mutIds p v ∨ x ∈ mutIdsK p to
  | [] => by
    intro x hx
    simp only [insertK, mutIdsK, List.mem_append] at hx
    rcases hx with hx | hx
    · exact Or.inl hx
    · simp at hx
  | (k', v') :: r => by
    intro x hx
    simp only [insertK] at hx
    by_cases hk : k' = key
    · simp only [hk, ↓reduceIte, mutIdsK, List.mem_append] at hx
      rcases hx with hx | hx
      · exact Or.inl hx
      · exact Or.inr (by simp only [mutIdsK, List.mem_append]; exact Or.inr hx)
    · simp only [hk, ↓reduceIte, mutIdsK, List.mem_append] at hx
      rcases hx with hx | hx
      · exact Or.inr (by simp only [mutIdsK, List.mem_append]; exact Or.inl hx)
      · rcases mutIdsK_insertK p key v r x hx with h | h
        · exact Or.inl h
        · exact Or.inr (by simp only [mutIdsK, List.mem_append]; exact Or.inr h)

theorem mutIdsK_lookupK (p : Policy) (key : String) (v : T) :
    ∀ (to : Kids), lookupK key to = some v → ∀ x ∈ mutIds p v, x ∈ mutIdsK p to
  | [], h => by simp [lookupK] at h
  | (k', v') :: r, h => by
    intro x hx
    simp only [lookupK] at h
    simp only [mutIdsK, List.mem_append]
    by_cases hk : k' = key
    · simp only [hk, ↓reduceIte, Option.some.injEq] at h
      subst h; exact Or.inl hx
    · simp only [hk, ↓reduceIte] at h
      exact Or.inr (mutIdsK_lookupK p key v r h x hx)

theorem OwnK_insertK {p : Policy} {ok : Nat → Prop} {key : String} {v : T} {to : Kids}
    (hv : Own p ok v) (ht : OwnK p ok to) : OwnK p ok (insertK key v to) := by
  intro x hx
  rcases mutIdsK_insertK p key v to x hx with h | h
  · exact hv x h
  · exact ht x h

/-! ### `Namespace.update` -/

mutual
theorem updK_spec (p : Policy) (ok : Nat → Prop) (hns : p.inplace .ns = true) :
    ∀ (src : Kids) (i : Nat) (to : Kids) (k : Nat), ok i → OwnK p ok to → OwnK p ok src → Fresh ok k →
      (∀ w ∈ (updK src i to k).writes, ok w) ∧ OwnK p ok (updK src i to k).val ∧ k ≤ (updK src i to k).next
  | [], i, to, k, _, ht, _, _ => by
    simp only [updK]
    exact ⟨by intro w hw; simp at hw, ht, Nat.le_refl _⟩
  | (key, v) :: r, i, to, k, hi, ht, hs, hf => by
    have hs' := OwnK_cons.mp hs
    have h1 := updOne_spec p ok hns key v i to k hi ht hs'.1 hf
    have h2 := updK_spec p ok hns r i (updOne key v i to k).val (updOne key v i to k).next hi h1.2.1 hs'.2 (hf.mono h1.2.2)
    simp only [updK]
    refine ⟨?_, h2.2.1, by omega⟩
    intro w hw
    rcases List.mem_append.mp hw with hw | hw
    · exact h1.1 w hw
    · exact h2.1 w hw
theorem updOne_spec (p : Policy) (ok : Nat → Prop) (hns : p.inplace .ns = true) :
    ∀ (key : String) (v : T) (i : Nat) (to : Kids) (k : Nat), ok i → OwnK p ok to → Own p ok v → Fresh ok k →
      (∀ w ∈ (updOne key v i to k).writes, ok w) ∧ OwnK p ok (updOne key v i to k).val ∧ k ≤ (updOne key v i to k).next
  | key, .atom n, i, to, k, hi, ht, hv, _ => by
    simp only [updOne]
    refine ⟨?_, OwnK_insertK hv ht, Nat.le_refl _⟩
    intro w hw; simp at hw; subst hw; exact hi
  | key, .node kd j fk, i, to, k, hi, ht, hv, hf => by
    have hv' := Own_node.mp hv
    simp only [updOne]
    by_cases hkd : kd = .ns
    · simp only [hkd, ↓reduceIte]
      split
      · rename_i j' tk hl
        -- the namespace found in `to` is owned
        have hfound : Own p ok (.node .ns j' tk) := fun x hx => ht x (mutIdsK_lookupK p key _ to hl x hx)
        have hfound' := Own_node.mp hfound
        have ih := updK_spec p ok hns fk j' tk k (hfound'.1 hns) hfound'.2 hv'.2 hf
        refine ⟨ih.1, OwnK_insertK (Own_node.mpr ⟨fun _ => hfound'.1 hns, ih.2.1⟩) ht, ih.2.2⟩
      · by_cases hl : hasLeavesK fk = true
        · simp only [hl, ↓reduceIte]
          have hf' : Fresh ok (k + 1) := hf.mono (Nat.le_succ k)
          have ih := updK_spec p ok hns fk k [] (k + 1) (hf k (Nat.le_refl _)) (OwnK_nil p ok) hv'.2 hf'
          refine ⟨?_, OwnK_insertK (Own_node.mpr ⟨fun _ => hf k (Nat.le_refl _), ih.2.1⟩) ht, by omega⟩
          intro w hw
          rcases List.mem_cons.mp hw with hw | hw
          · subst hw; exact hi
          · exact ih.1 w hw
        · simp only [hl, Bool.false_eq_true, ↓reduceIte]
          exact ⟨by intro w hw; simp at hw, ht, Nat.le_refl _⟩
    · simp only [hkd, ↓reduceIte]
      refine ⟨?_, OwnK_insertK hv ht, Nat.le_refl _⟩
      intro w hw; simp at hw; subst hw; exact hi
end

theorem update_spec (p : Policy) (ok : Nat → Prop) (hns : p.inplace .ns = true) (to src : T) (k : Nat)
    (ht : Own p ok to) (hs : Own p ok src) (hf : Fresh ok k) :
    (∀ w ∈ (update to src k).writes, ok w) ∧ Own p ok (update to src k).val ∧ k ≤ (update to src k).next := by
  unfold update
  split
  · rename_i i tk _ sk
    have ht' := Own_node.mp ht
    have hs' := Own_node.mp hs
    have h := updK_spec p ok hns sk i tk k (ht'.1 hns) ht'.2 hs'.2 hf
    exact ⟨h.1, Own_node.mpr ⟨fun _ => ht'.1 hns, h.2.1⟩, h.2.2⟩
  · exact ⟨by intro w hw; simp at hw, ht, Nat.le_refl _⟩

/-! ### key deletion -/

mutual
theorem delT_spec (p : Policy) (ok : Nat → Prop) (hns : p.inplace .ns = true) (known : List String) :
    ∀ (t : T) (i : Nat) (q : String), ok i → Own p ok t →
      (∀ w ∈ (delT known i q t).2, ok w) ∧ (∀ v, (delT known i q t).1 = some v → Own p ok v)
  | .atom n, i, q, hi, _ => by
    simp only [delT]
    split
    · exact ⟨by intro w hw; simp at hw, fun v hv => by cases hv; exact Own_atom p ok n⟩
    · exact ⟨by intro w hw; simp at hw; subst hw; exact hi, fun v hv => by cases hv⟩
  | .node kd j kids, i, q, hi, ho => by
    have ho' := Own_node.mp ho
    simp only [delT]
    by_cases hkd : kd = .ns
    · subst hkd
      simp only [↓reduceIte]
      have ih := delK_spec p ok hns known kids j (q ++ ".") (ho'.1 hns) ho'.2
      exact ⟨ih.1, fun v hv => by cases hv; exact Own_node.mpr ⟨fun _ => ho'.1 hns, ih.2⟩⟩
    · simp only [hkd, ↓reduceIte]
      split
      · exact ⟨by intro w hw; simp at hw, fun v hv => by cases hv; exact ho⟩
      · exact ⟨by intro w hw; simp at hw; subst hw; exact hi, fun v hv => by cases hv⟩
theorem delK_spec (p : Policy) (ok : Nat → Prop) (hns : p.inplace .ns = true) (known : List String) :
    ∀ (ts : Kids) (i : Nat) (pre : String), ok i → OwnK p ok ts →
      (∀ w ∈ (delK known i pre ts).2, ok w) ∧ OwnK p ok (delK known i pre ts).1
  | [], _, _, _, _ => by
    simp only [delK]
    exact ⟨by intro w hw; simp at hw, OwnK_nil p ok⟩
  | (key, x) :: r, i, pre, hi, ho => by
    have ho' := OwnK_cons.mp ho
    have h1 := delT_spec p ok hns known x i (pre ++ key) hi ho'.1
    have h2 := delK_spec p ok hns known r i pre hi ho'.2
    simp only [delK]
    refine ⟨?_, ?_⟩
    · intro w hw
      rcases List.mem_append.mp hw with hw | hw
      · exact h1.1 w hw
      · exact h2.1 w hw
    · cases hv : (delT known i (pre ++ key) x).1 with
      | none => exact h2.2
      | some v => exact OwnK_cons.mpr ⟨h1.2 v hv, h2.2⟩
end

/-! ### copy or not -/

/-- the working value of an operation: owned when the site copies (and what the clone shares is `ok`),
    or when the argument was owned already -/
theorem copyIf_clone_spec (p : Policy) (skip : List String) (ok : Nat → Prop) (b : Bool) (t : T) (k : Nat)
    (h : (b = true ∧ ∀ i ∈ sharedMut p t, ok i) ∨ Own p ok t) (hf : Fresh ok k) :
    Own p ok (copyIf b (recreate p skip) t k).val ∧ k ≤ (copyIf b (recreate p skip) t k).next := by
  unfold copyIf
  rcases h with ⟨hb, hs⟩ | ho
  · simp only [hb, ↓reduceIte]
    exact recreate_spec p skip ok t k hs hf
  · by_cases hb : b = true
    · simp only [hb, ↓reduceIte]
      exact recreate_own p skip ok t k ho hf
    · simp only [hb, Bool.false_eq_true, ↓reduceIte]
      exact ⟨ho, Nat.le_refl _⟩

/-! ### the operations -/

/-- what an operation guarantees about its result -/
def Spec (p : Policy) (ok : Nat → Prop) (k : Nat) (r : M T) : Prop :=
  (∀ w ∈ r.writes, ok w) ∧ Own p ok r.val ∧ k ≤ r.next

theorem validate_spec (p : Policy) (cs : Sites) (ok : Nat → Prop) (t : T) (k : Nat)
    (h : (cs.validate = true ∧ ∀ i ∈ sharedMut p t, ok i) ∨ Own p ok t) (hf : Fresh ok k) :
    Spec p ok k (validate p cs t k) := by
  have hc := copyIf_clone_spec p [] ok cs.validate t k h hf
  have hm := mutT_spec p .adapt ok _ _ hc.1 (hf.mono hc.2)
  simp only [Spec, validate, adaptMut]
  exact ⟨hm.1, hm.2.1, Nat.le_trans hc.2 hm.2.2⟩

theorem recreate_empty (p : Policy) (skip : List String) (t : T) (k : Nat) (h : isEmptyNode t = true) :
    isEmptyNode (recreate p skip t k).val = true := by
  cases t with
  | atom n => simp [isEmptyNode] at h
  | node kd i kids =>
    simp only [isEmptyNode, List.isEmpty_iff] at h
    subst h
    simp only [recreate, recreateK]
    split
    · split <;> simp [isEmptyNode]
    · simp [isEmptyNode]

theorem validate_empty (p : Policy) (cs : Sites) (t : T) (k : Nat) (h : isEmptyNode t = true) :
    (validate p cs t k).writes = [] := by
  unfold validate adaptMut clone copyIf
  split
  · exact mutT_empty p .adapt _ _ (recreate_empty p [] t k h)
  · exact mutT_empty p .adapt _ _ h

theorem stripShared_sub (p : Policy) (t : T) : ∀ i ∈ stripShared p t, i ∈ mutIds p t := by
  unfold stripShared
  split
  · intro i hi; exact hi
  · exact sharedMut_sub p t

theorem dump_spec (p : Policy) (cs : Sites) (mkeys : List String) (ok : Nat → Prop) (t : T) (k : Nat)
    (hcs : cs.dump = true) (hs : ∀ i ∈ sharedMut p t, ok i) (hf : Fresh ok k) :
    ∀ w ∈ (dump p cs mkeys t k).writes, ok w := by
  unfold dump
  simp only [hcs, copyIf, ↓reduceIte]
  by_cases he : (isEmptyNode t && !p.stripEmpty) = true
  · -- (before fix 3b44d63) an empty config is handed on itself; nothing is ever assigned into an empty container
    have he' : isEmptyNode t = true := by
      simp only [Bool.and_eq_true] at he; exact he.1
    simp only [stripMeta, he, ↓reduceIte]
    intro w hw
    rw [validate_empty p cs t k he'] at hw
    unfold serMut at hw
    rw [mutT_empty p .ser t _ he'] at hw
    simp at hw
  · have hs' : ∀ i ∈ stripShared p t, ok i := by
      intro i hi; apply hs; simp only [stripShared, he] at hi; exact hi
    have hc := stripMeta_spec p mkeys ok t k hs' hf
    have hv := validate_spec p cs ok _ _ (Or.inr hc.1) (hf.mono hc.2)
    have hsr := mutT_spec p .ser ok (stripMeta p mkeys t k).val (validate p cs (stripMeta p mkeys t k).val (stripMeta p mkeys t k).next).next
      hc.1 (hf.mono (Nat.le_trans hc.2 hv.2.2))
    intro w hw
    rcases List.mem_append.mp hw with hw | hw
    · exact hv.1 w hw
    · exact hsr.1 w hw

theorem mergeConfig_spec (p : Policy) (cs : Sites) (ok : Nat → Prop) (hns : p.inplace .ns = true) (src to : T) (k : Nat)
    (hsrc : (cs.mergeFrom = true ∧ ∀ i ∈ sharedMut p src, ok i) ∨ Own p ok src)
    (hto : (cs.mergeTo = true ∧ ∀ i ∈ sharedMut p to, ok i) ∨ Own p ok to) (hf : Fresh ok k) :
    Spec p ok k (mergeConfig p cs src to k) := by
  have h1 := copyIf_clone_spec p [] ok cs.mergeFrom src k hsrc hf
  have h2 := copyIf_clone_spec p [] ok cs.mergeTo to _ hto (hf.mono h1.2)
  have h3 := update_spec p ok hns _ _ _ h2.1 h1.1 (hf.mono (Nat.le_trans h1.2 h2.2))
  simp only [Spec, mergeConfig]
  exact ⟨h3.1, h3.2.1, Nat.le_trans h1.2 (Nat.le_trans h2.2 h3.2.2)⟩

theorem copyIf_kind (p : Policy) (skip : List String) (b : Bool) (t : T) (k : Nat) :
    kindOf (copyIf b (recreate p skip) t k).val = kindOf t := by
  cases t with
  | atom n => simp only [copyIf, recreate]; split <;> rfl
  | node kd i kids =>
    simp only [copyIf, recreate]
    split
    · split
      · split <;> rfl
      · rfl
    · rfl

theorem stripUnknown_spec (p : Policy) (cs : Sites) (ok : Nat → Prop) (hns : p.inplace .ns = true) (known : List String) (t : T) (k : Nat)
    (hroot : ∀ kd, kindOf t = some kd → p.inplace kd = true)
    (h : (cs.stripUnknown = true ∧ ∀ i ∈ sharedMut p t, ok i) ∨ Own p ok t) (hf : Fresh ok k) :
    Spec p ok k (stripUnknown p cs known t k) := by
  have hc : Own p ok (copyIf cs.stripUnknown (clone p) t k).val ∧ k ≤ (copyIf cs.stripUnknown (clone p) t k).next :=
    copyIf_clone_spec p [] ok cs.stripUnknown t k h hf
  have hkind : kindOf (copyIf cs.stripUnknown (clone p) t k).val = kindOf t := copyIf_kind p [] cs.stripUnknown t k
  simp only [Spec, stripUnknown]
  generalize copyIf cs.stripUnknown (clone p) t k = c at hc hkind ⊢
  cases hv : c.val with
  | atom n =>
    exact ⟨by intro w hw; simp at hw, Own_atom p ok _, hc.2⟩
  | node kd i kids =>
    rw [hv] at hc hkind
    have hin : p.inplace kd = true := hroot kd (by rw [← hkind]; rfl)
    have ho := Own_node.mp hc.1
    have hd := delK_spec p ok hns known kids i "" (ho.1 hin) ho.2
    exact ⟨hd.1, Own_node.mpr ⟨fun _ => ho.1 hin, hd.2⟩, hc.2⟩

/-! ### defaults -/

theorem getDefaultsK_spec (p : Policy) (cs : Sites) (ok : Nat → Prop) (hcs : cs.getDefaults = true) :
    ∀ (ds : Kids) (k : Nat), (∀ i ∈ sharedMutK p ds, ok i) → Fresh ok k →
      OwnK p ok (getDefaultsK p cs ds k).val ∧ k ≤ (getDefaultsK p cs ds k).next
  | [], k, _, _ => by
    simp only [getDefaultsK]; exact ⟨OwnK_nil p ok, Nat.le_refl _⟩
  | (dest, d) :: r, k, hs, hf => by
    have hs1 : ∀ i ∈ sharedMut p d, ok i := fun j hj => hs j (by simp only [sharedMutK, List.mem_append]; exact Or.inl hj)
    have hs2 : ∀ i ∈ sharedMutK p r, ok i := fun j hj => hs j (by simp only [sharedMutK, List.mem_append]; exact Or.inr hj)
    have h1 := copyIf_clone_spec p [] ok cs.getDefaults d k (Or.inl ⟨hcs, hs1⟩) hf
    have h2 := getDefaultsK_spec p cs ok hcs r _ hs2 (hf.mono h1.2)
    simp only [getDefaultsK]
    exact ⟨OwnK_cons.mpr ⟨h1.1, h2.1⟩, Nat.le_trans h1.2 h2.2⟩

theorem getDefaults_spec (p : Policy) (cs : Sites) (ok : Nat → Prop) (hcs : cs.getDefaults = true)
    (ds : Kids) (k : Nat) (hs : ∀ i ∈ sharedMutK p ds, ok i) (hf : Fresh ok k) :
    Spec p ok k (getDefaults p cs ds k) := by
  have h1 := getDefaultsK_spec p cs ok hcs ds k hs hf
  have hroot : Own p ok (.node .ns (getDefaultsK p cs ds k).next (getDefaultsK p cs ds k).val) :=
    Own_node.mpr ⟨fun _ => hf _ h1.2, h1.1⟩
  have h2 := mutT_spec p .adapt ok _ ((getDefaultsK p cs ds k).next + 1) hroot (hf.mono (by omega))
  simp only [Spec, getDefaults, adaptMut]
  exact ⟨h2.1, h2.2.1, by omega⟩

/-! ### parse_object -/

theorem poDefaults_spec (p : Policy) (cs : Sites) (ok : Nat → Prop) (hns : p.inplace .ns = true)
    (hcd : cs.getDefaults = true) (hcb : cs.parseObjectBase = true) (hcf : cs.mergeFrom = true)
    (ds : Kids) (base : Option T) (k : Nat)
    (hds : ∀ i ∈ sharedMutK p ds, ok i) (hbase : ∀ b, base = some b → ∀ i ∈ sharedMut p b, ok i) (hf : Fresh ok k) :
    Spec p ok k (poDefaults p cs ds base k) := by
  have hd := getDefaults_spec p cs ok hcd ds k hds hf
  cases base with
  | none => simpa only [poDefaults] using hd
  | some b =>
    have hm := mergeConfig_spec p { cs with mergeFrom := cs.mergeFrom && cs.parseObjectBase } ok hns b (getDefaults p cs ds k).val
      (getDefaults p cs ds k).next (Or.inl ⟨by simp [hcf, hcb], hbase b rfl⟩) (Or.inr hd.2.1) (hf.mono hd.2.2)
    simp only [Spec, poDefaults]
    refine ⟨?_, hm.2.1, Nat.le_trans hd.2.2 hm.2.2⟩
    intro w hw
    rcases List.mem_append.mp hw with hw | hw
    · exact hd.1 w hw
    · exact hm.1 w hw

theorem nsOfDict_spec (p : Policy) (ok : Nat → Prop) (o : R T) (ho : Own p ok o.val) (hf : Fresh ok o.next) :
    Own p ok (nsOfDict o).val ∧ o.next ≤ (nsOfDict o).next := by
  unfold nsOfDict
  split
  · rename_i j kids heq
    have := Own_node.mp (heq ▸ ho)
    exact ⟨Own_node.mpr ⟨fun _ => hf _ (Nat.le_refl _), this.2⟩, Nat.le_succ _⟩
  · exact ⟨ho, Nat.le_refl _⟩

theorem parseObject_spec (p : Policy) (cs : Sites) (ok : Nat → Prop) (hns : p.inplace .ns = true)
    (hcd : cs.getDefaults = true) (hco : cs.parseObject = true) (hcb : cs.parseObjectBase = true) (hcf : cs.mergeFrom = true)
    (ds : Kids) (base : Option T) (obj : T) (k : Nat)
    (hds : ∀ i ∈ sharedMutK p ds, ok i) (hbase : ∀ b, base = some b → ∀ i ∈ sharedMut p b, ok i)
    (hobj : ∀ i ∈ sharedMut p obj, ok i) (hf : Fresh ok k) :
    ∀ w ∈ (parseObject p cs ds base obj k).writes, ok w := by
  have hd1 := poDefaults_spec p cs ok hns hcd hcb hcf ds base k hds hbase hf
  simp only [parseObject]
  generalize poDefaults p cs ds base k = d0 at hd1 ⊢
  have hda := mutT_spec p .adapt ok d0.val d0.next hd1.2.1 (hf.mono hd1.2.2)
  have hd0w := hd1.1
  replace hd1 : Spec p ok k (adaptMut p d0.val d0.next) := ⟨hda.1, hda.2.1, Nat.le_trans hd1.2.2 hda.2.2⟩
  generalize adaptMut p d0.val d0.next = d1 at hd1 ⊢
  have ho := copyIf_clone_spec p [] ok cs.parseObject obj d1.next (Or.inl ⟨hco, hobj⟩) (hf.mono hd1.2.2)
  generalize copyIf cs.parseObject (recreate p []) obj d1.next = o at ho ⊢
  have hk0 : k ≤ o.next := Nat.le_trans hd1.2.2 ho.2
  have hn := nsOfDict_spec p ok o ho.1 (hf.mono hk0)
  generalize nsOfDict o = asNs at hn ⊢
  have hk1 : k ≤ asNs.next := Nat.le_trans hk0 hn.2
  have ha := mutT_spec p .adapt ok asNs.val asNs.next hn.1 (hf.mono hk1)
  have hk2 : k ≤ (adaptMut p asNs.val asNs.next).next := Nat.le_trans hk1 ha.2.2
  have hmg := mergeConfig_spec p cs ok hns (adaptMut p asNs.val asNs.next).val d1.val (adaptMut p asNs.val asNs.next).next
    (Or.inr ha.2.1) (Or.inr hd1.2.1) (hf.mono hk2)
  have hv := validate_spec p cs ok (mergeConfig p cs (adaptMut p asNs.val asNs.next).val d1.val (adaptMut p asNs.val asNs.next).next).val
    (mergeConfig p cs (adaptMut p asNs.val asNs.next).val d1.val (adaptMut p asNs.val asNs.next).next).next
    (Or.inr hmg.2.1) (hf.mono (Nat.le_trans hk2 hmg.2.2))
  intro w hw
  simp only [List.mem_append] at hw
  rcases hw with (((hw | hw) | hw) | hw) | hw
  · exact hd0w w hw
  · exact hd1.1 w hw
  · exact ha.1 w hw
  · exact hmg.1 w hw
  · exact hv.1 w hw

/-! ### instantiate -/

theorem rootWrite_sub (p : Policy) (t : T) : ∀ i ∈ rootWrite p t, i ∈ mutIds p t := by
  cases t with
  | atom n => intro i hi; simp [rootWrite] at hi
  | node kd j kids =>
    intro i hi
    simp only [rootWrite] at hi
    by_cases hp : p.inplace kd = true
    · simp only [hp, ↓reduceIte, List.mem_singleton] at hi
      subst hi; simp [mutIds, hp]
    · simp [hp] at hi

/-- instantiate_classes: the working copy is `strip_meta(cfg)`; class groups / instantiation links assign into its root -/
theorem instantiate_spec (p : Policy) (cs : Sites) (mkeys : List String) (ok : Nat → Prop) (t : T) (k : Nat)
    (hcs : cs.instantiate = true) (hs : ∀ i ∈ stripShared p t, ok i) (hf : Fresh ok k) :
    Spec p ok k (instantiate p cs mkeys t k) := by
  unfold instantiate instMut
  simp only [hcs, copyIf, ↓reduceIte, Spec]
  have hc := stripMeta_spec p mkeys ok t k hs hf
  have hm := mutT_spec p .inst ok _ _ hc.1 (hf.mono hc.2)
  refine ⟨?_, hm.2.1, Nat.le_trans hc.2 hm.2.2⟩
  intro w hw
  rcases List.mem_append.mp hw with hw | hw
  · exact hc.1 w (rootWrite_sub p _ w hw)
  · exact hm.1 w hw

/-! ### brackets -/

theorem Store.get_set_same (s : Store) (x : String) (v : Nat) : (s.set x v) x = v := by
  simp [Store.set]

theorem Store.get_set_other (s : Store) (x y : String) (v : Nat) (h : y ≠ x) : (s.set x v) y = s y := by
  simp [Store.set, h]

/-- a bracket whose reset is in `finally` restores its variable for every body and every outcome -/
theorem withBracket_fin_restores (var : String) (newVal : Nat) (body : Store → Outcome × Store) (s : Store) :
    (withBracket .fin var newVal body s).2 var = s var := by
  simp [withBracket, Store.set]

/-- it also reports the body's outcome unchanged (an exception still propagates) -/
theorem withBracket_fin_outcome (var : String) (newVal : Nat) (body : Store → Outcome × Store) (s : Store) :
    (withBracket .fin var newVal body s).1 = (body (s.set var newVal)).1 := by
  simp [withBracket]

/-- any composition of disciplined code leaves every watched variable as it found it, whatever is raised -/
theorem Prog.run_restores (watch : List String) :
    ∀ (prog : Prog) (s : Store), prog.disciplined watch = true → ∀ x ∈ watch, (prog.run s).2 x = s x
  | .skip, s, _, x, _ => by simp [Prog.run]
  | .raise, s, _, x, _ => by simp [Prog.run]
  | .write y v, s, h, x, hx => by
    simp only [Prog.disciplined, Bool.not_eq_true', List.contains_eq_mem, decide_eq_false_iff_not] at h
    simp only [Prog.run]
    apply Store.get_set_other
    intro hxy; subst hxy; exact h hx
  | .seq a b, s, h, x, hx => by
    simp only [Prog.disciplined, Bool.and_eq_true] at h
    simp only [Prog.run]
    have ha := Prog.run_restores watch a s h.1 x hx
    split
    · rw [Prog.run_restores watch b _ h.2 x hx, ha]
    · exact ha
  | .tryCatch a hd, s, h, x, hx => by
    simp only [Prog.disciplined, Bool.and_eq_true] at h
    simp only [Prog.run]
    have ha := Prog.run_restores watch a s h.1 x hx
    split
    · exact ha
    · rw [Prog.run_restores watch hd _ h.2 x hx, ha]
  | .bracket reset y v body, s, h, x, hx => by
    simp only [Prog.disciplined, Bool.and_eq_true, Bool.or_eq_true, beq_iff_eq, Bool.not_eq_true',
      List.contains_eq_mem, decide_eq_false_iff_not] at h
    simp only [Prog.run]
    have hb := Prog.run_restores watch body (s.set y v) h.2 x hx
    by_cases hxy : x = y
    · subst hxy
      rcases h.1 with hr | hr
      · subst hr; exact withBracket_fin_restores _ _ _ _
      · exact absurd hx hr
    · have hset : (s.set y v) x = s x := Store.get_set_other s y x v hxy
      simp only [withBracket]
      split <;> simp only [Store.get_set_other _ y x _ hxy, hb]

end Jap.Heap

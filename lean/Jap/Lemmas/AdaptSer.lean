/-
Serialisation (`adapt O true none t`) of values in normal form and the way back
(`adapt O false none t`): the L1 theorem of C01 on the adapter model.

`rt inU t`: the grammar on which the round trip is proved.  `inU` = "inside a Union member".
  * leaves, Literal, List, Tuple (both), Dict[str, _] anywhere; Enum outside Union members;
  * a Union whose members are in the grammar (hence Enum-free: the Enum branch of the serialiser returns any
    non-member unchanged, row 5f) and satisfy `unionCond`: either no member changes a value when serialising
    (`serId`), or at most one member is not scalar-like (so that the serialised form, which differs from the
    value only by tuple -> list, is still refused by the members that refused the value);
  * not covered: Any (an Enum member given to Any is written as its name and read back as text), Set and
    Dict[int, _] (left out of the proof, no counterexample known).
-/
import Jap.Lemmas.AdaptIdem
namespace Jap.Adapt

def scalarLike : Ty → Bool
  | .str | .int | .float | .bool | .none => true
  | .literal _ => true
  | _ => false

def KTy.isStr : KTy → Bool | .str => true | .int => false

mutual
/-- serialising leaves every fixed point of the type unchanged -/
def serId : Ty → Bool
  | .str | .int | .float | .bool | .none => true
  | .literal _ => true
  | .rnum _ _ => true
  | .list t => serId t
  | .dict k t => k.isStr && serId t
  | .union ts => serIdAll ts
  | _ => false
def serIdAll : List Ty → Bool
  | [] => true
  | t :: ts => serId t && serIdAll ts
end

def unionCond (ts : List Ty) : Bool :=
  serIdAll ts || decide ((ts.filter (fun t => !scalarLike t)).length ≤ 1)

mutual
def rt (inU : Bool) : Ty → Bool
  | .str | .int | .float | .bool | .none => true
  | .literal _ => true
  | .enum _ _ => !inU
  | .rnum _ _ => !inU      -- its serializer (the base type) takes any number: row 5f inside a Union
  | .reg _ => false        -- needs the codec law of the type: see `reg_roundtrip`
  | .list t => rt inU t
  | .tupleVar t => rt inU t
  | .dict k t => k.isStr && rt inU t
  | .tuple ts => rtAll inU ts
  | .union ts => rtAll true ts && unionCond ts
  | .set _ => false
  | .any => false
def rtAll (inU : Bool) : List Ty → Bool
  | [] => true
  | t :: ts => rt inU t && rtAll inU ts
end

theorem rtAll_mem {inU : Bool} {ts : List Ty} (h : rtAll inU ts = true) : ∀ t ∈ ts, rt inU t = true := by
  induction ts with
  | nil => simp
  | cons a as ih =>
    simp only [rtAll, Bool.and_eq_true] at h
    intro t ht
    rcases List.mem_cons.mp ht with rfl | ht
    · exact h.1
    · exact ih h.2 t ht

theorem serIdAll_mem {ts : List Ty} (h : serIdAll ts = true) : ∀ t ∈ ts, serId t = true := by
  induction ts with
  | nil => simp
  | cons a as ih =>
    simp only [serIdAll, Bool.and_eq_true] at h
    intro t ht
    rcases List.mem_cons.mp ht with rfl | ht
    · exact h.1
    · exact ih h.2 t ht

theorem scalarLike_serId {t : Ty} (h : scalarLike t = true) : serId t = true := by
  cases t <;> simp [scalarLike] at h <;> simp [serId]

/-! ### `F2` helpers -/

theorem F2.diag {α : Type} {R : α → α → Prop} : ∀ {xs : List α}, F2 R xs xs → ∀ x ∈ xs, R x x
  | [], _ => by simp
  | a :: as, h => by
    cases h with
    | cons h1 h2 =>
      intro x hx
      rcases List.mem_cons.mp hx with rfl | hx
      · exact h1
      · exact F2.diag h2 x hx

theorem F2.exists_of_forall {α β : Type} {P : α → β → Prop} : ∀ (ys : List α), (∀ y ∈ ys, ∃ z, P y z) → ∃ zs, F2 P ys zs
  | [], _ => ⟨[], .nil⟩
  | y :: ys, h => by
    obtain ⟨z, hz⟩ := h y List.mem_cons_self
    obtain ⟨zs, hzs⟩ := F2.exists_of_forall ys (fun y' hy' => h y' (List.mem_cons_of_mem _ hy'))
    exact ⟨z :: zs, .cons hz hzs⟩

theorem F2.flip {α β : Type} {P : α → β → Prop} {xs : List α} {ys : List β} (h : F2 P xs ys) :
    F2 (fun y x => P x y) ys xs := by
  induction h with
  | nil => exact .nil
  | cons hab _ ih => exact .cons hab ih

theorem F2.eq_of {α : Type} {xs ys : List α} (h : F2 (fun x y => y = x) xs ys) : ys = xs := by
  induction h with
  | nil => rfl
  | cons hab _ ih => rw [hab, ih]

theorem any_congr_mem {α : Type} {p q : α → Bool} : ∀ (l : List α), (∀ x ∈ l, p x = q x) → l.any p = l.any q
  | [], _ => rfl
  | a :: l, h => by
    simp only [List.any_cons, h a List.mem_cons_self, any_congr_mem l (fun x hx => h x (List.mem_cons_of_mem _ hx))]

/-! ### acceptance does not depend on the `serialize` flag on this grammar -/

theorem seq_isOk (O : Oracle) (s : Bool) (orig : Option String) (t : Ty) (u : Val) (r : Except Err Val)
    (mk : List Val → Val)
    (hr : r = match seqItems u with
      | .none => .error .value
      | some xs => match allM (fun x => adapt O s .none t x) xs with
        | .error e => .error e
        | .ok ys => .ok (mk ys)) :
    isOk r = match seqItems u with
      | .none => false
      | some xs => xs.all (fun x => isOk (adapt O s .none t x)) := by
  subst hr
  cases hs : seqItems u with
  | none => rfl
  | some xs =>
    have key := allM_isOk (fun x => adapt O s .none t x) xs
    simp only
    cases hz : allM (fun x => adapt O s .none t x) xs with
    | error e => rw [hz] at key; simp [← key]
    | ok ys => rw [hz] at key; simp [← key]

theorem list_isOk_s (O : Oracle) (s : Bool) (t : Ty) (u : Val) :
    isOk (adapt O s .none (.list t) u) = match seqItems u with
      | .none => false
      | some xs => xs.all (fun x => isOk (adapt O s .none t x)) := by
  rw [adapt]; exact seq_isOk O s .none t u _ .list rfl

theorem tupleVar_isOk_s (O : Oracle) (s : Bool) (t : Ty) (u : Val) :
    isOk (adapt O s .none (.tupleVar t) u) = match seqItems u with
      | .none => false
      | some xs => xs.all (fun x => isOk (adapt O s .none t x)) := by
  rw [adapt]; exact seq_isOk O s .none t u _ (fun ys => if s then .list ys else .tuple ys) rfl

theorem tuple_isOk_s (O : Oracle) (s : Bool) (ts : List Ty) (u : Val) :
    isOk (adapt O s .none (.tuple ts) u) = true ↔
      ∃ xs, seqItems u = some xs ∧ xs.length = ts.length ∧ ∀ tx ∈ ts.zip xs, isOk (adapt O s .none tx.1 tx.2) = true := by
  rw [adapt]
  cases hs : seqItems u with
  | none => simp
  | some xs =>
    simp only [Option.some.injEq, exists_eq_left']
    rw [← adaptZip_isOk_iff]
    by_cases hl : xs.length = ts.length
    · simp only [hl, bne_self_eq_false, Bool.false_eq_true, if_false]
      cases hz : adaptZip O s ts xs <;> simp
    · have : (xs.length != ts.length) = true := by simpa using hl
      simp only [this, if_true, isOk_error, Bool.false_eq_true, false_iff]
      intro h
      exact hl ((adaptZip_isOk_iff O s ts xs).mp h).1

theorem dictStr_isOk_s (O : Oracle) (s : Bool) (t : Ty) (u : Val) :
    isOk (adapt O s .none (.dict .str t) u) = match u with
      | .dict kvs => kvs.all (fun kv => isOk (adapt O s .none t kv.2))
      | _ => false := by
  cases u with
  | dict kvs =>
    simp only [adapt]
    have key : isOk (allM (fun (kx : DKey × Val) =>
        match adapt O s .none t kx.2 with
        | .error e => (.error e : Except Err (DKey × Val))
        | .ok y => .ok (kx.1, y)) kvs) = kvs.all (fun kv => isOk (adapt O s .none t kv.2)) := by
      rw [allM_isOk]; congr 1; funext kx; cases adapt O s .none t kx.2 <;> rfl
    cases hz : allM (fun (kx : DKey × Val) =>
        match adapt O s .none t kx.2 with
        | .error e => (.error e : Except Err (DKey × Val))
        | .ok y => .ok (kx.1, y)) kvs with
    | error e => rw [hz] at key; simp [hz, ← key]
    | ok ys => rw [hz] at key; simp [hz, ← key]
  | _ => simp [adapt]

/-- on the Enum-free part of the grammar the serialiser accepts exactly what the adapter accepts -/
theorem ser_accepts (O : Oracle) : ∀ (t : Ty) (u : Val), rt true t = true →
    isOk (adapt O true .none t u) = isOk (adapt O false .none t u)
  | .str, u, _ => by simp [adapt]
  | .int, u, _ => by simp [adapt]
  | .float, u, _ => by simp [adapt]
  | .bool, u, _ => by simp [adapt]
  | .none, u, _ => by simp [adapt]
  | .literal ls, u, _ => by simp [adapt]
  | .enum _ _, u, h => by simp [rt] at h
  | .rnum _ _, u, h => by simp [rt] at h
  | .reg _, u, h => by simp [rt] at h
  | .set _, u, h => by simp [rt] at h
  | .any, u, h => by simp [rt] at h
  | .list t, u, h => by
    rw [list_isOk_s, list_isOk_s]
    cases seqItems u with
    | none => rfl
    | some xs =>
      simp only
      congr 1; funext x
      exact ser_accepts O t x (by simpa [rt] using h)
  | .tupleVar t, u, h => by
    rw [tupleVar_isOk_s, tupleVar_isOk_s]
    cases seqItems u with
    | none => rfl
    | some xs =>
      simp only
      congr 1; funext x
      exact ser_accepts O t x (by simpa [rt] using h)
  | .dict k t, u, h => by
    cases k with
    | int => simp [rt, KTy.isStr] at h
    | str =>
      rw [dictStr_isOk_s, dictStr_isOk_s]
      cases u with
      | dict kvs =>
        simp only
        congr 1; funext kv
        exact ser_accepts O t kv.2 (by simpa [rt, KTy.isStr] using h)
      | _ => rfl
  | .tuple ts, u, h => by
    rw [Bool.eq_iff_iff, tuple_isOk_s, tuple_isOk_s]
    have hm := rtAll_mem (by simpa [rt] using h : rtAll true ts = true)
    constructor
    · rintro ⟨xs, h1, h2, h3⟩
      refine ⟨xs, h1, h2, fun tx htx => ?_⟩
      have htm : tx.1 ∈ ts := (List.of_mem_zip htx).1
      have hlt : sizeOf tx.1 < sizeOf ts := List.sizeOf_lt_of_mem htm
      rw [← ser_accepts O tx.1 tx.2 (hm _ htm)]; exact h3 tx htx
    · rintro ⟨xs, h1, h2, h3⟩
      refine ⟨xs, h1, h2, fun tx htx => ?_⟩
      have htm : tx.1 ∈ ts := (List.of_mem_zip htx).1
      have hlt : sizeOf tx.1 < sizeOf ts := List.sizeOf_lt_of_mem htm
      rw [ser_accepts O tx.1 tx.2 (hm _ htm)]; exact h3 tx htx
  | .union ts, u, h => by
    rw [union_isOk, union_isOk]
    simp only [rt, Bool.and_eq_true] at h
    have hm := rtAll_mem h.1
    congr 1
    apply any_congr_mem
    intro t ht
    have hlt : sizeOf t < sizeOf ts := List.sizeOf_lt_of_mem ht
    exact ser_accepts O t u (hm t ht)
termination_by t => sizeOf t
decreasing_by all_goals simp_wf <;> omega


/-! ### the sorted member list is a permutation of the members -/

theorem sortedMembers_perm (v : Val) : ∀ ts : List Ty, (sortedMembers v id ts).Perm ts
  | [] => by simp [sortedMembers]
  | t :: ts => by
    have ih := sortedMembers_perm v ts
    simp only [sortedMembers, id] at ih ⊢
    rcases cls_cases v t with c | c | c
    · have c2 : cls2 v t = false := by
        revert c; unfold cls1 cls2; cases isNoneTy t <;> cases isStr v <;> cases isSeqOrMap t <;> simp
      have c3 : cls3 v t = false := by
        revert c; unfold cls1 cls3; cases isNoneTy t <;> cases isStr v <;> cases isSeqOrMap t <;> simp
      simp only [List.filter_cons, c, c2, c3, if_true, Bool.false_eq_true, if_false, List.cons_append]
      exact List.Perm.cons t ih
    · have c1 : cls1 v t = false := by
        revert c; unfold cls1 cls2; cases isNoneTy t <;> cases isStr v <;> cases isSeqOrMap t <;> simp
      have c3 : cls3 v t = false := by
        revert c; unfold cls2 cls3; cases isNoneTy t <;> cases isStr v <;> cases isSeqOrMap t <;> simp
      simp only [List.filter_cons, c, c1, c3, if_true, Bool.false_eq_true, if_false]
      rw [List.append_assoc, List.cons_append]
      refine (List.perm_middle).trans (List.Perm.cons t ?_)
      rw [← List.append_assoc]; exact ih
    · have c1 : cls1 v t = false := by
        revert c; unfold cls1 cls3; cases isNoneTy t <;> cases isStr v <;> cases isSeqOrMap t <;> simp
      have c2 : cls2 v t = false := by
        revert c; unfold cls2 cls3; cases isNoneTy t <;> cases isStr v <;> cases isSeqOrMap t <;> simp
      simp only [List.filter_cons, c, c1, c2, if_true, Bool.false_eq_true, if_false]
      exact (List.perm_middle).trans (List.Perm.cons t ih)

/-! ### scalar-like types refuse every container -/

def cont (u : Val) : Bool := (seqItems u).isSome || (match u with | .dict _ => true | _ => false)

theorem cont_not_str {u : Val} (h : cont u = true) : isStr u = false := by
  cases u <;> simp [cont, seqItems] at h <;> rfl

theorem pyEq_lit_cont (l : Lit) (u : Val) (h : cont u = true) : pyEq l.toVal u = false := by
  cases l <;> cases u <;> simp [cont, seqItems] at h <;> simp [Lit.toVal, pyEq, numOf]

theorem scalarLike_rejects (O : Oracle) (s : Bool) (t : Ty) (ht : scalarLike t = true) (u : Val) (hu : cont u = true) :
    isOk (adapt O s .none t u) = false := by
  cases t <;> simp [scalarLike] at ht
  case literal ls =>
    have hm : litMem ls u = false := by
      simp only [litMem, List.any_eq_false]
      intro l _; simp [pyEq_lit_cont l u hu]
    simp [adapt, adaptLiteral, hm, cont_not_str hu]
  all_goals (cases u <;> simp [cont, seqItems] at hu <;> simp [adapt, adaptLeaf, loadIfStr])

/-! ### serialise, then adapt again -/

theorem adaptZip_of_F2 (O : Oracle) (s : Bool) : ∀ (ts : List Ty) (xs ys : List Val), xs.length = ts.length →
    F2 (fun (tx : Ty × Val) y => adapt O s .none tx.1 tx.2 = .ok y) (ts.zip xs) ys → adaptZip O s ts xs = .ok ys
  | [], [], ys, _, h => by cases h; rfl
  | [], _ :: _, _, hl, _ => by simp at hl
  | _ :: _, [], _, hl, _ => by simp at hl
  | t :: ts, x :: xs, ys, hl, h => by
    simp only [List.zip_cons_cons] at h
    cases h with
    | cons h1 h2 =>
      simp [adaptZip, h1, adaptZip_of_F2 O s ts xs _ (by simpa using hl) h2]

/-- position-wise version of `F2.diag` / `exists_of_forall` / `flip` for fixed-arity tuples -/
theorem zip_rt {P : Ty → Val → Val → Prop} {Q : Ty → Val → Val → Prop} : ∀ (ts : List Ty) (ys : List Val),
    ys.length = ts.length →
    F2 (fun (tx : Ty × Val) y => P tx.1 tx.2 y) (ts.zip ys) ys →
    (∀ t ∈ ts, ∀ y, P t y y → ∃ z, Q t y z) →
    ∃ zs, zs.length = ts.length ∧ F2 (fun (tx : Ty × Val) z => Q tx.1 tx.2 z) (ts.zip ys) zs ∧
      ∀ R : Ty → Val → Val → Prop, (∀ t ∈ ts, ∀ y z, Q t y z → R t z y) →
        F2 (fun (tz : Ty × Val) y => R tz.1 tz.2 y) (ts.zip zs) ys
  | [], [], _, _, _ => ⟨[], rfl, .nil, fun _ _ => .nil⟩
  | [], _ :: _, hl, _, _ => by simp at hl
  | _ :: _, [], hl, _, _ => by simp at hl
  | t :: ts, y :: ys, hl, h, hq => by
    simp only [List.zip_cons_cons] at h
    cases h with
    | cons h1 h2 =>
      obtain ⟨z, hz⟩ := hq t List.mem_cons_self y h1
      obtain ⟨zs, hzl, hzs, hr⟩ := zip_rt ts ys (by simpa using hl) h2 (fun t' ht' => hq t' (List.mem_cons_of_mem _ ht'))
      refine ⟨z :: zs, by simp [hzl], ?_, ?_⟩
      · show F2 (fun (tx : Ty × Val) z => Q tx.1 tx.2 z) ((t, y) :: ts.zip ys) (z :: zs)
        exact .cons hz hzs
      · intro R hR
        show F2 (fun (tz : Ty × Val) y => R tz.1 tz.2 y) ((t, z) :: ts.zip zs) (y :: ys)
        exact .cons (hR t List.mem_cons_self y z hz) (hr R (fun t' ht' => hR t' (List.mem_cons_of_mem _ ht')))

theorem adaptZip_fix (O : Oracle) (s : Bool) : ∀ (ts : List Ty) (zs : List Val), zs.length = ts.length →
    (∀ tz ∈ ts.zip zs, adapt O s .none tz.1 tz.2 = .ok tz.2) → adaptZip O s ts zs = .ok zs
  | [], [], _, _ => rfl
  | [], _ :: _, hl, _ => by simp at hl
  | _ :: _, [], hl, _ => by simp at hl
  | t :: ts, z :: zs, hl, h => by
    simp only [List.zip_cons_cons, List.mem_cons, forall_eq_or_imp] at h
    simp [adaptZip, h.1, adaptZip_fix O s ts zs (by simpa using hl) h.2]

/-- **serialise then adapt**: for a fixed point `w` of the adapter (every result is one, `idem`), the serialiser
    accepts `w` and the adapter turns what it wrote back into `w` -/
theorem ser_rt (O : Oracle) : ∀ (t : Ty) (inU : Bool) (w : Val), rt inU t = true →
    adapt O false .none t w = .ok w →
    ∃ z, adapt O true .none t w = .ok z ∧ adapt O false .none t z = .ok w ∧
      (serId t = true → z = w) ∧ (inU = true → z = w ∨ (cont z = true ∧ cont w = true)) ∧
      adapt O true .none t z = .ok z
  | .str, _, w, _, h => ⟨w, by simpa [adapt] using h, h, fun _ => rfl, fun _ => Or.inl rfl, by simpa [adapt] using h⟩
  | .int, _, w, _, h => ⟨w, by simpa [adapt] using h, h, fun _ => rfl, fun _ => Or.inl rfl, by simpa [adapt] using h⟩
  | .float, _, w, _, h => ⟨w, by simpa [adapt] using h, h, fun _ => rfl, fun _ => Or.inl rfl, by simpa [adapt] using h⟩
  | .bool, _, w, _, h => ⟨w, by simpa [adapt] using h, h, fun _ => rfl, fun _ => Or.inl rfl, by simpa [adapt] using h⟩
  | .none, _, w, _, h => ⟨w, by simpa [adapt] using h, h, fun _ => rfl, fun _ => Or.inl rfl, by simpa [adapt] using h⟩
  | .literal ls, _, w, _, h => ⟨w, by simpa [adapt] using h, h, fun _ => rfl, fun _ => Or.inl rfl, by simpa [adapt] using h⟩
  | .set _, _, _, hr, _ => by simp [rt] at hr
  | .any, _, _, hr, _ => by simp [rt] at hr
  | .reg _, _, _, hr, _ => by simp [rt] at hr
  | .rnum b k, inU, w, hr, h => by
    have hin : inU = false := by simpa [rt] using hr
    subst hin
    rw [adapt] at h
    obtain ⟨h1, _, _⟩ := adaptRnum_ok O b k w w h
    have hs : adapt O true .none (.rnum b k) w = .ok w := by rw [adapt]; simp [adaptRnum, h1]
    exact ⟨w, hs, by rw [adapt]; exact h, fun _ => rfl, by simp, hs⟩
  | .enum c ms, inU, w, hr, h => by
    have hin : inU = false := by simpa [rt] using hr
    subst hin
    simp only [adapt] at h
    unfold adaptEnum at h
    simp only [Bool.false_eq_true, if_false] at h
    cases w with
    | enum c' n =>
      simp only at h
      split at h
      · rename_i hcn
        obtain ⟨rfl, hn⟩ := hcn
        refine ⟨.str n, by simp [adapt, adaptEnum, hn], by simp [adapt, adaptEnum, hn], by simp [serId], by simp, by simp [adapt, adaptEnum]⟩
      · simp at h
    | str s => simp only at h; split at h <;> simp at h
    | tuple xs => simp only at h; split at h <;> simp at h
    | _ => simp at h
  | .list t1, inU, w, hr, h => by
    have hr1 : rt inU t1 = true := by simpa [rt] using hr
    have h0 := h
    rw [adapt] at h0
    cases hs : seqItems w with
    | none => simp [hs] at h0
    | some xs =>
      simp only [hs] at h0
      cases hz : allM (fun x => adapt O false .none t1 x) xs with
      | error e => simp [hz] at h0
      | ok ys =>
        simp [hz] at h0; subst h0
        simp only [seqItems, Option.some.injEq] at hs; subst hs
        have hfix := ((allM_ok_iff _ ys ys).mp hz).diag
        obtain ⟨zs, hzs⟩ := F2.exists_of_forall (P := fun y z => adapt O true .none t1 y = .ok z ∧
            adapt O false .none t1 z = .ok y ∧ (serId t1 = true → z = y) ∧ adapt O true .none t1 z = .ok z) ys (fun y hy => by
          obtain ⟨z, h1, h2, h3, _, h5⟩ := ser_rt O t1 inU y hr1 (hfix y hy)
          exact ⟨z, h1, h2, h3, h5⟩)
        have hzfix : allM (fun x => adapt O true .none t1 x) zs = .ok zs :=
          allM_fix _ zs (fun z hz => by
            obtain ⟨y, _, hy⟩ := hzs.flip.exists_right z hz
            exact hy.2.2.2)
        refine ⟨.list zs, ?_, ?_, ?_, fun _ => Or.inr (by simp [cont, seqItems]), by rw [adapt]; simp [seqItems, hzfix]⟩
        · rw [adapt]; simp [seqItems, (allM_ok_iff _ ys zs).mpr (hzs.imp (fun _ _ _ h => h.1))]
        · rw [adapt]; simp [seqItems, (allM_ok_iff _ zs ys).mpr ((hzs.imp (fun _ _ _ h => h.2.1)).flip)]
        · intro hsid
          have : zs = ys := F2.eq_of (hzs.imp (fun _ _ _ h => h.2.2.1 (by simpa [serId] using hsid)))
          rw [this]
  | .tupleVar t1, inU, w, hr, h => by
    have hr1 : rt inU t1 = true := by simpa [rt] using hr
    have h0 := h
    rw [adapt] at h0
    cases hs : seqItems w with
    | none => simp [hs] at h0
    | some xs =>
      simp only [hs] at h0
      cases hz : allM (fun x => adapt O false .none t1 x) xs with
      | error e => simp [hz] at h0
      | ok ys =>
        simp [hz] at h0; subst h0
        simp only [seqItems, Option.some.injEq] at hs; subst hs
        have hfix := ((allM_ok_iff _ ys ys).mp hz).diag
        obtain ⟨zs, hzs⟩ := F2.exists_of_forall (P := fun y z => adapt O true .none t1 y = .ok z ∧
            adapt O false .none t1 z = .ok y ∧ adapt O true .none t1 z = .ok z) ys (fun y hy => by
          obtain ⟨z, h1, h2, _, _, h5⟩ := ser_rt O t1 inU y hr1 (hfix y hy)
          exact ⟨z, h1, h2, h5⟩)
        have hzfix : allM (fun x => adapt O true .none t1 x) zs = .ok zs :=
          allM_fix _ zs (fun z hz => by
            obtain ⟨y, _, hy⟩ := hzs.flip.exists_right z hz
            exact hy.2.2)
        refine ⟨.list zs, ?_, ?_, by simp [serId], fun _ => Or.inr (by simp [cont, seqItems]), by rw [adapt]; simp [seqItems, hzfix]⟩
        · rw [adapt]; simp [seqItems, (allM_ok_iff _ ys zs).mpr (hzs.imp (fun _ _ _ h => h.1))]
        · rw [adapt]; simp [seqItems, (allM_ok_iff _ zs ys).mpr ((hzs.imp (fun _ _ _ h => h.2.1)).flip)]
  | .tuple ts, inU, w, hr, h => by
    have hrm := rtAll_mem (by simpa [rt] using hr : rtAll inU ts = true)
    have h0 := h
    rw [adapt] at h0
    cases hs : seqItems w with
    | none => simp [hs] at h0
    | some xs =>
      simp only [hs] at h0
      split at h0
      · simp at h0
      · cases hz : adaptZip O false ts xs with
        | error e => simp [hz] at h0
        | ok ys =>
          simp [hz] at h0; subst h0
          simp only [seqItems, Option.some.injEq] at hs; subst hs
          obtain ⟨hf, hl⟩ := adaptZip_F2 O false ts ys ys hz
          obtain ⟨zs, hzl, hzs, hback⟩ := zip_rt (P := fun t y y' => adapt O false .none t y = .ok y')
            (Q := fun t y z => adapt O true .none t y = .ok z ∧ adapt O false .none t z = .ok y ∧
              adapt O true .none t z = .ok z) ts ys hl hf
            (fun t ht y hy => by
              have hlt : sizeOf t < sizeOf ts := List.sizeOf_lt_of_mem ht
              obtain ⟨z, h1, h2, _, _, h5⟩ := ser_rt O t inU y (hrm t ht) hy
              exact ⟨z, h1, h2, h5⟩)
          have hzfix : adaptZip O true ts zs = .ok zs := by
            have hall := (hback (fun t z _ => adapt O true .none t z = .ok z) (fun _ _ _ _ h => h.2.2))
            have hp : ∀ tz ∈ ts.zip zs, adapt O true .none tz.1 tz.2 = .ok tz.2 := by
              intro tz htz
              obtain ⟨y, _, hy⟩ := hall.exists_right tz htz
              exact hy
            exact adaptZip_fix O true ts zs hzl hp
          refine ⟨.list zs, ?_, ?_, by simp [serId], fun _ => Or.inr (by simp [cont, seqItems]),
            by rw [adapt]; simp [seqItems, hzl, hzfix]⟩
          · rw [adapt]
            simp [seqItems, hl, adaptZip_of_F2 O true ts ys zs hl (hzs.imp (fun _ _ _ h => h.1))]
          · rw [adapt]
            have := adaptZip_of_F2 O false ts zs ys hzl
              (hback (fun t z y => adapt O false .none t z = .ok y) (fun _ _ _ _ h => h.2.1))
            simp [seqItems, hzl, this]
  | .dict k t1, inU, w, hr, h => by
    cases k with
    | int => simp [rt, KTy.isStr] at hr
    | str =>
      have hr1 : rt inU t1 = true := by simpa [rt, KTy.isStr] using hr
      obtain ⟨kvs, ys, rfl, hw, hf⟩ : ∃ kvs ys, w = .dict kvs ∧ w = .dict ys ∧
          F2 (fun (a b : DKey × Val) => a.1 = b.1 ∧ adapt O false .none t1 a.2 = .ok b.2) kvs ys := by
        cases w with
        | dict kvs =>
          have h' : (match allM (fun (kx : DKey × Val) =>
              match adapt O false .none t1 kx.2 with
              | .error e => (.error e : Except Err (DKey × Val))
              | .ok y => .ok (kx.1, y)) kvs with
            | .error e => (.error e : Except Err Val)
            | .ok ys => .ok (.dict ys)) = .ok (.dict kvs) := by simp only [adapt] at h; exact h
          cases hz : allM (fun (kx : DKey × Val) =>
              match adapt O false .none t1 kx.2 with
              | .error e => (.error e : Except Err (DKey × Val))
              | .ok y => .ok (kx.1, y)) kvs with
          | error e => simp [hz] at h'
          | ok ys =>
            simp [hz] at h'
            refine ⟨kvs, ys, rfl, by rw [h'], ((allM_ok_iff _ kvs ys).mp hz).imp ?_⟩
            intro a _ b hab
            cases ha : adapt O false .none t1 a.2 with
            | error e => simp [ha] at hab
            | ok y => simp [ha] at hab; subst hab; exact ⟨rfl, rfl⟩
        | _ => simp [adapt] at h
      simp only [Val.dict.injEq] at hw; subst hw
      have hfix : ∀ kv ∈ kvs, adapt O false .none t1 kv.2 = .ok kv.2 := fun kv hkv => (hf.diag kv hkv).2
      obtain ⟨zs, hzs⟩ := F2.exists_of_forall (P := fun (a b : DKey × Val) => b.1 = a.1 ∧
          adapt O true .none t1 a.2 = .ok b.2 ∧ adapt O false .none t1 b.2 = .ok a.2 ∧ (serId t1 = true → b.2 = a.2) ∧
          adapt O true .none t1 b.2 = .ok b.2) kvs
        (fun kv hkv => by
          obtain ⟨z, h1, h2, h3, _, h5⟩ := ser_rt O t1 inU kv.2 hr1 (hfix kv hkv)
          exact ⟨(kv.1, z), rfl, h1, h2, h3, h5⟩)
      have mkok : ∀ (s : Bool) (L M : List (DKey × Val)),
          F2 (fun (a b : DKey × Val) => b.1 = a.1 ∧ adapt O s .none t1 a.2 = .ok b.2) L M →
          adapt O s .none (.dict .str t1) (.dict L) = .ok (.dict M) := by
        intro s L M hLM
        have : allM (fun (kx : DKey × Val) =>
            match adapt O s .none t1 kx.2 with
            | .error e => (.error e : Except Err (DKey × Val))
            | .ok y => .ok (kx.1, y)) L = .ok M := by
          rw [allM_ok_iff]
          refine hLM.imp ?_
          intro a _ b ⟨hk, hv⟩
          simp only [hv, ← hk]
        simp only [adapt]
        show (match allM (fun (kx : DKey × Val) =>
            match adapt O s .none t1 kx.2 with
            | .error e => (.error e : Except Err (DKey × Val))
            | .ok y => .ok (kx.1, y)) L with
          | .error e => (.error e : Except Err Val)
          | .ok ys => .ok (.dict ys)) = .ok (.dict M)
        rw [this]
      refine ⟨.dict zs, mkok true kvs zs (hzs.imp (fun _ _ _ h => ⟨h.1, h.2.1⟩)),
        mkok false zs kvs ((hzs.imp (fun _ _ _ h => (⟨h.1.symm, h.2.2.1⟩ : _ ∧ _))).flip), ?_,
        fun _ => Or.inr (by simp [cont]), ?_⟩
      · intro hsid
        have hs1 : serId t1 = true := by simpa [serId, KTy.isStr] using hsid
        have : zs = kvs := F2.eq_of (hzs.imp (fun a _ b h => by
          have h1 := h.1; have h2 := h.2.2.2.1 hs1
          exact Prod.ext h1 h2))
        rw [this]
      · refine mkok true zs zs ?_
        have hd : ∀ b ∈ zs, adapt O true .none t1 b.2 = .ok b.2 := by
          intro b hb
          obtain ⟨a, _, ha⟩ := hzs.flip.exists_right b hb
          exact ha.2.2.2.2
        clear hzs mkok
        induction zs with
        | nil => exact .nil
        | cons b bs ih => exact .cons ⟨rfl, hd b List.mem_cons_self⟩ (ih (fun b' hb' => hd b' (List.mem_cons_of_mem _ hb')))
  | .union ts, inU, w, hr, h => by
    simp only [rt, Bool.and_eq_true] at hr
    have hrm := rtAll_mem hr.1
    have h1 := h
    rw [adapt_union_eq] at h1
    cases hf : (sortedMembers w id ts).findSome? (fun t => okOf (adapt O false .none t w)) with
    | none => simp [hf, rescued] at h1
    | some w' =>
      simp [hf] at h1; subst h1
      obtain ⟨A, m0, B, hS, hm0, hA⟩ := List.findSome?_eq_some_iff.mp hf
      have hm0' := okOf_eq_some.mp hm0
      have hmem : m0 ∈ ts := (mem_sortedMembers w' ts m0).mp (by rw [hS]; simp)
      have hlt : sizeOf m0 < sizeOf ts := List.sizeOf_lt_of_mem hmem
      obtain ⟨z0, hz1, hz2, hz3, hz4, hz5⟩ := ser_rt O m0 true w' (hrm m0 hmem) hm0'
      have hz4 := hz4 rfl
      have hAmem : ∀ a ∈ A, a ∈ ts := fun a ha => (mem_sortedMembers w' ts a).mp (by rw [hS]; simp [ha])
      have hArej : ∀ a ∈ A, isOk (adapt O false .none a w') = false := by
        intro a ha
        obtain ⟨e, he⟩ := okOf_eq_none.mp (hA a ha)
        simp [he]
      -- the serialiser stops at the same member
      have hser : adapt O true .none (.union ts) w' = .ok z0 := by
        rw [adapt_union_eq, hS, List.findSome?_append]
        have hAn : A.findSome? (fun t => okOf (adapt O true .none t w')) = .none := by
          rw [List.findSome?_eq_none_iff]; intro a ha
          have := hArej a ha
          rw [← ser_accepts O a w' (hrm a (hAmem a ha))] at this
          obtain ⟨e, he⟩ := (isOk_false_iff _).mp this
          simp [he]
        simp [hAn, List.findSome?_cons, hz1]
      -- members before it also refuse the serialised form
      have hArej' : ∀ a ∈ A, isOk (adapt O false .none a z0) = false := by
        intro a ha
        rcases hz4 with rfl | ⟨hc1, hc2⟩
        · exact hArej a ha
        · by_cases hsid : serId m0 = true
          · rw [hz3 hsid]; exact hArej a ha
          · have hnot : serIdAll ts = false := by
              cases hh : serIdAll ts with
              | false => rfl
              | true => exact absurd (serIdAll_mem hh m0 hmem) hsid
            have hcnt : (ts.filter (fun t => !scalarLike t)).length ≤ 1 := by
              have := hr.2
              simpa [unionCond, hnot] using this
            have hm0ns : scalarLike m0 = false := by
              cases hh : scalarLike m0 with
              | false => rfl
              | true => exact absurd (scalarLike_serId hh) hsid
            have hasc : scalarLike a = true := by
              cases hh : scalarLike a with
              | true => rfl
              | false =>
                exfalso
                have hp := ((sortedMembers_perm w' ts).filter (fun t => !scalarLike t)).length_eq
                rw [hS, List.filter_append, List.length_append] at hp
                have h1 : 1 ≤ (A.filter (fun t => !scalarLike t)).length :=
                  List.length_pos_of_mem (List.mem_filter.mpr ⟨ha, by simp [hh]⟩)
                have h2 : 1 ≤ ((m0 :: B).filter (fun t => !scalarLike t)).length :=
                  List.length_pos_of_mem (List.mem_filter.mpr ⟨List.mem_cons_self, by simp [hm0ns]⟩)
                omega
            exact scalarLike_rejects O false a hasc z0 hc1
      have hstr : isStr z0 = isStr w' := by
        rcases hz4 with rfl | ⟨hc1, hc2⟩
        · rfl
        · rw [cont_not_str hc1, cont_not_str hc2]
      have hback : adapt O false .none (.union ts) z0 = .ok w' := by
        rw [adapt_union_eq]
        have hSz : sortedMembers z0 id ts = sortedMembers w' id ts := by
          simp [sortedMembers, cls1, cls2, cls3, hstr]
        rw [hSz, hS, List.findSome?_append]
        have hAn : A.findSome? (fun t => okOf (adapt O false .none t z0)) = .none := by
          rw [List.findSome?_eq_none_iff]; intro a ha
          obtain ⟨e, he⟩ := (isOk_false_iff _).mp (hArej' a ha)
          simp [he]
        simp [hAn, List.findSome?_cons, hz2]
      have hser2 : adapt O true .none (.union ts) z0 = .ok z0 := by
        rw [adapt_union_eq]
        have hSz : sortedMembers z0 id ts = sortedMembers w' id ts := by
          simp [sortedMembers, cls1, cls2, cls3, hstr]
        rw [hSz, hS, List.findSome?_append]
        have hAn : A.findSome? (fun t => okOf (adapt O true .none t z0)) = .none := by
          rw [List.findSome?_eq_none_iff]; intro a ha
          have := hArej' a ha
          rw [← ser_accepts O a z0 (hrm a (hAmem a ha))] at this
          obtain ⟨e, he⟩ := (isOk_false_iff _).mp this
          simp [he]
        simp [hAn, List.findSome?_cons, hz5]
      refine ⟨z0, hser, hback, ?_, fun _ => hz4, hser2⟩
      intro hsid
      exact hz3 (serIdAll_mem (by simpa [serId] using hsid) m0 hmem)
termination_by t => sizeOf t
decreasing_by all_goals simp_wf <;> omega


/-- registered types: the round trip is the codec law of the type (`deserializer(serializer(x)) == x`, proved for
    the built-in codecs by C20); given the law for one value, the adapter model returns the value -/
theorem reg_roundtrip (O : Oracle) (k : Nat) (r : String) (p : Val)
    (hs : O.regSer k (.obj k r) = some p) (hp : ∀ k' r', p ≠ .obj k' r')
    (law : O.regDeser k p = some (.obj k r)) :
    adapt O true .none (.reg k) (.obj k r) = .ok p ∧ adapt O false .none (.reg k) p = .ok (.obj k r) := by
  constructor
  · simp [adapt, adaptReg, hs]
  · cases p <;> first | exact absurd rfl (hp _ _) | simp [adapt, adaptReg, law]

end Jap.Adapt

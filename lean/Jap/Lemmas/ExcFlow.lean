/-
Lemmas for E13 "ExcFlow": a closed flight table bounds what emerges from call
paths of ANY depth, so a finite check of the table (closedness + the root
regions) gives the routing theorem for all paths.
-/
import Jap.Core.ExcFlow

namespace Jap.ExcFlow

theorem Exc.ofNat_ctorIdx' (e : Exc) : Exc.ofNat e.ctorIdx = e := by cases e <;> rfl
theorem Tag.ofNat_ctorIdx' (t : Tag) : Tag.ofNat t.ctorIdx = t := by cases t <;> rfl
theorem Tag.ctorIdx_lt (t : Tag) : t.ctorIdx < 8 := by cases t <;> decide

/-- the numbering of signals loses nothing -/
theorem Sig.ofCode_code (s : Sig) : Sig.ofCode s.code = s := by
  cases s with
  | cont => rfl
  | exc c t =>
    have ht := Tag.ctorIdx_lt t
    have h0 : ¬ (1 + 2 * (c.ctorIdx * 8 + t.ctorIdx) = 0) := by omega
    have h1 : (1 + 2 * (c.ctorIdx * 8 + t.ctorIdx)) % 2 = 1 := by omega
    have h2 : (1 + 2 * (c.ctorIdx * 8 + t.ctorIdx) - 1) / 2 / 8 = c.ctorIdx := by omega
    have h3 : (1 + 2 * (c.ctorIdx * 8 + t.ctorIdx) - 1) / 2 % 8 = t.ctorIdx := by omega
    simp only [Sig.code, Sig.ofCode, h0, h1, h2, h3, if_false, if_true, Exc.ofNat_ctorIdx', Tag.ofNat_ctorIdx']
  | exit n t =>
    have ht := Tag.ctorIdx_lt t
    have h0 : ¬ (2 + 2 * (n * 8 + t.ctorIdx) = 0) := by omega
    have h1 : ¬ ((2 + 2 * (n * 8 + t.ctorIdx)) % 2 = 1) := by omega
    have h2 : (2 + 2 * (n * 8 + t.ctorIdx) - 2) / 2 / 8 = n := by omega
    have h3 : (2 + 2 * (n * 8 + t.ctorIdx) - 2) / 2 % 8 = t.ctorIdx := by omega
    simp only [Sig.code, Sig.ofCode, h0, h1, h2, h3, if_false, Tag.ofNat_ctorIdx']

/-- `s` is in flight inside state `st` according to table `F` -/
def Flight.has (F : Flight) (st : St) (s : Sig) : Prop := s.code ∈ F.get st

/-- `F` is closed: what a region is designed to raise is in flight inside it, and
whatever emerges from a callee is in flight inside the caller -/
def Closed (T : Tables) (mode : Mode) (top : Bool) (F : Flight) : Bool :=
  St.all.all (fun st =>
    (born T mode top st.2 st.1).all (fun s => (F.get st).contains s.code) &&
    (children st.1).all (fun c =>
      (F.get (c, effOf T st.2 c)).all (fun k =>
        (F.get st).contains (stepChild T mode top st.2 c (Sig.ofCode k)).code)))

/-- acceptable at the method boundary: conforming, or carrying the tag of a catalogued hole -/
def okSig (T : Tables) (top : Bool) (s : Sig) : Bool :=
  conforming top (outcome T top s) || s.tag != .clean

/-- everything in flight inside a root region leaves it acceptably -/
def RootsOk (T : Tables) (mode : Mode) (top : Bool) (F : Flight) : Bool :=
  Method.all.all (fun m => (roots m).all (fun r =>
    (F.get (r, top)).all (fun k => okSig T top (stepRegion T mode top top r (Sig.ofCode k)))))

theorem St.mem_all (st : St) : st ∈ St.all := by
  obtain ⟨r, b⟩ := st
  simp only [St.all, List.mem_flatMap]
  exact ⟨r, Region.mem_all r, by cases b <;> simp⟩

theorem closed_born {T : Tables} {mode : Mode} {top : Bool} {F : Flight} (h : Closed T mode top F = true)
    (r : Region) (eff : Bool) (s : Sig) (hs : s ∈ born T mode top eff r) : F.has (r, eff) s := by
  have h1 := List.all_eq_true.mp h (r, eff) (St.mem_all _)
  simp only [Bool.and_eq_true] at h1
  have h2 := List.all_eq_true.mp h1.1 s hs
  exact List.contains_iff_mem.mp h2

theorem closed_step {T : Tables} {mode : Mode} {top : Bool} {F : Flight} (h : Closed T mode top F = true)
    (r c : Region) (eff : Bool) (hc : c ∈ children r) (s : Sig) (hs : F.has (c, effOf T eff c) s) :
    F.has (r, eff) (stepChild T mode top eff c s) := by
  have h1 := List.all_eq_true.mp h (r, eff) (St.mem_all _)
  simp only [Bool.and_eq_true] at h1
  have h2 := List.all_eq_true.mp h1.2 c hc
  have h3 := List.all_eq_true.mp h2 s.code hs
  rw [Sig.ofCode_code] at h3
  exact List.contains_iff_mem.mp h3

/-- whatever is raised at the end of a call path of any length emerges inside the flight set -/
theorem emerge_mem {T : Tables} {mode : Mode} {top : Bool} {F : Flight} (h : Closed T mode top F = true) :
    ∀ (path : List Region) (r : Region) (eff : Bool) (s : Sig),
      chain r path = true → s ∈ born T mode top (effLeaf T eff path) (leaf r path) →
      F.has (r, eff) (emerge T mode top eff path s) := by
  intro path
  induction path with
  | nil =>
    intro r eff s _ hs
    simpa [emerge, effLeaf, leaf] using closed_born h r eff s (by simpa [effLeaf, leaf] using hs)
  | cons c rest ih =>
    intro r eff s hch hs
    simp only [chain, Bool.and_eq_true] at hch
    have hc : c ∈ children r := List.contains_iff_mem.mp hch.1
    have ih' := ih c (effOf T eff c) s hch.2 (by simpa [effLeaf, leaf] using hs)
    simpa [emerge] using closed_step h r c eff hc _ ih'

/-- finite check ⇒ all paths -/
theorem route_ok_of_closed {T : Tables} {mode : Mode} {top : Bool} {F : Flight}
    (hc : Closed T mode top F = true) (hr : RootsOk T mode top F = true)
    (m : Method) (root : Region) (hroot : root ∈ roots m) (path : List Region) (hch : chain root path = true)
    (s : Sig) (hs : s ∈ born T mode top (effLeaf T top path) (leaf root path)) :
    okSig T top (routeSig T mode top root path s) = true := by
  have hm := emerge_mem hc path root top s hch hs
  have h1 := List.all_eq_true.mp hr m (Method.mem_all m)
  have h2 := List.all_eq_true.mp h1 root hroot
  have h3 := List.all_eq_true.mp h2 _ hm
  rw [Sig.ofCode_code] at h3
  exact h3

/-- acceptable at the method boundary when only the tags in `tags` may excuse a non-conforming signal -/
def okSigTags (T : Tables) (top : Bool) (tags : List Tag) (s : Sig) : Bool :=
  conforming top (outcome T top s) || tags.contains s.tag

def RootsOkTags (T : Tables) (mode : Mode) (top : Bool) (F : Flight) (tags : List Tag) : Bool :=
  Method.all.all (fun m => (roots m).all (fun r =>
    (F.get (r, top)).all (fun k => okSigTags T top tags (stepRegion T mode top top r (Sig.ofCode k)))))

/-- finite check ⇒ all paths, with an explicit list of the tags that may excuse -/
theorem route_ok_tags_of_closed {T : Tables} {mode : Mode} {top : Bool} {F : Flight} {tags : List Tag}
    (hc : Closed T mode top F = true) (hr : RootsOkTags T mode top F tags = true)
    (m : Method) (root : Region) (hroot : root ∈ roots m) (path : List Region) (hch : chain root path = true)
    (s : Sig) (hs : s ∈ born T mode top (effLeaf T top path) (leaf root path)) :
    okSigTags T top tags (routeSig T mode top root path s) = true := by
  have hm := emerge_mem hc path root top s hch hs
  have h1 := List.all_eq_true.mp hr m (Method.mem_all m)
  have h2 := List.all_eq_true.mp h1 root hroot
  have h3 := List.all_eq_true.mp h2 _ hm
  rw [Sig.ofCode_code] at h3
  exact h3

/-- the pipeline: if every event is a designed failure on a call path (not through a tagged origin), the run ends acceptably -/
theorem runEvents_ok {T : Tables} {mode : Mode} {top : Bool} {F : Flight}
    (hc : Closed T mode top F = true) (hr : RootsOk T mode top F = true)
    (m : Method) (root : Region) (hroot : root ∈ roots m) :
    ∀ (es : List Event),
      (∀ e ∈ es, chain root e.path = true ∧
        ∀ s, e.sig = some s → s ∈ born T mode top (effLeaf T top e.path) (leaf root e.path) ∧
          (routeSig T mode top root e.path s).tag = .clean) →
      conforming top (runEvents T mode top root es) = true := by
  intro es
  induction es with
  | nil => intro _; simp [runEvents, conforming]
  | cons e es ih =>
    intro h
    have he := h e (by simp)
    have hrest := ih (fun e' he' => h e' (by simp [he']))
    unfold runEvents
    cases hsig : e.sig with
    | none => simpa using hrest
    | some s =>
      simp only
      have hb := he.2 s hsig
      have hok := route_ok_of_closed hc hr m root hroot e.path he.1 s hb.1
      simp only [okSig, hb.2, bne_self_eq_false, Bool.or_false] at hok
      have hrp : routePath T mode top root e.path s = outcome T top (routeSig T mode top root e.path s) := rfl
      cases ho : routePath T mode top root e.path s with
      | ok => simpa using hrest
      | argErr => simp only; rw [← ho, hrp]; exact hok
      | exit n => simp only; rw [← ho, hrp]; exact hok
      | escapes c => simp only; rw [← ho, hrp]; exact hok

end Jap.ExcFlow

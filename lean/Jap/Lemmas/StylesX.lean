import Jap.Core.StylesX
import Jap.Lemmas.StylesParse
/-!
The four declaration styles over the wider member grammar (`FieldX`): each table is the reference description
(`actsL`, `groupsXL`, `clsPathsL`), by structural induction over the field list; the spec trees differ in the whole-group flags only.
-/
namespace Jap.Validate

def allCls : Bool → Bool → Bool := fun _ _ => true
def reqVia : Bool → Bool → Bool := fun r v => r && v

mutual
theorem dottedXF_eq : ∀ (pre : List String) (f : FieldX),
    dottedXF pre f = ⟨actsF pre f, [], clsPathsF allCls pre f, clsPathsF reqVia pre f⟩
  | pre, .leaf n ty d => by simp [dottedXF, actsF, clsPathsF]
  | pre, .optDc n fs => by simp [dottedXF, actsF, clsPathsF]
  | pre, .listDc n r fs => by simp [dottedXF, actsF, clsPathsF]
  | pre, .clsM n r via => by simp [dottedXF, actsF, clsPathsF, allCls, reqVia]
  | pre, .sub n fs => by rw [dottedXF, dottedXL_eq (pre ++ [n]) fs]; simp [actsF, clsPathsF]
theorem dottedXL_eq : ∀ (pre : List String) (fs : List FieldX),
    dottedXL pre fs = ⟨actsL pre fs, [], clsPathsL allCls pre fs, clsPathsL reqVia pre fs⟩
  | pre, [] => by simp [dottedXL, TableX.empty, actsL, clsPathsL]
  | pre, f :: r => by
    rw [dottedXL, dottedXF_eq pre f, dottedXL_eq pre r]
    simp [TableX.append, actsL, clsPathsL]
end

mutual
theorem sigXF_eq : ∀ (pre : List String) (f : FieldX),
    sigXF pre f = ⟨actsF pre f, groupsXF pre f, clsPathsF allCls pre f, []⟩
  | pre, .leaf n ty d => by simp [sigXF, actsF, clsPathsF, groupsXF]
  | pre, .optDc n fs => by simp [sigXF, actsF, clsPathsF, groupsXF]
  | pre, .listDc n r fs => by simp [sigXF, actsF, clsPathsF, groupsXF]
  | pre, .clsM n r via => by simp [sigXF, actsF, clsPathsF, groupsXF, allCls]
  | pre, .sub n fs => by rw [sigXF, sigXL_eq (pre ++ [n]) fs]; simp [TableX.append, actsF, clsPathsF, groupsXF]
theorem sigXL_eq : ∀ (pre : List String) (fs : List FieldX),
    sigXL pre fs = ⟨actsL pre fs, groupsXL pre fs, clsPathsL allCls pre fs, []⟩
  | pre, [] => by simp [sigXL, TableX.empty, actsL, clsPathsL, groupsXL]
  | pre, f :: r => by
    rw [sigXL, sigXF_eq pre f, sigXL_eq pre r]
    simp [TableX.append, actsL, clsPathsL, groupsXL]
end

/-- the prefix `_move_parser_actions` puts in front of a destination -/
def pfxA (pre : List String) (e : ActX) : ActX := { e with path := pre ++ e.path }

theorem pfxA_cons (pre : List String) (n : String) :
    (pfxA pre ∘ fun e : ActX => { e with path := n :: e.path }) = pfxA (pre ++ [n]) := by
  funext e; simp [pfxA, Function.comp]

theorem pfxP_cons (pre : List String) (n : String) :
    ((fun p : List String => pre ++ p) ∘ fun p => n :: p) = fun p => (pre ++ [n]) ++ p := by
  funext p; simp [Function.comp]

mutual
theorem innerXF_eq : ∀ (pre : List String) (f : FieldX),
    (innerXF f).entries.map (pfxA pre) = actsF pre f
    ∧ (innerXF f).wholes.map (pre ++ ·) = groupsXF pre f
    ∧ (innerXF f).lenientNull.map (pre ++ ·) = clsPathsF reqVia pre f
  | pre, .leaf n ty d => by simp [innerXF, actsF, clsPathsF, groupsXF, atomX, pfxA]
  | pre, .optDc n fs => by simp [innerXF, actsF, clsPathsF, groupsXF, atomX, pfxA]
  | pre, .listDc n r fs => by simp [innerXF, actsF, clsPathsF, groupsXF, atomX, pfxA]
  | pre, .clsM n r via => by
    cases h : (r && via) <;> simp [innerXF, actsF, clsPathsF, groupsXF, atomX, pfxA, reqVia, h]
  | pre, .sub n fs => by
    obtain ⟨h1, h2, h3⟩ := innerXL_eq (pre ++ [n]) fs
    refine ⟨?_, ?_, ?_⟩
    · rw [innerXF, actsF, ← h1]; simp only [TableX.moved, List.map_map, pfxA_cons]
    · rw [innerXF, groupsXF, ← h2]; simp only [TableX.moved, List.map_cons, List.map_map, pfxP_cons]
    · rw [innerXF, clsPathsF, ← h3]; simp only [TableX.moved, List.map_map, pfxP_cons]
theorem innerXL_eq : ∀ (pre : List String) (fs : List FieldX),
    (innerXL fs).entries.map (pfxA pre) = actsL pre fs
    ∧ (innerXL fs).wholes.map (pre ++ ·) = groupsXL pre fs
    ∧ (innerXL fs).lenientNull.map (pre ++ ·) = clsPathsL reqVia pre fs
  | pre, [] => by simp [innerXL, TableX.empty, actsL, clsPathsL, groupsXL]
  | pre, f :: r => by
    obtain ⟨a1, a2, a3⟩ := innerXF_eq pre f
    obtain ⟨b1, b2, b3⟩ := innerXL_eq pre r
    simp [innerXL, TableX.append, actsL, groupsXL, clsPathsL, a1, a2, a3, b1, b2, b3]
end

/-- the inner-parser declaration: `(innerXL fs).moved key` -/
theorem declInnerX_eq (key : String) (fs : List FieldX) :
    declX .inner key fs = ⟨actsL [key] fs, [key] :: groupsXL [key] fs, [], clsPathsL reqVia [key] fs⟩ := by
  obtain ⟨h1, h2, h3⟩ := innerXL_eq [key] fs
  simp only [declX, TableX.moved]
  have e1 : (fun e : ActX => { e with path := key :: e.path }) = pfxA [key] := by funext e; simp [pfxA]
  have e2 : (fun p : List String => key :: p) = fun p => [key] ++ p := by funext p; simp
  rw [e1, e2, h1, h2, h3]

theorem declSigX_eq (key : String) (fs : List FieldX) :
    sigXF [] (.sub key fs) = ⟨actsL [key] fs, [key] :: groupsXL [key] fs, clsPathsL allCls [key] fs, []⟩ := by
  rw [sigXF_eq]; simp [actsF, groupsXF, clsPathsF]

theorem declDottedX_eq (key : String) (fs : List FieldX) :
    declX .dotted key fs = ⟨actsL [key] fs, [], clsPathsL allCls [key] fs, clsPathsL reqVia [key] fs⟩ := by
  simp only [declX]; exact dottedXL_eq [key] fs

/-! ## spec trees: the styles differ in the whole-group flags of the `sub` groups only -/
mutual
theorem specXF_erase : ∀ (w : Bool) (f : FieldX), ((specXF w f).1, eraseN (specXF w f).2) = specXF false f
  | w, .leaf n ty d => by simp [specXF, eraseN]
  | w, .optDc n fs => by simp [specXF, eraseN]
  | w, .listDc n r fs => by simp [specXF, eraseN]
  | w, .clsM n r via => by simp [specXF, eraseN]
  | w, .sub n fs => by simp only [specXF, eraseN, specXL_erase w fs]
theorem specXL_erase : ∀ (w : Bool) (fs : List FieldX), eraseL (specXL w fs) = specXL false fs
  | _, [] => by simp [specXL, eraseL]
  | w, f :: r => by
    simp only [specXL]
    have := specXF_erase w f
    rw [← this, eraseL, specXL_erase w r]
end

theorem specX_erase (w : Bool) (key : String) (fields : List FieldX) : eraseL (specX w key fields) = specX false key fields := by
  simp [specX, eraseL, eraseN, specXL_erase]

end Jap.Validate

import Jap.Core.Save
import Jap.Lemmas.Save
/-!
Exact characterisation of what a FAILING `save` leaves behind (helpers of Props/C18): the sub-file steps of
`save_paths` that completed before the failing step, and nothing else.
-/
namespace Jap.Save

/-- number of sub-file steps of `save_paths` that complete before the first failing one -/
def okPrefix (env : Env) (ow : Bool) : FS → List Sub → Nat
  | _, [] => 0
  | fs, s :: rest =>
    match (subStep env ow fs s).1 with
    | .error _ => 0
    | .ok _ => okPrefix env ow (subStep env ow fs s).2 rest + 1

/-- number of sub-files a run of `save` has completely written when it stops: 0 when it stops in the header
    (format, `Path(fc)`, `check_overwrite` of the target), in single-file mode, or at validation -/
def writtenCount (env : Env) (fs : FS) (i : Input) : Nat :=
  if !i.formatOk || !pathFc env i.path || refuses i.overwrite fs i.path || !i.multifile || !i.validateOk then 0
  else okPrefix env i.overwrite fs i.subs

theorem okPrefix_le (env : Env) (ow : Bool) (subs : List Sub) (fs : FS) : okPrefix env ow fs subs ≤ subs.length := by
  induction subs generalizing fs with
  | nil => simp [okPrefix]
  | cons s rest ih =>
    unfold okPrefix
    split
    · simp
    · have := ih (subStep env ow fs s).2
      simp only [List.length_cons]
      omega

theorem writeFile_error_clean (fs : FS) (p s : String) (w : Wr) (e : Err)
    (h : (writeFile fs p s w).1 = .error e) (hio : e ≠ .io) : (writeFile fs p s w).2 = fs ∧ w.openOk = false := by
  unfold writeFile at *
  cases ho : w.openOk with
  | false => simp
  | true =>
    simp only [ho, Bool.not_true, Bool.false_eq_true, ↓reduceIte] at h ⊢
    cases hw : w.writeOk with
    | false =>
      simp only [hw, Bool.not_false, ↓reduceIte] at h
      exact absurd (by simpa using h.symm) hio
    | true => simp [hw] at h

/-- a sub-file step that fails for any reason other than the OS failing in the middle of its write has changed
    nothing, and it is a step that `subFailsClean` recognises -/
theorem subStep_error_clean (env : Env) (ow : Bool) (fs : FS) (s : Sub) (e : Err)
    (h : (subStep env ow fs s).1 = .error e) (hio : e ≠ .io) :
    (subStep env ow fs s).2 = fs ∧ subFailsClean env ow fs s = true := by
  unfold subStep at h ⊢
  unfold subFailsClean Sub.written
  by_cases h1 : pathFc env s.path = true
  · by_cases h2 : refuses ow fs s.path = true
    · simp [h1, h2]
    · cases hk : s.kind with
      | cfg =>
        cases ht : s.text with
        | fail e' => simp [h1, h2]
        | text t =>
          simp only [h1, h2, hk, ht, Bool.not_true, Bool.false_eq_true, ↓reduceIte] at h ⊢
          have := writeFile_error_clean _ _ _ _ _ h hio
          simp [this.1, this.2]
      | content =>
        cases ht : readSrc fs s with
        | fail e' => simp [h1, h2]
        | text t =>
          simp only [h1, h2, hk, ht, Bool.not_true, Bool.false_eq_true, ↓reduceIte] at h ⊢
          have := writeFile_error_clean _ _ _ _ _ h hio
          simp [this.1, this.2]
  · simp [h1]

theorem saveSubs_cons_ok (env : Env) (ow : Bool) (fs : FS) (s : Sub) (rest : List Sub) (u : Unit)
    (hs : (subStep env ow fs s).1 = .ok u) :
    saveSubs env ow fs (s :: rest) = saveSubs env ow (subStep env ow fs s).2 rest := by
  conv => lhs; unfold saveSubs
  simp only [hs]

/-- the completed prefix really completes -/
theorem saveSubs_take_okPrefix (env : Env) (ow : Bool) (subs : List Sub) (fs : FS) :
    (saveSubs env ow fs (subs.take (okPrefix env ow fs subs))).1 = .ok () := by
  induction subs generalizing fs with
  | nil => simp [okPrefix, saveSubs]
  | cons s rest ih =>
    unfold okPrefix
    cases hs : (subStep env ow fs s).1 with
    | error e => simp [saveSubs]
    | ok u =>
      simp only [List.take_succ_cons]
      unfold saveSubs
      simp only [hs]
      exact ih _

theorem saveSubs_ok_okPrefix (env : Env) (ow : Bool) (subs : List Sub) (fs : FS)
    (h : (saveSubs env ow fs subs).1 = .ok ()) : okPrefix env ow fs subs = subs.length := by
  induction subs generalizing fs with
  | nil => simp [okPrefix]
  | cons s rest ih =>
    unfold saveSubs at h
    unfold okPrefix
    cases hs : (subStep env ow fs s).1 with
    | error e => simp [hs] at h
    | ok u =>
      simp only [hs] at h
      simp [ih _ h]

/-- the loop of `save_paths` failing (other than by the OS in the middle of a write): the files are exactly those
    after the completed prefix, and the prefix is a proper one -/
theorem saveSubs_error_prefix (env : Env) (ow : Bool) (subs : List Sub) (fs : FS) (e : Err)
    (h : (saveSubs env ow fs subs).1 = .error e) (hio : e ≠ .io) :
    (saveSubs env ow fs subs).2 = (saveSubs env ow fs (subs.take (okPrefix env ow fs subs))).2 ∧
    okPrefix env ow fs subs < subs.length := by
  induction subs generalizing fs with
  | nil => simp [saveSubs] at h
  | cons s rest ih =>
    unfold saveSubs at h ⊢
    unfold okPrefix
    cases hs : (subStep env ow fs s).1 with
    | error e' =>
      simp only [hs] at h ⊢
      have he : e' = e := by simpa using h
      subst he
      have := subStep_error_clean env ow fs s e' hs hio
      simp [this.1]
    | ok u =>
      simp only [hs] at h ⊢
      have := ih _ h
      simp only [List.take_succ_cons, List.length_cons]
      refine ⟨?_, by omega⟩
      rw [this.1]
      simp only [hs]

/-- the sub-file step that fails first, when the loop fails -/
theorem okPrefix_zero_iff_first_fails (env : Env) (ow : Bool) (fs : FS) (s : Sub) (rest : List Sub) :
    okPrefix env ow fs (s :: rest) = 0 ↔ ∃ e, (subStep env ow fs s).1 = .error e := by
  unfold okPrefix
  cases hs : (subStep env ow fs s).1 with
  | error e => simp
  | ok u => simp

/-- what a failing `save` (any mode; other than the OS failing in the middle of a write) leaves behind:
    exactly the result of the completed sub-file steps -/
theorem save_failure_exact (env : Env) (fs : FS) (i : Input) (e : Err)
    (h : (save env fs i).1 = .error e) (hio : e ≠ .io) :
    (saveSubs env i.overwrite fs (i.subs.take (writtenCount env fs i))).1 = .ok () ∧
    (save env fs i).2 = (saveSubs env i.overwrite fs (i.subs.take (writtenCount env fs i))).2 := by
  unfold save at h ⊢
  unfold writtenCount
  by_cases h1 : i.formatOk = true
  · by_cases h2 : pathFc env i.path = true
    · by_cases h3 : refuses i.overwrite fs i.path = true
      · simp [h1, h2, h3, saveSubs]
      · by_cases hm : i.multifile = true
        · by_cases hv : i.validateOk = true
          · simp only [h1, h2, h3, hm, hv, Bool.not_true, Bool.false_eq_true, ↓reduceIte, Bool.or_self] at h ⊢
            refine ⟨saveSubs_take_okPrefix env i.overwrite i.subs fs, ?_⟩
            cases hs : (saveSubs env i.overwrite fs i.subs).1 with
            | error e' =>
              simp only [hs] at h ⊢
              have he : e' = e := by simpa using h
              subst he
              exact (saveSubs_error_prefix env i.overwrite i.subs fs e' hs hio).1
            | ok u =>
              cases u
              simp only [hs] at h ⊢
              rw [saveSubs_ok_okPrefix env i.overwrite i.subs fs hs, List.take_length]
              cases hd : i.dump with
              | fail e' => rfl
              | text t =>
                simp only [hd] at h ⊢
                exact (writeFile_error_clean _ _ _ _ _ h hio).1
          · simp [h1, h2, h3, hm, hv, saveSubs]
        · simp only [h1, h2, h3, hm, Bool.not_true, Bool.false_eq_true, ↓reduceIte, Bool.not_false, Bool.or_true,
            Bool.true_or, Bool.or_false, List.take_zero, saveSubs, true_and] at h ⊢
          cases hd : i.dump with
          | fail e' => rfl
          | text t =>
            simp only [hd] at h ⊢
            exact (writeFile_error_clean _ _ _ _ _ h hio).1
    · simp [h1, h2, saveSubs]
  · simp [h1, saveSubs]

/-- under the same hypotheses: nothing was written iff the failing step is no later than the first `open` -/
theorem writtenCount_zero_iff (env : Env) (fs : FS) (i : Input) (e : Err)
    (h : (save env fs i).1 = .error e) (hio : e ≠ .io) :
    writtenCount env fs i = 0 ↔ failsByFirstOpen env fs i = true := by
  unfold save at h
  unfold writtenCount failsByFirstOpen
  by_cases h1 : i.formatOk = true
  · by_cases h2 : pathFc env i.path = true
    · by_cases h3 : refuses i.overwrite fs i.path = true
      · simp [h1, h2, h3]
      · by_cases hm : i.multifile = true
        · by_cases hv : i.validateOk = true
          · simp only [h1, h2, h3, hm, hv, Bool.not_true, Bool.false_eq_true, ↓reduceIte, Bool.or_self,
              Bool.false_or] at h ⊢
            cases hsubs : i.subs with
            | nil =>
              simp only [hsubs, saveSubs, okPrefix, true_iff] at h ⊢
              cases hd : i.dump with
              | fail e' => rfl
              | text t =>
                simp only [hd] at h ⊢
                simp [(writeFile_error_clean _ _ _ _ _ h hio).2]
            | cons s rest =>
              simp only [hsubs] at h ⊢
              rw [okPrefix_zero_iff_first_fails]
              constructor
              · rintro ⟨e', he'⟩
                have hse : (saveSubs env i.overwrite fs (s :: rest)).1 = .error e' := by
                  unfold saveSubs; simp [he']
                simp only [hse] at h
                have he : e' = e := by simpa using h
                subst he
                exact (subStep_error_clean env i.overwrite fs s e' he' hio).2
              · intro hc
                exact (subStep_clean env i.overwrite fs s hc).1
          · simp [h1, h2, h3, hm, hv]
        · simp only [h1, h2, h3, hm, Bool.not_true, Bool.false_eq_true, ↓reduceIte, Bool.not_false, Bool.or_true,
            Bool.true_or, Bool.or_false, Bool.false_or, true_iff] at h ⊢
          cases hd : i.dump with
          | fail e' => rfl
          | text t =>
            simp only [hd] at h ⊢
            simp [(writeFile_error_clean _ _ _ _ _ h hio).2]
    · simp [h1, h2]
  · simp [h1]

end Jap.Save

import Jap.Core.Channels
/-!
Channels, text layer: the reader `loadL` reads the canonical text `valChars v` of every value of the
grammar back to `v`; `load_basic` agrees on the canonical scalar texts.
-/
namespace Jap.Channels


/-! ### A. text round trip -/

theorem readNat_toDigits (n : Nat) : readNat (Nat.toDigits 10 n) = some n := by
  simp [readNat, Nat.ofDigitChars_ten_toDigits]

theorem isDigit_of_mem_digits {n : Nat} {c : Char} (h : c ∈ Nat.toDigits 10 n) : c.isDigit = true :=
  Nat.isDigit_of_mem_toDigits (by decide) (by decide) h

theorem digits_cons (n : Nat) : ∃ c r, Nat.toDigits 10 n = c :: r ∧ c.isDigit = true := by
  cases h : Nat.toDigits 10 n with
  | nil => exact absurd h Nat.toDigits_ne_nil
  | cons c r => exact ⟨c, r, rfl, isDigit_of_mem_digits (by rw [h]; simp)⟩

theorem isDigit_ne {c d : Char} (h : c.isDigit = true) (hd : d.isDigit = false) : c ≠ d := by
  intro e; subst e; simp [h] at hd

theorem readInt_intChars (i : Int) : readInt (intChars i) = some i := by
  unfold intChars
  by_cases hi : i < 0
  · simp only [hi, if_true, readInt, readNat_toDigits]
    have : i.natAbs ≠ 0 := by omega
    simp only [this, if_false]
    congr 1; omega
  · simp only [hi, if_false]
    obtain ⟨c, r, hcr, hc⟩ := digits_cons i.natAbs
    have hne : c ≠ '-' := isDigit_ne hc (by decide)
    rw [hcr]
    simp only [readInt, hne, if_false]
    rw [← hcr, readNat_toDigits]
    simp only [Option.map_some, Int.ofNat_eq_natCast, Option.some.injEq]
    omega

theorem bare_of_isDigit {c : Char} (h : c.isDigit = true) : bareChar c = true := by
  simp only [bareChar, Bool.and_eq_true, bne_iff_ne, ne_eq]
  refine ⟨⟨⟨⟨?_, ?_⟩, ?_⟩, ?_⟩, ?_⟩ <;> exact isDigit_ne h (by decide)

theorem intChars_bare (i : Int) : ∀ c ∈ intChars i, bareChar c = true := by
  intro c hc
  unfold intChars at hc
  split at hc
  · rcases List.mem_cons.mp hc with h | h
    · subst h; decide
    · exact bare_of_isDigit (isDigit_of_mem_digits h)
  · exact bare_of_isDigit (isDigit_of_mem_digits hc)

theorem intChars_cons (i : Int) : ∃ c r, intChars i = c :: r ∧ bareChar c = true := by
  cases h : intChars i with
  | nil =>
    unfold intChars at h
    split at h
    · simp at h
    · exact absurd h Nat.toDigits_ne_nil
  | cons c r => exact ⟨c, r, rfl, intChars_bare i c (by rw [h]; simp)⟩

/-! ### JSON number tokens -/


theorem takeWhile_stopD (w rest : List Char) (hw : ∀ c ∈ w, c.isDigit = true)
    (hr : rest = [] ∨ ∃ c r, rest = c :: r ∧ c.isDigit = false) :
    (w ++ rest).takeWhile Char.isDigit = w ∧ (w ++ rest).dropWhile Char.isDigit = rest := by
  rw [List.takeWhile_append_of_pos hw, List.dropWhile_append_of_pos hw]
  rcases hr with h | ⟨c, r, h, hc⟩
  · subst h; simp
  · subst h; simp [hc]

theorem isDigits_spec {l : List Char} (h : isDigits l = true) : l ≠ [] ∧ ∀ c ∈ l, c.isDigit = true := by
  simp only [isDigits, Bool.and_eq_true, Bool.not_eq_true', List.isEmpty_eq_false_iff, List.all_eq_true] at h
  exact h

theorem canonInt_digits {l : List Char} (h : canonInt l = true) : isDigits l = true := by
  simp only [canonInt, Bool.and_eq_true] at h
  exact h.1

theorem readExp_expChars (e : ExpTok) (h : isDigits e.digits = true) : readExp (expChars e) = some e := by
  obtain ⟨up, sg, ds⟩ := e
  simp only at h
  obtain ⟨hne, hd⟩ := isDigits_spec h
  cases ds with
  | nil => exact absurd rfl hne
  | cons d r' =>
    have hdd : d.isDigit = true := hd d (by simp)
    have h1 : d ≠ '+' := fun e => by subst e; exact absurd hdd (by decide)
    have h2 : d ≠ '-' := fun e => by subst e; exact absurd hdd (by decide)
    cases up <;> cases sg with
    | none => simp [expChars, signChars, readExp, h1, h2, h]
    | some b => cases b <;> simp [expChars, signChars, readExp, h]

theorem expChars_head (e : ExpTok) : ∃ c r, expChars e = c :: r ∧ c.isDigit = false ∧ c ≠ '.' := by
  cases hu : e.upper
  · exact ⟨'e', signChars e.sign ++ e.digits, by simp [expChars, hu], by decide, by decide⟩
  · exact ⟨'E', signChars e.sign ++ e.digits, by simp [expChars, hu], by decide, by decide⟩

theorem readTail_ok (neg : Bool) (ip : List Char) (frac : Option (List Char)) (exp : Option ExpTok)
    (hf : match frac with | some f => isDigits f = true | none => True)
    (he : match exp with | some e => isDigits e.digits = true | none => True)
    (hsome : frac.isSome = true ∨ exp.isSome = true) :
    readTail neg ip (fracChars frac ++ expOptChars exp) = some ⟨neg, ip, frac, exp⟩ := by
  cases frac with
  | some f =>
    simp only at hf
    obtain ⟨hne, hd⟩ := isDigits_spec hf
    cases exp with
    | none =>
      have tw := takeWhile_stopD f [] hd (Or.inl rfl)
      simp only [List.append_nil] at tw
      simp [fracChars, expOptChars, readTail, tw.1, tw.2, hne]
    | some e =>
      simp only at he
      obtain ⟨c, r, hcr, hc, _⟩ := expChars_head e
      have tw := takeWhile_stopD f (expChars e) hd (Or.inr ⟨c, r, hcr, hc⟩)
      have hne2 : expChars e ≠ [] := by rw [hcr]; simp
      simp [fracChars, expOptChars, readTail, tw.1, tw.2, hne, hne2, readExp_expChars e he]
  | none =>
    cases exp with
    | none => simp at hsome
    | some e =>
      simp only at he
      obtain ⟨c, r, hcr, _, hdot⟩ := expChars_head e
      simp only [fracChars, expOptChars, List.nil_append]
      rw [hcr]
      simp only [readTail, hdot, if_false]
      rw [← hcr, readExp_expChars e he]
      rfl

theorem tail_head (frac : Option (List Char)) (exp : Option ExpTok) (hsome : frac.isSome = true ∨ exp.isSome = true) :
    ∃ c r, fracChars frac ++ expOptChars exp = c :: r ∧ c.isDigit = false := by
  cases frac with
  | some f => exact ⟨'.', f ++ expOptChars exp, by simp [fracChars], by decide⟩
  | none =>
    cases exp with
    | none => simp at hsome
    | some e =>
      obtain ⟨c, r, hcr, hc, _⟩ := expChars_head e
      exact ⟨c, r, by simp [fracChars, expOptChars, hcr], hc⟩

theorem wfTok_parts {t : NumTok} (h : wfTok t = true) :
    canonInt t.ip = true ∧ (match t.frac with | some f => isDigits f = true | none => True)
    ∧ (match t.exp with | some e => isDigits e.digits = true | none => True) ∧ (t.frac.isSome = true ∨ t.exp.isSome = true) := by
  simp only [wfTok, Bool.and_eq_true, Bool.or_eq_true] at h
  refine ⟨h.1.1.1, ?_, ?_, h.2⟩
  · cases hf : t.frac <;> simp_all
  · cases he : t.exp <;> simp_all

theorem readNumBody_ok (t : NumTok) (h : wfTok t = true) : readNumBody t.neg (tokBody t) = some t := by
  obtain ⟨h1, h2, h3, h4⟩ := wfTok_parts h
  obtain ⟨c, r, hcr, hc⟩ := tail_head t.frac t.exp h4
  have tw := takeWhile_stopD t.ip (fracChars t.frac ++ expOptChars t.exp) (isDigits_spec (canonInt_digits h1)).2
    (Or.inr ⟨c, r, hcr, hc⟩)
  simp only [readNumBody, tokBody, tw.1, tw.2, h1, if_true, readTail_ok t.neg t.ip t.frac t.exp h2 h3 h4]

theorem tokBody_head (t : NumTok) (h : wfTok t = true) : ∃ c r, tokBody t = c :: r ∧ c.isDigit = true := by
  obtain ⟨h1, _, _, _⟩ := wfTok_parts h
  obtain ⟨hne, hd⟩ := isDigits_spec (canonInt_digits h1)
  cases hip : t.ip with
  | nil => exact absurd hip hne
  | cons c r => exact ⟨c, r ++ (fracChars t.frac ++ expOptChars t.exp), by simp [tokBody, hip], hd c (by rw [hip]; simp)⟩

theorem readNum_tokChars (t : NumTok) (h : wfTok t = true) : readNum (tokChars t) = some t := by
  have hb := readNumBody_ok t h
  unfold tokChars
  cases hn : t.neg
  · obtain ⟨c, r, hcr, hc⟩ := tokBody_head t h
    have hne : c ≠ '-' := fun e => by subst e; exact absurd hc (by decide)
    rw [hn] at hb
    simp only [Bool.false_eq_true, if_false]
    rw [hcr] at hb ⊢
    simp only [readNum, hne, if_false, hb]
  · rw [hn] at hb
    simp only [if_true, readNum, hb]

/-- every character of a token: a digit or one of `-+.eE` -/
def tokChar (c : Char) : Bool := c.isDigit || c == '-' || c == '+' || c == '.' || c == 'e' || c == 'E'

theorem tokChars_chars (t : NumTok) (h : wfTok t = true) : ∀ c ∈ tokChars t, tokChar c = true := by
  obtain ⟨h1, h2, h3, _⟩ := wfTok_parts h
  have hip := (isDigits_spec (canonInt_digits h1)).2
  have dig : ∀ c : Char, c.isDigit = true → tokChar c = true := fun c hc => by simp [tokChar, hc]
  have hbody : ∀ c ∈ tokBody t, tokChar c = true := by
    intro c hc
    simp only [tokBody, List.mem_append] at hc
    rcases hc with hc | hc | hc
    · exact dig c (hip c hc)
    · cases hf : t.frac with
      | none => simp [hf, fracChars] at hc
      | some f =>
        simp only [hf] at h2
        simp only [hf, fracChars, List.mem_cons] at hc
        rcases hc with e | hc
        · subst e; decide
        · exact dig c ((isDigits_spec h2).2 c hc)
    · cases he : t.exp with
      | none => simp [he, expOptChars] at hc
      | some e =>
        simp only [he] at h3
        simp only [he, expOptChars, expChars, List.mem_cons, List.mem_append] at hc
        rcases hc with e1 | hc | hc
        · subst e1; cases e.upper <;> decide
        · cases hs : e.sign with
          | none => simp [hs, signChars] at hc
          | some b => cases b <;> simp [hs, signChars] at hc <;> subst hc <;> decide
        · exact dig c ((isDigits_spec h3).2 c hc)
  intro c hc
  unfold tokChars at hc
  split at hc
  · rcases List.mem_cons.mp hc with e | hc
    · subst e; decide
    · exact hbody c hc
  · exact hbody c hc

theorem tokChars_head (t : NumTok) (h : wfTok t = true) : ∃ c r, tokChars t = c :: r ∧ (c = '-' ∨ c.isDigit = true) := by
  unfold tokChars
  cases t.neg
  · obtain ⟨c, r, hcr, hc⟩ := tokBody_head t h
    exact ⟨c, r, by simp [hcr], Or.inr hc⟩
  · exact ⟨'-', tokBody t, by simp, Or.inl rfl⟩

/-- a token has a character that is not a digit and not the leading minus: it is not an integer literal -/
theorem readNat_digits {w : List Char} {n : Nat} (h : readNat w = some n) : ∀ c ∈ w, c.isDigit = true := by
  simp only [readNat] at h
  by_cases e : Nat.toDigits 10 (Nat.ofDigitChars 10 w 0) = w
  · intro c hc
    rw [← e] at hc
    exact Nat.isDigit_of_mem_toDigits (by decide) (by decide) hc
  · simp [e] at h

theorem readNat_tokBody (t : NumTok) (h : wfTok t = true) : readNat (tokBody t) = none := by
  obtain ⟨_, _, _, h4⟩ := wfTok_parts h
  obtain ⟨c, r, hcr, hc⟩ := tail_head t.frac t.exp h4
  cases hr : readNat (tokBody t) with
  | none => rfl
  | some n =>
    have := readNat_digits hr c (by simp [tokBody, hcr])
    simp [hc] at this

theorem tokChars_not_int (t : NumTok) (h : wfTok t = true) : readInt (tokChars t) = none := by
  have hb := readNat_tokBody t h
  unfold tokChars
  cases t.neg
  · obtain ⟨c, r, hcr, hc⟩ := tokBody_head t h
    have hne : c ≠ '-' := fun e => by subst e; exact absurd hc (by decide)
    simp only [Bool.false_eq_true, if_false]
    rw [hcr] at hb ⊢
    simp [readInt, hne, hb]
  · simp [readInt, hb]


theorem tokChar_bare {c : Char} (h : tokChar c = true) : bareChar c = true := by
  simp only [tokChar, Bool.or_eq_true, beq_iff_eq] at h
  rcases h with ((((h | h) | h) | h) | h) | h
  · exact bare_of_isDigit h
  all_goals (subst h; decide)

def isStrS : Scalar → Bool
  | .str _ => true
  | _ => false

theorem readBare_scalarChars (s : Scalar) (h : isStrS s = false) (hs : safeScalar s = true) :
    readBare (scalarChars s) = some s := by
  cases s with
  | int i => simp [scalarChars, readBare, readInt_intChars]
  | bool b => cases b <;> decide
  | null => decide
  | str s => simp [isStrS] at h
  | num t =>
    have hw : wfTok t = true := hs
    obtain ⟨c, r, hcr, hc⟩ := tokChars_head t hw
    have notword : ∀ (w : List Char) (x : Char), w.head? = some x → x ≠ '-' → x.isDigit = false → tokChars t ≠ w := by
      intro w x hx h1 h2 e
      rw [hcr] at e
      subst e
      simp only [List.head?_cons, Option.some.injEq] at hx
      subst hx
      rcases hc with hc | hc
      · exact h1 hc
      · simp [hc] at h2
    have n1 := notword ['t', 'r', 'u', 'e'] 't' rfl (by decide) (by decide)
    have n2 := notword ['f', 'a', 'l', 's', 'e'] 'f' rfl (by decide) (by decide)
    have n3 := notword ['n', 'u', 'l', 'l'] 'n' rfl (by decide) (by decide)
    simp only [scalarChars, readBare, tokChars_not_int t hw, if_neg n1, if_neg n2, if_neg n3, readNum_tokChars t hw,
      Option.map_some]

theorem scalarChars_bare (s : Scalar) (h : isStrS s = false) (hs : safeScalar s = true) :
    ∀ c ∈ scalarChars s, bareChar c = true := by
  cases s with
  | int i => exact intChars_bare i
  | bool b => cases b <;> decide
  | null => decide
  | str s => simp [isStrS] at h
  | num t => exact fun c hc => tokChar_bare (tokChars_chars t hs c hc)

theorem scalarChars_cons (s : Scalar) (h : isStrS s = false) (hs : safeScalar s = true) :
    ∃ c r, scalarChars s = c :: r ∧ bareChar c = true := by
  cases s with
  | int i => exact intChars_cons i
  | bool b => cases b <;> simp [scalarChars] <;> decide
  | null => simp [scalarChars]; decide
  | str s => simp [isStrS] at h
  | num t =>
    obtain ⟨c, r, hcr, _⟩ := tokChars_head t hs
    exact ⟨c, r, hcr, tokChar_bare (tokChars_chars t hs c (by rw [hcr]; simp))⟩

/-- what follows a bare word: nothing, or a character that cannot belong to it -/
def stops (rest : List Char) : Prop := rest = [] ∨ ∃ c r, rest = c :: r ∧ bareChar c = false

theorem takeWhile_stop {p : Char → Bool} (w rest : List Char) (hw : ∀ c ∈ w, p c = true)
    (hr : rest = [] ∨ ∃ c r, rest = c :: r ∧ p c = false) :
    (w ++ rest).takeWhile p = w ∧ (w ++ rest).dropWhile p = rest := by
  rw [List.takeWhile_append_of_pos hw, List.dropWhile_append_of_pos hw]
  rcases hr with h | ⟨c, r, h, hc⟩
  · subst h; simp
  · subst h; simp [hc]

theorem safe_notQuote {c : Char} (h : safeChar c = true) : notQuote c = true := by
  simp only [safeChar, Bool.and_eq_true] at h
  exact h.1.2

theorem readTok_str (s : String) (rest : List Char) (hs : s.toList.all safeChar = true) :
    readTok (quoteL s.toList ++ rest) = some (.str s, rest) := by
  have hw : ∀ c ∈ s.toList, notQuote c = true := fun c hc => safe_notQuote (List.all_eq_true.mp hs c hc)
  have := takeWhile_stop (p := notQuote) s.toList ('"' :: rest) hw (Or.inr ⟨'"', rest, rfl, by decide⟩)
  have e : quoteL s.toList ++ rest = '"' :: (s.toList ++ '"' :: rest) := by simp [quoteL]
  rw [e]
  simp only [readTok, if_true, this.1, this.2, hs, String.ofList_toList]

theorem bare_ne_quote {c : Char} (h : bareChar c = true) : c ≠ '"' := by
  intro e; subst e; simp [bareChar] at h

theorem readTok_bare (s : Scalar) (rest : List Char) (h : isStrS s = false) (hs : safeScalar s = true) (hr : stops rest) :
    readTok (scalarChars s ++ rest) = some (s, rest) := by
  obtain ⟨c, r, hcr, hc⟩ := scalarChars_cons s h hs
  have tw := takeWhile_stop (p := bareChar) (scalarChars s) rest (scalarChars_bare s h hs) hr
  rw [hcr] at tw ⊢
  simp only [List.cons_append, readTok, bare_ne_quote hc, if_false]
  simp only [List.cons_append] at tw
  rw [tw.1, tw.2, ← hcr, readBare_scalarChars s h hs]

theorem readTok_scalar (s : Scalar) (rest : List Char) (hs : safeScalar s = true) (hr : stops rest) :
    readTok (scalarChars s ++ rest) = some (s, rest) := by
  cases s with
  | str x => exact readTok_str x rest hs
  | int i => exact readTok_bare _ rest rfl rfl hr
  | bool b => exact readTok_bare _ rest rfl rfl hr
  | null => exact readTok_bare _ rest rfl rfl hr
  | num t => exact readTok_bare _ rest rfl hs hr


theorem stops_comma (t : List Char) : stops (',' :: t) := Or.inr ⟨',', t, rfl, by decide⟩
theorem stops_rbrack (t : List Char) : stops (']' :: t) := Or.inr ⟨']', t, rfl, by decide⟩
theorem stops_rbrace (t : List Char) : stops ('}' :: t) := Or.inr ⟨'}', t, rfl, by decide⟩

theorem readItems_joinSep : ∀ (xs : List Scalar) (n : Nat), xs ≠ [] → xs.length ≤ n → xs.all safeScalar = true →
    readItems n (joinSep (xs.map scalarChars) ++ [']']) = some xs
  | [], _, h, _, _ => absurd rfl h
  | [x], n, _, hn, hs => by
    obtain ⟨m, rfl⟩ : ∃ m, n = m + 1 := ⟨n - 1, by simp at hn; omega⟩
    have hx : safeScalar x = true := by simpa using hs
    simp [joinSep, readItems, readTok_scalar x [']'] hx (stops_rbrack [])]
  | x :: y :: r, n, _, hn, hs => by
    obtain ⟨m, rfl⟩ : ∃ m, n = m + 1 := ⟨n - 1, by simp at hn; omega⟩
    have hx : safeScalar x = true := by simp at hs; exact hs.1
    have hr : (y :: r).all safeScalar = true := by simp at hs ⊢; exact hs.2
    have ih := readItems_joinSep (y :: r) m (by simp) (by simp at hn ⊢; omega) hr
    have e : joinSep ((x :: y :: r).map scalarChars) ++ [']']
        = scalarChars x ++ (',' :: ' ' :: (joinSep ((y :: r).map scalarChars) ++ [']'])) := by
      simp [joinSep]
    rw [e]
    simp only [readItems, readTok_scalar x _ hx (stops_comma _)]
    simp only [List.map_cons] at ih ⊢
    simp [ih]

theorem readInt_stop (i : Int) (rest : List Char) (hr : stops rest) :
    readInt ((intChars i ++ rest).takeWhile bareChar) = some i ∧ (intChars i ++ rest).dropWhile bareChar = rest := by
  have tw := takeWhile_stop (p := bareChar) (intChars i) rest (intChars_bare i) hr
  rw [tw.1, tw.2]
  exact ⟨readInt_intChars i, rfl⟩

theorem readPair_pairChars (p : String × Int) (rest : List Char) (hk : p.1.toList.all safeChar = true) (hr : stops rest) :
    readPair (pairChars p ++ rest) = some (p, rest) := by
  have e : pairChars p ++ rest = quoteL p.1.toList ++ (':' :: ' ' :: (intChars p.2 ++ rest)) := by
    simp [pairChars]
  have ri := readInt_stop p.2 rest hr
  rw [e]
  simp only [readPair, readTok_str p.1 _ hk]
  simp [ri.1, ri.2]

theorem readPairs_joinSep : ∀ (xs : List (String × Int)) (n : Nat), xs ≠ [] → xs.length ≤ n →
    xs.all (fun kv => kv.1.toList.all safeChar) = true →
    readPairs n (joinSep (xs.map pairChars) ++ ['}']) = some xs
  | [], _, h, _, _ => absurd rfl h
  | [x], n, _, hn, hs => by
    obtain ⟨m, rfl⟩ : ∃ m, n = m + 1 := ⟨n - 1, by simp at hn; omega⟩
    have hx : x.1.toList.all safeChar = true := by simpa using hs
    simp [joinSep, readPairs, readPair_pairChars x ['}'] hx (stops_rbrace [])]
  | x :: y :: r, n, _, hn, hs => by
    obtain ⟨m, rfl⟩ : ∃ m, n = m + 1 := ⟨n - 1, by simp at hn; omega⟩
    have hs' := hs
    simp only [List.all_cons, Bool.and_eq_true] at hs'
    have hx : x.1.toList.all safeChar = true := hs'.1
    have hr : (y :: r).all (fun kv => kv.1.toList.all safeChar) = true := by
      simp only [List.all_cons, Bool.and_eq_true]; exact hs'.2
    have ih := readPairs_joinSep (y :: r) m (by simp) (by simp at hn ⊢; omega) hr
    have e : joinSep ((x :: y :: r).map pairChars) ++ ['}']
        = pairChars x ++ (',' :: ' ' :: (joinSep ((y :: r).map pairChars) ++ ['}'])) := by
      simp [joinSep]
    rw [e]
    simp only [readPairs, readPair_pairChars x _ hx (stops_comma _)]
    simp only [List.map_cons] at ih ⊢
    simp [ih]

/-- every item text is non-empty, so the text is at least as long as the number of items -/
theorem joinSep_length : ∀ (ws : List (List Char)), (∀ w ∈ ws, w ≠ []) → ws.length ≤ (joinSep ws).length
  | [], _ => by simp [joinSep]
  | [w], h => by
    have : w ≠ [] := h w (by simp)
    cases w with
    | nil => exact absurd rfl this
    | cons c r => simp [joinSep]
  | w :: v :: r, h => by
    have ih := joinSep_length (v :: r) (fun x hx => h x (by simp at hx ⊢; exact Or.inr hx))
    simp only [joinSep, List.length_append, List.length_cons] at ih ⊢
    omega

theorem scalarChars_ne_nil (s : Scalar) (hs : safeScalar s = true) : scalarChars s ≠ [] := by
  cases s with
  | int i => obtain ⟨c, r, h, _⟩ := intChars_cons i; simp [scalarChars, h]
  | bool b => cases b <;> simp [scalarChars]
  | null => simp [scalarChars]
  | str s => simp [scalarChars, quoteL]
  | num t => obtain ⟨c, r, h, _⟩ := tokChars_head t hs; simp [scalarChars, h]

theorem pairChars_ne_nil (p : String × Int) : pairChars p ≠ [] := by simp [pairChars, quoteL]

theorem joinSep_cons_ne (ws : List (List Char)) (h : ws ≠ []) (hw : ∀ w ∈ ws, w ≠ []) (c : Char) :
    joinSep ws ++ [c] ≠ [c] := by
  have := joinSep_length ws hw
  have hl : 0 < ws.length := List.length_pos_iff.mpr h
  intro e
  have := congrArg List.length e
  simp only [List.length_append, List.length_cons, List.length_nil] at this
  omega

theorem intChars_mem (i : Int) {c : Char} (hc : c ∈ intChars i) : c = '-' ∨ c.isDigit = true := by
  unfold intChars at hc
  split at hc
  · rcases List.mem_cons.mp hc with h | h
    · exact Or.inl h
    · exact Or.inr (isDigit_of_mem_digits h)
  · exact Or.inr (isDigit_of_mem_digits hc)

/-- first character of a scalar's text: never a bracket or a brace -/
theorem scalarChars_head (s : Scalar) (hs : safeScalar s = true) : ∃ c r, scalarChars s = c :: r ∧ c ≠ '[' ∧ c ≠ '{' := by
  cases s with
  | num t =>
    obtain ⟨c, r, h, hm⟩ := tokChars_head t hs
    refine ⟨c, r, h, ?_, ?_⟩ <;>
    · intro e; subst e
      rcases hm with h | h
      · exact absurd h (by decide)
      · exact absurd h (by decide)
  | str x => exact ⟨'"', _, rfl, by decide, by decide⟩
  | int i =>
    obtain ⟨c, r, h, _⟩ := intChars_cons i
    have hm := intChars_mem i (c := c) (by rw [h]; simp)
    refine ⟨c, r, h, ?_, ?_⟩ <;>
    · intro e; subst e
      rcases hm with h | h
      · exact absurd h (by decide)
      · exact absurd h (by decide)
  | bool b => cases b <;> exact ⟨_, _, rfl, by decide, by decide⟩
  | null => exact ⟨_, _, rfl, by decide, by decide⟩

theorem loadL_scalarChars (s : Scalar) (hs : safeScalar s = true) : loadL (scalarChars s) = some (.sc s) := by
  obtain ⟨c, r, h, h1, h2⟩ := scalarChars_head s hs
  have rt := readTok_scalar s [] hs (Or.inl rfl)
  simp only [List.append_nil] at rt
  simp only [h, loadL, h1, h2, if_false]
  rw [← h, rt]

/-- the reader returns the value as documents carry it (`norm`: a yes/no setting is its boolean) -/
theorem loadL_valChars (v : Val) (hs : safeVal v = true) : loadL (valChars v) = some (norm v) := by
  cases v with
  | yesno w => exact loadL_scalarChars (.bool (ynBool w)) rfl
  | sc s => exact loadL_scalarChars s hs
  | list xs =>
    cases xs with
    | nil => simp [valChars, joinSep, loadL, norm]
    | cons x r =>
      have hne := joinSep_cons_ne ((x :: r).map scalarChars) (by simp) (by
        intro w hw; obtain ⟨s, hsm, rfl⟩ := List.mem_map.mp hw
        exact scalarChars_ne_nil s (List.all_eq_true.mp hs s hsm)) ']'
      have hl := joinSep_length ((x :: r).map scalarChars) (by
        intro w hw; obtain ⟨s, hsm, rfl⟩ := List.mem_map.mp hw
        exact scalarChars_ne_nil s (List.all_eq_true.mp hs s hsm))
      have := readItems_joinSep (x :: r) ((joinSep ((x :: r).map scalarChars) ++ [']']).length) (by simp)
        (by simp only [List.length_map] at hl; simp only [List.length_append]; omega) hs
      simp only [valChars, loadL, if_true, hne, if_false, this, Option.map_some, norm]
  | dict kvs =>
    cases kvs with
    | nil => simp [valChars, joinSep, loadL, norm]
    | cons x r =>
      have hne := joinSep_cons_ne ((x :: r).map pairChars) (by simp) (by
        intro w hw; obtain ⟨s, _, rfl⟩ := List.mem_map.mp hw; exact pairChars_ne_nil s) '}'
      have hl := joinSep_length ((x :: r).map pairChars) (by
        intro w hw; obtain ⟨s, _, rfl⟩ := List.mem_map.mp hw; exact pairChars_ne_nil s)
      simp only [safeVal, Bool.and_eq_true] at hs
      have := readPairs_joinSep (x :: r) ((joinSep ((x :: r).map pairChars) ++ ['}']).length) (by simp)
        (by simp only [List.length_map] at hl; simp only [List.length_append]; omega) hs.1
      have h1 : ('{' : Char) ≠ '[' := by decide
      simp only [valChars, loadL, h1, if_true, hne, if_false, this, hs.2, norm]

theorem loadText_textOf (v : Val) (hs : safeVal v = true) : loadText (textOf v) = some (norm v) := by
  simp [loadText, textOf, String.toList_ofList, loadL_valChars v hs]


/-! ### `load_basic` on canonical scalar text -/



theorem dropWhile_none {p : Char → Bool} : ∀ (l : List Char), (∀ c ∈ l, p c = false) → l.dropWhile p = l
  | [], _ => rfl
  | c :: r, h => by simp [h c (by simp)]

theorem strip_id (l : List Char) (h : ∀ c ∈ l, isSpace c = false) : strip l = l := by
  unfold strip
  rw [dropWhile_none l h, dropWhile_none l.reverse (fun c hc => h c (List.mem_reverse.mp hc)), List.reverse_reverse]

theorem not_space_of_isDigit {c : Char} (h : c.isDigit = true) : isSpace c = false := by
  have h' := Char.isDigit_iff_toNat.mp h
  have e0 : '0'.toNat = 48 := by decide
  have e9 : '9'.toNat = 57 := by decide
  rw [e0, e9] at h'
  have hne : c ≠ ' ' := by intro e; subst e; exact absurd h (by decide)
  simp only [isSpace, Bool.or_eq_false_iff, Bool.and_eq_false_iff, beq_eq_false_iff_ne, ne_eq, decide_eq_false_iff_not]
  refine ⟨⟨hne, ?_⟩, ?_⟩
  · right; omega
  · right; omega

theorem isDigits_digits (n : Nat) : isDigits (Nat.toDigits 10 n) = true := by
  simp only [isDigits, Bool.and_eq_true, Bool.not_eq_true', List.isEmpty_eq_false_iff, ne_eq, List.all_eq_true]
  exact ⟨Nat.toDigits_ne_nil, fun c hc => isDigit_of_mem_digits hc⟩

theorem loadBasicL_int (i : Int) : loadBasicL (intChars i) = .int i := by
  have hsp : ∀ c ∈ intChars i, isSpace c = false := by
    intro c hc
    unfold intChars at hc
    split at hc
    · rcases List.mem_cons.mp hc with h | h
      · subst h; decide
      · exact not_space_of_isDigit (isDigit_of_mem_digits h)
    · exact not_space_of_isDigit (isDigit_of_mem_digits hc)
  have hmem : ∀ c ∈ intChars i, c = '-' ∨ c.isDigit = true := by
    intro c hc
    unfold intChars at hc
    split at hc
    · rcases List.mem_cons.mp hc with h | h
      · exact Or.inl h
      · exact Or.inr (isDigit_of_mem_digits h)
    · exact Or.inr (isDigit_of_mem_digits hc)
  have notword : ∀ (w : List Char) (x : Char), x ∈ w → x ≠ '-' → x.isDigit = false → intChars i ≠ w := by
    intro w x hx h1 h2 e
    rcases hmem x (e ▸ hx) with h | h
    · exact h1 h
    · simp [h] at h2
  unfold loadBasicL
  simp only [strip_id _ hsp]
  rw [if_neg (notword _ 't' (by simp) (by decide) (by decide)), if_neg (notword _ 'f' (by simp) (by decide) (by decide)),
    if_neg (notword _ 'n' (by simp) (by decide) (by decide))]
  unfold intChars
  by_cases hi : i < 0
  · simp only [hi, if_true]
    have h1 : isDigits ('-' :: Nat.toDigits 10 i.natAbs) = false := by
      simp [isDigits, Char.isDigit]
    simp only [h1, Bool.false_eq_true, if_false, isDigits_digits, Bool.and_true, decide_true, if_true, List.tail_cons,
      Nat.ofDigitChars_ten_toDigits]
    congr 1; omega
  · simp only [hi, if_false, isDigits_digits, if_true, Nat.ofDigitChars_ten_toDigits]
    congr 1; omega

theorem loadBasicL_scalarChars (s : Scalar) :
    loadBasicL (scalarChars s) = basicOf s ∨ (∃ x, s = .str x) ∨ (∃ t, s = .num t) := by
  cases s with
  | num t => exact Or.inr (Or.inr ⟨t, rfl⟩)
  | int i => exact Or.inl (loadBasicL_int i)
  | bool b => cases b <;> exact Or.inl (by decide)
  | null => exact Or.inl (by decide)
  | str x => exact Or.inr (Or.inl ⟨x, rfl⟩)

end Jap.Channels

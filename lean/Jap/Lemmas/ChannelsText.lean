import Jap.Core.Channels
/-!
Channels, text layer: the reader `loadL` reads the canonical text `valChars v` of every value of the
grammar back to `v`; `load_basic` agrees on the canonical scalar texts.
-/
namespace Jap.Channels


/-! ### A. text round trip -/

theorem readNat_toDigits (n : Nat) : readNat (Nat.toDigits 10 n) = some n := by
  simp [readNat, Nat.ofDigitChars_ten_toDigits]

theorem isDigit_of_mem_digits {n : Nat} {c : Char} (h : c ∈ Nat.toDigits 10 n) : c.isDigit = true :=
  Nat.isDigit_of_mem_toDigits (by decide) (by decide) h

theorem digits_cons (n : Nat) : ∃ c r, Nat.toDigits 10 n = c :: r ∧ c.isDigit = true := by
  cases h : Nat.toDigits 10 n with
  | nil => exact absurd h Nat.toDigits_ne_nil
  | cons c r => exact ⟨c, r, rfl, isDigit_of_mem_digits (by rw [h]; simp)⟩

theorem isDigit_ne {c d : Char} (h : c.isDigit = true) (hd : d.isDigit = false) : c ≠ d := by
  intro e; subst e; simp [h] at hd

theorem readInt_intChars (i : Int) : readInt (intChars i) = some i := by
  unfold intChars
  by_cases hi : i < 0
  · simp only [hi, if_true, readInt, readNat_toDigits]
    have : i.natAbs ≠ 0 := by omega
    simp only [this, if_false]
    congr 1; omega
  · simp only [hi, if_false]
    obtain ⟨c, r, hcr, hc⟩ := digits_cons i.natAbs
    have hne : c ≠ '-' := isDigit_ne hc (by decide)
    rw [hcr]
    simp only [readInt, hne, if_false]
    rw [← hcr, readNat_toDigits]
    simp only [Option.map_some, Int.ofNat_eq_natCast, Option.some.injEq]
    omega

theorem bare_of_isDigit {c : Char} (h : c.isDigit = true) : bareChar c = true := by
  simp only [bareChar, Bool.and_eq_true, bne_iff_ne, ne_eq]
  refine ⟨⟨⟨⟨?_, ?_⟩, ?_⟩, ?_⟩, ?_⟩ <;> exact isDigit_ne h (by decide)

theorem intChars_bare (i : Int) : ∀ c ∈ intChars i, bareChar c = true := by
  intro c hc
  unfold intChars at hc
  split at hc
  · rcases List.mem_cons.mp hc with h | h
    · subst h; decide
    · exact bare_of_isDigit (isDigit_of_mem_digits h)
  · exact bare_of_isDigit (isDigit_of_mem_digits hc)

theorem intChars_cons (i : Int) : ∃ c r, intChars i = c :: r ∧ bareChar c = true := by
  cases h : intChars i with
  | nil =>
    unfold intChars at h
    split at h
    · simp at h
    · exact absurd h Nat.toDigits_ne_nil
  | cons c r => exact ⟨c, r, rfl, intChars_bare i c (by rw [h]; simp)⟩

def isStrS : Scalar → Bool
  | .str _ => true
  | _ => false

theorem readBare_scalarChars (s : Scalar) (h : isStrS s = false) : readBare (scalarChars s) = some s := by
  cases s with
  | int i => simp [scalarChars, readBare, readInt_intChars]
  | bool b => cases b <;> decide
  | null => decide
  | str s => simp [isStrS] at h

theorem scalarChars_bare (s : Scalar) (h : isStrS s = false) : ∀ c ∈ scalarChars s, bareChar c = true := by
  cases s with
  | int i => exact intChars_bare i
  | bool b => cases b <;> decide
  | null => decide
  | str s => simp [isStrS] at h

theorem scalarChars_cons (s : Scalar) (h : isStrS s = false) : ∃ c r, scalarChars s = c :: r ∧ bareChar c = true := by
  cases s with
  | int i => exact intChars_cons i
  | bool b => cases b <;> simp [scalarChars] <;> decide
  | null => simp [scalarChars]; decide
  | str s => simp [isStrS] at h

/-- what follows a bare word: nothing, or a character that cannot belong to it -/
def stops (rest : List Char) : Prop := rest = [] ∨ ∃ c r, rest = c :: r ∧ bareChar c = false

theorem takeWhile_stop {p : Char → Bool} (w rest : List Char) (hw : ∀ c ∈ w, p c = true)
    (hr : rest = [] ∨ ∃ c r, rest = c :: r ∧ p c = false) :
    (w ++ rest).takeWhile p = w ∧ (w ++ rest).dropWhile p = rest := by
  rw [List.takeWhile_append_of_pos hw, List.dropWhile_append_of_pos hw]
  rcases hr with h | ⟨c, r, h, hc⟩
  · subst h; simp
  · subst h; simp [hc]

theorem safe_notQuote {c : Char} (h : safeChar c = true) : notQuote c = true := by
  simp only [safeChar, Bool.and_eq_true] at h
  exact h.1.2

theorem readTok_str (s : String) (rest : List Char) (hs : s.toList.all safeChar = true) :
    readTok (quoteL s.toList ++ rest) = some (.str s, rest) := by
  have hw : ∀ c ∈ s.toList, notQuote c = true := fun c hc => safe_notQuote (List.all_eq_true.mp hs c hc)
  have := takeWhile_stop (p := notQuote) s.toList ('"' :: rest) hw (Or.inr ⟨'"', rest, rfl, by decide⟩)
  have e : quoteL s.toList ++ rest = '"' :: (s.toList ++ '"' :: rest) := by simp [quoteL]
  rw [e]
  simp only [readTok, if_true, this.1, this.2, hs, String.ofList_toList]

theorem bare_ne_quote {c : Char} (h : bareChar c = true) : c ≠ '"' := by
  intro e; subst e; simp [bareChar] at h

theorem readTok_bare (s : Scalar) (rest : List Char) (h : isStrS s = false) (hr : stops rest) :
    readTok (scalarChars s ++ rest) = some (s, rest) := by
  obtain ⟨c, r, hcr, hc⟩ := scalarChars_cons s h
  have tw := takeWhile_stop (p := bareChar) (scalarChars s) rest (scalarChars_bare s h) hr
  rw [hcr] at tw ⊢
  simp only [List.cons_append, readTok, bare_ne_quote hc, if_false]
  simp only [List.cons_append] at tw
  rw [tw.1, tw.2, ← hcr, readBare_scalarChars s h]

theorem readTok_scalar (s : Scalar) (rest : List Char) (hs : safeScalar s = true) (hr : stops rest) :
    readTok (scalarChars s ++ rest) = some (s, rest) := by
  cases s with
  | str x => exact readTok_str x rest hs
  | int i => exact readTok_bare _ rest rfl hr
  | bool b => exact readTok_bare _ rest rfl hr
  | null => exact readTok_bare _ rest rfl hr


theorem stops_comma (t : List Char) : stops (',' :: t) := Or.inr ⟨',', t, rfl, by decide⟩
theorem stops_rbrack (t : List Char) : stops (']' :: t) := Or.inr ⟨']', t, rfl, by decide⟩
theorem stops_rbrace (t : List Char) : stops ('}' :: t) := Or.inr ⟨'}', t, rfl, by decide⟩

theorem readItems_joinSep : ∀ (xs : List Scalar) (n : Nat), xs ≠ [] → xs.length ≤ n → xs.all safeScalar = true →
    readItems n (joinSep (xs.map scalarChars) ++ [']']) = some xs
  | [], _, h, _, _ => absurd rfl h
  | [x], n, _, hn, hs => by
    obtain ⟨m, rfl⟩ : ∃ m, n = m + 1 := ⟨n - 1, by simp at hn; omega⟩
    have hx : safeScalar x = true := by simpa using hs
    simp [joinSep, readItems, readTok_scalar x [']'] hx (stops_rbrack [])]
  | x :: y :: r, n, _, hn, hs => by
    obtain ⟨m, rfl⟩ : ∃ m, n = m + 1 := ⟨n - 1, by simp at hn; omega⟩
    have hx : safeScalar x = true := by simp at hs; exact hs.1
    have hr : (y :: r).all safeScalar = true := by simp at hs ⊢; exact hs.2
    have ih := readItems_joinSep (y :: r) m (by simp) (by simp at hn ⊢; omega) hr
    have e : joinSep ((x :: y :: r).map scalarChars) ++ [']']
        = scalarChars x ++ (',' :: ' ' :: (joinSep ((y :: r).map scalarChars) ++ [']'])) := by
      simp [joinSep]
    rw [e]
    simp only [readItems, readTok_scalar x _ hx (stops_comma _)]
    simp only [List.map_cons] at ih ⊢
    simp [ih]

theorem readInt_stop (i : Int) (rest : List Char) (hr : stops rest) :
    readInt ((intChars i ++ rest).takeWhile bareChar) = some i ∧ (intChars i ++ rest).dropWhile bareChar = rest := by
  have tw := takeWhile_stop (p := bareChar) (intChars i) rest (intChars_bare i) hr
  rw [tw.1, tw.2]
  exact ⟨readInt_intChars i, rfl⟩

theorem readPair_pairChars (p : String × Int) (rest : List Char) (hk : p.1.toList.all safeChar = true) (hr : stops rest) :
    readPair (pairChars p ++ rest) = some (p, rest) := by
  have e : pairChars p ++ rest = quoteL p.1.toList ++ (':' :: ' ' :: (intChars p.2 ++ rest)) := by
    simp [pairChars]
  have ri := readInt_stop p.2 rest hr
  rw [e]
  simp only [readPair, readTok_str p.1 _ hk]
  simp [ri.1, ri.2]

theorem readPairs_joinSep : ∀ (xs : List (String × Int)) (n : Nat), xs ≠ [] → xs.length ≤ n →
    xs.all (fun kv => kv.1.toList.all safeChar) = true →
    readPairs n (joinSep (xs.map pairChars) ++ ['}']) = some xs
  | [], _, h, _, _ => absurd rfl h
  | [x], n, _, hn, hs => by
    obtain ⟨m, rfl⟩ : ∃ m, n = m + 1 := ⟨n - 1, by simp at hn; omega⟩
    have hx : x.1.toList.all safeChar = true := by simpa using hs
    simp [joinSep, readPairs, readPair_pairChars x ['}'] hx (stops_rbrace [])]
  | x :: y :: r, n, _, hn, hs => by
    obtain ⟨m, rfl⟩ : ∃ m, n = m + 1 := ⟨n - 1, by simp at hn; omega⟩
    have hs' := hs
    simp only [List.all_cons, Bool.and_eq_true] at hs'
    have hx : x.1.toList.all safeChar = true := hs'.1
    have hr : (y :: r).all (fun kv => kv.1.toList.all safeChar) = true := by
      simp only [List.all_cons, Bool.and_eq_true]; exact hs'.2
    have ih := readPairs_joinSep (y :: r) m (by simp) (by simp at hn ⊢; omega) hr
    have e : joinSep ((x :: y :: r).map pairChars) ++ ['}']
        = pairChars x ++ (',' :: ' ' :: (joinSep ((y :: r).map pairChars) ++ ['}'])) := by
      simp [joinSep]
    rw [e]
    simp only [readPairs, readPair_pairChars x _ hx (stops_comma _)]
    simp only [List.map_cons] at ih ⊢
    simp [ih]

/-- every item text is non-empty, so the text is at least as long as the number of items -/
theorem joinSep_length : ∀ (ws : List (List Char)), (∀ w ∈ ws, w ≠ []) → ws.length ≤ (joinSep ws).length
  | [], _ => by simp [joinSep]
  | [w], h => by
    have : w ≠ [] := h w (by simp)
    cases w with
    | nil => exact absurd rfl this
    | cons c r => simp [joinSep]
  | w :: v :: r, h => by
    have ih := joinSep_length (v :: r) (fun x hx => h x (by simp at hx ⊢; exact Or.inr hx))
    simp only [joinSep, List.length_append, List.length_cons] at ih ⊢
    omega

theorem scalarChars_ne_nil (s : Scalar) : scalarChars s ≠ [] := by
  cases s with
  | int i => obtain ⟨c, r, h, _⟩ := intChars_cons i; simp [scalarChars, h]
  | bool b => cases b <;> simp [scalarChars]
  | null => simp [scalarChars]
  | str s => simp [scalarChars, quoteL]

theorem pairChars_ne_nil (p : String × Int) : pairChars p ≠ [] := by simp [pairChars, quoteL]

theorem joinSep_cons_ne (ws : List (List Char)) (h : ws ≠ []) (hw : ∀ w ∈ ws, w ≠ []) (c : Char) :
    joinSep ws ++ [c] ≠ [c] := by
  have := joinSep_length ws hw
  have hl : 0 < ws.length := List.length_pos_iff.mpr h
  intro e
  have := congrArg List.length e
  simp only [List.length_append, List.length_cons, List.length_nil] at this
  omega

theorem intChars_mem (i : Int) {c : Char} (hc : c ∈ intChars i) : c = '-' ∨ c.isDigit = true := by
  unfold intChars at hc
  split at hc
  · rcases List.mem_cons.mp hc with h | h
    · exact Or.inl h
    · exact Or.inr (isDigit_of_mem_digits h)
  · exact Or.inr (isDigit_of_mem_digits hc)

/-- first character of a scalar's text: never a bracket or a brace -/
theorem scalarChars_head (s : Scalar) : ∃ c r, scalarChars s = c :: r ∧ c ≠ '[' ∧ c ≠ '{' := by
  cases s with
  | str x => exact ⟨'"', _, rfl, by decide, by decide⟩
  | int i =>
    obtain ⟨c, r, h, _⟩ := intChars_cons i
    have hm := intChars_mem i (c := c) (by rw [h]; simp)
    refine ⟨c, r, h, ?_, ?_⟩ <;>
    · intro e; subst e
      rcases hm with h | h
      · exact absurd h (by decide)
      · exact absurd h (by decide)
  | bool b => cases b <;> exact ⟨_, _, rfl, by decide, by decide⟩
  | null => exact ⟨_, _, rfl, by decide, by decide⟩

theorem loadL_valChars (v : Val) (hs : safeVal v = true) : loadL (valChars v) = some v := by
  cases v with
  | sc s =>
    obtain ⟨c, r, h, h1, h2⟩ := scalarChars_head s
    have rt := readTok_scalar s [] hs (Or.inl rfl)
    simp only [List.append_nil] at rt
    simp only [valChars, h, loadL, h1, h2, if_false]
    rw [← h, rt]
  | list xs =>
    cases xs with
    | nil => simp [valChars, joinSep, loadL]
    | cons x r =>
      have hne := joinSep_cons_ne ((x :: r).map scalarChars) (by simp) (by
        intro w hw; obtain ⟨s, _, rfl⟩ := List.mem_map.mp hw; exact scalarChars_ne_nil s) ']'
      have hl := joinSep_length ((x :: r).map scalarChars) (by
        intro w hw; obtain ⟨s, _, rfl⟩ := List.mem_map.mp hw; exact scalarChars_ne_nil s)
      have := readItems_joinSep (x :: r) ((joinSep ((x :: r).map scalarChars) ++ [']']).length) (by simp)
        (by simp only [List.length_map] at hl; simp only [List.length_append]; omega) hs
      simp only [valChars, loadL, if_true, hne, if_false, this, Option.map_some]
  | dict kvs =>
    cases kvs with
    | nil => simp [valChars, joinSep, loadL]
    | cons x r =>
      have hne := joinSep_cons_ne ((x :: r).map pairChars) (by simp) (by
        intro w hw; obtain ⟨s, _, rfl⟩ := List.mem_map.mp hw; exact pairChars_ne_nil s) '}'
      have hl := joinSep_length ((x :: r).map pairChars) (by
        intro w hw; obtain ⟨s, _, rfl⟩ := List.mem_map.mp hw; exact pairChars_ne_nil s)
      simp only [safeVal, Bool.and_eq_true] at hs
      have := readPairs_joinSep (x :: r) ((joinSep ((x :: r).map pairChars) ++ ['}']).length) (by simp)
        (by simp only [List.length_map] at hl; simp only [List.length_append]; omega) hs.1
      have h1 : ('{' : Char) ≠ '[' := by decide
      simp only [valChars, loadL, h1, if_true, hne, if_false, this, hs.2]

theorem loadText_textOf (v : Val) (hs : safeVal v = true) : loadText (textOf v) = some v := by
  simp [loadText, textOf, String.toList_ofList, loadL_valChars v hs]


/-! ### `load_basic` on canonical scalar text -/



theorem dropWhile_none {p : Char → Bool} : ∀ (l : List Char), (∀ c ∈ l, p c = false) → l.dropWhile p = l
  | [], _ => rfl
  | c :: r, h => by simp [h c (by simp)]

theorem strip_id (l : List Char) (h : ∀ c ∈ l, isSpace c = false) : strip l = l := by
  unfold strip
  rw [dropWhile_none l h, dropWhile_none l.reverse (fun c hc => h c (List.mem_reverse.mp hc)), List.reverse_reverse]

theorem not_space_of_isDigit {c : Char} (h : c.isDigit = true) : isSpace c = false := by
  have h' := Char.isDigit_iff_toNat.mp h
  have e0 : '0'.toNat = 48 := by decide
  have e9 : '9'.toNat = 57 := by decide
  rw [e0, e9] at h'
  have hne : c ≠ ' ' := by intro e; subst e; exact absurd h (by decide)
  simp only [isSpace, Bool.or_eq_false_iff, Bool.and_eq_false_iff, beq_eq_false_iff_ne, ne_eq, decide_eq_false_iff_not]
  refine ⟨⟨hne, ?_⟩, ?_⟩
  · right; omega
  · right; omega

theorem isDigits_digits (n : Nat) : isDigits (Nat.toDigits 10 n) = true := by
  simp only [isDigits, Bool.and_eq_true, Bool.not_eq_true', List.isEmpty_eq_false_iff, ne_eq, List.all_eq_true]
  exact ⟨Nat.toDigits_ne_nil, fun c hc => isDigit_of_mem_digits hc⟩

theorem loadBasicL_int (i : Int) : loadBasicL (intChars i) = .int i := by
  have hsp : ∀ c ∈ intChars i, isSpace c = false := by
    intro c hc
    unfold intChars at hc
    split at hc
    · rcases List.mem_cons.mp hc with h | h
      · subst h; decide
      · exact not_space_of_isDigit (isDigit_of_mem_digits h)
    · exact not_space_of_isDigit (isDigit_of_mem_digits hc)
  have hmem : ∀ c ∈ intChars i, c = '-' ∨ c.isDigit = true := by
    intro c hc
    unfold intChars at hc
    split at hc
    · rcases List.mem_cons.mp hc with h | h
      · exact Or.inl h
      · exact Or.inr (isDigit_of_mem_digits h)
    · exact Or.inr (isDigit_of_mem_digits hc)
  have notword : ∀ (w : List Char) (x : Char), x ∈ w → x ≠ '-' → x.isDigit = false → intChars i ≠ w := by
    intro w x hx h1 h2 e
    rcases hmem x (e ▸ hx) with h | h
    · exact h1 h
    · simp [h] at h2
  unfold loadBasicL
  simp only [strip_id _ hsp]
  rw [if_neg (notword _ 't' (by simp) (by decide) (by decide)), if_neg (notword _ 'f' (by simp) (by decide) (by decide)),
    if_neg (notword _ 'n' (by simp) (by decide) (by decide))]
  unfold intChars
  by_cases hi : i < 0
  · simp only [hi, if_true]
    have h1 : isDigits ('-' :: Nat.toDigits 10 i.natAbs) = false := by
      simp [isDigits, Char.isDigit]
    simp only [h1, Bool.false_eq_true, if_false, isDigits_digits, Bool.and_true, decide_true, if_true, List.tail_cons,
      Nat.ofDigitChars_ten_toDigits]
    congr 1; omega
  · simp only [hi, if_false, isDigits_digits, if_true, Nat.ofDigitChars_ten_toDigits]
    congr 1; omega

theorem loadBasicL_scalarChars (s : Scalar) : loadBasicL (scalarChars s) = basicOf s ∨ (∃ x, s = .str x) := by
  cases s with
  | int i => exact Or.inl (loadBasicL_int i)
  | bool b => cases b <;> exact Or.inl (by decide)
  | null => exact Or.inl (by decide)
  | str x => exact Or.inr ⟨x, rfl⟩

end Jap.Channels

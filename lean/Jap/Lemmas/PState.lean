import Jap.Core.PState
/-!
Helper lemmas for C09 (history independence of the parser-state model).

Two families, each proved combinator by combinator:
* `…_sim`  : two runs that agree on the carriers in `Agree` (plus the carriers the operation has already
             written) stay in agreement and produce the same reads / the same outcome  — "written before read";
* `…_keep` : a run leaves lenient / parentParser / linked / dcDefault / wired (and `pending` of the other
             parsers) as it found them — "restored".
-/
namespace Jap.PState

/-- the assumptions about the source under which `step` is history independent -/
def Sound (F : Facts) : Bool :=
  F.finallyPops && F.ctxResetFinally && F.argsBeforeParse && F.kwSetAroundParse && F.sapSetAroundParse &&
  F.dkSetInSerialize && !F.dcDefaultOnAction && F.linkedOnFreshOnly && F.wiringAtBuildOnly

/-- agreement on the carriers which some operation reads before it writes them -/
structure Agree (w w' : World) : Prop where
  lenient : w.lenient = w'.lenient
  parent : w.parentParser = w'.parentParser
  pending : w.pending = w'.pending
  linked : w.linked = w'.linked
  wired : w.wired = w'.wired
  dc : w.dcDefault = w'.dcDefault

/-- agreement of two runs inside an operation: `Agree`, the carriers written so far (`parse_kwargs` if `K`; `args` of
    the parser objects in `S`), and everything observed so far -/
structure RunSim (K : Prop) (S : PRef → Prop) (r r' : Run) : Prop where
  agree : Agree r.w r'.w
  kw : K → r.w.parseKwargs = r'.w.parseKwargs
  args : ∀ s, S s → r.w.lastArgs s = r'.w.lastArgs s
  infl : r.infl = r'.infl
  stop : r.stop = r'.stop

theorem RunSim.mono {K : Prop} {S T : PRef → Prop} {r r' : Run} (h : RunSim K S r r') (hst : ∀ s, T s → S s) : RunSim K T r r' :=
  ⟨h.agree, h.kw, fun s hs => h.args s (hst s hs), h.infl, h.stop⟩

/-- a world update that respects agreement (same function on both sides) -/
def Respects (K : Prop) (S : PRef → Prop) (f : World → World) : Prop :=
  ∀ w w', Agree w w' → (K → w.parseKwargs = w'.parseKwargs) → (∀ s, S s → w.lastArgs s = w'.lastArgs s) →
    Agree (f w) (f w') ∧ (K → (f w).parseKwargs = (f w').parseKwargs) ∧ (∀ s, S s → (f w).lastArgs s = (f w').lastArgs s)

section sim
variable {K : Prop} {S : PRef → Prop} {r r' : Run}

theorem upd_sim {f : World → World} (hf : Respects K S f) (h : RunSim K S r r') : RunSim K S (r.upd f) (r'.upd f) := by
  obtain ⟨hag, hk, ha, hi, hs⟩ := h
  obtain ⟨g1, g2, g3⟩ := hf _ _ hag hk ha
  exact ⟨g1, g2, g3, hi, hs⟩

theorem halt_sim (o : Outcome) (h : RunSim K S r r') : RunSim K S (r.halt o) (r'.halt o) := by
  obtain ⟨hag, hk, ha, hi, hs⟩ := h
  exact ⟨hag, hk, ha, hi, rfl⟩

theorem haltIf_sim (c : Bool) (o : Outcome) (h : RunSim K S r r') : RunSim K S (r.haltIf c o) (r'.haltIf c o) := by
  unfold Run.haltIf
  split
  · exact halt_sim o h
  · exact h

theorem noteW_sim {g : World → Infl}
    (hg : ∀ w w', Agree w w' → (K → w.parseKwargs = w'.parseKwargs) → (∀ s, S s → w.lastArgs s = w'.lastArgs s) → g w = g w')
    (h : RunSim K S r r') : RunSim K S (r.noteW g) (r'.noteW g) := by
  obtain ⟨hag, hk, ha, hi, hs⟩ := h
  exact ⟨hag, hk, ha, by simp [Run.noteW, Run.note, hi, hg _ _ hag hk ha], hs⟩

theorem when_sim (c : Bool) {f : Run → Run} (hf : ∀ a a', RunSim K S a a' → RunSim K S (f a) (f a'))
    (h : RunSim K S r r') : RunSim K S (r.when c f) (r'.when c f) := by
  unfold Run.when
  split
  · exact hf _ _ h
  · exact h

theorem live_sim {f : Run → Run} (hf : ∀ a a', RunSim K S a a' → RunSim K S (f a) (f a'))
    (h : RunSim K S r r') : RunSim K S (r.live f) (r'.live f) := by
  unfold Run.live
  rw [← h.stop]
  cases r.stop with
  | some o => exact h
  | none => exact hf _ _ h

theorem respects_setPending (p : Nat) (v : Option Pending) : Respects K S (setPending p v) := by
  intro w w' ⟨h1, h2, h3, h4, h5, h6⟩ hk ha
  exact ⟨⟨h1, h2, by simp [setPending, h3], h4, h5, h6⟩, hk, ha⟩

theorem respects_setDc (p : Nat) (v : Option Nat) : Respects K S (setDc p v) := by
  intro w w' ⟨h1, h2, h3, h4, h5, h6⟩ hk ha
  exact ⟨⟨h1, h2, h3, h4, h5, by simp [setDc, h6]⟩, hk, ha⟩

theorem respects_growLinked (p : Nat) : Respects K S (growLinked p) := by
  intro w w' ⟨h1, h2, h3, h4, h5, h6⟩ hk ha
  exact ⟨⟨h1, h2, h3, by simp [growLinked, h4], h5, h6⟩, hk, ha⟩

theorem respects_setWired (p : Nat) (v : Bool) : Respects K S (setWired p v) := by
  intro w w' ⟨h1, h2, h3, h4, h5, h6⟩ hk ha
  exact ⟨⟨h1, h2, h3, h4, by simp [setWired, h5], h6⟩, hk, ha⟩

theorem respects_setShtab (p : Nat) : Respects K S (setShtab p) := by
  intro w w' ⟨h1, h2, h3, h4, h5, h6⟩ hk ha
  exact ⟨⟨h1, h2, h3, h4, h5, h6⟩, hk, ha⟩

theorem respects_setSap (v : PRef) : Respects K S (setSap v) := by
  intro w w' ⟨h1, h2, h3, h4, h5, h6⟩ hk ha
  exact ⟨⟨h1, h2, h3, h4, h5, h6⟩, hk, ha⟩

theorem respects_setDk (v : DK) : Respects K S (setDk v) := by
  intro w w' ⟨h1, h2, h3, h4, h5, h6⟩ hk ha
  exact ⟨⟨h1, h2, h3, h4, h5, h6⟩, hk, ha⟩

theorem respects_setKw (v : KW) : Respects K S (setKw v) := by
  intro w w' ⟨h1, h2, h3, h4, h5, h6⟩ _ ha
  exact ⟨⟨h1, h2, h3, h4, h5, h6⟩, fun _ => rfl, ha⟩

theorem respects_reSetKw : Respects K S reSetKw := by
  intro w w' ⟨h1, h2, h3, h4, h5, h6⟩ hk ha
  exact ⟨⟨h1, h2, h3, h4, h5, h6⟩, fun k => by simp [reSetKw, hk k], ha⟩

theorem respects_setArgs (x : PRef) (v : Nat) : Respects K S (setArgs x v) := by
  intro w w' ⟨h1, h2, h3, h4, h5, h6⟩ hk ha
  refine ⟨⟨h1, h2, h3, h4, h5, h6⟩, hk, ?_⟩
  intro s hs
  simp [setArgs, setAt, ha s hs]

/-- writing `args` of parser object `x` makes the two runs agree on it -/
theorem setArgs_sim (x : PRef) (v : Nat) (h : RunSim K S r r') :
    RunSim K (fun s => S s ∨ s = x) (r.upd (setArgs x v)) (r'.upd (setArgs x v)) := by
  obtain ⟨⟨h1, h2, h3, h4, h5, h6⟩, hk, ha, hi, hs⟩ := h
  refine ⟨⟨h1, h2, h3, h4, h5, h6⟩, hk, ?_, hi, hs⟩
  intro s hs'
  rcases hs' with hs' | hs'
  · simp [Run.upd, setArgs, setAt, ha s hs']
  · simp [Run.upd, setArgs, setAt, hs']

theorem withCtx_sim (F : Facts) (len : Option Bool) (par : Option PRef) {body : Run → Run}
    (hb : ∀ a a', RunSim K S a a' → RunSim K S (body a) (body a')) (h : RunSim K S r r') :
    RunSim K S (withCtx F len par body r) (withCtx F len par body r') := by
  obtain ⟨⟨h1, h2, h3, h4, h5, h6⟩, hk, ha, hi, hs⟩ := h
  have hin : RunSim K S (r.upd (enterCtx len par)) (r'.upd (enterCtx len par)) := by
    refine ⟨⟨?_, ?_, h3, h4, h5, h6⟩, hk, ha, hi, hs⟩
    · simp [Run.upd, enterCtx, h1]
    · simp [Run.upd, enterCtx, h2]
  have hout := hb _ _ hin
  obtain ⟨⟨g1, g2, g3, g4, g5, g6⟩, gk, ga, gi, gs⟩ := hout
  unfold withCtx
  simp only []
  rw [gs]
  split
  · exact ⟨⟨by simp [Run.upd, leaveCtx, h1], by simp [Run.upd, leaveCtx, h2], g3, g4, g5, g6⟩, gk, ga, gi, gs⟩
  · exact ⟨⟨g1, g2, g3, g4, g5, g6⟩, gk, ga, gi, gs⟩

theorem ephParse_sim (F : Facts) (kw : KW) (out : Option Outcome) (h : RunSim K S r r') :
    RunSim K S (ephParse F kw out r) (ephParse F kw out r') := by
  unfold ephParse
  apply withCtx_sim
  · intro a a' ha
    cases out with
    | none => exact upd_sim (respects_setSap _) ha
    | some o => exact halt_sim o (upd_sim (respects_setSap _) ha)
  · exact upd_sim (respects_setKw _) h

theorem adaptClass_sim (F : Facts) (p : Nat) (h : RunSim K S r r') :
    RunSim K S (adaptClass F p r) (adaptClass F p r') := by
  unfold adaptClass
  apply when_sim
  · intro a a' ha
    exact upd_sim (respects_growLinked p) ha
  · apply noteW_sim
    · intro w w' hag _ _
      rw [hag.linked]
    · apply noteW_sim
      · intro w w' hag _ _
        rw [hag.parent]
      · exact h

theorem adaptDc_sim (F : Facts) (p : Nat) (onAction hasPrev : Bool) (valId : Nat) (h : RunSim K S r r') :
    RunSim K S (adaptDc F p onAction hasPrev valId r) (adaptDc F p onAction hasPrev valId r') := by
  unfold adaptDc
  apply noteW_sim
  · intro w w' hag _ _
    rw [hag.parent]
  · apply when_sim
    · intro a a' ha
      apply noteW_sim
      · intro w w' hag _ _
        rw [hag.dc]
      · exact ha
    · apply when_sim
      · intro a a' ha
        exact upd_sim (respects_setDc p _) ha
      · exact h

theorem storeRequest_sim (p : Nat) (self : PRef) (f : Flags) (h : RunSim K S r r') :
    RunSim K S (storeRequest p self f r) (storeRequest p self f r') := by
  unfold storeRequest
  cases self with
  | sub q i =>
    simp only []
    apply upd_sim (respects_setPending p _)
    apply noteW_sim
    · intro w w' hag _ _
      rw [hag.wired]
    · exact h
  | root q => exact upd_sim (respects_setPending p _) h
  | eph => exact upd_sim (respects_setPending p _) h

theorem classHelp_sim (F : Facts) (self : PRef) (hS : S self) (trailing : Option Bool) (err : Outcome)
    (h : RunSim K S r r') : RunSim K S (classHelp F self trailing err r) (classHelp F self trailing err r') := by
  unfold classHelp
  have h1 : RunSim K S (r.noteW fun w => .args (w.lastArgs self)) (r'.noteW fun w => .args (w.lastArgs self)) := by
    apply noteW_sim
    · intro w w' _ _ ha
      rw [ha self hS]
    · exact h
  cases trailing with
  | none => exact halt_sim _ h1
  | some b =>
    cases b with
    | true => exact ephParse_sim F _ _ h1
    | false => exact halt_sim _ (ephParse_sim F _ _ h1)

/-- the read of `dump_kwargs` comes after its write -/
theorem dumpBody_sim (F : Facts) (hF : F.dkSetInSerialize = true) (p : Nat) (dk : DK) (t : Tail) (h : RunSim K S r r') :
    RunSim K S (dumpBody F p dk t r) (dumpBody F p dk t r') := by
  unfold dumpBody
  have h1 : RunSim K S (r.noteW fun w => .linked (w.linked p)) (r'.noteW fun w => .linked (w.linked p)) := by
    apply noteW_sim
    · intro w w' hag _ _
      rw [hag.linked]
    · exact h
  apply when_sim _ _ h1
  intro a a' ha
  rw [hF]
  simp only [Run.when, if_true, Bool.not_true, Bool.false_eq_true, if_false]
  obtain ⟨hag, hk, haa, hi, hs⟩ := upd_sim (respects_setDk dk) ha
  split
  · exact ⟨hag, hk, haa, by simp [Run.noteW, Run.note, Run.upd, setDk, ha.infl], hs⟩
  · exact ⟨hag, hk, haa, hi, hs⟩

theorem dumpFull_sim (F : Facts) (hF : F.dkSetInSerialize = true) (p : Nat) (dk : DK) (sd : Bool) (t : Tail) (fail : Outcome)
    (h : RunSim K S r r') : RunSim K S (dumpFull F p dk sd t fail r) (dumpFull F p dk sd t fail r') := by
  unfold dumpFull
  apply when_sim _ _ (dumpBody_sim F hF p dk t h)
  intro a a' ha
  split
  · exact halt_sim _ ha
  · exact haltIf_sim _ _ (when_sim _ (fun _ _ hh => upd_sim (respects_setDk _) hh) ha)

theorem revalidate_sim (F : Facts) (p : Nat) (valId : Nat) (t : Tail) (fail : Outcome) (h : RunSim K S r r') :
    RunSim K S (revalidate F p valId t fail r) (revalidate F p valId t fail r') := by
  unfold revalidate
  apply withCtx_sim F _ _ _ h
  intro a a' ha
  apply haltIf_sim
  apply when_sim _ (fun _ _ hh => adaptDc_sim F p _ _ _ hh)
  apply when_sim _ (fun _ _ hh => adaptClass_sim F p hh)
  exact ha

theorem validateBody_sim (F : Facts) (p : Nat) (valId : Nat) (t : Tail) (fail : Outcome) (h : RunSim K S r r') :
    RunSim K S (validateBody F p valId t fail r) (validateBody F p valId t fail r') := by
  unfold validateBody
  have h0 : RunSim K S (r.noteW fun w => .lenient w.lenient) (r'.noteW fun w => .lenient w.lenient) := by
    apply noteW_sim
    · intro w w' hag _ _
      rw [hag.lenient]
    · exact h
  simp only []
  rw [h0.agree.lenient]
  split
  · exact h0
  · exact revalidate_sim F p valId t fail h0

theorem printAndExit_sim (F : Facts) (hF : F.dkSetInSerialize = true) (d : PDesc) (p : Nat) (pd : Pending) (t : Tail)
    (early : Bool) (h : RunSim K S r r') :
    RunSim K S (printAndExit F d p pd t early r) (printAndExit F d p pd t early r') := by
  unfold printAndExit
  simp only []
  apply live_sim
  · intro a a' ha
    apply halt_sim
    exact when_sim _ (fun _ _ hh => upd_sim (respects_setPending p none) hh) ha
  · apply withCtx_sim F _ _ _ h
    intro a a' ha
    split
    · exact halt_sim _ ha
    · exact dumpFull_sim F hF p _ _ _ _ ha

theorem tokStep_sim (F : Facts) (hF : F.dkSetInSerialize = true) (d : PDesc) (p : Nat) (self : PRef) (valId : Nat) (t : Tok)
    (hS : S self ∨ ∀ tr, t.kind ≠ .classHelp tr) (h : RunSim K S r r') :
    RunSim K S (tokStep F d p self valId r t) (tokStep F d p self valId r' t) := by
  unfold tokStep
  apply live_sim _ h
  intro a a' ha
  simp only []
  cases hk : t.kind with
  | plain cls =>
    simp only []
    exact haltIf_sim _ _ (when_sim _ (fun _ _ hh => adaptClass_sim F p hh) ha)
  | deep =>
    simp only []
    exact ephParse_sim F _ _ (adaptClass_sim F p ha)
  | dc nested onAction hasPrev =>
    simp only []
    split
    · exact ephParse_sim F _ _ (adaptDc_sim F p _ _ _ ha)
    · exact haltIf_sim _ _ (adaptDc_sim F p _ _ _ ha)
  | printConfig f =>
    simp only []
    split
    · exact halt_sim _ ha
    · exact storeRequest_sim p self f ha
  | cfg dumpFails =>
    simp only []
    split
    · exact halt_sim _ ha
    · have hp : a.w.pending p = a'.w.pending p := by rw [ha.agree.pending]
      rw [← hp]
      cases self with
      | root q =>
        cases a.w.pending p with
        | some pd => exact printAndExit_sim F hF d p pd _ _ ha
        | none => exact ha
      | sub q i => exact ha
      | eph => exact ha
  | help =>
    simp only []
    exact halt_sim _ ha
  | classHelp trailing =>
    simp only []
    split
    · exact halt_sim _ ha
    · rcases hS with hS | hS
      · exact classHelp_sim F self hS trailing _ ha
      · exact absurd hk (hS trailing)

theorem runToks_sim (F : Facts) (hF : F.dkSetInSerialize = true) (d : PDesc) (p : Nat) (self : PRef) (valId : Nat) (toks : List Tok)
    (hS : S self ∨ ∀ t ∈ toks, ∀ tr, t.kind ≠ .classHelp tr) : ∀ {r r' : Run}, RunSim K S r r' →
    RunSim K S (runToks F d p self valId toks r) (runToks F d p self valId toks r') := by
  induction toks with
  | nil => intro r r' h; exact h
  | cons t ts ih =>
    intro r r' h
    simp only [runToks, List.foldl_cons]
    have h1 : S self ∨ ∀ tr, t.kind ≠ .classHelp tr := by
      rcases hS with hS | hS
      · exact Or.inl hS
      · exact Or.inr (hS t (by simp))
    have h2 : S self ∨ ∀ t' ∈ ts, ∀ tr, t'.kind ≠ .classHelp tr := by
      rcases hS with hS | hS
      · exact Or.inl hS
      · exact Or.inr (fun t' ht' => hS t' (by simp [ht']))
    exact ih h2 (tokStep_sim F hF d p self valId t h1 h)

theorem vtoks_no_classHelp (vs : List VTok) : ∀ t ∈ vs.map VTok.toTok, ∀ tr, t.kind ≠ .classHelp tr := by
  intro t ht f
  simp only [List.mem_map] at ht
  obtain ⟨v, _, rfl⟩ := ht
  unfold VTok.toTok
  cases v.kind <;> simp

theorem parseCommon_sim (F : Facts) (hF : F.dkSetInSerialize = true) (d : PDesc) (p : Nat) (valId : Nat) (t : Tail)
    (h : RunSim K S r r') :
    RunSim K S (parseCommon F d p valId t r) (parseCommon F d p valId t r') := by
  unfold parseCommon
  apply live_sim _ h
  intro a a' ha
  split
  · exact halt_sim _ ha
  · have hp : a.w.pending p = a'.w.pending p := by rw [ha.agree.pending]
    rw [← hp]
    cases a.w.pending p with
    | some pd => exact printAndExit_sim F hF d p pd t false ha
    | none => exact withCtx_sim F none _ (fun _ _ hh => validateBody_sim F p valId t _ hh) ha

theorem subCall_sim (F : Facts) (hA : F.argsBeforeParse = true) (hDk : F.dkSetInSerialize = true) (hK : K) (d : PDesc) (p : Nat) (sc : SubCall)
    (h : RunSim K S r r') : RunSim K S (subCall F d p sc r) (subCall F d p sc r') := by
  unfold subCall
  apply live_sim _ h
  intro a a' ha
  simp only [hA, Run.when, if_true]
  -- after `self.args = args` the two runs also agree on the sub-parser's `args`
  have h1 : RunSim K S (a.noteW fun w => .kw w.parseKwargs) (a'.noteW fun w => .kw w.parseKwargs) := by
    apply noteW_sim
    · intro w w' _ hk _
      rw [hk hK]
    · exact ha
  have h2 : RunSim K S
      (if (!F.wiringAtBuildOnly) = true then (a.noteW fun w => .kw w.parseKwargs).upd (setWired p false)
        else a.noteW fun w => .kw w.parseKwargs)
      (if (!F.wiringAtBuildOnly) = true then (a'.noteW fun w => .kw w.parseKwargs).upd (setWired p false)
        else a'.noteW fun w => .kw w.parseKwargs) := by
    split
    · exact upd_sim (respects_setWired p false) h1
    · exact h1
  have h3 := setArgs_sim (PRef.sub p sc.idx) sc.argsId h2
  have h4 : RunSim K (fun s => S s ∨ s = PRef.sub p sc.idx)
      (if F.kwSetAroundParse = true then
        ((if (!F.wiringAtBuildOnly) = true then (a.noteW fun w => .kw w.parseKwargs).upd (setWired p false)
          else a.noteW fun w => .kw w.parseKwargs).upd (setArgs (PRef.sub p sc.idx) sc.argsId)).upd reSetKw
       else
        ((if (!F.wiringAtBuildOnly) = true then (a.noteW fun w => .kw w.parseKwargs).upd (setWired p false)
          else a.noteW fun w => .kw w.parseKwargs).upd (setArgs (PRef.sub p sc.idx) sc.argsId)))
      (if F.kwSetAroundParse = true then
        ((if (!F.wiringAtBuildOnly) = true then (a'.noteW fun w => .kw w.parseKwargs).upd (setWired p false)
          else a'.noteW fun w => .kw w.parseKwargs).upd (setArgs (PRef.sub p sc.idx) sc.argsId)).upd reSetKw
       else
        ((if (!F.wiringAtBuildOnly) = true then (a'.noteW fun w => .kw w.parseKwargs).upd (setWired p false)
          else a'.noteW fun w => .kw w.parseKwargs).upd (setArgs (PRef.sub p sc.idx) sc.argsId))) := by
    split
    · exact upd_sim respects_reSetKw h3
    · exact h3
  have h5 := withCtx_sim (K := K) (S := fun s => S s ∨ s = PRef.sub p sc.idx) F (some true) (some (PRef.sub p sc.idx))
    (body := fun r =>
        runToks F d p (PRef.sub p sc.idx) sc.argsId sc.toks
          (if F.sapSetAroundParse = true then r.upd (setSap (PRef.sub p sc.idx)) else r))
    (by
      intro b b' hb
      apply runToks_sim F hDk d p _ _ _ (Or.inl (Or.inr rfl))
      split
      · exact upd_sim (respects_setSap _) hb
      · exact hb) h4
  have h6 := h5.mono (T := S) (fun s hs => Or.inl hs)
  exact live_sim (fun _ _ hh => haltIf_sim _ _ hh) h6

theorem parseArgsBody_sim (F : Facts) (hA : F.argsBeforeParse = true) (hK : F.kwSetAroundParse = true)
    (hDk : F.dkSetInSerialize = true) (d : PDesc) (p : Nat) (a : Argv) (hS : S (.root p))
    (hag : Agree r.w r'.w) (hargs : ∀ s, S s → r.w.lastArgs s = r'.w.lastArgs s)
    (hi : r.infl = r'.infl) (hs : r.stop = r'.stop) :
    RunSim True S (parseArgsBody F d p a r) (parseArgsBody F d p a r') := by
  unfold parseArgsBody
  simp only [hK, Run.when, if_true]
  -- the write of parse_kwargs makes the two runs agree on it, whatever it held before
  have h0 : RunSim True S (r.upd (setKw a.kw)) (r'.upd (setKw a.kw)) := by
    obtain ⟨h1, h2, h3, h4, h5, h6⟩ := hag
    exact ⟨⟨h1, h2, h3, h4, h5, h6⟩, fun _ => rfl, hargs, hi, hs⟩
  apply parseCommon_sim F hDk
  apply live_sim (fun _ _ hh => haltIf_sim _ _ hh)
  apply withCtx_sim F _ _ _ h0
  intro b b' hb
  have h1 : RunSim True S
      (runToks F d p (.root p) a.id a.toks (if F.sapSetAroundParse = true then b.upd (setSap (.root p)) else b))
      (runToks F d p (.root p) a.id a.toks (if F.sapSetAroundParse = true then b'.upd (setSap (.root p)) else b')) := by
    apply runToks_sim F hDk d p _ _ _ (Or.inl hS)
    split
    · exact upd_sim (respects_setSap _) hb
    · exact hb
  cases a.sub with
  | none => exact h1
  | some sc => exact subCall_sim F hA hDk trivial d p sc h1

end sim

/-! ## restored carriers -/

/-- `r` still has the restored carriers of `r0` (and the `pending` requests of the parsers other than `p`) -/
structure Keep (p : Nat) (r0 r : Run) : Prop where
  lenient : r.w.lenient = r0.w.lenient
  parent : r.w.parentParser = r0.w.parentParser
  linked : r.w.linked = r0.w.linked
  wired : r.w.wired = r0.w.wired
  dc : r.w.dcDefault = r0.w.dcDefault
  pendingOther : ∀ q, q ≠ p → r.w.pending q = r0.w.pending q

theorem Keep.refl (p : Nat) (r : Run) : Keep p r r := ⟨rfl, rfl, rfl, rfl, rfl, fun _ _ => rfl⟩

theorem Keep.trans {p : Nat} {a b c : Run} (h1 : Keep p a b) (h2 : Keep p b c) : Keep p a c :=
  ⟨h2.lenient.trans h1.lenient, h2.parent.trans h1.parent, h2.linked.trans h1.linked, h2.wired.trans h1.wired,
   h2.dc.trans h1.dc, fun q hq => (h2.pendingOther q hq).trans (h1.pendingOther q hq)⟩

/-- additionally the request of parser `p` itself is untouched -/
def KeepP (p : Nat) (r0 r : Run) : Prop := Keep p r0 r ∧ r.w.pending p = r0.w.pending p

theorem KeepP.refl (p : Nat) (r : Run) : KeepP p r r := ⟨Keep.refl p r, rfl⟩
theorem KeepP.trans {p : Nat} {a b c : Run} (h1 : KeepP p a b) (h2 : KeepP p b c) : KeepP p a c :=
  ⟨h1.1.trans h2.1, h2.2.trans h1.2⟩

section keep
variable {p : Nat}

theorem halt_keepP (r : Run) (o : Outcome) : KeepP p r (r.halt o) :=
  ⟨⟨rfl, rfl, rfl, rfl, rfl, fun _ _ => rfl⟩, rfl⟩
theorem haltIf_keepP (r : Run) (c : Bool) (o : Outcome) : KeepP p r (r.haltIf c o) := by
  unfold Run.haltIf
  split
  · exact halt_keepP r o
  · exact KeepP.refl p r
theorem noteW_keepP (r : Run) (g : World → Infl) : KeepP p r (r.noteW g) :=
  ⟨⟨rfl, rfl, rfl, rfl, rfl, fun _ _ => rfl⟩, rfl⟩
theorem when_false_keepP (r : Run) (f : Run → Run) : KeepP p r (r.when false f) := by
  simp only [Run.when, Bool.false_eq_true, if_false]
  exact KeepP.refl p r

theorem when_keepP (r : Run) (c : Bool) {f : Run → Run} (hf : ∀ a, KeepP p a (f a)) : KeepP p r (r.when c f) := by
  unfold Run.when
  split
  · exact hf r
  · exact KeepP.refl p r

theorem when_keep (r : Run) (c : Bool) {f : Run → Run} (hf : ∀ a, Keep p a (f a)) : Keep p r (r.when c f) := by
  unfold Run.when
  split
  · exact hf r
  · exact Keep.refl p r

theorem live_keepP (r : Run) {f : Run → Run} (hf : ∀ a, KeepP p a (f a)) : KeepP p r (r.live f) := by
  unfold Run.live
  cases r.stop with
  | some o => exact KeepP.refl p r
  | none => exact hf r

theorem live_keep (r : Run) {f : Run → Run} (hf : ∀ a, Keep p a (f a)) : Keep p r (r.live f) := by
  unfold Run.live
  cases r.stop with
  | some o => exact Keep.refl p r
  | none => exact hf r

/-- updates of the carriers that are written before they are read -/
theorem upd_volatile_keepP (r : Run) {f : World → World}
    (hf : ∀ w, (f w).lenient = w.lenient ∧ (f w).parentParser = w.parentParser ∧ (f w).linked = w.linked ∧
      (f w).wired = w.wired ∧ (f w).dcDefault = w.dcDefault ∧ (f w).pending = w.pending) : KeepP p r (r.upd f) := by
  obtain ⟨h1, h2, h3, h4, h5, h6⟩ := hf r.w
  exact ⟨⟨h1, h2, h3, h4, h5, fun q _ => by simp [Run.upd, h6]⟩, by simp [Run.upd, h6]⟩

theorem setKw_keepP (r : Run) (v : KW) : KeepP p r (r.upd (setKw v)) :=
  upd_volatile_keepP r (fun _ => ⟨rfl, rfl, rfl, rfl, rfl, rfl⟩)
theorem reSetKw_keepP (r : Run) : KeepP p r (r.upd reSetKw) :=
  upd_volatile_keepP r (fun _ => ⟨rfl, rfl, rfl, rfl, rfl, rfl⟩)
theorem setSap_keepP (r : Run) (v : PRef) : KeepP p r (r.upd (setSap v)) :=
  upd_volatile_keepP r (fun _ => ⟨rfl, rfl, rfl, rfl, rfl, rfl⟩)
theorem setDk_keepP (r : Run) (v : DK) : KeepP p r (r.upd (setDk v)) :=
  upd_volatile_keepP r (fun _ => ⟨rfl, rfl, rfl, rfl, rfl, rfl⟩)
theorem setArgs_keepP (r : Run) (x : PRef) (v : Nat) : KeepP p r (r.upd (setArgs x v)) :=
  upd_volatile_keepP r (fun _ => ⟨rfl, rfl, rfl, rfl, rfl, rfl⟩)
theorem setShtab_keepP (r : Run) (q : Nat) : KeepP p r (r.upd (setShtab q)) :=
  upd_volatile_keepP r (fun _ => ⟨rfl, rfl, rfl, rfl, rfl, rfl⟩)

theorem setPending_keep (r : Run) (v : Option Pending) : Keep p r (r.upd (setPending p v)) :=
  ⟨rfl, rfl, rfl, rfl, rfl, fun q hq => by simp [Run.upd, setPending, setAt, hq]⟩

theorem withCtx_keepP (F : Facts) (hF : F.ctxResetFinally = true) (len : Option Bool) (par : Option PRef)
    {body : Run → Run} (hb : ∀ a, KeepP p a (body a)) (r : Run) : KeepP p r (withCtx F len par body r) := by
  unfold withCtx
  simp only [hF, Bool.or_true, if_true]
  obtain ⟨⟨_, _, h3, h4, h5, h6⟩, h7⟩ := hb (r.upd (enterCtx len par))
  exact ⟨⟨rfl, rfl, h3, h4, h5, h6⟩, h7⟩

theorem withCtx_keep (F : Facts) (hF : F.ctxResetFinally = true) (len : Option Bool) (par : Option PRef)
    {body : Run → Run} (hb : ∀ a, Keep p a (body a)) (r : Run) : Keep p r (withCtx F len par body r) := by
  unfold withCtx
  simp only [hF, Bool.or_true, if_true]
  obtain ⟨_, _, h3, h4, h5, h6⟩ := hb (r.upd (enterCtx len par))
  exact ⟨rfl, rfl, h3, h4, h5, h6⟩

theorem ephParse_keepP (F : Facts) (hF : F.ctxResetFinally = true) (kw : KW) (out : Option Outcome) (r : Run) :
    KeepP p r (ephParse F kw out r) := by
  unfold ephParse
  refine (setKw_keepP r kw).trans (withCtx_keepP F hF _ _ ?_ _)
  intro a
  cases out with
  | none => exact setSap_keepP a _
  | some o => exact (setSap_keepP a _).trans (halt_keepP _ o)

theorem adaptClass_keepP (F : Facts) (hF : F.linkedOnFreshOnly = true) (r : Run) : KeepP p r (adaptClass F p r) := by
  unfold adaptClass
  simp only [hF, Bool.not_true, Run.when, Bool.false_eq_true, if_false]
  exact (noteW_keepP r _).trans (noteW_keepP _ _)

theorem adaptDc_keepP (F : Facts) (hF : F.dcDefaultOnAction = false) (onAction hasPrev : Bool) (valId : Nat) (r : Run) :
    KeepP p r (adaptDc F p onAction hasPrev valId r) := by
  unfold adaptDc
  simp only [hF, Bool.and_false, Run.when, Bool.false_eq_true, if_false]
  refine KeepP.trans ?_ (noteW_keepP _ _)
  split
  · exact noteW_keepP _ _
  · exact KeepP.refl p r

theorem classHelp_keepP (F : Facts) (hC : F.ctxResetFinally = true) (self : PRef) (trailing : Option Bool)
    (err : Outcome) (r : Run) : KeepP p r (classHelp F self trailing err r) := by
  unfold classHelp
  simp only []
  cases trailing with
  | none => exact (noteW_keepP r _).trans (halt_keepP _ _)
  | some b =>
    cases b with
    | true => exact (noteW_keepP r _).trans (ephParse_keepP F hC _ _ _)
    | false => exact ((noteW_keepP r _).trans (ephParse_keepP F hC _ _ _)).trans (halt_keepP _ _)

theorem storeRequest_keep (self : PRef) (f : Flags) (r : Run) : Keep p r (storeRequest p self f r) := by
  unfold storeRequest
  cases self with
  | sub q i => exact (noteW_keepP r _).1.trans (setPending_keep _ _)
  | root q => exact setPending_keep _ _
  | eph => exact setPending_keep _ _

theorem dumpBody_keepP (F : Facts) (dk : DK) (t : Tail) (r : Run) : KeepP p r (dumpBody F p dk t r) := by
  unfold dumpBody
  refine (noteW_keepP r _).trans (when_keepP _ _ ?_)
  intro a
  exact ((when_keepP a _ (fun b => setDk_keepP b dk)).trans (when_keepP _ _ (fun b => noteW_keepP b _))).trans
    (when_keepP _ _ (fun b => setDk_keepP b dk))

theorem dumpFull_keepP (F : Facts) (dk : DK) (sd : Bool) (t : Tail) (fail : Outcome) (r : Run) :
    KeepP p r (dumpFull F p dk sd t fail r) := by
  unfold dumpFull
  refine (dumpBody_keepP F dk t r).trans (when_keepP _ _ ?_)
  intro a
  split
  · exact halt_keepP _ _
  · exact (when_keepP _ _ (fun b => setDk_keepP b _)).trans (haltIf_keepP _ _ _)

theorem printAndExit_keep (F : Facts) (hC : F.ctxResetFinally = true) (d : PDesc) (pd : Pending) (t : Tail) (early : Bool)
    (r : Run) : Keep p r (printAndExit F d p pd t early r) := by
  unfold printAndExit
  simp only []
  refine Keep.trans (withCtx_keepP (p := p) F hC (some true) none ?_ r).1 (live_keep _ ?_)
  · intro a
    split
    · exact halt_keepP _ _
    · exact dumpFull_keepP F _ _ _ _ a
  · intro a
    exact (when_keep _ _ (fun b => setPending_keep b none)).trans (halt_keepP _ _).1

/-- every argv element keeps the restored carriers; only `--print_config` and `--cfg` touch the request of `p` -/
theorem tokStep_keepP (F : Facts) (hC : F.ctxResetFinally = true) (hL : F.linkedOnFreshOnly = true)
    (hD : F.dcDefaultOnAction = false) (d : PDesc) (self : PRef) (valId : Nat) (t : Tok) (r : Run)
    (hpc : t.kind.touchesPending = false) : KeepP p r (tokStep F d p self valId r t) := by
  unfold tokStep
  apply live_keepP
  intro a
  simp only []
  cases hk : t.kind with
  | plain cls =>
    simp only []
    exact (when_keepP a cls (fun b => adaptClass_keepP F hL b)).trans (haltIf_keepP _ _ _)
  | deep =>
    simp only []
    exact (adaptClass_keepP F hL a).trans (ephParse_keepP F hC _ _ _)
  | dc nested onAction hasPrev =>
    simp only []
    split
    · exact (adaptDc_keepP F hD _ _ _ a).trans (ephParse_keepP F hC _ _ _)
    · exact (adaptDc_keepP F hD _ _ _ a).trans (haltIf_keepP _ _ _)
  | printConfig f => simp [hk, TokKind.touchesPending] at hpc
  | cfg b => simp [hk, TokKind.touchesPending] at hpc
  | help => exact halt_keepP _ _
  | classHelp trailing =>
    simp only []
    split
    · exact halt_keepP _ _
    · exact classHelp_keepP F hC self trailing _ a

theorem tokStep_keep (F : Facts) (hC : F.ctxResetFinally = true) (hL : F.linkedOnFreshOnly = true)
    (hD : F.dcDefaultOnAction = false) (d : PDesc) (self : PRef) (valId : Nat) (t : Tok) (r : Run) :
    Keep p r (tokStep F d p self valId r t) := by
  cases hk : t.kind with
  | printConfig f =>
    unfold tokStep
    apply live_keep
    intro a
    simp only [hk]
    split
    · exact (halt_keepP a _).1
    · exact storeRequest_keep self f a
  | cfg b =>
    unfold tokStep
    apply live_keep
    intro a
    simp only [hk]
    split
    · exact (halt_keepP a _).1
    · cases self with
      | root q =>
        cases a.w.pending p with
        | some pd => exact printAndExit_keep F hC d pd _ _ a
        | none => exact Keep.refl p a
      | sub q i => exact Keep.refl p a
      | eph => exact Keep.refl p a
  | plain cls => exact (tokStep_keepP F hC hL hD d self valId t r (by simp [hk, TokKind.touchesPending])).1
  | deep => exact (tokStep_keepP F hC hL hD d self valId t r (by simp [hk, TokKind.touchesPending])).1
  | dc a b c => exact (tokStep_keepP F hC hL hD d self valId t r (by simp [hk, TokKind.touchesPending])).1
  | help => exact (tokStep_keepP F hC hL hD d self valId t r (by simp [hk, TokKind.touchesPending])).1
  | classHelp tr => exact (tokStep_keepP F hC hL hD d self valId t r (by simp [hk, TokKind.touchesPending])).1

theorem runToks_keep (F : Facts) (hC : F.ctxResetFinally = true) (hL : F.linkedOnFreshOnly = true)
    (hD : F.dcDefaultOnAction = false) (d : PDesc) (self : PRef) (valId : Nat) (toks : List Tok) :
    ∀ r, Keep p r (runToks F d p self valId toks r) := by
  induction toks with
  | nil => intro r; exact Keep.refl p r
  | cons t ts ih =>
    intro r
    simp only [runToks, List.foldl_cons]
    exact (tokStep_keep F hC hL hD d self valId t r).trans (ih _)

theorem runToks_keepP (F : Facts) (hC : F.ctxResetFinally = true) (hL : F.linkedOnFreshOnly = true)
    (hD : F.dcDefaultOnAction = false) (d : PDesc) (self : PRef) (valId : Nat) (toks : List Tok)
    (hpc : ∀ t ∈ toks, t.kind.touchesPending = false) :
    ∀ r, KeepP p r (runToks F d p self valId toks r) := by
  induction toks with
  | nil => intro r; exact KeepP.refl p r
  | cons t ts ih =>
    intro r
    simp only [runToks, List.foldl_cons]
    have ht : t.kind.touchesPending = false := hpc t (by simp)
    exact (tokStep_keepP F hC hL hD d self valId t r ht).trans (ih (fun t' ht' => hpc t' (by simp [ht'])) _)

theorem vtoks_no_printConfig (vs : List VTok) : ∀ t ∈ vs.map VTok.toTok, t.kind.touchesPending = false := by
  intro t ht
  simp only [List.mem_map] at ht
  obtain ⟨v, _, rfl⟩ := ht
  unfold VTok.toTok
  cases v.kind <;> simp [TokKind.touchesPending]

theorem revalidate_keepP (F : Facts) (hC : F.ctxResetFinally = true) (hL : F.linkedOnFreshOnly = true)
    (hD : F.dcDefaultOnAction = false)
    (valId : Nat) (t : Tail) (fail : Outcome) (r : Run) : KeepP p r (revalidate F p valId t fail r) := by
  unfold revalidate
  apply withCtx_keepP F hC
  intro a
  exact ((when_keepP a _ (fun b => adaptClass_keepP F hL b)).trans
    (when_keepP _ _ (fun b => adaptDc_keepP F hD _ _ _ b))).trans (haltIf_keepP _ _ _)

theorem validateBody_keepP (F : Facts) (hC : F.ctxResetFinally = true) (hL : F.linkedOnFreshOnly = true)
    (hD : F.dcDefaultOnAction = false)
    (valId : Nat) (t : Tail) (fail : Outcome) (r : Run) : KeepP p r (validateBody F p valId t fail r) := by
  unfold validateBody
  simp only []
  split
  · exact noteW_keepP r _
  · exact (noteW_keepP r _).trans (revalidate_keepP F hC hL hD valId t fail _)

/-- `_parse_common` keeps the restored carriers; it leaves the request of `p` alone when there is none -/
theorem parseCommon_keep (F : Facts) (hC : F.ctxResetFinally = true) (hL : F.linkedOnFreshOnly = true)
    (hD : F.dcDefaultOnAction = false) (d : PDesc) (valId : Nat) (t : Tail) (r : Run) :
    Keep p r (parseCommon F d p valId t r) ∧
      (r.w.pending p = none → (parseCommon F d p valId t r).w.pending p = none) := by
  unfold parseCommon Run.live
  cases r.stop with
  | some o => exact ⟨Keep.refl p r, fun h => h⟩
  | none =>
    simp only []
    split
    · exact ⟨(halt_keepP r _).1, fun h => h⟩
    · cases hpp : r.w.pending p with
      | some pd => exact ⟨printAndExit_keep F hC d pd t false r, fun h => by cases h⟩
      | none =>
        simp only []
        have h1 := withCtx_keepP (p := p) F hC none (some (.root p))
          (fun a => validateBody_keepP F hC hL hD valId t (errOutcome d) a) r
        exact ⟨h1.1, fun _ => by rw [h1.2, hpp]⟩

theorem subCall_keep (F : Facts) (hC : F.ctxResetFinally = true) (hL : F.linkedOnFreshOnly = true)
    (hD : F.dcDefaultOnAction = false) (hW : F.wiringAtBuildOnly = true) (d : PDesc) (sc : SubCall) (r : Run) :
    Keep p r (subCall F d p sc r) := by
  unfold subCall
  apply live_keep
  intro a
  have hw : (!F.wiringAtBuildOnly) = false := by simp [hW]
  simp only [hw]
  refine Keep.trans ?_ (live_keepP _ (fun b => haltIf_keepP b _ _)).1
  refine Keep.trans ?_ (withCtx_keep F hC _ _ ?_ _)
  · exact ((((noteW_keepP a _).trans (when_false_keepP _ _)).trans
      (when_keepP _ _ (fun b => setArgs_keepP b _ _))).trans (when_keepP _ _ (fun b => reSetKw_keepP b))).1
  · intro b
    exact (when_keepP b _ (fun c => setSap_keepP c _)).1.trans (runToks_keep F hC hL hD d _ _ _ _)

theorem parseArgsBody_keep (F : Facts) (hC : F.ctxResetFinally = true) (hL : F.linkedOnFreshOnly = true)
    (hD : F.dcDefaultOnAction = false) (hW : F.wiringAtBuildOnly = true) (d : PDesc) (a : Argv) (r : Run) :
    Keep p r (parseArgsBody F d p a r) := by
  unfold parseArgsBody
  simp only []
  refine Keep.trans ?_ (parseCommon_keep F hC hL hD d a.id a.tail _).1
  refine Keep.trans ?_ (live_keepP _ (fun b => haltIf_keepP b _ _)).1
  refine Keep.trans (when_keepP r _ (fun b => setKw_keepP b _)).1 (withCtx_keep F hC _ _ ?_ _)
  intro b
  have h1 : Keep p b (runToks F d p (.root p) a.id a.toks (b.when F.sapSetAroundParse fun r => r.upd (setSap (.root p)))) :=
    (when_keepP b _ (fun c => setSap_keepP c _)).1.trans (runToks_keep F hC hL hD d _ _ _ _)
  cases a.sub with
  | none => exact h1
  | some sc => exact h1.trans (subCall_keep F hC hL hD hW d sc _)

end keep

end Jap.PState

namespace Jap.PState

/-! ## operations -/

/-- THE INVARIANT (between operations): every carrier that some operation reads before writing it holds the
    value the builder gave it.  The remaining carriers (parseKwargs, subclassArgParser, dumpKwargs, lastArgs,
    shtabAdded) are unconstrained: they are written before they are read, or never read by an answer. -/
structure Inv (D : Nat → PDesc) (w : World) : Prop where
  lenient : w.lenient = false
  parent : w.parentParser = none
  pending : ∀ p, w.pending p = none
  linked : ∀ p, w.linked p = (D p).linked0
  wired : ∀ p, w.wired p = true
  dc : ∀ p, w.dcDefault p = none

/-- "written before read, or not read by any output": the answer of an operation is a function of the carriers
    constrained by the invariant alone -/
def WriteBeforeRead (F : Facts) (D : Nat → PDesc) : Prop :=
  ∀ w w' o, Agree w w' → (step F D w o).2 = (step F D w' o).2

/-- every operation re-establishes the invariant, whether it returns, raises or exits -/
def Restores (F : Facts) (D : Nat → PDesc) : Prop := ∀ w o, Inv D w → Inv D (step F D w o).1

theorem inv_init (D : Nat → PDesc) : Inv D (init D) :=
  ⟨rfl, rfl, fun _ => rfl, fun _ => rfl, fun _ => rfl, fun _ => rfl⟩

theorem agree_of_inv {D : Nat → PDesc} {w w' : World} (h : Inv D w) (h' : Inv D w') : Agree w w' :=
  ⟨by rw [h.lenient, h'.lenient], by rw [h.parent, h'.parent],
   funext fun p => by rw [h.pending p, h'.pending p], funext fun p => by rw [h.linked p, h'.linked p],
   funext fun p => by rw [h.wired p, h'.wired p], funext fun p => by rw [h.dc p, h'.dc p]⟩

theorem start_sim {w w' : World} (h : Agree w w') : RunSim False (fun _ => False) { w := w } { w := w' } :=
  ⟨h, fun k => k.elim, fun _ k => k.elim, rfl, rfl⟩

theorem finish_congr {K : Prop} {S : PRef → Prop} {r r' : Run} (h : RunSim K S r r') : (finish r).2 = (finish r').2 := by
  simp [finish, h.infl, h.stop]

theorem sound_cases {F : Facts} (h : Sound F = true) :
    F.finallyPops = true ∧ F.ctxResetFinally = true ∧ F.argsBeforeParse = true ∧ F.kwSetAroundParse = true ∧
    F.sapSetAroundParse = true ∧ F.dkSetInSerialize = true ∧ F.dcDefaultOnAction = false ∧
    F.linkedOnFreshOnly = true ∧ F.wiringAtBuildOnly = true := by
  simp only [Sound, Bool.and_eq_true, Bool.not_eq_true'] at h
  obtain ⟨⟨⟨⟨⟨⟨⟨⟨h1, h2⟩, h3⟩, h4⟩, h5⟩, h6⟩, h7⟩, h8⟩, h9⟩ := h
  exact ⟨h1, h2, h3, h4, h5, h6, h7, h8, h9⟩

theorem parseArgs_congr (F : Facts) (hF : Sound F = true) (d : PDesc) (p : Nat) (a : Argv) {w w' : World}
    (h : Agree w w') : (parseArgs F d p a w).2 = (parseArgs F d p a w').2 := by
  obtain ⟨_, _, hA, hK, _, hDk, _, _, _⟩ := sound_cases hF
  unfold parseArgs
  simp only []
  apply finish_congr (K := True) (S := fun s => False ∨ s = PRef.root p)
  apply when_sim _ (fun _ _ hh => upd_sim (respects_setPending p none) hh)
  apply when_sim _ (fun _ _ hh => upd_sim (respects_setArgs (PRef.root p) a.id) hh)
  have h1 : RunSim False (fun _ => False) (({ w := w } : Run).when d.shtab fun r => r.upd (setShtab p))
      (({ w := w' } : Run).when d.shtab fun r => r.upd (setShtab p)) :=
    when_sim _ (fun _ _ hh => upd_sim (respects_setShtab p) hh) (start_sim h)
  rw [hA]
  simp only [Run.when, if_true]
  have h2 := setArgs_sim (PRef.root p) a.id h1
  exact parseArgsBody_sim F hA hK hDk d p a (Or.inr rfl) h2.agree h2.args h2.infl h2.stop

theorem parseOther_congr (F : Facts) (hF : Sound F = true) (d : PDesc) (p : Nat) (i : Input) {w w' : World}
    (h : Agree w w') : (parseOther F d p i w).2 = (parseOther F d p i w').2 := by
  obtain ⟨_, _, _, _, _, hDk, _, _, _⟩ := sound_cases hF
  unfold parseOther
  simp only []
  apply finish_congr (K := False) (S := fun _ => False)
  apply parseCommon_sim F hDk
  apply live_sim
  · intro a a' ha
    -- nothing in a non-argv input reads `parser.args`
    exact withCtx_sim F _ _ (fun _ _ hh => runToks_sim F hDk d p _ _ _ (Or.inr (vtoks_no_classHelp i.toks)) hh) ha
  · exact haltIf_sim _ _ (start_sim h)

theorem dumpOp_congr (F : Facts) (hF : Sound F = true) (p : Nat) (c : CfgArg) (dk : DK) (sd : Bool) {w w' : World}
    (h : Agree w w') : (dumpOp F p c dk sd w).2 = (dumpOp F p c dk sd w').2 := by
  obtain ⟨_, _, _, _, _, hDk, _, _, _⟩ := sound_cases hF
  unfold dumpOp
  simp only []
  apply finish_congr (K := False) (S := fun _ => False)
  apply live_sim
  · intro a a' ha
    exact live_sim (fun _ _ hh => haltIf_sim _ _ hh) (dumpFull_sim F hDk p dk sd c.tail _ ha)
  · exact live_sim (fun _ _ hh => when_sim _ (fun _ _ hh2 => validateBody_sim F p _ _ _ hh2) hh) (haltIf_sim _ _ (start_sim h))

theorem validateOp_congr (F : Facts) (p : Nat) (c : CfgArg) {w w' : World}
    (h : Agree w w') : (validateOp F p c w).2 = (validateOp F p c w').2 := by
  unfold validateOp
  exact finish_congr (validateBody_sim F p _ _ _ (start_sim h))

theorem instantiateOp_congr (F : Facts) (p : Nat) (c : CfgArg) {w w' : World}
    (h : Agree w w') : (instantiateOp F p c w).2 = (instantiateOp F p c w').2 := by
  unfold instantiateOp
  apply finish_congr (K := False) (S := fun _ => False)
  apply withCtx_sim F _ _ _ (start_sim h)
  intro a a' ha
  exact haltIf_sim _ _ (when_sim _ (fun _ _ hh => adaptDc_sim F p _ _ _ hh) (when_sim _ (fun _ _ hh => adaptClass_sim F p hh) ha))

theorem write_before_read (F : Facts) (hF : Sound F = true) (D : Nat → PDesc) : WriteBeforeRead F D := by
  intro w w' o h
  obtain ⟨p, op⟩ := o
  cases op with
  | parseArgs a => exact parseArgs_congr F hF (D p) p a h
  | parseOther i => exact parseOther_congr F hF (D p) p i h
  | getDefaults => rfl
  | dump c dk sd => exact dumpOp_congr F hF p c dk sd h
  | validate c => exact validateOp_congr F p c h
  | instantiate c => exact instantiateOp_congr F p c h
  | formatHelp => rfl

/-! ### the invariant is re-established -/

theorem when_true (r : Run) (f : Run → Run) : r.when true f = f r := rfl

theorem inv_of_keep {D : Nat → PDesc} {w : World} {p : Nat} {r0 r : Run} (hw : Inv D w) (h0 : r0.w = w)
    (hk : Keep p r0 r) (hp : r.w.pending p = none) : Inv D r.w := by
  obtain ⟨k1, k2, k3, k4, k5, k6⟩ := hk
  rw [h0] at k1 k2 k3 k4 k5 k6
  refine ⟨by rw [k1, hw.lenient], by rw [k2, hw.parent], ?_, fun q => by rw [k3, hw.linked q],
    fun q => by rw [k4, hw.wired q], fun q => by rw [k5, hw.dc q]⟩
  intro q
  by_cases hq : q = p
  · rw [hq, hp]
  · rw [k6 q hq, hw.pending q]

theorem parseArgs_restores (F : Facts) (hF : Sound F = true) (D : Nat → PDesc) (p : Nat) (a : Argv) {w : World}
    (hw : Inv D w) : Inv D (parseArgs F (D p) p a w).1 := by
  obtain ⟨hP, hC, _, _, _, _, hD, hL, hW⟩ := sound_cases hF
  unfold parseArgs
  simp only [finish]
  rw [hP, when_true]
  have h1 : Keep p ({ w := w } : Run)
      (parseArgsBody F (D p) p a
        ((({ w := w } : Run).when (D p).shtab fun r => r.upd (setShtab p)).when F.argsBeforeParse
          fun r => r.upd (setArgs (.root p) a.id))) := by
    refine Keep.trans ?_ (parseArgsBody_keep F hC hL hD hW (D p) a _)
    exact ((when_keepP _ _ (fun b => setShtab_keepP b p)).trans (when_keepP _ _ (fun b => setArgs_keepP b _ _))).1
  have h2 := (h1.trans (when_keepP _ (!F.argsBeforeParse) (fun b => setArgs_keepP b (.root p) a.id)).1).trans (setPending_keep _ none)
  exact inv_of_keep hw rfl h2 (by simp [Run.upd, setPending, setAt])

theorem parseOther_restores (F : Facts) (hF : Sound F = true) (D : Nat → PDesc) (p : Nat) (i : Input) {w : World}
    (hw : Inv D w) : Inv D (parseOther F (D p) p i w).1 := by
  obtain ⟨_, hC, _, _, _, _, hD, hL, _⟩ := sound_cases hF
  unfold parseOther
  simp only [finish]
  have h1 : KeepP p ({ w := w } : Run)
      ((({ w := w } : Run).haltIf i.loadFails (errOutcome (D p))).live fun r =>
        withCtx F (some true) (some (.root p)) (runToks F (D p) p (.root p) i.id (i.toks.map VTok.toTok)) r) := by
    refine (haltIf_keepP _ _ _).trans (live_keepP _ ?_)
    intro a
    exact withCtx_keepP F hC _ _ (fun b => runToks_keepP F hC hL hD (D p) _ _ _ (vtoks_no_printConfig i.toks) b) a
  have h2 := parseCommon_keep (p := p) F hC hL hD (D p) i.id i.tail
    ((({ w := w } : Run).haltIf i.loadFails (errOutcome (D p))).live fun r =>
        withCtx F (some true) (some (.root p)) (runToks F (D p) p (.root p) i.id (i.toks.map VTok.toTok)) r)
  have hp : ((({ w := w } : Run).haltIf i.loadFails (errOutcome (D p))).live fun r =>
        withCtx F (some true) (some (.root p)) (runToks F (D p) p (.root p) i.id (i.toks.map VTok.toTok)) r).w.pending p = none := by
    rw [h1.2]
    exact hw.pending p
  exact inv_of_keep hw rfl (h1.1.trans h2.1) (h2.2 hp)

theorem inv_of_keepP {D : Nat → PDesc} {w : World} {p : Nat} {r : Run} (hw : Inv D w)
    (hk : KeepP p ({ w := w } : Run) r) : Inv D r.w :=
  inv_of_keep hw rfl hk.1 (by rw [hk.2]; exact hw.pending p)

theorem dumpOp_restores (F : Facts) (hF : Sound F = true) (D : Nat → PDesc) (p : Nat) (c : CfgArg) (dk : DK) (sd : Bool) {w : World}
    (hw : Inv D w) : Inv D (dumpOp F p c dk sd w).1 := by
  obtain ⟨_, hC, _, _, _, _, hD, hL, _⟩ := sound_cases hF
  unfold dumpOp
  simp only [finish]
  apply inv_of_keepP (p := p) hw
  exact ((haltIf_keepP _ _ _).trans (live_keepP _ (fun e => when_keepP e _ (fun b => validateBody_keepP F hC hL hD _ _ _ b)))).trans
    (live_keepP _ (fun b => (dumpFull_keepP F dk sd c.tail _ b).trans (live_keepP _ (fun e => haltIf_keepP e _ _))))

theorem validateOp_restores (F : Facts) (hF : Sound F = true) (D : Nat → PDesc) (p : Nat) (c : CfgArg) {w : World}
    (hw : Inv D w) : Inv D (validateOp F p c w).1 := by
  obtain ⟨_, hC, _, _, _, _, hD, hL, _⟩ := sound_cases hF
  unfold validateOp
  simp only [finish]
  exact inv_of_keepP (p := p) hw (validateBody_keepP F hC hL hD _ _ _ _)

theorem instantiateOp_restores (F : Facts) (hF : Sound F = true) (D : Nat → PDesc) (p : Nat) (c : CfgArg) {w : World}
    (hw : Inv D w) : Inv D (instantiateOp F p c w).1 := by
  obtain ⟨_, hC, _, _, _, _, hD, hL, _⟩ := sound_cases hF
  unfold instantiateOp
  simp only [finish]
  apply inv_of_keepP (p := p) hw
  apply withCtx_keepP F hC
  intro a
  exact ((when_keepP a _ (fun b => adaptClass_keepP F hL b)).trans (when_keepP _ _ (fun b => adaptDc_keepP F hD _ _ _ b))).trans
    (haltIf_keepP _ _ _)

theorem restores (F : Facts) (hF : Sound F = true) (D : Nat → PDesc) : Restores F D := by
  intro w o hw
  obtain ⟨p, op⟩ := o
  cases op with
  | parseArgs a => exact parseArgs_restores F hF D p a hw
  | parseOther i => exact parseOther_restores F hF D p i hw
  | getDefaults => exact hw
  | dump c dk sd => exact dumpOp_restores F hF D p c dk sd hw
  | validate c => exact validateOp_restores F hF D p c hw
  | instantiate c => exact instantiateOp_restores F hF D p c hw
  | formatHelp => exact hw

/-- the invariant holds after every history -/
theorem inv_runHist (F : Facts) (D : Nat → PDesc) (hr : Restores F D) (hist : List (Nat × Op)) :
    ∀ w, Inv D w → Inv D (runHist F D hist w) := by
  induction hist with
  | nil => intro w hw; exact hw
  | cons o os ih =>
    intro w hw
    simp only [runHist, List.foldl_cons]
    exact ih _ (hr w o hw)

/-- the invariant implies the claim -/
theorem history_independent_of_invariant (F : Facts) (D : Nat → PDesc) (hwbr : WriteBeforeRead F D)
    (hr : Restores F D) (hist : List (Nat × Op)) (op : Nat × Op) :
    (step F D (runHist F D hist (init D)) op).2 = (step F D (init D) op).2 :=
  hwbr _ _ op (agree_of_inv (inv_runHist F D hr hist _ (inv_init D)) (inv_init D))

end Jap.PState

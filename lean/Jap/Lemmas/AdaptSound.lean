/-
Soundness of the adapter model with respect to the validator `confL` (all four strictness settings at once),
hashability of the outputs of hashable element types, and "a conforming value is accepted".
-/
import Jap.Lemmas.Adapt
namespace Jap.Adapt

/-! ### predicates used as hypotheses -/

def Lit.isStr : Lit → Bool | .str _ => true | _ => false

mutual
/-- every `Literal` in the type has only string members -/
def litStrOnly : Ty → Bool
  | .literal ls => ls.all Lit.isStr
  | .union ts => litStrOnlyAll ts
  | .list t => litStrOnly t
  | .tupleVar t => litStrOnly t
  | .set t => litStrOnly t
  | .dict _ t => litStrOnly t
  | .tuple ts => litStrOnlyAll ts
  | _ => true
def litStrOnlyAll : List Ty → Bool
  | [] => true
  | t :: ts => litStrOnly t && litStrOnlyAll ts
end

def DKey.isStr : DKey → Bool | .str _ => true | _ => false
def DKey.isInt : DKey → Bool | .int _ => true | _ => false

mutual
/-- every dictionary key in the value is a string (what JSON can express) -/
def strKeys : Val → Bool
  | .list xs => strKeysAll xs
  | .tuple xs => strKeysAll xs
  | .set xs => strKeysAll xs
  | .dict kvs => strKeysKvs kvs
  | _ => true
def strKeysAll : List Val → Bool
  | [] => true
  | x :: xs => strKeys x && strKeysAll xs
def strKeysKvs : List (DKey × Val) → Bool
  | [] => true
  | (k, x) :: r => k.isStr && strKeys x && strKeysKvs r
end

mutual
/-- element types whose adapted values are always hashable -/
def hashTy : Ty → Bool
  | .str | .int | .float | .bool | .none => true
  | .literal _ => true
  | .enum _ _ => true
  | .rnum _ _ => true
  | .reg _ => true
  | .tuple ts => hashTyAll ts
  | .tupleVar t => hashTy t
  | .union ts => hashTyAll ts
  | _ => false
def hashTyAll : List Ty → Bool
  | [] => true
  | t :: ts => hashTy t && hashTyAll ts
end

mutual
/-- every `Set[...]` in the type has such an element type (restricted types are allowed: `Conforms` includes their
    predicate) -/
def setSafe : Ty → Bool
  | .set t => hashTy t && setSafe t
  | .union ts => setSafeAll ts
  | .list t => setSafe t
  | .tupleVar t => setSafe t
  | .dict _ t => setSafe t
  | .tuple ts => setSafeAll ts
  | _ => true
def setSafeAll : List Ty → Bool
  | [] => true
  | t :: ts => setSafe t && setSafeAll ts
end

theorem litStrOnlyAll_mem {ts : List Ty} (h : litStrOnlyAll ts = true) : ∀ t ∈ ts, litStrOnly t = true := by
  induction ts with
  | nil => simp
  | cons a as ih =>
    simp only [litStrOnlyAll, Bool.and_eq_true] at h
    intro t ht
    rcases List.mem_cons.mp ht with rfl | ht
    · exact h.1
    · exact ih h.2 t ht

theorem hashTyAll_mem {ts : List Ty} (h : hashTyAll ts = true) : ∀ t ∈ ts, hashTy t = true := by
  induction ts with
  | nil => simp
  | cons a as ih =>
    simp only [hashTyAll, Bool.and_eq_true] at h
    intro t ht
    rcases List.mem_cons.mp ht with rfl | ht
    · exact h.1
    · exact ih h.2 t ht

theorem setSafeAll_mem {ts : List Ty} (h : setSafeAll ts = true) : ∀ t ∈ ts, setSafe t = true := by
  induction ts with
  | nil => simp
  | cons a as ih =>
    simp only [setSafeAll, Bool.and_eq_true] at h
    intro t ht
    rcases List.mem_cons.mp ht with rfl | ht
    · exact h.1
    · exact ih h.2 t ht

theorem strKeysAll_mem {xs : List Val} (h : strKeysAll xs = true) : ∀ x ∈ xs, strKeys x = true := by
  induction xs with
  | nil => simp
  | cons a as ih =>
    simp only [strKeysAll, Bool.and_eq_true] at h
    intro t ht
    rcases List.mem_cons.mp ht with rfl | ht
    · exact h.1
    · exact ih h.2 t ht

theorem strKeysKvs_mem {kvs : List (DKey × Val)} (h : strKeysKvs kvs = true) :
    ∀ kv ∈ kvs, kv.1.isStr = true ∧ strKeys kv.2 = true := by
  induction kvs with
  | nil => simp
  | cons a as ih =>
    obtain ⟨k, x⟩ := a
    simp only [strKeysKvs, Bool.and_eq_true] at h
    intro t ht
    rcases List.mem_cons.mp ht with rfl | ht
    · exact ⟨h.1.1, h.1.2⟩
    · exact ih h.2 t ht

theorem strKeys_seqItems {v : Val} {xs : List Val} (h : seqItems v = some xs) (hk : strKeys v = true) : strKeysAll xs = true := by
  cases v <;> simp [seqItems] at h <;> (subst h; simpa [strKeys] using hk)

/-! ### the validator on lists -/

variable {P : Nat → Val → Bool}

theorem confLAny_iff (ll lk : Bool) (v : Val) : ∀ ts : List Ty,
    confLAny P ll lk ts v = true ↔ ∃ t ∈ ts, confL P ll lk t v = true
  | [] => by simp [confLAny]
  | t :: ts => by simp [confLAny, confLAny_iff ll lk v ts]

theorem F2.forall_right {α β : Type} {R : α → β → Prop} {P : β → Prop} {xs : List α} {ys : List β}
    (h : F2 R xs ys) (hp : ∀ x ∈ xs, ∀ y, R x y → P y) : ∀ y ∈ ys, P y := by
  induction h with
  | nil => simp
  | @cons a b as bs hab _ ih =>
    intro y hy
    rcases List.mem_cons.mp hy with rfl | hy
    · exact hp a List.mem_cons_self _ hab
    · exact ih (fun x hx => hp x (List.mem_cons_of_mem _ hx)) y hy

/-! ### `set(...)` keeps a sub-list -/

theorem mem_setInsert {acc : List Val} {y x : Val} (h : x ∈ setInsert acc y) : x ∈ acc ∨ x = y := by
  unfold setInsert at h
  split at h
  · exact Or.inl h
  · simpa using h

theorem mem_foldl_setInsert : ∀ (ys acc : List Val) (x : Val), x ∈ ys.foldl setInsert acc → x ∈ acc ∨ x ∈ ys
  | [], acc, x, h => Or.inl (by simpa using h)
  | y :: ys, acc, x, h => by
    simp only [List.foldl_cons] at h
    rcases mem_foldl_setInsert ys _ x h with h | h
    · rcases mem_setInsert h with h | rfl
      · exact Or.inl h
      · exact Or.inr List.mem_cons_self
    · exact Or.inr (List.mem_cons_of_mem _ h)

theorem mem_pySet {ys : List Val} {x : Val} (h : x ∈ pySet ys) : x ∈ ys := by
  rcases mem_foldl_setInsert ys [] x h with h | h
  · simp at h
  · exact h

/-! ### `castKeys` -/

theorem mem_dictInsert {k : DKey} {v : Val} : ∀ {l : List (DKey × Val)} {kv : DKey × Val},
    kv ∈ dictInsert k v l → kv ∈ l ∨ kv.2 = v ∧ (kv.1 = k ∨ ∃ kv0 ∈ l, kv.1 = kv0.1)
  | [], kv, h => by simp [dictInsert] at h; subst h; simp
  | (k', v') :: r, kv, h => by
    simp only [dictInsert] at h
    split at h
    · rcases List.mem_cons.mp h with rfl | h
      · exact Or.inr ⟨rfl, Or.inr ⟨(k', v'), List.mem_cons_self, rfl⟩⟩
      · exact Or.inl (List.mem_cons_of_mem _ h)
    · rcases List.mem_cons.mp h with rfl | h
      · exact Or.inl List.mem_cons_self
      · rcases mem_dictInsert h with h | ⟨h1, h2⟩
        · exact Or.inl (List.mem_cons_of_mem _ h)
        · refine Or.inr ⟨h1, ?_⟩
          rcases h2 with h2 | ⟨kv0, hm, he⟩
          · exact Or.inl h2
          · exact Or.inr ⟨kv0, List.mem_cons_of_mem _ hm, he⟩

/-- after the cast every key is an `int` key (deserialising) and every value is one of the given values -/
theorem castKeys_spec (O : Oracle) : ∀ (kvs acc r : List (DKey × Val)),
    castKeys O false kvs acc = .ok r → (∀ kv ∈ acc, kv.1.isInt = true) →
    ∀ kv ∈ r, kv.1.isInt = true ∧ (kv ∈ acc ∨ ∃ kv0 ∈ kvs, kv.2 = kv0.2)
  | [], acc, r, h, hacc => by
    simp [castKeys] at h; subst h
    intro kv hkv; exact ⟨hacc kv hkv, Or.inl hkv⟩
  | (k, v) :: rest, acc, r, h, hacc => by
    simp only [castKeys, Bool.false_eq_true, if_false] at h
    have step : ∀ i : Int, castKeys O false rest (dictInsert (.int i) v acc) = .ok r →
        ∀ kv ∈ r, kv.1.isInt = true ∧ (kv ∈ acc ∨ ∃ kv0 ∈ (k, v) :: rest, kv.2 = kv0.2) := by
      intro i h kv hkv
      have hacc' : ∀ kv ∈ dictInsert (.int i) v acc, kv.1.isInt = true := by
        intro kv hkv
        rcases mem_dictInsert hkv with h | ⟨_, h | ⟨kv0, hm, he⟩⟩
        · exact hacc kv h
        · rw [h]; rfl
        · rw [he]; exact hacc kv0 hm
      obtain ⟨h1, h2⟩ := castKeys_spec O rest _ r h hacc' kv hkv
      refine ⟨h1, ?_⟩
      rcases h2 with h2 | ⟨kv0, hm, he⟩
      · rcases mem_dictInsert h2 with h | ⟨h, _⟩
        · exact Or.inl h
        · exact Or.inr ⟨(k, v), List.mem_cons_self, h⟩
      · exact Or.inr ⟨kv0, List.mem_cons_of_mem _ hm, he⟩
    cases k with
    | int i => exact step i h
    | str s =>
      simp only at h
      cases hi : O.intOf s with
      | none => simp [hi] at h
      | some i => simp only [hi] at h; exact step i h

/-- on `int` keys the cast never fails -/
theorem castKeys_int_ok (O : Oracle) : ∀ (kvs acc : List (DKey × Val)), (∀ kv ∈ kvs, kv.1.isInt = true) →
    ∃ r, castKeys O false kvs acc = .ok r
  | [], acc, _ => ⟨acc, rfl⟩
  | (k, v) :: rest, acc, h => by
    have hk := h (k, v) List.mem_cons_self
    cases k with
    | str s => simp [DKey.isInt] at hk
    | int i =>
      simp only [castKeys, Bool.false_eq_true, if_false]
      exact castKeys_int_ok O rest _ (fun kv hkv => h kv (List.mem_cons_of_mem _ hkv))

/-! ### leaf / literal / enum outputs -/

theorem adaptLeaf_conf (O : Oracle) (ll lk : Bool) (l : Leaf) (v w : Val) (h : adaptLeaf O l v = .ok w) :
    confL P ll lk (match l with | .str => Ty.str | .int => .int | .float => .float | .bool => .bool | .none => .none) w = true := by
  cases l <;> simp only [adaptLeaf] at h
  · cases v <;> simp at h; subst h; simp [confL]
  · split at h <;> simp at h; subst h; simp [confL]
  · have h' : adaptLeaf O .float v = .ok w := by simpa only [adaptLeaf] using h
    obtain ⟨r, rfl, _⟩ := adaptLeaf_float_ok O v w h'
    simp [confL]
  · split at h <;> simp at h; subst h; simp [confL]
  · split at h <;> simp at h; subst h; simp [confL]

theorem adaptLeaf_hashable (O : Oracle) (l : Leaf) (v w : Val) (h : adaptLeaf O l v = .ok w) : hashable w = true := by
  cases l <;> simp only [adaptLeaf] at h
  · cases v <;> simp at h; subst h; simp [hashable]
  · split at h <;> simp at h; subst h; simp [hashable]
  · have h' : adaptLeaf O .float v = .ok w := by simpa only [adaptLeaf] using h
    obtain ⟨r, rfl, _⟩ := adaptLeaf_float_ok O v w h'
    simp [hashable]
  · split at h <;> simp at h; subst h; simp [hashable]
  · split at h <;> simp at h; subst h; simp [hashable]

theorem adaptLiteral_litMem (O : Oracle) (ls : List Lit) (v w : Val) (h : adaptLiteral O ls v = .ok w) : litMem ls w = true := by
  unfold adaptLiteral at h
  simp only at h
  split at h
  · simp at h
  · rename_i v1 _
    split at h
    · simp at h; subst h; assumption
    · simp at h

theorem pyEq_lit_hashable (l : Lit) (w : Val) (h : pyEq l.toVal w = true) : hashable w = true := by
  cases l <;> cases w <;> simp [Lit.toVal, pyEq, numOf, hashable] at h ⊢

theorem litMem_hashable (ls : List Lit) (w : Val) (h : litMem ls w = true) : hashable w = true := by
  simp only [litMem, List.any_eq_true] at h
  obtain ⟨l, _, hl⟩ := h
  exact pyEq_lit_hashable l w hl

theorem pyEq_strlit_same (l : Lit) (w : Val) (hs : l.isStr = true) (h : pyEq l.toVal w = true) : l.same w = true := by
  cases l <;> simp [Lit.isStr] at hs
  cases w <;> simp [Lit.toVal, pyEq, Lit.same] at h ⊢
  exact h

theorem litMem_conf (ll lk : Bool) (ls : List Lit) (w : Val) (hl : ll = false → ls.all Lit.isStr = true)
    (h : litMem ls w = true) : confL P ll lk (.literal ls) w = true := by
  simp only [confL]
  cases ll with
  | true => simpa [litLoose, litMem] using h
  | false =>
    have hs := hl rfl
    simp only [litMem, List.any_eq_true] at h
    obtain ⟨l, hm, hl⟩ := h
    simp only [Bool.false_eq_true, if_false, List.any_eq_true]
    exact ⟨l, hm, pyEq_strlit_same l w (List.all_eq_true.mp hs l hm) hl⟩

theorem adaptEnum_conf (ll lk : Bool) (c : Nat) (ms : List String) (v w : Val) (h : adaptEnum false c ms v = .ok w) :
    confL P ll lk (.enum c ms) w = true := by
  unfold adaptEnum at h
  simp only [Bool.false_eq_true, if_false] at h
  cases v with
  | str s =>
    simp only at h
    split at h <;> simp at h
    subst h; rename_i hs; simp [confL, hs]
  | enum c' n =>
    simp only at h
    split at h <;> simp at h
    subst h; rename_i hn; obtain ⟨rfl, hn⟩ := hn; simp [confL, hn]
  | tuple xs => simp only at h; split at h <;> simp at h
  | _ => simp at h

theorem adaptEnum_hashable (c : Nat) (ms : List String) (v w : Val) (h : adaptEnum false c ms v = .ok w) :
    hashable w = true := by
  unfold adaptEnum at h
  simp only [Bool.false_eq_true, if_false] at h
  cases v with
  | str s =>
    simp only at h
    split at h <;> simp at h
    subst h; simp [hashable]
  | enum c' n =>
    simp only at h
    split at h <;> simp at h
    subst h; simp [hashable]
  | tuple xs => simp only at h; split at h <;> simp at h
  | _ => simp at h

/-! ### soundness, all strictness settings at once -/

theorem adaptZip_F2 (O : Oracle) (ser : Bool) : ∀ (ts : List Ty) (xs ys : List Val),
    adaptZip O ser ts xs = .ok ys → F2 (fun (tx : Ty × Val) y => adapt O ser .none tx.1 tx.2 = .ok y) (ts.zip xs) ys ∧ xs.length = ts.length
  | [], [], ys, h => by simp [adaptZip] at h; subst h; exact ⟨.nil, rfl⟩
  | [], _ :: _, ys, h => by simp [adaptZip] at h
  | _ :: _, [], ys, h => by simp [adaptZip] at h
  | t :: ts, x :: xs, ys, h => by
    simp only [adaptZip] at h
    cases hx : adapt O ser .none t x with
    | error e => simp [hx] at h
    | ok y =>
      cases hxs : adaptZip O ser ts xs with
      | error e => simp [hx, hxs] at h
      | ok ys' =>
        simp [hx, hxs] at h; subst h
        obtain ⟨h1, h2⟩ := adaptZip_F2 O ser ts xs ys' hxs
        exact ⟨.cons hx h1, by simp [h2]⟩

theorem confLZip_of_F2 (ll lk : Bool) : ∀ (ts : List Ty) (xs ys : List Val), xs.length = ts.length →
    F2 (fun (tx : Ty × Val) y => confL P ll lk tx.1 y = true) (ts.zip xs) ys → confLZip P ll lk ts ys = true
  | [], [], ys, _, h => by cases h; simp [confLZip]
  | [], _ :: _, _, hl, _ => by simp at hl
  | _ :: _, [], _, hl, _ => by simp at hl
  | t :: ts, x :: xs, ys, hl, h => by
    simp only [List.zip_cons_cons] at h
    cases h with
    | cons h1 h2 =>
      simp only [confLZip, Bool.and_eq_true]
      exact ⟨h1, confLZip_of_F2 ll lk ts xs _ (by simpa using hl) h2⟩

theorem F2.imp {α β : Type} {R S : α → β → Prop} {xs : List α} {ys : List β} (h : F2 R xs ys)
    (hi : ∀ x ∈ xs, ∀ y, R x y → S x y) : F2 S xs ys := by
  induction h with
  | nil => exact .nil
  | @cons a b as bs hab _ ih =>
    exact .cons (hi a List.mem_cons_self b hab) (ih (fun x hx => hi x (List.mem_cons_of_mem _ hx)))

/-- **soundness**: whatever `adapt` returns conforms to the hint — for the validator `confL O.rnumOk ll lk`, where the
    strict Literal check needs `litStrOnly t` and the strict key check needs `strKeys v` -/
theorem sound_gen (O : Oracle) (ll lk : Bool) : ∀ (t : Ty) (orig : Option String) (v w : Val),
    (ll = false → litStrOnly t = true) → (lk = false → strKeys v = true) →
    adapt O false orig t v = .ok w → confL O.rnumOk ll lk t w = true
  | .any, orig, v, w, _, _, h => by simp [confL]
  | .literal ls, orig, v, w, hl, _, h => by
    rw [adapt] at h
    exact litMem_conf ll lk ls w (fun e => by simpa [litStrOnly] using hl e) (adaptLiteral_litMem O ls v w h)
  | .str, orig, v, w, _, _, h => by rw [adapt] at h; exact adaptLeaf_conf O ll lk .str v w h
  | .int, orig, v, w, _, _, h => by rw [adapt] at h; exact adaptLeaf_conf O ll lk .int v w h
  | .float, orig, v, w, _, _, h => by rw [adapt] at h; exact adaptLeaf_conf O ll lk .float v w h
  | .bool, orig, v, w, _, _, h => by rw [adapt] at h; exact adaptLeaf_conf O ll lk .bool v w h
  | .none, orig, v, w, _, _, h => by rw [adapt] at h; exact adaptLeaf_conf O ll lk .none v w h
  | .enum c ms, orig, v, w, _, _, h => by rw [adapt] at h; exact adaptEnum_conf ll lk c ms v w h
  | .rnum b k, orig, v, w, _, _, h => by
    rw [adapt] at h
    have := (adaptRnum_ok O b k v w h).1
    have hp := (adaptRnum_ok O b k v w h).2.1
    cases b <;> cases w <;> simp [RBase.has] at this <;> simp [confL, hp]
  | .reg k, orig, v, w, _, _, h => by
    rw [adapt] at h
    obtain ⟨r, rfl⟩ := adaptReg_ok O k v w h
    simp [confL]
  | .union ts, orig, v, w, hl, hk, h => by
    rw [adapt_union_eq] at h
    simp only [confL, confLAny_iff]
    split at h
    · rename_i w' hf
      simp at h; subst h
      obtain ⟨t, ht, hw⟩ := List.exists_of_findSome?_eq_some hf
      have htm := (mem_sortedMembers v ts t).mp ht
      have hlt : sizeOf t < sizeOf ts := List.sizeOf_lt_of_mem htm
      refine ⟨t, htm, sound_gen O ll lk t orig v w' (fun e => litStrOnlyAll_mem (by simpa [litStrOnly] using hl e) t htm) hk (okOf_eq_some.mp hw)⟩
    · split at h
      · rename_i hr
        cases orig with
        | none => simp at h
        | some o =>
          simp at h; subst h
          simp only [rescued, Bool.and_eq_true, List.any_eq_true] at hr
          obtain ⟨t, ht, hs⟩ := hr.2
          refine ⟨t, ht, ?_⟩
          cases t <;> simp [isStrTy] at hs
          simp [confL]
      · simp at h
  | .tuple ts, orig, v, w, hl, hk, h => by
    rw [adapt] at h
    cases hs : seqItems v with
    | none => simp [hs] at h
    | some xs =>
      simp only [hs] at h
      split at h
      · simp at h
      · cases hz : adaptZip O false ts xs with
        | error e => simp [hz] at h
        | ok ys =>
          simp [hz] at h; subst h
          obtain ⟨hf, hlen⟩ := adaptZip_F2 O false ts xs ys hz
          simp only [confL]
          refine confLZip_of_F2 ll lk ts xs ys hlen (hf.imp ?_)
          intro tx htx y hy
          have htm : tx.1 ∈ ts := (List.of_mem_zip htx).1
          have hxm : tx.2 ∈ xs := (List.of_mem_zip htx).2
          have hlt : sizeOf tx.1 < sizeOf ts := List.sizeOf_lt_of_mem htm
          exact sound_gen O ll lk tx.1 .none tx.2 y (fun e => litStrOnlyAll_mem (by simpa [litStrOnly] using hl e) _ htm)
            (fun e => strKeysAll_mem (strKeys_seqItems hs (hk e)) _ hxm) hy
  | .tupleVar t, orig, v, w, hl, hk, h => by
    rw [adapt] at h
    cases hs : seqItems v with
    | none => simp [hs] at h
    | some xs =>
      simp only [hs] at h
      cases hz : allM (fun x => adapt O false .none t x) xs with
      | error e => simp [hz] at h
      | ok ys =>
        simp [hz] at h; subst h
        simp only [confL, List.all_eq_true]
        exact ((allM_ok_iff _ xs ys).mp hz).forall_right (fun x hx y hy =>
          sound_gen O ll lk t .none x y (fun e => by simpa [litStrOnly] using hl e)
            (fun e => strKeysAll_mem (strKeys_seqItems hs (hk e)) _ hx) hy)
  | .set t, orig, v, w, hl, hk, h => by
    rw [adapt] at h
    cases hs : seqItems v with
    | none => simp [hs] at h
    | some xs =>
      simp only [hs] at h
      cases hz : allM (fun x => adapt O false .none t x) xs with
      | error e => simp [hz] at h
      | ok ys =>
        simp only [hz, Bool.false_eq_true, if_false] at h
        split at h
        · simp at h; subst h
          simp only [confL, List.all_eq_true]
          intro y hy
          exact ((allM_ok_iff _ xs ys).mp hz).forall_right (fun x hx y hy =>
            sound_gen O ll lk t .none x y (fun e => by simpa [litStrOnly] using hl e)
              (fun e => strKeysAll_mem (strKeys_seqItems hs (hk e)) _ hx) hy) y (mem_pySet hy)
        · simp at h
  | .list t, orig, v, w, hl, hk, h => by
    rw [adapt] at h
    cases hs : seqItems v with
    | none => simp [hs] at h
    | some xs =>
      simp only [hs] at h
      cases hz : allM (fun x => adapt O false .none t x) xs with
      | error e => simp [hz] at h
      | ok ys =>
        simp [hz] at h; subst h
        simp only [confL, List.all_eq_true]
        exact ((allM_ok_iff _ xs ys).mp hz).forall_right (fun x hx y hy =>
          sound_gen O ll lk t .none x y (fun e => by simpa [litStrOnly] using hl e)
            (fun e => strKeysAll_mem (strKeys_seqItems hs (hk e)) _ hx) hy)
  | .dict k t, orig, v, w, hl, hk, h => by
    cases v with
    | dict kvs =>
      have main : ∀ kvs' : List (DKey × Val),
          (∀ kv ∈ kvs', (lk || DKey.conf k kv.1) = true ∧ (lk = false → strKeys kv.2 = true)) →
          (match allM (fun (kx : DKey × Val) =>
              match adapt O false .none t kx.2 with
              | .error e => (.error e : Except Err (DKey × Val))
              | .ok y => .ok (kx.1, y)) kvs' with
            | .error e => (.error e : Except Err Val)
            | .ok ys => .ok (.dict ys)) = .ok w → confL O.rnumOk ll lk (.dict k t) w = true := by
        intro kvs' hkv h
        cases hz : allM (fun (kx : DKey × Val) =>
            match adapt O false .none t kx.2 with
            | .error e => (.error e : Except Err (DKey × Val))
            | .ok y => .ok (kx.1, y)) kvs' with
        | error e => simp [hz] at h
        | ok ys =>
          simp [hz] at h; subst h
          simp only [confL, List.all_eq_true, Bool.and_eq_true]
          refine ((allM_ok_iff _ kvs' ys).mp hz).forall_right (P := fun kv => (lk || DKey.conf k kv.1) = true ∧ confL O.rnumOk ll lk t kv.2 = true) ?_
          intro kx hkx ky hky
          cases ha : adapt O false .none t kx.2 with
          | error e => simp [ha] at hky
          | ok y =>
            simp [ha] at hky; subst hky
            exact ⟨(hkv kx hkx).1, sound_gen O ll lk t .none kx.2 y (fun e => by simpa [litStrOnly] using hl e) (hkv kx hkx).2 ha⟩
      cases k with
      | str =>
        simp only [adapt] at h
        refine main kvs ?_ h
        intro kv hkv
        cases lk with
        | true => simp
        | false =>
          have := strKeysKvs_mem (by simpa [strKeys] using hk rfl) kv hkv
          refine ⟨?_, fun _ => this.2⟩
          have h1 := this.1
          cases hk1 : kv.1 <;> simp [hk1, DKey.isStr] at h1 <;> simp [DKey.conf]
      | int =>
        simp only [adapt] at h
        cases hc : castKeys O false kvs [] with
        | error e => simp [hc] at h
        | ok kvs' =>
          simp only [hc] at h
          refine main kvs' ?_ h
          intro kv hkv
          obtain ⟨h1, h2⟩ := castKeys_spec O kvs [] kvs' hc (by simp) kv hkv
          refine ⟨?_, ?_⟩
          · cases hk1 : kv.1 <;> simp [hk1, DKey.isInt] at h1 <;> simp [DKey.conf]
          · intro e
            rcases h2 with h2 | ⟨kv0, hm, he⟩
            · simp at h2
            · rw [he]; exact (strKeysKvs_mem (by simpa [strKeys] using hk e) kv0 hm).2
    | _ => simp [adapt] at h
termination_by t => sizeOf t
decreasing_by all_goals simp_wf <;> omega

end Jap.Adapt

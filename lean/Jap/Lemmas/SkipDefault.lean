/-
C01, skip_default: parsing the reduced dump gives the configuration back (`reparse_dumped`), under `leafStable`.
-/
import Jap.Core.SkipDefault

namespace Jap.Scalar

def keysK : KVL → List Sc
  | .nil => []
  | .cons k _ r => k :: keysK r

theorem lookup_notin (k : Sc) : ∀ (c : KVL), k ∉ keysK c → lookupK k c = none
  | .nil, _ => rfl
  | .cons k' v r, h => by
    simp only [keysK, List.mem_cons, not_or] at h
    have hne : ¬ k' = k := fun e => h.1 e.symm
    simp [lookupK, hne, lookup_notin k r h.2]

theorem keys_delKV_sub (d : KVL) (k : Sc) : ∀ (c : KVL), k ∈ keysK (delKV c d) → k ∈ keysK c
  | .nil, h => by simp [delKV, keysK] at h
  | .cons k' v r, h => by
    simp only [delKV] at h
    cases hl : lookupK k' d with
    | none =>
      simp only [hl, keysK, List.mem_cons] at h ⊢
      rcases h with h | h
      · exact Or.inl h
      · exact Or.inr (keys_delKV_sub d k r h)
    | some dv =>
      simp only [hl] at h
      by_cases hv : v = dv
      · simp only [hv, if_true] at h
        simp only [keysK, List.mem_cons]
        exact Or.inr (keys_delKV_sub d k r h)
      · simp only [hv, if_false, keysK, List.mem_cons] at h ⊢
        rcases h with h | h
        · exact Or.inl h
        · exact Or.inr (keys_delKV_sub d k r h)

/-- what the reduced dict holds for a key -/
theorem lookup_delKV (k : Sc) (d : KVL) : ∀ (c : KVL), (keysK c).Nodup →
    lookupK k (delKV c d) =
      match lookupK k c with
      | none => none
      | some v =>
        match lookupK k d with
        | none => some v
        | some dv => if v = dv then none else some (delVal v dv)
  | .nil, _ => rfl
  | .cons k' v r, hn => by
    simp only [keysK, List.nodup_cons] at hn
    have ih := lookup_delKV k d r hn.2
    by_cases hk : k' = k
    · subst hk
      have hnot : lookupK k' (delKV r d) = none :=
        lookup_notin k' _ (fun h => hn.1 (keys_delKV_sub d k' r h))
      simp only [delKV, lookupK, if_true]
      cases hl : lookupK k' d with
      | none => simp [lookupK]
      | some dv =>
        by_cases hv : v = dv
        · simp [hv, hnot]
        · simp [hv, lookupK]
    · simp only [delKV, lookupK, hk, if_false]
      cases hl : lookupK k' d with
      | none => simp [lookupK, hk, ih]
      | some dv =>
        by_cases hv : v = dv
        · simp [hv, ih]
        · simp [hv, lookupK, hk, ih]

theorem conf_keys : ∀ (fs : SchL) (c : KVL), confL fs c = true → keysK c = keysL fs
  | .nil, .nil, _ => rfl
  | .cons k s r, .cons k' v c, h => by
    simp only [confL, Bool.and_eq_true, decide_eq_true_eq] at h
    simp [keysK, keysL, h.1.1, conf_keys r c h.2]
  | .nil, .cons _ _ _, h => by simp [confL] at h
  | .cons _ _ _, .nil, h => by simp [confL] at h

/-- every member is found under its name in the whole dicts -/
def lookAll : SchL → KVL → KVL → KVL → KVL → Prop
  | .cons k _ r, .cons _ v c', .cons _ dv d', c, dd => lookupK k c = some v ∧ lookupK k dd = some dv ∧ lookAll r c' d' c dd
  | _, _, _, _, _ => True

theorem lookAll_gen : ∀ (fs : SchL) (c' d' c dd : KVL), confL fs c' = true → confL fs d' = true → (keysL fs).Nodup →
    (∀ k v, lookupK k c' = some v → lookupK k c = some v) → (∀ k v, lookupK k d' = some v → lookupK k dd = some v) →
    lookAll fs c' d' c dd
  | .nil, _, _, _, _, _, _, _, _, _ => by simp [lookAll]
  | .cons k s r, .nil, _, _, _, h, _, _, _, _ => by simp [confL] at h
  | .cons k s r, .cons _ _ _, .nil, _, _, _, h, _, _, _ => by simp [confL] at h
  | .cons k s r, .cons k1 v c', .cons k2 dv d', c, dd, h1, h2, hn, hc, hd => by
    simp only [confL, Bool.and_eq_true, decide_eq_true_eq] at h1 h2
    obtain ⟨⟨e1, _⟩, h1r⟩ := h1
    obtain ⟨⟨e2, _⟩, h2r⟩ := h2
    simp only [keysL, List.nodup_cons] at hn
    refine ⟨hc k v (by simp [lookupK, e1]), hd k dv (by simp [lookupK, e2]), ?_⟩
    apply lookAll_gen r c' d' c dd h1r h2r hn.2
    · intro k' v' hl
      apply hc
      have : ¬ k1 = k' := by
        intro e
        rw [← e, e1, lookup_notin k c' (by rw [conf_keys r c' h1r]; exact hn.1)] at hl; cases hl
      simp [lookupK, this, hl]
    · intro k' v' hl
      apply hd
      have : ¬ k2 = k' := by
        intro e
        rw [← e, e2, lookup_notin k d' (by rw [conf_keys r d' h2r]; exact hn.1)] at hl; cases hl
      simp [lookupK, this, hl]

mutual
/-- an absent node is rebuilt from the defaults -/
theorem reparse_none : ∀ (s : Sch) (d : V), conf s d = true → reparse s d none = d
  | .leaf, _, _ => rfl
  | .group fs, .dict dd, h => by
    simp only [conf] at h
    simp [reparse, fieldsOf, dumpedFields, reparseL_nil fs dd h]
  | .group _, .sc _, h => by simp [conf] at h
  | .group _, .list _, h => by simp [conf] at h
theorem reparseL_nil : ∀ (fs : SchL) (dd : KVL), confL fs dd = true → reparseL fs dd .nil = dd
  | .nil, .nil, _ => rfl
  | .cons k s r, .cons k' dv dd, h => by
    simp only [confL, Bool.and_eq_true, decide_eq_true_eq] at h
    simp [reparseL, lookupK, reparse_none s dv h.1.2, reparseL_nil r dd h.2, h.1.1]
  | .nil, .cons _ _ _, h => by simp [confL] at h
  | .cons _ _ _, .nil, h => by simp [confL] at h
end

mutual
theorem reparse_dumped : ∀ (s : Sch) (v d : V), conf s v = true → conf s d = true → nodupS s = true →
    leafStable s v d = true → reparse s d (dumpedNode v d) = v
  | .leaf, v, d, _, _, _, hl => by
    simp only [leafStable, Bool.or_eq_true, decide_eq_true_eq] at hl
    by_cases e : v = d
    · rw [dumpedNode, if_pos e, e]; rfl
    · rcases hl with hl | hl
      · exact absurd hl e
      · rw [dumpedNode, if_neg e]; exact hl
  | .group fs, .dict c, .dict dd, hv, hd, hn, hl => by
    simp only [conf] at hv hd
    simp only [nodupS, Bool.and_eq_true, decide_eq_true_eq] at hn
    simp only [leafStable, fieldsOf] at hl
    by_cases e : V.dict c = V.dict dd
    · rw [dumpedNode, if_pos e, ← e]
      exact reparse_none (.group fs) (.dict c) (by simpa [conf] using hv)
    · have hall := lookAll_gen fs c dd c dd hv hd hn.1 (fun _ _ h => h) (fun _ _ h => h)
      have hk : (keysK c).Nodup := by rw [conf_keys fs c hv]; exact hn.1
      have := reparseL_dumped fs c dd c dd hv hd hn.2 hl hall hk
      simp [dumpedNode, e, delVal, reparse, fieldsOf, dumpedFields, this]
  | .group _, .sc _, _, h, _, _, _ => by simp [conf] at h
  | .group _, .list _, _, h, _, _, _ => by simp [conf] at h
  | .group _, .dict _, .sc _, _, h, _, _ => by simp [conf] at h
  | .group _, .dict _, .list _, _, h, _, _ => by simp [conf] at h
theorem reparseL_dumped : ∀ (fs : SchL) (c' d' c dd : KVL), confL fs c' = true → confL fs d' = true → nodupL fs = true →
    leafStableL fs c' d' = true → lookAll fs c' d' c dd → (keysK c).Nodup → reparseL fs d' (delKV c dd) = c'
  | .nil, .nil, _, _, _, _, _, _, _, _, _ => by simp [reparseL]
  | .nil, .cons _ _ _, _, _, _, h, _, _, _, _, _ => by simp [confL] at h
  | .cons _ _ _, .nil, _, _, _, h, _, _, _, _, _ => by simp [confL] at h
  | .cons _ _ _, .cons _ _ _, .nil, _, _, _, h, _, _, _, _ => by simp [confL] at h
  | .cons k s r, .cons k1 v c', .cons k2 dv d', c, dd, h1, h2, hn, hl, hall, hk => by
    simp only [confL, Bool.and_eq_true, decide_eq_true_eq] at h1 h2
    obtain ⟨⟨e1, hcv⟩, h1r⟩ := h1
    obtain ⟨⟨e2, hcd⟩, h2r⟩ := h2
    simp only [nodupL, Bool.and_eq_true] at hn
    simp only [leafStableL, Bool.and_eq_true] at hl
    obtain ⟨ha, hb, hrest⟩ := hall
    have hlook := lookup_delKV k dd c hk
    rw [ha, hb] at hlook
    have hnode : lookupK k (delKV c dd) = dumpedNode v dv := by simpa [dumpedNode] using hlook
    have h1' := reparse_dumped s v dv hcv hcd hn.1 hl.1
    have h2' := reparseL_dumped r c' d' c dd h1r h2r hn.2 hl.2 hrest hk
    simp [reparseL, hnode, h1', h2', e1]
end

end Jap.Scalar

import Jap.Lemmas.Namespace
/-!
The abstraction from stored namespaces (clash-marked attribute names) to the
nested dictionary of the property (plain names), and the lemmas showing that the
one-pass operations commute with it on canonical states.
-/
namespace Jap.NS

/-- a plain (unmarked) key: what the nested-dictionary specification uses -/
def plain (s : String) : SKey := ⟨false, s⟩

mutual
/-- forget the clash marks of namespace keys (values other than namespaces are opaque leaves) -/
def absV : V → V
  | .ns kvs => .ns (absKV kvs)
  | .none => .none
  | .atom a => .atom a
  | .lst xs => .lst xs
  | .tup xs => .tup xs
  | .dct d => .dct d
def absKV : KV → KV
  | [] => []
  | (k, v) :: r => (plain k.name, absV v) :: absKV r
end

mutual
/-- every namespace key is stored as `add_clash_mark` would store it -/
def canonV (clash : List String) : V → Bool
  | .ns kvs => canonKV clash kvs
  | _ => true
def canonKV (clash : List String) : KV → Bool
  | [] => true
  | (k, v) :: r => decide (k = mark clash k.name) && canonV clash v && canonKV clash r
end

theorem mark_inj (clash : List String) {a b : String} (h : mark clash a = mark clash b) : a = b := by
  have := congrArg SKey.name h
  simpa [mark] using this

theorem plain_inj {a b : String} (h : plain a = plain b) : a = b := by
  have := congrArg SKey.name h
  simpa [plain] using this

theorem isNs_absV (v : V) : (∃ sub, absV v = .ns sub) ↔ ∃ sub, v = .ns sub := by
  cases v <;> simp [absV]

theorem lookup_abs (clash : List String) (s : String) : ∀ kvs : KV, canonKV clash kvs = true →
    lookup (plain s) (absKV kvs) = (lookup (mark clash s) kvs).map absV
  | [], _ => by simp [absKV, lookup]
  | (k, v) :: r, h => by
    simp only [canonKV, Bool.and_eq_true, decide_eq_true_eq] at h
    obtain ⟨⟨hk, _⟩, hr⟩ := h
    have ih := lookup_abs clash s r hr
    by_cases e : k.name = s
    · have e1 : k = mark clash s := by rw [hk, e]
      simp [absKV, lookup, e1, mark]
    · have e1 : ¬ k = mark clash s := by
        intro hh; apply e; rw [hk] at hh; exact mark_inj clash hh
      have e2 : ¬ plain k.name = plain s := fun hh => e (plain_inj hh)
      simp [absKV, lookup, e1, e2, ih]

theorem canon_lookup (clash : List String) (k : SKey) : ∀ (kvs : KV) (v : V), canonKV clash kvs = true →
    lookup k kvs = some v → canonV clash v = true
  | [], _, _, h => by simp [lookup] at h
  | (k', v') :: r, v, hc, h => by
    simp only [canonKV, Bool.and_eq_true, decide_eq_true_eq] at hc
    by_cases e : k' = k
    · simp [lookup, e] at h
      subst h
      exact hc.1.2
    · simp [lookup, e] at h
      exact canon_lookup clash k r v hc.2 h

theorem abs_insert (clash : List String) (s : String) (v : V) : ∀ kvs : KV, canonKV clash kvs = true →
    absKV (insert (mark clash s) v kvs) = insert (plain s) (absV v) (absKV kvs)
  | [], _ => by simp [insert, absKV, mark]
  | (k, v') :: r, h => by
    simp only [canonKV, Bool.and_eq_true, decide_eq_true_eq] at h
    obtain ⟨⟨hk, _⟩, hr⟩ := h
    have ih := abs_insert clash s v r hr
    by_cases e : k.name = s
    · have e1 : k = mark clash s := by rw [hk, e]
      simp [absKV, insert, e1, mark]
    · have e1 : ¬ k = mark clash s := by
        intro hh; apply e; rw [hk] at hh; exact mark_inj clash hh
      have e2 : ¬ plain k.name = plain s := fun hh => e (plain_inj hh)
      simp [absKV, insert, e1, e2, ih]

theorem abs_erase (clash : List String) (s : String) : ∀ kvs : KV, canonKV clash kvs = true →
    absKV (erase (mark clash s) kvs) = erase (plain s) (absKV kvs)
  | [], _ => by simp [erase, absKV]
  | (k, v') :: r, h => by
    simp only [canonKV, Bool.and_eq_true, decide_eq_true_eq] at h
    obtain ⟨⟨hk, _⟩, hr⟩ := h
    have ih := abs_erase clash s r hr
    by_cases e : k.name = s
    · have e1 : k = mark clash s := by rw [hk, e]
      simp [absKV, erase, e1, mark]
    · have e1 : ¬ k = mark clash s := by
        intro hh; apply e; rw [hk] at hh; exact mark_inj clash hh
      have e2 : ¬ plain k.name = plain s := fun hh => e (plain_inj hh)
      simp [absKV, erase, e1, e2, ih]

theorem canon_insert (clash : List String) (s : String) (v : V) (hv : canonV clash v = true) : ∀ kvs : KV,
    canonKV clash kvs = true → canonKV clash (insert (mark clash s) v kvs) = true
  | [], _ => by simp [insert, canonKV, hv, mark]
  | (k, v') :: r, h => by
    simp only [canonKV, Bool.and_eq_true, decide_eq_true_eq] at h
    obtain ⟨⟨hk, hv'⟩, hr⟩ := h
    by_cases e : k = mark clash s
    · simp [insert, e, canonKV, hv, hr, mark]
    · simp only [insert, e, if_false, canonKV, Bool.and_eq_true, decide_eq_true_eq]
      exact ⟨⟨hk, hv'⟩, canon_insert clash s v hv r hr⟩

theorem canon_erase (clash : List String) (k : SKey) : ∀ kvs : KV,
    canonKV clash kvs = true → canonKV clash (erase k kvs) = true
  | [], _ => by simp [erase, canonKV]
  | (k', v') :: r, h => by
    simp only [canonKV, Bool.and_eq_true, decide_eq_true_eq] at h
    by_cases e : k' = k
    · simp [erase, e, h.2]
    · simp only [erase, e, if_false, canonKV, Bool.and_eq_true, decide_eq_true_eq]
      exact ⟨h.1, canon_erase clash k r h.2⟩

theorem canon_nil (clash : List String) : canonKV clash [] = true := rfl

/-- `setK` commutes with the abstraction and preserves canonicity -/
theorem abs_setK (clash : List String) (v : V) (hv : canonV clash v = true) : ∀ (p : List String) (kvs : KV),
    canonKV clash kvs = true →
    absKV (setK (p.map (mark clash)) v kvs) = setK (p.map plain) (absV v) (absKV kvs) ∧
    canonKV clash (setK (p.map (mark clash)) v kvs) = true
  | [], kvs, h => by simp [setK, h]
  | [leaf], kvs, h => by
    simp only [List.map, setK]
    exact ⟨abs_insert clash leaf v kvs h, canon_insert clash leaf v hv kvs h⟩
  | s :: t :: rest, kvs, h => by
    have hl := lookup_abs clash s kvs h
    simp only [List.map, setK] at *
    cases hc : lookup (mark clash s) kvs with
    | none =>
      simp only [hc, Option.map] at hl
      obtain ⟨i1, i2⟩ := abs_setK clash v hv (t :: rest) [] rfl
      simp only [List.map] at i1 i2
      simp only [hl]
      refine ⟨?_, canon_insert clash s _ (by simpa [canonV] using i2) kvs h⟩
      rw [abs_insert clash s _ kvs h]
      simp [absV, i1, absKV]
    | some nxt =>
      simp only [hc, Option.map] at hl
      have hcn := canon_lookup clash _ kvs nxt h hc
      cases nxt with
      | ns sub =>
        simp only [canonV] at hcn
        obtain ⟨i1, i2⟩ := abs_setK clash v hv (t :: rest) sub hcn
        simp only [List.map] at i1 i2
        simp only [hl, absV]
        refine ⟨?_, canon_insert clash s _ (by simpa [canonV] using i2) kvs h⟩
        rw [abs_insert clash s _ kvs h]
        simp [absV, i1]
      | none =>
        obtain ⟨i1, i2⟩ := abs_setK clash v hv (t :: rest) [] rfl
        simp only [List.map] at i1 i2
        simp only [hl, absV]
        refine ⟨?_, canon_insert clash s _ (by simpa [canonV] using i2) kvs h⟩
        rw [abs_insert clash s _ kvs h]
        simp [absV, i1, absKV]
      | atom a =>
        obtain ⟨i1, i2⟩ := abs_setK clash v hv (t :: rest) [] rfl
        simp only [List.map] at i1 i2
        simp only [hl, absV]
        refine ⟨?_, canon_insert clash s _ (by simpa [canonV] using i2) kvs h⟩
        rw [abs_insert clash s _ kvs h]
        simp [absV, i1, absKV]
      | lst a =>
        obtain ⟨i1, i2⟩ := abs_setK clash v hv (t :: rest) [] rfl
        simp only [List.map] at i1 i2
        simp only [hl, absV]
        refine ⟨?_, canon_insert clash s _ (by simpa [canonV] using i2) kvs h⟩
        rw [abs_insert clash s _ kvs h]
        simp [absV, i1, absKV]
      | tup a =>
        obtain ⟨i1, i2⟩ := abs_setK clash v hv (t :: rest) [] rfl
        simp only [List.map] at i1 i2
        simp only [hl, absV]
        refine ⟨?_, canon_insert clash s _ (by simpa [canonV] using i2) kvs h⟩
        rw [abs_insert clash s _ kvs h]
        simp [absV, i1, absKV]
      | dct a =>
        obtain ⟨i1, i2⟩ := abs_setK clash v hv (t :: rest) [] rfl
        simp only [List.map] at i1 i2
        simp only [hl, absV]
        refine ⟨?_, canon_insert clash s _ (by simpa [canonV] using i2) kvs h⟩
        rw [abs_insert clash s _ kvs h]
        simp [absV, i1, absKV]

/-- `getK` commutes with the abstraction -/
theorem abs_getK (clash : List String) : ∀ (p : List String) (kvs : KV), canonKV clash kvs = true →
    getK (p.map plain) (absKV kvs) = (getK (p.map (mark clash)) kvs).map absV
  | [], _, _ => by simp [getK]
  | [leaf], kvs, h => by simp only [List.map, getK]; exact lookup_abs clash leaf kvs h
  | s :: t :: rest, kvs, h => by
    have hl := lookup_abs clash s kvs h
    simp only [List.map, getK] at *
    cases hc : lookup (mark clash s) kvs with
    | none => simp [hc] at hl; simp [hl]
    | some nxt =>
      simp only [hc, Option.map] at hl
      have hcn := canon_lookup clash _ kvs nxt h hc
      cases nxt with
      | ns sub =>
        simp only [canonV] at hcn
        have ih := abs_getK clash (t :: rest) sub hcn
        simp only [List.map] at ih
        simp only [hl, absV, ih]
      | none => simp [hl, absV]
      | atom a => simp [hl, absV]
      | lst a => simp [hl, absV]
      | tup a => simp [hl, absV]
      | dct a => simp [hl, absV]

/-- `delK` commutes with the abstraction and preserves canonicity -/
theorem abs_delK (clash : List String) : ∀ (p : List String) (kvs : KV), canonKV clash kvs = true →
    absKV (delK (p.map (mark clash)) kvs) = delK (p.map plain) (absKV kvs) ∧
    canonKV clash (delK (p.map (mark clash)) kvs) = true
  | [], kvs, h => by simp [delK, h]
  | [leaf], kvs, h => by
    simp only [List.map, delK]
    exact ⟨abs_erase clash leaf kvs h, canon_erase clash _ kvs h⟩
  | s :: t :: rest, kvs, h => by
    have hl := lookup_abs clash s kvs h
    simp only [List.map, delK] at *
    cases hc : lookup (mark clash s) kvs with
    | none => simp [hc] at hl; simp [hl, h]
    | some nxt =>
      simp only [hc, Option.map] at hl
      have hcn := canon_lookup clash _ kvs nxt h hc
      cases nxt with
      | ns sub =>
        simp only [canonV] at hcn
        obtain ⟨i1, i2⟩ := abs_delK clash (t :: rest) sub hcn
        simp only [List.map] at i1 i2
        simp only [hl, absV]
        refine ⟨?_, canon_insert clash s _ (by simpa [canonV] using i2) kvs h⟩
        rw [abs_insert clash s _ kvs h]
        simp [absV, i1]
      | none => simp [hl, absV, h]
      | atom a => simp [hl, absV, h]
      | lst a => simp [hl, absV, h]
      | tup a => simp [hl, absV, h]
      | dct a => simp [hl, absV, h]

end Jap.NS

/-
Helper lemmas for the `timedelta` round trip of E8 (C20): `tdDeser (tdStr t) = .ok t`.
Core Lean only.
-/
import Jap.Lemmas.TypingCodec

namespace Jap.Typing

/-! ### scanning -/

theorem span_stop (p : Char → Bool) (a : List Char) (c : Char) (r : List Char)
    (ha : ∀ x ∈ a, p x = true) (hc : p c = false) :
    (a ++ c :: r).takeWhile p = a ∧ (a ++ c :: r).dropWhile p = c :: r := by
  constructor
  · rw [List.takeWhile_append_of_pos ha, List.takeWhile_cons_of_neg (by simp [hc])]; simp
  · rw [List.dropWhile_append_of_pos ha, List.dropWhile_cons_of_neg (by simp [hc])]

theorem span_all (p : Char → Bool) : ∀ (a : List Char), (∀ x ∈ a, p x = true) →
    a.takeWhile p = a ∧ a.dropWhile p = []
  | [], _ => ⟨rfl, rfl⟩
  | x :: a, h => by
    have hx : p x = true := h x (by simp)
    have ih := span_all p a (fun y hy => h y (List.mem_cons_of_mem _ hy))
    simp [List.takeWhile, List.dropWhile, hx, ih.1, ih.2]

/-! ### zero padding -/

theorem showNat_digits (n : Nat) : ∀ c ∈ showNat n, c.isDigit = true :=
  fun _ hc => digits_mem_isDigit hc

theorem padZero_digits (w n : Nat) : ∀ c ∈ padZero w (showNat n), c.isDigit = true := by
  intro c hc
  unfold padZero at hc
  rcases List.mem_append.mp hc with h | h
  · have := (List.mem_replicate.mp h).2
    subst this; decide
  · exact showNat_digits n c h

theorem padZero_ne_nil (w n : Nat) : padZero w (showNat n) ≠ [] := by
  unfold padZero showNat
  intro h
  have := (List.append_eq_nil_iff.mp h).2
  exact Nat.toDigits_ne_nil this

theorem ofDigitChars_padZero (w n : Nat) : Nat.ofDigitChars 10 (padZero w (showNat n)) 0 = n := by
  unfold padZero showNat
  rw [Nat.ofDigitChars_append, Nat.ofDigitChars_replicate_zero]
  simp

theorem padZero_length (w n : Nat) (hw : 0 < w) (h : n < 10 ^ w) : (padZero w (showNat n)).length = w := by
  unfold padZero showNat
  have := (Nat.length_toDigits_le_iff (b := 10) (n := n) (k := w) (by decide) hw).mpr h
  simp only [List.length_append, List.length_replicate]
  omega

/-! ### `"day" in text` -/

theorem hasSub_mem {c : Char} {p : List Char} : ∀ {l : List Char}, hasSub (c :: p) l = true → c ∈ l
  | [], h => by simp [hasSub] at h
  | x :: r, h => by
    simp only [hasSub, Bool.or_eq_true] at h
    rcases h with h | h
    · simp only [List.isPrefixOf, Bool.and_eq_true, beq_iff_eq] at h
      simp [h.1]
    · exact List.mem_cons_of_mem _ (hasSub_mem h)

theorem hasSub_here (p b : List Char) : hasSub p (p ++ b) = true := by
  cases h : p ++ b with
  | nil =>
    have := (List.append_eq_nil_iff.mp h).1
    subst this; rfl
  | cons x r =>
    simp only [hasSub, Bool.or_eq_true]
    left
    rw [← h]
    simp

theorem hasSub_append (p b : List Char) : ∀ (a : List Char), hasSub p (a ++ (p ++ b)) = true
  | [] => by simpa using hasSub_here p b
  | x :: a => by
    have ih := hasSub_append p b a
    simp only [List.cons_append, hasSub, Bool.or_eq_true]
    exact Or.inr ih

/-! ### the characters of the serialised parts -/

theorem tdClock_chars (secs : Nat) : ∀ c ∈ tdClock secs, c.isDigit = true ∨ c = ':' := by
  intro c hc
  unfold tdClock at hc
  simp only [List.mem_append, List.mem_cons] at hc
  rcases hc with (h | h | h) | h | h
  · exact Or.inl (showNat_digits _ c h)
  · exact Or.inr h
  · exact Or.inl (padZero_digits _ _ c h)
  · exact Or.inr h
  · exact Or.inl (padZero_digits _ _ c h)

theorem tdFrac_chars (us : Nat) : ∀ c ∈ tdFrac us, c.isDigit = true ∨ c = '.' := by
  intro c hc
  unfold tdFrac at hc
  split at hc
  · rcases List.mem_cons.mp hc with h | h
    · exact Or.inr h
    · exact Or.inl (padZero_digits _ _ c h)
  · simp at hc

theorem tdFrac_secChars (us : Nat) : ∀ c ∈ tdFrac us, isSecChar c = true := by
  intro c hc
  rcases tdFrac_chars us c hc with h | h
  · simp [isSecChar, h]
  · simp [isSecChar, h]

theorem no_d_of_digit {c : Char} (h : c.isDigit = true) : c ≠ 'd' := by
  intro e; subst e; simp [Char.isDigit] at h

/-- without a day part the text does not contain "day" -/
theorem hasSub_day_clock (secs us : Nat) : hasSub tdDayTrigger.toList (tdClock secs ++ tdFrac us) = false := by
  have ht : tdDayTrigger.toList = 'd' :: ['a', 'y'] := by decide
  rw [ht]
  cases h : hasSub ('d' :: ['a', 'y']) (tdClock secs ++ tdFrac us) with
  | false => rfl
  | true =>
    have hm := hasSub_mem h
    rcases List.mem_append.mp hm with h1 | h1
    · rcases tdClock_chars secs _ h1 with h2 | h2
      · exact absurd rfl (no_d_of_digit h2)
      · exact absurd h2 (by decide)
    · rcases tdFrac_chars us _ h1 with h2 | h2
      · exact absurd rfl (no_d_of_digit h2)
      · exact absurd h2 (by decide)

/-- with a day part it does -/
theorem hasSub_day_dayPart (d : Int) (rest : List Char) :
    hasSub tdDayTrigger.toList (tdDayPart d ++ rest) = true := by
  have ht : tdDayTrigger.toList = ['d', 'a', 'y'] := by decide
  rw [ht]
  unfold tdDayPart
  have e : showInt d ++ " day".toList ++ (if d.natAbs ≠ 1 then ['s'] else []) ++ ", ".toList ++ rest
      = (showInt d ++ [' ']) ++ (['d', 'a', 'y'] ++ ((if d.natAbs ≠ 1 then ['s'] else []) ++ ", ".toList ++ rest)) := by
    have : " day".toList = [' ', 'd', 'a', 'y'] := by decide
    rw [this]
    simp [List.append_assoc]
  rw [e]
  exact hasSub_append _ _ _

/-! ### the two patterns on the serialised text -/

theorem matchDaysPrefix_dayPart (d : Int) (rest : List Char) :
    matchDaysPrefix (tdDayPart d ++ rest) = some (showInt d, rest) := by
  have hday : " day".toList = ' ' :: ['d', 'a', 'y'] := by decide
  have hcomma : ", ".toList = [',', ' '] := by decide
  have e : tdDayPart d ++ rest
      = showInt d ++ ' ' :: (['d', 'a', 'y'] ++ ((if d.natAbs ≠ 1 then ['s'] else []) ++ (',' :: ' ' :: rest))) := by
    unfold tdDayPart
    rw [hday, hcomma]
    simp [List.append_assoc]
  rw [e]
  have sp := span_stop isDayChar (showInt d) ' ' (['d', 'a', 'y'] ++ ((if d.natAbs ≠ 1 then ['s'] else []) ++ (',' :: ' ' :: rest)))
    (showInt_dayChars d) (by decide)
  unfold matchDaysPrefix
  simp only [sp.1, sp.2, showInt_ne_nil, ↓reduceIte]
  have p1 : dropPrefix? " day".toList (' ' :: (['d', 'a', 'y'] ++ ((if d.natAbs ≠ 1 then ['s'] else []) ++ (',' :: ' ' :: rest))))
      = some ((if d.natAbs ≠ 1 then ['s'] else []) ++ (',' :: ' ' :: rest)) := by
    rw [hday]
    simp [dropPrefix?]
  rw [p1]
  have p2 : List.dropWhile (· = 's') ((if d.natAbs ≠ 1 then ['s'] else []) ++ (',' :: ' ' :: rest)) = ',' :: ' ' :: rest := by
    split <;> simp [List.dropWhile]
  simp only [p2]
  rw [hcomma]
  simp [dropPrefix?]

theorem matchClock_clock (secs us : Nat) :
    matchClock (tdClock secs ++ tdFrac us)
      = some (showNat (secs / 60 / 60), padZero 2 (showNat (secs / 60 % 60)), padZero 2 (showNat (secs % 60)) ++ tdFrac us) := by
  have e : tdClock secs ++ tdFrac us
      = showNat (secs / 60 / 60) ++ ':' :: (padZero 2 (showNat (secs / 60 % 60)) ++ ':' :: (padZero 2 (showNat (secs % 60)) ++ tdFrac us)) := by
    unfold tdClock
    simp [List.append_assoc]
  rw [e]
  have h1 := span_stop Char.isDigit (showNat (secs / 60 / 60)) ':'
    (padZero 2 (showNat (secs / 60 % 60)) ++ ':' :: (padZero 2 (showNat (secs % 60)) ++ tdFrac us))
    (showNat_digits _) (by decide)
  have h2 := span_stop Char.isDigit (padZero 2 (showNat (secs / 60 % 60))) ':' (padZero 2 (showNat (secs % 60)) ++ tdFrac us)
    (padZero_digits _ _) (by decide)
  have hH : showNat (secs / 60 / 60) ≠ [] := Nat.toDigits_ne_nil
  have hM := padZero_ne_nil 2 (secs / 60 % 60)
  have hSd := padZero_digits 2 (secs % 60)
  have hSn := padZero_ne_nil 2 (secs % 60)
  unfold matchClock
  simp only [h1.1, h1.2, h2.1, h2.2, hH, hM, ↓reduceIte]
  cases hS : padZero 2 (showNat (secs % 60)) with
  | nil => exact absurd hS hSn
  | cons c S' =>
    rw [hS] at hSd
    have hc : c.isDigit = true := hSd c (by simp)
    have hall : ∀ x ∈ S' ++ tdFrac us, isSecChar x = true := by
      intro x hx
      rcases List.mem_append.mp hx with h | h
      · have := hSd x (List.mem_cons_of_mem _ h)
        simp [isSecChar, this]
      · exact tdFrac_secChars us x h
    simp only [List.cons_append, hc, ↓reduceIte, (span_all isSecChar _ hall).1]

theorem readSeconds_plain (ss : Nat) :
    readSeconds (padZero 2 (showNat ss) ++ tdFrac 0) = some (padZero 2 (showNat ss), 0) := by
  have sp := span_all Char.isDigit _ (padZero_digits 2 ss)
  simp [tdFrac, readSeconds, sp.1, sp.2]

theorem readSeconds_frac (ss us : Nat) (hus : us ≠ 0) :
    readSeconds (padZero 2 (showNat ss) ++ tdFrac us)
      = some (padZero 2 (showNat ss) ++ padZero 6 (showNat us), (padZero 6 (showNat us)).length) := by
  have sp := span_stop Char.isDigit (padZero 2 (showNat ss)) '.' (padZero 6 (showNat us)) (padZero_digits 2 ss) (by decide)
  have hall : (padZero 6 (showNat us)).all Char.isDigit = true := List.all_eq_true.mpr (padZero_digits 6 us)
  simp only [tdFrac, hus, ne_eq, not_false_eq_true, ↓reduceIte, readSeconds, sp.1, sp.2, hall]

/-! ### arithmetic of the normalisation -/

theorem roundHalfEven_exact (n d : Nat) (hd : 0 < d) : roundHalfEven (n * d) d = n := by
  unfold roundHalfEven
  have h1 : n * d / d = n := Nat.mul_div_cancel _ hd
  have h2 : n * d % d = 0 := Nat.mul_mod_left _ _
  simp only [h1, h2]
  simp [hd]

theorem mkTD_norm (t : TD) (h : t.Normalised) (micro : Nat) (hm : micro = (t.secs % 60) * 1000000 + t.us) :
    (let total : Int := ((t.days * 24 + (t.secs / 60 / 60 : Nat)) * 60 + (t.secs / 60 % 60 : Nat)) * 60 * 1000000 + micro
     let d := total / 86400000000
     let rem := (total % 86400000000).toNat
     (if d.natAbs > maxDays then (Except.error Err.overflow : Except Err TD) else .ok ⟨d, rem / 1000000, rem % 1000000⟩))
      = .ok t := by
  obtain ⟨days, secs, us⟩ := t
  obtain ⟨h1, h2, h3⟩ := h
  simp only at h1 h2 h3 hm
  simp only
  have htot : ((days * 24 + ((secs / 60 / 60 : Nat) : Int)) * 60 + ((secs / 60 % 60 : Nat) : Int)) * 60 * 1000000 + (micro : Int)
      = days * 86400000000 + ((secs * 1000000 + us : Nat) : Int) := by
    subst hm
    omega
  rw [htot]
  have hlt : secs * 1000000 + us < 86400000000 := by omega
  have hd : (days * 86400000000 + ((secs * 1000000 + us : Nat) : Int)) / 86400000000 = days := by omega
  have hr : (days * 86400000000 + ((secs * 1000000 + us : Nat) : Int)) % 86400000000 = ((secs * 1000000 + us : Nat) : Int) := by omega
  rw [hd, hr]
  have : ¬ days.natAbs > maxDays := by omega
  simp only [this, ↓reduceIte, Int.toNat_natCast]
  have e1 : (secs * 1000000 + us) / 1000000 = secs := by omega
  have e2 : (secs * 1000000 + us) % 1000000 = us := by omega
  rw [e1, e2]

theorem mkTD_rt (t : TD) (h : t.Normalised) (ds : List Char) (k : Nat)
    (hmicro : roundHalfEven (Nat.ofDigitChars 10 ds 0 * 1000000) (10 ^ k) = (t.secs % 60) * 1000000 + t.us) :
    mkTD t.days (t.secs / 60 / 60) (t.secs / 60 % 60) ds k = .ok t := by
  unfold mkTD
  simp only [hmicro]
  exact mkTD_norm t h _ rfl

theorem micro_plain (ss : Nat) :
    roundHalfEven (Nat.ofDigitChars 10 (padZero 2 (showNat ss)) 0 * 1000000) (10 ^ 0) = ss * 1000000 + 0 := by
  rw [ofDigitChars_padZero]
  have := roundHalfEven_exact (ss * 1000000) 1 (by decide)
  simpa using this

theorem micro_frac (ss us : Nat) (hus : us < 1000000) :
    roundHalfEven (Nat.ofDigitChars 10 (padZero 2 (showNat ss) ++ padZero 6 (showNat us)) 0 * 1000000)
      (10 ^ (padZero 6 (showNat us)).length) = ss * 1000000 + us := by
  rw [padZero_length 6 us (by decide) (by simpa using hus)]
  rw [Nat.ofDigitChars_append, ofDigitChars_padZero, Nat.ofDigitChars_eq_ofDigitChars_zero, ofDigitChars_padZero,
    padZero_length 6 us (by decide) (by simpa using hus)]
  have e : (10 : Nat) ^ 6 = 1000000 := by decide
  rw [e]
  have := roundHalfEven_exact (1000000 * ss + us) 1000000 (by decide)
  rw [this]
  omega

/-- the round trip of `datetime.timedelta` through its registered serializer (`str`) and
`timedelta_deserializer` -/
theorem tdDeser_tdStr (t : TD) (h : t.Normalised) : tdDeser (tdStr t) = .ok t := by
  have hnum : ∀ n : Nat, Nat.ofDigitChars 10 (showNat n) 0 = n := fun n => Nat.ofDigitChars_ten_toDigits
  -- the part after the optional day prefix
  have tail : ∀ (d : Option (List Char)), (match d with | none => some (0 : Int) | some x => readInt x) = some t.days →
      (match matchClock (tdClock t.secs ++ tdFrac t.us) with
        | none => (Except.error Err.value : Except Err TD)
        | some (hh, m, s) =>
          match (match d with | none => some (0 : Int) | some x => readInt x), readSeconds s with
          | some dd, some (ds, k) => mkTD dd (Nat.ofDigitChars 10 hh 0) (Nat.ofDigitChars 10 m 0) ds k
          | _, _ => .error .value) = .ok t := by
    intro d hd
    rw [matchClock_clock]
    simp only [hd, hnum, ofDigitChars_padZero]
    by_cases hus : t.us = 0
    · rw [hus, readSeconds_plain]
      simp only
      exact mkTD_rt t h _ 0 (by rw [hus]; exact micro_plain _)
    · rw [readSeconds_frac _ _ hus]
      simp only
      exact mkTD_rt t h _ _ (micro_frac _ _ h.2.1)
  unfold tdStr
  by_cases hd : t.days = 0
  · simp only [hd, ne_eq, not_true_eq_false, ↓reduceIte, List.nil_append]
    unfold tdDeser
    simp only [hasSub_day_clock, Bool.false_eq_true, ↓reduceIte]
    exact tail none (by simp [hd])
  · simp only [hd, ne_eq, not_false_eq_true, ↓reduceIte]
    unfold tdDeser
    simp only [hasSub_day_dayPart, ↓reduceIte, matchDaysPrefix_dayPart, Option.map_some]
    exact tail (some (showInt t.days)) (by simp [readInt_showInt])

end Jap.Typing

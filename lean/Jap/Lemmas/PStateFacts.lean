import Jap.Core.PState
import Jap.Gen.PState
/-! The facts `step` consults, as regenerated from /repo (Gen/PState.lean), and the shape the model expects of the
regenerated tables. -/
namespace Jap.PState

/-- the facts of the source as it is now -/
def genFacts : Facts :=
  { finallyPops := Jap.Gen.PState.finallyPops
    pcirDeletes := Jap.Gen.PState.pcirDeletes
    ctxResetFinally := Jap.Gen.PState.ctxResetFinally
    argsBeforeParse := Jap.Gen.PState.argsBeforeParse
    kwSetAroundParse := Jap.Gen.PState.kwSetAroundParse
    sapSetAroundParse := Jap.Gen.PState.sapSetAroundParse
    dkSetInSerialize := Jap.Gen.PState.dkSetInSerialize
    dcDefaultOnAction := Jap.Gen.PState.dcDefaultOnAction
    linkedOnFreshOnly := Jap.Gen.PState.linkedOnFreshOnly
    shtabGuarded := Jap.Gen.PState.shtabGuarded
    wiringAtBuildOnly := Jap.Gen.PState.wiringAtBuildOnly }

/-- context-variable sets without a reset in a `finally` -/
def unresetSets : List (String × String) :=
  (Jap.Gen.PState.ctxSets.filter fun e => !e.2.2).map fun e => (e.1, e.2.1)

/-- the unreset sets the model knows: its three context-variable carriers, and `current_mro`, which is only moved
    forward inside an enclosing `mro_context` (reset in a `finally`) -/
def knownUnreset : List (String × String) :=
  [("current_mro", "ast_is_supported_super_call"), ("current_mro", "get_mro_parameters"),
   ("dump_kwargs", "dump_kwargs_context"), ("parse_kwargs", "_ActionSubCommands.parse_kwargs_context"),
   ("subclass_arg_parser", "ActionTypeHint.subclass_arg_context")]

/-- carriers of the model, as (carrier, functions that may write it at parse time) -/
def carrierWriters : List (String × List String) :=
  [("lastArgs", ["ArgumentParser.parse_args"]),
   ("pending", ["_ActionPrintConfig.__call__"]),
   ("pending-delete", ["ArgumentParser.parse_args", "_ActionPrintConfig.print_config_if_requested"]),
   ("pending-consume", ["_ActionPrintConfig.print_config_if_requested"]),
   ("shtabAdded", ["handle_completions"]),
   ("linked", ["ActionTypeHint.is_init_arg_mapping_typehint", "adapt_class_type", "adapt_typehints"]),
   ("dcDefault", ["adapt_typehints"])]

/-- classifications that are no carrier: object built during the call, value being computed, attribute put back
    before the function returns, memo of a constant, write followed by its only read, builder reached by name only,
    outside the operations considered -/
def nonCarrier : List String :=
  ["fresh-object", "value-object", "restored", "memo-of-constant", "written-before-read", "builder", "outside"]

/-- every regenerated write is either no carrier or a carrier written by a function the model expects -/
def writesKnown : Bool :=
  Jap.Gen.PState.writes.all fun e =>
    nonCarrier.contains e.2.2.2.1 || carrierWriters.any fun cw => cw.1 == e.2.2.2.1 && cw.2.contains e.1

/-- classifications of writes to process-level state that make no carrier: made by a public settings function / at
    import (part of the declaration), memo of a constant, outside the operations considered -/
def procClasses : List String := ["declaration-time", "memo-of-constant", "outside"]

/-- every regenerated write to a module global / module-level container / class attribute is of a known harmless class,
    and no function of the package carries a caching decorator -/
def procWritesKnown : Bool :=
  Jap.Gen.PState.procWrites.all fun e => procClasses.contains e.2.2.2.2.1 && e.2.2.1 != "decorator"

end Jap.PState

import Jap.Core.LinksHist
import Jap.Lemmas.Links
/-! Lemmas about histories of operations on one parser object (C15). -/
namespace Jap.Links
open Jap.NS

/-- the parser after a history is the parser built by the accepted `link_arguments` calls alone -/
theorem addLinks_acceptedReqs (Es : Nat → Env) : ∀ (ops : List Op) (p : Parser),
    addLinks p (acceptedReqs p ops) = .ok (stateAfter Es p ops)
  | [], _ => rfl
  | .link r :: rest, p => by
    cases h : addLink p r.sources r.coerce r.target r.fn with
    | ok p' =>
      simp only [acceptedReqs, h, stateAfter, stepOp, addLinks]
      exact addLinks_acceptedReqs Es rest p'
    | error e =>
      simp only [acceptedReqs, h, stateAfter, stepOp]
      exact addLinks_acceptedReqs Es rest p
  | .parse e i :: rest, p => by
    simp only [acceptedReqs, stateAfter, stepOp]
    exact addLinks_acceptedReqs Es rest p

theorem stateAfter_append (Es : Nat → Env) : ∀ (pre post : List Op) (p : Parser),
    stateAfter Es p (pre ++ post) = stateAfter Es (stateAfter Es p pre) post
  | [], _, _ => rfl
  | o :: r, post, p => by
    simp only [List.cons_append, stateAfter]
    exact stateAfter_append Es r post _

theorem runOps_append (Es : Nat → Env) : ∀ (pre post : List Op) (p : Parser),
    runOps Es p (pre ++ post) = runOps Es p pre ++ runOps Es (stateAfter Es p pre) post
  | [], _, _ => rfl
  | o :: r, post, p => by
    simp only [List.cons_append, runOps, stateAfter]
    rw [runOps_append Es r post _]

theorem runOps_length (Es : Nat → Env) : ∀ (ops : List Op) (p : Parser), (runOps Es p ops).length = ops.length
  | [], _ => rfl
  | o :: r, p => by
    simp only [runOps, List.length_cons]
    rw [runOps_length Es r _]

/-- a parse leaves the parser object as it is -/
theorem stepOp_parse_state (Es : Nat → Env) (p : Parser) (e : Nat) (inputs : List Input) :
    (stepOp Es p (.parse e inputs)).1 = p := rfl

/-- the state does not depend on the parses of the history, nor on what the world looked like during them -/
theorem stateAfter_linkOps (Es Es' : Nat → Env) : ∀ (ops : List Op) (p : Parser),
    stateAfter Es p ops = stateAfter Es' p (linkOps ops)
  | [], _ => rfl
  | .link r :: rest, p => by
    cases h : addLink p r.sources r.coerce r.target r.fn with
    | ok p' =>
      simp only [linkOps, stateAfter, stepOp, h]
      exact stateAfter_linkOps Es Es' rest p'
    | error e =>
      simp only [linkOps, stateAfter, stepOp, h]
      exact stateAfter_linkOps Es Es' rest p
  | .parse e i :: rest, p => by
    simp only [linkOps, stateAfter, stepOp]
    exact stateAfter_linkOps Es Es' rest p

/-- the output at the position of an operation is the step taken from the state reached by the operations before it -/
theorem runOps_at (Es : Nat → Env) (pre post : List Op) (o : Op) (p : Parser) :
    (runOps Es p (pre ++ o :: post))[pre.length]? = some (stepOp Es (stateAfter Es p pre) o).2 := by
  rw [runOps_append]
  have hl := runOps_length Es pre p
  rw [List.getElem?_append_right (by omega)]
  simp [hl, runOps]

end Jap.Links

/-! ## ordered link sets: nested keys are harmless when every write comes BEFORE the reads it affects

`nonNested` (Lemmas/Links) asks that no target is nested in / above any source or other target.  The pass is
sequential (registration order), so less is needed: a link must not write into its own sources, and a link applied
LATER must not write into / above the target or the sources of a link applied EARLIER.  A later link may read what an
earlier one wrote (`a --> g.p` registered before `fsum(g) --> b`). -/

namespace Jap.Links
open Jap.NS

/-- the link does not write into its own sources -/
def ownOK (l : Link) : Bool := l.sources.all fun s => diverges l.target s.key

/-- `l'` (applied later) does not write into the target or the sources of `l` (applied earlier) -/
def laterOK (l l' : Link) : Bool := diverges l'.target l.target && l.sources.all fun s => diverges l'.target s.key

/-- every write comes before the reads it affects -/
def fwdOK : List Link → Bool
  | [] => true
  | l :: r => ownOK l && r.all (laterOK l) && fwdOK r

/-- keys that no link of the pass writes to are left as they are (no hypothesis on the link set) -/
theorem apply_frame (E : Env) : ∀ (ls : List Link) (cfg cfg' : KV), applyParsingLinks E ls cfg = .ok cfg' →
    ∀ k, (∀ l ∈ ls, diverges l.target k = true) → getK k cfg' = getK k cfg
  | [], cfg, cfg', h, _, _ => by simp only [applyParsingLinks] at h; cases h; rfl
  | l0 :: r, cfg, cfg', h, k, hk => by
    simp only [applyParsingLinks] at h
    cases h1 : applyLink E l0 cfg with
    | error e => simp [h1] at h
    | ok cfg1 =>
      simp only [h1] at h
      rw [apply_frame E r cfg1 cfg' h k (fun x hx => hk x (List.mem_cons_of_mem _ hx))]
      exact applyLink_frame E l0 cfg cfg1 h1 k (hk l0 List.mem_cons_self)

/-- the invariant on the FINAL configuration for ordered link sets -/
theorem apply_inv_fwd (E : Env) : ∀ (ls : List Link) (cfg cfg' : KV),
    applyParsingLinks E ls cfg = .ok cfg' → fwdOK ls = true →
    ∀ l ∈ ls, l.target ≠ [] → ∀ args, argsOf cfg' l.sources = some args →
      ∃ v, linkValue E l args = .ok v ∧ (∀ w ∈ targetValues l cfg', w = v) ∧
        (l.kind = .plain → getK l.target cfg' = some v)
  | [], _, _, _, _ => fun l hl => by cases hl
  | l0 :: r, cfg, cfg', h, hf => by
    simp only [applyParsingLinks] at h
    cases h1 : applyLink E l0 cfg with
    | error e => simp [h1] at h
    | ok cfg1 =>
      simp only [h1] at h
      simp only [fwdOK, Bool.and_eq_true, List.all_eq_true] at hf
      obtain ⟨⟨hown, hlater⟩, hrest⟩ := hf
      intro l hl hne args ha
      rcases List.mem_cons.mp hl with e | hl'
      · subst e
        have hl2 : ∀ x ∈ r, diverges x.target l.target = true ∧ ∀ s ∈ l.sources, diverges x.target s.key = true := by
          intro x hx
          have := hlater x hx
          simp only [laterOK, Bool.and_eq_true, List.all_eq_true] at this
          exact this
        have hsrc : ∀ s ∈ l.sources, getK s.key cfg' = getK s.key cfg := by
          intro s hs
          rw [apply_frame E r cfg1 cfg' h s.key (fun x hx => (hl2 x hx).2 s hs)]
          exact applyLink_frame E l cfg cfg1 h1 s.key (by
            simp only [ownOK, List.all_eq_true] at hown; exact hown s hs)
        have ha0 : argsOf cfg l.sources = some args := by
          rw [← argsOf_congr cfg' cfg l.sources hsrc]; exact ha
        obtain ⟨v, hv, hc⟩ := applyLink_value E l cfg cfg1 h1 args ha0
        refine ⟨v, hv, fun w hw => ?_, fun hk => ?_⟩
        · have := apply_targetValues_frame E l r cfg1 cfg' h (fun x hx => (hl2 x hx).1) w hw
          rw [hc] at this
          exact targetValues_own l v cfg w this
        · rw [apply_frame E r cfg1 cfg' h l.target (fun x hx => (hl2 x hx).1), hc]
          exact (getK_setTargetValue_target l v cfg).2 hk hne
      · exact apply_inv_fwd E r cfg1 cfg' h hrest l hl' hne args ha

/-- link sets without nested keys are ordered, in whatever order they were registered -/
theorem fwdOK_of_indep : ∀ (ls : List Link), SrcIndep ls → TgtIndep ls → fwdOK ls = true
  | [], _, _ => rfl
  | l :: r, hST, hTT => by
    have hTT' := List.pairwise_cons.mp hTT
    simp only [fwdOK, Bool.and_eq_true, List.all_eq_true]
    refine ⟨⟨?_, fun x hx => ?_⟩, fwdOK_of_indep r hST.tail hTT'.2⟩
    · simp only [ownOK, List.all_eq_true]
      exact fun s hs => hST l List.mem_cons_self l List.mem_cons_self s hs
    · simp only [laterOK, Bool.and_eq_true, List.all_eq_true]
      refine ⟨by rw [diverges_symm]; exact hTT'.1 x hx, fun s hs => ?_⟩
      exact hST x (List.mem_cons_of_mem _ hx) l List.mem_cons_self s hs

end Jap.Links

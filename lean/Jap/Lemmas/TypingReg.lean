/-
Helper lemmas for the registries of E8 (C20): `sorted` is a permutation, verdicts do not depend on the order
of the restrictions, the type registry keeps what it has, handler registry lookups.
Core Lean only.
-/
import Jap.Core.TypingReg
import Jap.Lemmas.TypingNum

namespace Jap.Typing

theorem insertR_perm (a : Restr) (l : List Restr) : (insertR a l).Perm (a :: l) := by
  induction l with
  | nil => exact List.Perm.refl _
  | cons b r ih =>
    unfold insertR
    split
    · exact List.Perm.refl _
    · exact ((List.Perm.cons b ih).trans (List.Perm.swap a b r))

theorem sortR_perm (l : List Restr) : (sortR l).Perm l := by
  induction l with
  | nil => exact List.Perm.refl _
  | cons a r ih => exact (insertR_perm a (sortR r)).trans (List.Perm.cons a ih)

theorem checks_all_perm {rs₁ rs₂ : List Restr} (p : rs₁.Perm rs₂) (x : BVal) :
    (checks rs₁ x).all id = (checks rs₂ x).all id := by
  rw [Bool.eq_iff_iff]
  simp only [checks, List.all_map, List.all_eq_true]
  constructor
  · intro h r hr; exact h r (p.mem_iff.mpr hr)
  · intro h r hr; exact h r (p.mem_iff.mp hr)

theorem checks_any_perm {rs₁ rs₂ : List Restr} (p : rs₁.Perm rs₂) (x : BVal) :
    (checks rs₁ x).any id = (checks rs₂ x).any id := by
  rw [Bool.eq_iff_iff]
  simp only [checks, List.any_map, List.any_eq_true]
  constructor
  · rintro ⟨r, hr, h⟩; exact ⟨r, p.mem_iff.mp hr, h⟩
  · rintro ⟨r, hr, h⟩; exact ⟨r, p.mem_iff.mpr hr, h⟩

/-- the whole outcome of `T(v)` (value or exception class) is invariant under reordering the restrictions -/
theorem validateNum_perm {rs₁ rs₂ : List Restr} (p : rs₁.Perm rs₂) (b : Base) (j : Join) (v : PyVal) :
    validateNum b rs₁ j v = validateNum b rs₂ j v := by
  have hv : validationFn b rs₁ j v = validationFn b rs₂ j v := by
    unfold validationFn
    split
    · rfl
    · split
      · rfl
      · cases castBase b v with
        | error e => rfl
        | ok vv => simp only [checks_all_perm p vv, checks_any_perm p vv]
  unfold validateNum
  rw [hv]

/-- equal keys: same base, same join, restriction lists that are permutations of each other -/
theorem numKey_eq {b b' : Base} {rs rs' : List Restr} {j j' : Join} (h : numKey b rs j = numKey b' rs' j') :
    b = b' ∧ j = j' ∧ rs.Perm rs' := by
  simp only [numKey, Prod.mk.injEq] at h
  obtain ⟨hs, hb, hj⟩ := h
  refine ⟨hb, hj, ?_⟩
  exact ((sortR_perm rs).symm.trans (hs ▸ List.Perm.refl _)).trans (sortR_perm rs')

theorem TReg.find_some {r : TReg} {k : NumKey} {c : NumCls} (h : r.find k = some c) : (k, c) ∈ r.types := by
  unfold TReg.find at h
  split at h
  · rename_i e he
    have hk := List.find?_some he
    have hm := List.mem_of_find?_eq_some he
    simp only [decide_eq_true_eq] at hk
    cases h
    cases e
    simp only at hk
    subst hk
    exact hm
  · cases h

/-- an entry found before is found after appending a new one -/
theorem TReg.find_append {types : List (NumKey × NumCls)} {names names' : List String} {n n' : Nat} {k : NumKey}
    {c : NumCls} (e : NumKey × NumCls) (h : (TReg.mk types names n).find k = some c) :
    (TReg.mk (types ++ [e]) names' n').find k = some c := by
  unfold TReg.find at h ⊢
  simp only [List.find?_append]
  split at h
  · rename_i e' he'
    simp only [he', Option.some_or]
    exact h
  · cases h

/-- the two ways `restricted_number_type` succeeds: the key is registered under this name (registry unchanged),
or key and name are new (one entry appended) -/
theorem createNum_ok_iff (r r' : TReg) (name : String) (b : Base) (rs : List Restr) (j : Join) (c : NumCls) :
    createNum r name b rs j = .ok (r', c) ↔
      (r.find (numKey b rs j) = some c ∧ c.name = name ∧ r' = r) ∨
      (r.find (numKey b rs j) = none ∧ r.names.contains name = false ∧
        r' = ⟨r.types ++ [(numKey b rs j, ⟨r.next, name, b, rs, j⟩)], name :: r.names, r.next + 1⟩ ∧
        c = ⟨r.next, name, b, rs, j⟩) := by
  unfold createNum
  cases hf : r.find (numKey b rs j) with
  | some c0 =>
    by_cases hn : c0.name = name
    · simp only [hn, ne_eq, not_true_eq_false, ↓reduceIte, Except.ok.injEq, Prod.mk.injEq, Option.some.injEq]
      constructor
      · rintro ⟨rfl, rfl⟩; exact Or.inl ⟨rfl, hn, rfl⟩
      · rintro (⟨rfl, _, rfl⟩ | ⟨h, _⟩)
        · exact ⟨rfl, rfl⟩
        · cases h
    · simp only [ne_eq, hn, not_false_eq_true, ↓reduceIte]
      constructor
      · intro h; cases h
      · rintro (⟨h, h2, _⟩ | ⟨h, _⟩)
        · cases h; exact absurd h2 hn
        · cases h
  | none =>
    cases hc : r.names.contains name with
    | true =>
      simp only [↓reduceIte]
      constructor
      · intro h; cases h
      · rintro (⟨h, _⟩ | ⟨_, h, _⟩)
        · cases h
        · cases h
    | false =>
      simp only [Bool.false_eq_true, ↓reduceIte, Except.ok.injEq, Prod.mk.injEq]
      constructor
      · rintro ⟨rfl, rfl⟩; exact Or.inr (by simp)
      · rintro (⟨h, _⟩ | ⟨_, _, rfl, rfl⟩)
        · cases h
        · exact ⟨rfl, rfl⟩

theorem TReg.find_append_new {types : List (NumKey × NumCls)} {names names' : List String} {n n' : Nat} {k : NumKey}
    (c : NumCls) (h : (TReg.mk types names n).find k = none) :
    (TReg.mk (types ++ [(k, c)]) names' n').find k = some c := by
  unfold TReg.find at h ⊢
  simp only [List.find?_append]
  split at h
  · cases h
  · rename_i hnone
    simp [hnone]

theorem assocGet_assocSet_same {β : Type} (l : List (Nat × β)) (k : Nat) (v : β) : assocGet (assocSet l k v) k = some v := by
  induction l with
  | nil => simp [assocSet, assocGet]
  | cons e r ih =>
    obtain ⟨k', v'⟩ := e
    unfold assocSet
    split
    · simp [assocGet]
    · rename_i hne
      simp [assocGet, hne, ih]

theorem assocGet_assocSet_other {β : Type} (l : List (Nat × β)) (k k' : Nat) (v : β) (h : k' ≠ k) :
    assocGet (assocSet l k v) k' = assocGet l k' := by
  induction l with
  | nil => simp [assocSet, assocGet, Ne.symm h]
  | cons e r ih =>
    obtain ⟨k₀, v₀⟩ := e
    unfold assocSet
    split
    · rename_i he
      subst he
      simp [assocGet, Ne.symm h]
    · by_cases hk : k₀ = k'
      · simp [assocGet, hk]
      · simp [assocGet, hk, ih]

end Jap.Typing

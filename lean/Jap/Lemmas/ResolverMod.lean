/-
E9 (Resolver), programs spread over modules: `link` reads the global table of a module only for program
text that lives in that module (`MProg.usesModule`).
-/
import Jap.Core.ResolverMod

namespace Jap.Resolver

theorem linkCms_congr {g g' : Nat → Module} {L : Module → Nat → Nat} : ∀ (cs : List Callable) (j0 : Nat),
    (∀ j, j < cs.length → g (j0 + j) = g' (j0 + j)) → linkCms L g j0 cs = linkCms L g' j0 cs
  | [], _, _ => rfl
  | c :: cs, j0, h => by
    have h0 : g j0 = g' j0 := by simpa using h 0 (by simp)
    have ht := linkCms_congr (g := g) (g' := g') (L := L) cs (j0 + 1) (fun j hj => by
      have := h (j + 1) (by simp only [List.length_cons]; omega)
      rw [show j0 + 1 + j = j0 + (j + 1) by omega]; exact this)
    simp only [linkCms, h0, ht]

theorem linkEntry_congr {f f' : Module} {g g' : Nat → Module} {L : Module → Nat → Nat} (e : Entry)
    (hf : e.hasOwnBody = true → f = f')
    (hg : ∀ kk j, e = .cls kk → j < kk.cmeths.length → g j = g' j) :
    linkEntry L f g e = linkEntry L f' g' e := by
  cases e with
  | fn c => simp only [linkEntry, hf rfl]
  | cls k =>
    have hcm : linkCms L g 0 k.cmeths = linkCms L g' 0 k.cmeths :=
      linkCms_congr k.cmeths 0 (fun j hj => by simpa using hg k j rfl hj)
    by_cases hb : (Entry.cls k).hasOwnBody = true
    · simp only [linkEntry, hf hb, hcm]
    · have hi : k.init = none := by
        cases h : k.init with
        | none => rfl
        | some c => exact absurd (by simp [Entry.hasOwnBody, h]) hb
      have hm : k.meths = [] := by
        cases h : k.meths with
        | nil => rfl
        | cons c cs => exact absurd (by simp [Entry.hasOwnBody, h]) hb
      simp only [linkEntry, hi, hm, hcm, Option.map_none, List.map_nil]

theorem linkWith_congr {f f' : Nat → Module} {g g' : Nat → Nat → Module} {L : Module → Nat → Nat} : ∀ (es : List Entry) (i : Nat),
    (∀ k e, es[k]? = some e → e.hasOwnBody = true → f (i + k) = f' (i + k)) →
    (∀ k kk j, es[k]? = some (.cls kk) → j < kk.cmeths.length → g (i + k) j = g' (i + k) j) →
    linkWith L f g i es = linkWith L f' g' i es
  | [], _, _, _ => rfl
  | e :: es, i, hf, hg => by
    have he := linkEntry_congr (f := f i) (f' := f' i) (g := g i) (g' := g' i) (L := L) e
      (fun hb => by simpa using hf 0 e (by simp) hb)
      (fun kk j hk hj => by simpa using hg 0 kk j (by simp [hk]) hj)
    have ht := linkWith_congr (f := f) (f' := f') (g := g) (g' := g') (L := L) es (i + 1)
      (fun k e' hk hb => by
        have := hf (k + 1) e' (by simpa using hk) hb
        rw [show i + 1 + k = i + (k + 1) by omega]; exact this)
      (fun k kk j hk hj => by
        have := hg (k + 1) kk j (by simpa using hk) hj
        rw [show i + 1 + k = i + (k + 1) by omega]; exact this)
    simp only [linkWith, he, ht]

theorem usedFrom_own {MP : MProg} {m : Nat} : ∀ (es : List Entry) (i k : Nat) (e : Entry),
    es[k]? = some e → e.hasOwnBody = true → MP.modOf.getD (i + k) 0 = m → usedFrom MP m i es = true
  | [], _, k, _, h, _, _ => by simp at h
  | e0 :: es, i, 0, e, h, hb, hm => by
    simp only [List.getElem?_cons_zero, Option.some.injEq] at h
    subst h
    simp only [Nat.add_zero, List.getD_eq_getElem?_getD] at hm
    simp [usedFrom, hb, hm]
  | e0 :: es, i, k + 1, e, h, hb, hm => by
    have := usedFrom_own (MP := MP) (m := m) es (i + 1) k e (by simpa using h) hb
      (by rw [show i + 1 + k = i + (k + 1) by omega]; exact hm)
    simp [usedFrom, this]

theorem usedFrom_cm {MP : MProg} {m : Nat} : ∀ (es : List Entry) (i k : Nat) (kk : Class) (j : Nat),
    es[k]? = some (.cls kk) → j < kk.cmeths.length → MP.modOf.getD (MP.definer (i + k) j) 0 = m →
    usedFrom MP m i es = true
  | [], _, k, _, _, h, _, _ => by simp at h
  | e0 :: es, i, 0, kk, j, h, hj, hm => by
    simp only [List.getElem?_cons_zero, Option.some.injEq] at h
    subst h
    simp only [Nat.add_zero, List.getD_eq_getElem?_getD] at hm
    simp only [usedFrom, Bool.or_eq_true, List.any_eq_true, List.mem_range, beq_iff_eq, List.getD_eq_getElem?_getD]
    exact Or.inl (Or.inr ⟨j, hj, hm⟩)
  | e0 :: es, i, k + 1, kk, j, h, hj, hm => by
    have := usedFrom_cm (MP := MP) (m := m) es (i + 1) k kk j (by simpa using h) hj
      (by rw [show i + 1 + k = i + (k + 1) by omega]; exact hm)
    simp [usedFrom, this]

theorem lookup_nolocal {MP : MProg} (h : MP.localImp = []) (stat : Bool) (miss : Nat) :
    MP.lookup stat miss = fun M s => lookupSym M miss s := by
  funext M s
  simp [MProg.lookup, h]

/-- Two source programs (without imports inside bodies) with the same text, module assignment and classmethod
    definers whose global tables agree on every module that holds program text link to the same entries. -/
theorem linkEntries_congr (MP MP' : MProg) (hs : MP'.src = MP.src) (hm : MP'.modOf = MP.modOf) (hc : MP'.cmDef = MP.cmDef)
    (hl : MP.localImp = []) (hl' : MP'.localImp = [])
    (h : ∀ m, MP.usesModule m = true → MP'.moduleAt m = MP.moduleAt m) (stat stat' : Bool) :
    linkEntries MP' stat' = linkEntries MP stat := by
  unfold linkEntries
  rw [hs, lookup_nolocal hl, lookup_nolocal hl']
  apply linkWith_congr
  · intro k e hk hb
    simp only [MProg.moduleOfEntry, hm]
    exact h _ (usedFrom_own MP.src.entries 0 k e hk hb rfl)
  · intro k kk j hk hj
    simp only [MProg.moduleOfEntry, MProg.definer, hm, hc]
    exact h _ (usedFrom_cm MP.src.entries 0 k kk j hk hj rfl)

theorem link_congr (MP MP' : MProg) (hs : MP'.src = MP.src) (hm : MP'.modOf = MP.modOf) (hc : MP'.cmDef = MP.cmDef)
    (hl : MP.localImp = []) (hl' : MP'.localImp = [])
    (h : ∀ m, MP.usesModule m = true → MP'.moduleAt m = MP.moduleAt m) : linkD MP' = linkD MP := by
  unfold linkD
  rw [linkEntries_congr MP MP' hs hm hc hl hl' h false false]

/-- without imports inside bodies both lookups coincide -/
theorem nolocal_noShadow {MP : MProg} (hl : MP.localImp = []) : noShadowedLocalImport MP = true := by
  simp [noShadowedLocalImport, linkEntries, lookup_nolocal hl]

/-- outside the two findings the resolver reads the program Python runs -/
theorem linkS_eq_linkD {MP : MProg} (h1 : noForeignTwoArgSuper MP = true) (h2 : noShadowedLocalImport MP = true) :
    linkS MP = linkD MP := by
  simp only [noShadowedLocalImport, decide_eq_true_eq] at h2
  simp only [noForeignTwoArgSuper, linkS, List.isEmpty_iff] at h1
  unfold linkS linkD
  rw [h1, h2]

theorem linkWith_length {L : Module → Nat → Nat} {f : Nat → Module} {g : Nat → Nat → Module} : ∀ (es : List Entry) (i : Nat),
    (linkWith L f g i es).length = es.length
  | [], _ => rfl
  | _ :: es, i => by simp [linkWith, linkWith_length es (i + 1)]

/-- linking keeps the entry table's shape: the same queries are valid -/
theorem link_length (MP : MProg) : (linkD MP).entries.length = MP.src.entries.length := by
  simp [linkD, linkEntries, linkWith_length]

theorem link_valid (MP : MProg) (c : CId) : c.valid (linkD MP) = c.valid MP.src := by
  cases c <;> simp [CId.valid, link_length]

end Jap.Resolver

import Jap.Core.Styles
/-!
Lemmas for C07 on recursive field lists with declared group defaults:
`set_defaults` as the ordered list of the leaf assignments it performs; the entries of the four tables.
-/
namespace Jap.Validate

/-! ## `set_defaults` = all the leaf assignments, in order -/

mutual
/-- the leaf assignments `set_defaults` performs, in order -/
def flatD (pre : List String) : DMap → List (List String × Val)
  | [] => []
  | (k, dv) :: r => flatDV (pre ++ [k]) dv ++ flatD pre r
def flatDV (p : List String) : DVal → List (List String × Val)
  | .val v => [(p, v)]
  | .map m => flatD p m
end

def applyAssigns (t : TableR) (l : List (List String × Val)) : TableR := l.foldl (fun t a => t.setDefault a.1 a.2) t

theorem applyAssigns_append (t : TableR) (l1 l2) : applyAssigns t (l1 ++ l2) = applyAssigns (applyAssigns t l1) l2 := by
  simp [applyAssigns, List.foldl_append]

mutual
theorem setDefs_eq_fold : ∀ (pre : List String) (D : DMap) (t : TableR), setDefs pre D t = applyAssigns t (flatD pre D)
  | _, [], t => by simp [setDefs, flatD, applyAssigns]
  | pre, (k, dv) :: r, t => by
    rw [setDefs, flatD, applyAssigns_append, setDef_eq_fold (pre ++ [k]) dv t, setDefs_eq_fold pre r]
theorem setDef_eq_fold : ∀ (p : List String) (dv : DVal) (t : TableR), setDef p dv t = applyAssigns t (flatDV p dv)
  | p, .val v, t => by simp [setDef, flatDV, applyAssigns]
  | p, .map m, t => by rw [setDef, flatDV, setDefs_eq_fold p m t]
end

/-- the last value assigned to `p`, `d` when there is none -/
def lastA (p : List String) : List (List String × Val) → Val → Val
  | [], d => d
  | a :: l, d => lastA p l (if a.1 = p then a.2 else d)

theorem lastA_append (p : List String) : ∀ (l1 l2 : List (List String × Val)) (d : Val),
    lastA p (l1 ++ l2) d = lastA p l2 (lastA p l1 d)
  | [], _, _ => rfl
  | a :: l, l2, d => by simp only [List.cons_append, lastA]; exact lastA_append p l l2 _

/-- the entries after the assignments `l` -/
def updE (l : List (List String × Val)) (es : List EntryR) : List EntryR :=
  es.map fun e => { e with default := lastA e.path l e.default }

theorem applyAssigns_entries : ∀ (l : List (List String × Val)) (t : TableR),
    (applyAssigns t l).entries = updE l t.entries ∧ (applyAssigns t l).required = t.required ∧ (applyAssigns t l).wholes = t.wholes
  | [], t => by simp [applyAssigns, updE, lastA]
  | a :: l, t => by
    have ih := applyAssigns_entries l (t.setDefault a.1 a.2)
    have e : applyAssigns t (a :: l) = applyAssigns (t.setDefault a.1 a.2) l := by simp [applyAssigns]
    rw [e]
    refine ⟨?_, ih.2.1, ih.2.2⟩
    rw [ih.1]
    simp only [updE, TableR.setDefault, List.map_map]
    apply List.map_congr_left
    intro e' _
    simp only [Function.comp, lastA]
    by_cases h : e'.path = a.1
    · simp [h]
    · have h' : ¬ a.1 = e'.path := fun x => h x.symm
      simp [h, h']

theorem setDefs_entries (pre : List String) (D : DMap) (t : TableR) :
    (setDefs pre D t).entries = updE (flatD pre D) t.entries ∧ (setDefs pre D t).required = t.required
      ∧ (setDefs pre D t).wholes = t.wholes := by
  rw [setDefs_eq_fold]; exact applyAssigns_entries _ _

theorem updE_append (l : List (List String × Val)) (a b : List EntryR) : updE l (a ++ b) = updE l a ++ updE l b := by
  simp [updE]

theorem updE_updE (l1 l2 : List (List String × Val)) (es : List EntryR) : updE l2 (updE l1 es) = updE (l1 ++ l2) es := by
  simp only [updE, List.map_map]
  apply List.map_congr_left
  intro e _
  simp [Function.comp, lastA_append]

theorem updE_congr {l1 l2 : List (List String × Val)} {es : List EntryR}
    (h : ∀ e ∈ es, ∀ d, lastA e.path l1 d = lastA e.path l2 d) : updE l1 es = updE l2 es := by
  simp only [updE]
  apply List.map_congr_left
  intro e he
  rw [h e he]

mutual
theorem flatD_append : ∀ (pre : List String) (a b : DMap), flatD pre (a ++ b) = flatD pre a ++ flatD pre b
  | _, [], b => by simp [flatD]
  | pre, (k, dv) :: r, b => by simp only [List.cons_append, flatD, flatD_append pre r b, List.append_assoc]
end

mutual
/-- every assignment of a mapping given for the group `q` goes to a path strictly below `q` -/
theorem flatD_below : ∀ (q : List String) (D : DMap), ∀ a ∈ flatD q D, ∃ s, s ≠ [] ∧ a.1 = q ++ s
  | _, [], a, h => by simp [flatD] at h
  | q, (k, dv) :: r, a, h => by
    rw [flatD, List.mem_append] at h
    rcases h with h | h
    · obtain ⟨s, hs⟩ := flatDV_below (q ++ [k]) dv a h
      exact ⟨k :: s, by simp, by rw [hs]; simp⟩
    · exact flatD_below q r a h
theorem flatDV_below : ∀ (p : List String) (dv : DVal), ∀ a ∈ flatDV p dv, ∃ s, a.1 = p ++ s
  | p, .val v, a, h => by
    simp only [flatDV, List.mem_singleton] at h
    exact ⟨[], by rw [h]; simp⟩
  | p, .map m, a, h => by
    rw [flatDV] at h
    obtain ⟨s, _, hs⟩ := flatD_below p m a h
    exact ⟨s, hs⟩
end

theorem lastA_nohit {p : List String} : ∀ {l : List (List String × Val)} (d : Val), (∀ a ∈ l, a.1 ≠ p) → lastA p l d = d
  | [], _, _ => rfl
  | a :: l, d, h => by
    have h1 := h a List.mem_cons_self
    simp only [lastA, h1, if_false]
    exact lastA_nohit d (fun x hx => h x (List.mem_cons_of_mem _ hx))

/-! ## style 4 = style 1 -/

def prefE (P : List String) (es : List EntryR) : List EntryR := es.map fun e => { e with path := P ++ e.path }

mutual
theorem dottedF_inner : ∀ (P : List String) (f : FieldR),
    (dottedF P f).entries = prefE P (innerF f).entries ∧ (dottedF P f).required = (innerF f).required.map (P ++ ·)
  | P, .leaf n ty d s => by
    simp only [dottedF, innerF, addArgR, prefE, List.map_cons, List.map_nil]
    cases d <;> simp
  | P, .sub n dn fs => by
    have ih := dottedL_inner (P ++ [n]) fs
    simp only [dottedF, innerF, TableR.moved, prefE, List.map_map] at ih ⊢
    refine ⟨?_, ?_⟩
    · rw [ih.1]
      apply List.map_congr_left
      intro e _
      simp [Function.comp]
    · rw [ih.2]
      apply List.map_congr_left
      intro e _
      simp [Function.comp]
theorem dottedL_inner : ∀ (P : List String) (fs : List FieldR),
    (dottedL P fs).entries = prefE P (innerL fs).entries ∧ (dottedL P fs).required = (innerL fs).required.map (P ++ ·)
  | _, [] => by simp [dottedL, innerL, TableR.empty, prefE]
  | P, f :: r => by
    have h1 := dottedF_inner P f
    have h2 := dottedL_inner P r
    simp only [dottedL, innerL, TableR.append, prefE, List.map_append] at h1 h2 ⊢
    exact ⟨by rw [h1.1, h2.1], by rw [h1.2, h2.2]⟩
end

/-! ## the group options -/

mutual
def groupsF (P : List String) : FieldR → List (List String)
  | .leaf _ _ _ _ => []
  | .sub n _ fs => (P ++ [n]) :: groupsL (P ++ [n]) fs
def groupsL (P : List String) : List FieldR → List (List String)
  | [] => []
  | f :: r => groupsF P f ++ groupsL P r
end

mutual
theorem sigF_wholes : ∀ (P : List String) (f : FieldR), (sigF P f).wholes = groupsF P f
  | P, .leaf n ty d s => by simp [sigF, addArgR, groupsF]
  | P, .sub n dn fs => by
    rw [sigF, (setDefs_entries _ _ _).2.2]
    simp [TableR.append, groupsF, sigL_wholes (P ++ [n]) fs]
theorem sigL_wholes : ∀ (P : List String) (fs : List FieldR), (sigL P fs).wholes = groupsL P fs
  | _, [] => by simp [sigL, TableR.empty, groupsL]
  | P, f :: r => by simp [sigL, TableR.append, groupsL, sigF_wholes P f, sigL_wholes P r]
end

mutual
theorem innerF_wholes : ∀ (P : List String) (f : FieldR), (innerF f).wholes.map (P ++ ·) = groupsF P f
  | P, .leaf n ty d s => by simp [innerF, addArgR, groupsF]
  | P, .sub n dn fs => by
    have ih := innerL_wholes (P ++ [n]) fs
    simp only [innerF, TableR.moved, groupsF, List.map_cons, List.map_map]
    rw [← ih]
    congr 1
    apply List.map_congr_left
    intro e _
    simp [Function.comp]
theorem innerL_wholes : ∀ (P : List String) (fs : List FieldR), (innerL fs).wholes.map (P ++ ·) = groupsL P fs
  | _, [] => by simp [innerL, TableR.empty, groupsL]
  | P, f :: r => by simp [innerL, TableR.append, groupsL, innerF_wholes P f, innerL_wholes P r]
end

mutual
theorem dottedF_wholes : ∀ (P : List String) (f : FieldR), (dottedF P f).wholes = []
  | P, .leaf n ty d s => by simp [dottedF, addArgR]
  | P, .sub n dn fs => by simp [dottedF, dottedL_wholes (P ++ [n]) fs]
theorem dottedL_wholes : ∀ (P : List String) (fs : List FieldR), (dottedL P fs).wholes = []
  | _, [] => by simp [dottedL, TableR.empty]
  | P, f :: r => by simp [dottedL, TableR.append, dottedF_wholes P f, dottedL_wholes P r]
end

mutual
/-- pushing declared defaults to the leaves does not change the structure -/
theorem groupsF_eff : ∀ (P : List String) (D : DMap) (f : FieldR), groupsF P (effF D f) = groupsF P f
  | P, D, .leaf n ty d s => by simp [effF, groupsF]
  | P, D, .sub n dn fs => by simp [effF, groupsF, groupsL_eff (P ++ [n]) (dn ++ mapsFor n D) fs]
theorem groupsL_eff : ∀ (P : List String) (D : DMap) (fs : List FieldR), groupsL P (effL D fs) = groupsL P fs
  | _, _, [] => by simp [effL, groupsL]
  | P, D, f :: r => by simp [effL, groupsL, groupsF_eff P D f, groupsL_eff P D r]
end

/-! ## styles 2/3 = style 1 with the declared defaults pushed to the leaves -/

mutual
/-- the arguments of a signature-declared group lie strictly below the group -/
theorem sigF_paths : ∀ (P : List String) (f : FieldR), ∀ e ∈ (sigF P f).entries, ∃ s, s ≠ [] ∧ e.path = P ++ s
  | P, .leaf n ty d st, e, h => by
    simp only [sigF, addArgR, List.mem_singleton] at h
    exact ⟨[n], by simp, by rw [h]⟩
  | P, .sub n dn fs, e, h => by
    rw [sigF, (setDefs_entries _ _ _).1] at h
    simp only [updE, TableR.append, List.nil_append, List.mem_map] at h
    obtain ⟨e0, he0, rfl⟩ := h
    obtain ⟨s, _, hs⟩ := sigL_paths (P ++ [n]) fs e0 he0
    exact ⟨n :: s, by simp, by simp [hs]⟩
theorem sigL_paths : ∀ (P : List String) (fs : List FieldR), ∀ e ∈ (sigL P fs).entries, ∃ s, s ≠ [] ∧ e.path = P ++ s
  | _, [], e, h => by simp [sigL, TableR.empty] at h
  | P, f :: r, e, h => by
    simp only [sigL, TableR.append, List.mem_append] at h
    rcases h with h | h
    · exact sigF_paths P f e h
    · exact sigL_paths P r e h
end

/-- the value a leaf `n` of the level `P` ends with = the last value given for `n` -/
theorem lastA_leaf (P : List String) (n : String) : ∀ (D : DMap) (acc : Option Val) (x : Val),
    lastA (P ++ [n]) (flatD P D) (match acc with | some v => v | none => x)
      = (match valFor n D acc with | some v => v | none => x)
  | [], acc, x => by simp [flatD, lastA, valFor]
  | (k, .val v) :: r, acc, x => by
    simp only [flatD, flatDV, List.singleton_append, lastA, valFor]
    by_cases hk : k = n
    · subst hk
      simp only [if_true]
      exact lastA_leaf P k r (some v) x
    · have : ¬ P ++ [k] = P ++ [n] := by
        intro e
        have := List.append_cancel_left e
        simp at this
        exact hk this
      simp only [this, hk, if_false]
      exact lastA_leaf P n r acc x
  | (k, .map m) :: r, acc, x => by
    simp only [flatD, flatDV, valFor, lastA_append]
    have hno : ∀ a ∈ flatD (P ++ [k]) m, a.1 ≠ P ++ [n] := by
      intro a ha e
      obtain ⟨s, hs, hp⟩ := flatD_below (P ++ [k]) m a ha
      rw [e] at hp
      have := congrArg List.length hp
      simp only [List.length_append, List.length_cons, List.length_nil] at this
      cases s with
      | nil => exact hs rfl
      | cons y ys => simp at this
    rw [lastA_nohit _ hno]
    exact lastA_leaf P n r acc x

/-- below the sub-group `n` of the level `P`, the entries of a defaults mapping that matter are the mappings given for `n` -/
theorem lastA_sub (P : List String) (n : String) (s : List String) (hs : s ≠ []) : ∀ (D : DMap) (d : Val),
    lastA (P ++ n :: s) (flatD P D) d = lastA (P ++ n :: s) (flatD (P ++ [n]) (mapsFor n D)) d
  | [], d => by simp [flatD, mapsFor]
  | (k, .val v) :: r, d => by
    simp only [flatD, flatDV, List.singleton_append, lastA, mapsFor]
    have : ¬ P ++ [k] = P ++ n :: s := by
      intro e
      have := List.append_cancel_left e
      simp only [List.cons.injEq] at this
      exact hs this.2.symm
    simp only [this, if_false]
    exact lastA_sub P n s hs r d
  | (k, .map m) :: r, d => by
    simp only [flatD, flatDV, mapsFor, lastA_append]
    by_cases hk : k = n
    · subst hk
      simp only [if_true, flatD_append, lastA_append]
      exact lastA_sub P k s hs r _
    · simp only [hk, if_false]
      have hno : ∀ a ∈ flatD (P ++ [k]) m, a.1 ≠ P ++ n :: s := by
        intro a ha e
        obtain ⟨s', _, hp⟩ := flatD_below (P ++ [k]) m a ha
        rw [e] at hp
        have h2 : n :: s = k :: s' := by
          have := List.append_cancel_left (by simpa using hp : P ++ (n :: s) = P ++ (k :: s'))
          exact this
        simp only [List.cons.injEq] at h2
        exact hk h2.1.symm
      rw [lastA_nohit _ hno]
      exact lastA_sub P n s hs r d

mutual
/-- **the signature styles declare what the dotted style declares once the declared defaults are pushed to the leaves** -/
theorem sigF_dotted : ∀ (P : List String) (D : DMap) (f : FieldR),
    updE (flatD P D) (sigF P f).entries = (dottedF P (effF D f)).entries ∧ (sigF P f).required = (dottedF P (effF D f)).required
  | P, D, .leaf n ty d st => by
    simp only [sigF, effF, dottedF, addArgR, updE, List.map_cons, List.map_nil, and_true]
    have := lastA_leaf P n D none ((normOptD ty d).getD .null)
    simp only [] at this
    rw [this]
    cases valFor n D none <;> rfl
  | P, D, .sub n dn fs => by
    have ih := sigL_dotted (P ++ [n]) (dn ++ mapsFor n D) fs
    rw [sigF, effF, dottedF]
    obtain ⟨h1, h2, _⟩ := setDefs_entries (P ++ [n]) dn ((⟨[], [], [P ++ [n]]⟩ : TableR).append (sigL (P ++ [n]) fs))
    refine ⟨?_, ?_⟩
    · rw [h1]
      simp only [TableR.append, List.nil_append]
      rw [updE_updE, ← ih.1, flatD_append]
      apply updE_congr
      intro e he d
      obtain ⟨s, hs, hp⟩ := sigL_paths (P ++ [n]) fs e he
      have hp' : e.path = P ++ n :: s := by rw [hp]; simp
      rw [lastA_append, lastA_append, hp', lastA_sub P n s hs D]
    · rw [h2]
      simp only [TableR.append, List.nil_append]
      exact ih.2
theorem sigL_dotted : ∀ (P : List String) (D : DMap) (fs : List FieldR),
    updE (flatD P D) (sigL P fs).entries = (dottedL P (effL D fs)).entries ∧ (sigL P fs).required = (dottedL P (effL D fs)).required
  | _, _, [] => by simp [sigL, effL, dottedL, TableR.empty, updE]
  | P, D, f :: r => by
    have h1 := sigF_dotted P D f
    have h2 := sigL_dotted P D r
    simp only [sigL, effL, dottedL, TableR.append, updE_append]
    exact ⟨by rw [h1.1, h2.1], by rw [h1.2, h2.2]⟩
end

end Jap.Validate

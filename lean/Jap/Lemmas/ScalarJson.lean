/-
C01 L2(b): a JSON string literal written by `json.dumps` (ensure_ascii as extracted) is read back unchanged by
the YAML loader's double-quoted scanner, for every string over the characters the YAML reader accepts except
the three non-ASCII line breaks NEL, LS, PS.
-/
import Jap.Core.Scalar

namespace Jap.Scalar

/-- characters for which the JSON → YAML string round trip is claimed: C0 controls (json.dumps always escapes
them) and the characters accepted by the YAML reader, except the non-ASCII line breaks U+0085, U+2028, U+2029
(json.dumps leaves them raw and the scanner folds around them) -/
def jsonSafe (c : Char) : Bool :=
  (decide (c.toNat < 32) || yamlPrintable c) && !(c.toNat = 133 || c.toNat = 8232 || c.toNat = 8233)

theorem ensure_ascii_false : Gen.DumpCfg.jsonEnsureAscii = false := by decide

theorem hexVal_hexDigit : ∀ k, k < 16 → hexVal (hexDigit k) = some k := by decide
theorem printable_hexDigit : ∀ k, k < 16 → yamlPrintable (hexDigit k) = true := by decide

theorem hex4_value (n : Nat) (h : n < 65536) :
    ((n / 4096 % 16 * 16 + n / 256 % 16) * 16 + n / 16 % 16) * 16 + n % 16 = n := by omega

/-- `\uXXXX` with the four digits `hex4 n` yields the character `n` -/
theorem dqGo_hex4 (n : Nat) (hn : n < 65536) (hv : validCode n = true) (out : List Char) (p : Pend) (c0 : Bool)
    (rest : List Char) :
    dqGo ⟨out, p, c0, .hex 4 0⟩ (hex4 n ++ rest) = dqGo ⟨out ++ [Char.ofNat n], p, c0, .none⟩ rest := by
  have h1 := hexVal_hexDigit (n / 4096 % 16) (Nat.mod_lt _ (by decide))
  have h2 := hexVal_hexDigit (n / 256 % 16) (Nat.mod_lt _ (by decide))
  have h3 := hexVal_hexDigit (n / 16 % 16) (Nat.mod_lt _ (by decide))
  have h4 := hexVal_hexDigit (n % 16) (Nat.mod_lt _ (by decide))
  have hval := hex4_value n hn
  simp only [hex4, List.cons_append, List.nil_append, dqGo, h1, h2, h3, h4]
  simp only [Nat.zero_mul, Nat.zero_add, hval, hv, if_true]
  simp

/-- one source character: its escape sequence is scanned back to itself; blanks stay pending -/
theorem char_step (c : Char) (hs : jsonSafe c = true) (out b rest : List Char) :
    ∃ out' b', dqGo ⟨out, .ws b, false, .none⟩ (jsonEscapeChar false c ++ rest)
        = dqGo ⟨out', .ws b', false, .none⟩ rest ∧ out' ++ b' = out ++ b ++ [c] := by
  simp only [jsonSafe, Bool.and_eq_true, Bool.not_eq_true', Bool.or_eq_false_iff, decide_eq_false_iff_not] at hs
  obtain ⟨hp, ⟨h133, h8232⟩, h8233⟩ := hs
  have hc : Char.ofNat c.toNat = c := Char.ofNat_toNat c
  unfold jsonEscapeChar
  by_cases h34 : c.toNat = 34
  · refine ⟨out ++ b ++ [c], [], ?_, by simp⟩
    rw [← hc, h34]; simp [dqGo, isBlank, isBreak, flush, simpleEscape]
  by_cases h92 : c.toNat = 92
  · refine ⟨out ++ b ++ [c], [], ?_, by simp⟩
    rw [← hc, h92]; simp [dqGo, isBlank, isBreak, flush, simpleEscape]
  by_cases h10 : c.toNat = 10
  · refine ⟨out ++ b ++ [c], [], ?_, by simp⟩
    rw [← hc, h10]; simp [dqGo, isBlank, isBreak, flush, simpleEscape]
  by_cases h13 : c.toNat = 13
  · refine ⟨out ++ b ++ [c], [], ?_, by simp⟩
    rw [← hc, h13]; simp [dqGo, isBlank, isBreak, flush, simpleEscape]
  by_cases h9 : c.toNat = 9
  · refine ⟨out ++ b ++ [c], [], ?_, by simp⟩
    rw [← hc, h9]; simp [dqGo, isBlank, isBreak, flush, simpleEscape]
  by_cases h8 : c.toNat = 8
  · refine ⟨out ++ b ++ [c], [], ?_, by simp⟩
    rw [← hc, h8]; simp [dqGo, isBlank, isBreak, flush, simpleEscape]
  by_cases h12 : c.toNat = 12
  · refine ⟨out ++ b ++ [c], [], ?_, by simp⟩
    rw [← hc, h12]; simp [dqGo, isBlank, isBreak, flush, simpleEscape]
  by_cases h32 : c.toNat < 32
  · refine ⟨out ++ b ++ [c], [], ?_, by simp⟩
    simp only [h34, h92, h10, h13, h9, h8, h12, h32, if_false, if_true]
    have hv : validCode c.toNat = true := by
      simp only [validCode, Bool.and_eq_true, Bool.not_eq_true', Nat.ble_eq]
      constructor
      · simp; omega
      · omega
    have := dqGo_hex4 c.toNat (by omega) hv (out ++ b) (.ws []) false rest
    simp only [List.cons_append, dqGo, Char.reduceToNat]
    simp [isBlank, isBreak, flush, this, hc]
  · simp only [h34, h92, h10, h13, h9, h8, h12, h32, if_false, Bool.false_and, Bool.false_eq_true]
    by_cases hsp : c.toNat = 32
    · refine ⟨out, b ++ [c], ?_, by simp⟩
      simp [dqGo, isBlank, hsp]
    · refine ⟨out ++ b ++ [c], [], ?_, by simp⟩
      simp [dqGo, isBlank, isBreak, flush, hsp, h9, h10, h13, h133, h8232, h8233, h34, h92]

/-- the escape sequence of a safe character consists of characters the reader accepts -/
theorem escape_printable (c : Char) (hs : jsonSafe c = true) :
    (jsonEscapeChar false c).all yamlPrintable = true := by
  simp only [jsonSafe, Bool.and_eq_true, Bool.or_eq_true, decide_eq_true_eq] at hs
  have hp := hs.1
  have hd1 := printable_hexDigit (c.toNat / 4096 % 16) (Nat.mod_lt _ (by decide))
  have hd2 := printable_hexDigit (c.toNat / 256 % 16) (Nat.mod_lt _ (by decide))
  have hd3 := printable_hexDigit (c.toNat / 16 % 16) (Nat.mod_lt _ (by decide))
  have hd4 := printable_hexDigit (c.toNat % 16) (Nat.mod_lt _ (by decide))
  have hb : yamlPrintable '\\' = true := by decide
  have hq : yamlPrintable '"' = true := by decide
  have hn : yamlPrintable 'n' = true := by decide
  have hr : yamlPrintable 'r' = true := by decide
  have ht : yamlPrintable 't' = true := by decide
  have hbb : yamlPrintable 'b' = true := by decide
  have hf : yamlPrintable 'f' = true := by decide
  have hu : yamlPrintable 'u' = true := by decide
  unfold jsonEscapeChar
  simp only [Bool.false_and, Bool.false_eq_true, if_false]
  repeat' split
  all_goals first
    | simp [hex4, hd1, hd2, hd3, hd4, hb, hq, hn, hr, ht, hbb, hf, hu]; done
    | (rcases hp with hp | hp
       · omega
       · simp [hp])

theorem escapeWith_printable (s : List Char) (hs : ∀ c ∈ s, jsonSafe c = true) :
    (jsonEscapeWith false s).all yamlPrintable = true := by
  induction s with
  | nil => rfl
  | cons c cs ih =>
    simp only [jsonEscapeWith, List.all_append, Bool.and_eq_true]
    exact ⟨escape_printable c (hs c List.mem_cons_self), ih (fun x hx => hs x (List.mem_cons_of_mem _ hx))⟩

theorem dqGo_escape (s : List Char) (hs : ∀ c ∈ s, jsonSafe c = true) :
    ∀ out b, dqGo ⟨out, .ws b, false, .none⟩ (jsonEscapeWith false s) = some (out ++ b ++ s) := by
  induction s with
  | nil => intro out b; simp [jsonEscapeWith, dqGo, flush]
  | cons c cs ih =>
    intro out b
    obtain ⟨out', b', h1, h2⟩ := char_step c (hs c List.mem_cons_self) out b (jsonEscapeWith false cs)
    simp only [jsonEscapeWith]
    rw [h1, ih (fun x hx => hs x (List.mem_cons_of_mem _ hx)), h2]
    simp

/-- the JSON → YAML string round trip on the safe alphabet -/
theorem json_string_rt (s : List Char) (hs : ∀ c ∈ s, jsonSafe c = true) : jsonStringRoundTrip s = some s := by
  unfold jsonStringRoundTrip jsonEscape yamlDqUnescape
  rw [ensure_ascii_false, escapeWith_printable s hs]
  simpa [dqStart] using dqGo_escape s hs [] []

end Jap.Scalar
